------------------------------- MODULE FramesMC -------------------------------
(* Bounded model for property C09 (Frames.tla):                                    *)
(*  - Start / Step enumerate every composable path of conversions of length        *)
(*    <= MaxLen from every frame; PathTheorems checks on each that the two-step     *)
(*    equations generate its canonical form (Reduce = Canon), that inverses are     *)
(*    involutive, and tolerances are the stated ones; every path of length >= 2     *)
(*    with a canonical form is exported as a PATH EQUATION  path == Canon(path);    *)
(*  - PickShift enumerates (longitude, shift) on the dyadic lattice; ShiftTheorems  *)
(*    checks the specification against the statement (stated interval, result =     *)
(*    input - shift mod 360) and that the implementation-shaped fold refines it     *)
(*    (ShiftRefines; FixedGE = FALSE is the pinned `> 360` comparison);             *)
(*  - PickCube enumerates Euler triples of quarter turns; CubeTheorems: the         *)
(*    implemented convention is a proper rotation of the cube, is inverted by       *)
(*    rotate(psi, -theta, phi), and by rotate(-psi, -theta, -phi) only when         *)
(*    phi = psi (mod 360) or theta = 0 (mod 180) (why both are accepted);           *)
(*  - PickAnchor enumerates the anchor facts derived from the documented constants. *)
EXTENDS Frames, Json

CONSTANTS MaxLen,      \* paths of length 1..MaxLen
          LonStep8,    \* shift lattice: longitudes 0, LonStep8, ... < 2880 (eighths of a degree)
          ShiftSet8,   \* |shift| values in eighths of a degree (both signs are tried)
          FixedGE,     \* TRUE: the repaired `>= 360` fold
          DoExport

VARIABLES kind, path, x, y
vars == <<kind, path, x, y>>

Init == kind = "start" /\ path = <<>> /\ x = 0 /\ y = 0

Start == kind = "start" /\ kind' = "path" /\ \E s \in Selectors : path' = <<s>> /\ UNCHANGED <<x, y>>
Step  == kind = "path" /\ Len(path) < MaxLen /\ UNCHANGED <<kind, x, y>>
         /\ \E s \in Selectors : SelSrc(s) = PathDst(path) /\ path' = path \o <<s>>

Lons8 == {k * LonStep8 : k \in 0..((Full - 1) \div LonStep8)}
\* y encodes the signed shift: y = 2*|s| + (1 if negative)
PickShift == kind = "start" /\ kind' = "shift" /\ UNCHANGED path
             /\ x' \in Lons8 /\ \E a \in ShiftSet8 : y' \in {2 * a, 2 * a + 1}
ShiftOf(v) == IF v % 2 = 1 THEN -(v \div 2) ELSE v \div 2

\* x encodes (phi, theta, psi) in quarter turns as phi*16 + theta*4 + psi
PickCube == kind = "start" /\ kind' = "cube" /\ UNCHANGED <<path, y>> /\ x' \in 0..63
CubePhi(v) == v \div 16
CubeTheta(v) == (v \div 4) % 4
CubePsi(v) == v % 4

\* x = selector, y = index into the (sorted) anchor set of that selector
AKey(a) == a.in.lon[1] + a.in.lat[1] * 7 + a.out.lon[1] * 13 + a.out.lat[1] * 3
PickAnchor == kind = "start" /\ kind' = "anchor" /\ UNCHANGED path
              /\ x' \in 1..6 /\ y' \in 1..Cardinality(Anchors(x'))

Next == Start \/ Step \/ PickShift \/ PickCube \/ PickAnchor
NextExport == Next
Spec == Init /\ [][Next]_vars

\* ---- theorems ------------------------------------------------------------------------------
PathTheorems == kind = "path" =>
    /\ ValidPath(path)
    /\ \A s \in Selectors : SelInverse(SelInverse(s)) = s /\ SelSrc(SelInverse(s)) = SelDst(s)
    /\ HasCanon(path) => Reduce(path) = Canon(path)
    /\ HasCanon(path) => EqnTol9(path) \in {1, 10000, 20000, 30000}
    /\ (Len(path) = 2 /\ path[2] = SelInverse(path[1])) => (Canon(path) = <<>> /\ EqnTol9(path) \in {1, 10000})

ShiftTheorems == kind = "shift" =>
    LET lon == x  s == ShiftOf(y) IN
    /\ InShiftRange(ShiftSpec(lon, s)) /\ SameMod360(ShiftSpec(lon, s), lon - s)
    /\ InWrapRange(WrapSpec(lon)) /\ SameMod360(WrapSpec(lon), lon)
    /\ \A v \in 0..(Full - 1) : (InShiftRange(v) /\ SameMod360(v, lon - s)) => v = ShiftSpec(lon, s)   \* unique
ShiftRefines == kind = "shift" => ShiftMech(x, ShiftOf(y), FixedGE) = ShiftSpec(x, ShiftOf(y))

CubePts == {<<1, 0, 0, 1>>, <<0, 1, 0, 1>>, <<0, 0, 1, 1>>, <<2, 3, 6, 7>>, <<-1, 2, 2, 3>>}
CubeTheorems == kind = "cube" =>
    LET f == CubePhi(x)  t == CubeTheta(x)  p == CubePsi(x)
        pts == [k \in 1..Cardinality(CubePts) |-> CHOOSE v \in CubePts : Cardinality({w \in CubePts : w[1] * 100 + w[2] * 10 + w[3] < v[1] * 100 + v[2] * 10 + v[3]}) = k - 1]
    IN /\ IsCubeRotation(pts, [k \in DOMAIN pts |-> CubeRotate(f, t, p, pts[k])])
       /\ \A v \in CubePts : CubeRotate(p, -t, f, CubeRotate(f, t, p, v)) = v
       /\ (f = p \/ t % 2 = 0) => \A v \in CubePts : CubeRotate(-p, -t, -f, CubeRotate(f, t, p, v)) = v
       /\ \A v, w \in CubePts : CosSep(CubeRotate(f, t, p, v), CubeRotate(f, t, p, w)) = CosSep(v, w)

AnchorSeq(s) == LET A == Anchors(s) IN
    [k \in 1..Cardinality(A) |-> CHOOSE a \in A : Cardinality({b \in A : AKey(b) < AKey(a)}) = k - 1]
AnchorTheorems == kind = "anchor" =>
    LET a == AnchorSeq(x)[y] IN
    /\ \A b, c \in Anchors(x) : AKey(b) = AKey(c) => b = c
    /\ a.in.lat[1] <= 90 * Mega /\ a.in.lat[1] >= -90 * Mega
    /\ a.out.lat[1] <= 90 * Mega /\ a.out.lat[1] >= -90 * Mega
    /\ [in |-> a.out, out |-> a.in, free |-> DIsPole(a.in)] \in Anchors(SelInverse(x))

\* ---- export ----------------------------------------------------------------------------------------
Export == DoExport =>
    /\ (kind = "path" /\ Len(path) >= 2 /\ HasCanon(path)) =>
          PrintT(<<"EQN", ToJson([path |-> path, rhs |-> Canon(path), tol9 |-> EqnTol9(path), kind |-> EqnKind(path)])>>)
    /\ kind = "shift" => PrintT(<<"SHIFT", ToJson([lon |-> x, s |-> ShiftOf(y), want |-> ShiftSpec(x, ShiftOf(y)),
                                                   wrap |-> WrapSpec(x)])>>)
    /\ kind = "cube" => PrintT(<<"CUBE", ToJson([phi |-> CubePhi(x), theta |-> CubeTheta(x), psi |-> CubePsi(x)])>>)
    /\ kind = "anchor" => PrintT(<<"ANCHOR", ToJson([sel |-> x, a |-> AnchorSeq(x)[y]])>>)
=============================================================================
