------------------------------- MODULE FramesMC -------------------------------
(* Bounded model for property C09 (Frames.tla):                                    *)
(*  - Start / Step enumerate every composable path of conversions of length        *)
(*    <= MaxLen from every frame; PathTheorems checks on each that the two-step     *)
(*    equations generate its canonical form (Reduce = Canon), that inverses are     *)
(*    involutive, and that the tolerances are the stated ones; every path of length *)
(*    >= 2 with a canonical form is exported as a PATH EQUATION path == Canon(path);*)
(*  - PickFrame enumerates the frames: PointTheorems checks that every input point  *)
(*    (great-circle lattice x eps, lon 0 and 360, both poles at several longitudes, *)
(*    the documented poles / nodes / SDSS centre and their eps-neighbourhoods, the  *)
(*    rational sphere) is a valid input of its frame; the points are exported;      *)
(*  - PickGC1 and PickRS1 enumerate the rows of pairs whose exact separation the     *)
(*    isometry clause is judged against; IsoTheorems: the expected value is         *)
(*    symmetric and unchanged by the longitude representation;                      *)
(*  - PickShift enumerates (longitude, shift, mode) on two dyadic lattices;         *)
(*    ShiftTheorems checks the specification against the statement (stated          *)
(*    interval, result = input - shift mod 360, uniqueness) and ShiftRefines that   *)
(*    the implementation-shaped fold refines it (FixedGE = FALSE is the pinned      *)
(*    `> 360` comparison);                                                          *)
(*  - PickCube enumerates Euler triples of quarter turns; CubeTheorems: both zxz    *)
(*    conventions are proper rotations of the cube and isometries, the implemented  *)
(*    one is inverted by candidate 1, the textbook one by candidate 2 of InvCands;  *)
(*  - PickAnchor enumerates the anchor facts derived from the documented constants; *)
(*    AnchorTheorems: they are closed under inversion and mutually consistent with  *)
(*    an isometry where the separation is plain arithmetic;                         *)
(*  - WorldStep enumerates SESSIONS of <= WorldLen steps in one process (rotate at  *)
(*    twin Euler triples with / without undoing, every conversion x epoch, randcap  *)
(*    as another entry point, the caller scribbling over results) through the memo  *)
(*    mechanism MemoKind; WorldFresh: every call works with the parameters it was   *)
(*    given, as in a fresh world ("exact" / "none" satisfy it, the coarse '%g' key   *)
(*    "g6" and the storage-sharing "alias" violate it); the sessions are exported.   *)
EXTENDS Frames, Json, SequencesExt

CONSTANTS MaxLen,      \* paths of length 1..MaxLen
          GCA,         \* integer degrees used as positions along each lattice circle
          BMax,        \* eps multiples -BMax..BMax at each position
          MerLons,     \* base longitudes (integer degrees) of the meridian circles
          PoleLons,    \* longitudes at which both poles are given
          EpsSet,      \* instantiations of eps: subset of 0..3 (1e-12, 1e-9, 1e-6, 1e-3 degree)
          MaxD,        \* rational sphere: denominators <= MaxD
          LonStep8,    \* shift lattice: longitudes 0, LonStep8, ... < 2880 (eighths of a degree)
          ShiftSet8,   \* |shift| values in eighths of a degree (both signs are tried)
          FixedGE,     \* TRUE: the repaired `>= 360` fold
          ScaleSizes,  \* lengths of the large arrays (at and across the block sizes 2^18, 2^19, 2^20)
          WorldLen,    \* sessions of 1..WorldLen steps in one process
          MemoKind,    \* mechanism of the world machine: "none" / "exact" refine the statement, "g6" / "alias" deviate
          WorldScr,    \* values of the Scribble flag in the exported sessions
          DoExport

VARIABLES kind, path, x, y, z
vars == <<kind, path, x, y, z>>

Init == kind = "start" /\ path = <<>> /\ x = 0 /\ y = 0 /\ z = 0

\* ---- paths ----------------------------------------------------------------------------------
Start == kind = "start" /\ kind' = "path" /\ \E s \in Selectors : path' = <<s>> /\ UNCHANGED <<x, y, z>>
Step  == kind = "path" /\ Len(path) < MaxLen /\ UNCHANGED <<kind, x, y, z>>
         /\ \E s \in Selectors : SelSrc(s) = PathDst(path) /\ path' = path \o <<s>>

\* ---- the bounded lattices ---------------------------------------------------------------------
Positions == {<<a, b>> : a \in GCA, b \in (-BMax)..BMax}
GCBase == {GEquatorPoint(t) : t \in Positions}
          \cup UNION {{GMeridianPoint(L, t) : t \in Positions} : L \in MerLons}
          \cup {GPt(EDeg(l), EDeg(s * 90)) : l \in PoleLons, s \in {-1, 1}}
\* "lon in {0, 360}": every point at longitude 0 is also given at longitude 360
GCSet == GCBase \cup {GPt(EDeg(360), p.lat) : p \in {q \in GCBase : q.lon = EZero}}
GKey(p) == (((p.lon[1] * 32) + (p.lon[2] + 16)) * 256 + (p.lat[1] + 90)) * 32 + (p.lat[2] + 16)
G  == SetToSortSeq(GCSet, LAMBDA p, q : GKey(p) < GKey(q))
NG == Len(G)

SKey(v) == ((v[4] * 64 + (v[1] + 32)) * 64 + (v[2] + 32)) * 64 + (v[3] + 32)
RS == RSphere(MaxD)
S  == SetToSortSeq(RS, LAMBDA u, v : SKey(u) < SKey(v))
NS == Len(S)

ASSUME /\ \A p \in GCSet : GValid(p)
       /\ \A p, q \in GCSet : GKey(p) = GKey(q) => p = q
       /\ BMax < 16 /\ MaxD < 32 /\ EpsSet \subseteq 0..3

\* ---- decimal input points per frame -----------------------------------------------------------
DP(lon, lat) == [lon |-> lon, lat |-> lat]
SphDec == {DP(EToD(p.lon, e), EToD(p.lat, e)) : p \in GCSet, e \in EpsSet}
\* the same directions as (eta, lambda) with eta in [-180, 180] (both ends for 180)
SdssLon(l) == IF DLt(DDeg(180), l) THEN DSub(l, DDeg(360)) ELSE l
SdssDec == {DP(SdssLon(p.lon), p.lat) : p \in SphDec}
           \cup {DP(DDeg(-180), p.lat) : p \in {q \in SphDec : q.lon = DDeg(180)}}
Offs == UNION {{DEps(e), DNeg(DEps(e))} : e \in EpsSet}
Around(p) == {p} \cup {DP(p.lon, DAdd(p.lat, d)) : d \in Offs} \cup {DP(DAdd(p.lon, d), p.lat) : d \in Offs}
\* documented special positions: poles, nodes and source poles of the galactic / ecliptic rotations
\* (the anchor inputs), the SDSS survey centre (185, 32.5) = (lambda, eta) (0, 0), and in survey
\* coordinates the images of the equatorial poles (eta = 57.5 and -122.5 on lambda = 0)
SpecialBase(fr) ==
    CASE fr = "eq"   -> {DP(a.in.lon, a.in.lat) : a \in Anchors(1) \cup Anchors(3)} \cup {DP(DDeg(185), DAng(32, 500000, 0))}
      [] fr = "gal"  -> {DP(a.in.lon, a.in.lat) : a \in Anchors(2) \cup Anchors(6)}
      [] fr = "ec"   -> {DP(a.in.lon, a.in.lat) : a \in Anchors(4) \cup Anchors(5)}
      [] fr = "sdss" -> {DP(DAng(57, 500000, 0), DDeg(0)), DP(DAng(-123, 500000, 0), DDeg(0)), DP(DDeg(0), DDeg(0))}
      [] fr \in {"xyz", "xyzs", "eqr"} -> {DP(a.in.lon, a.in.lat) : a \in Anchors(1)} \cup {DP(DDeg(95), DDeg(0)), DP(DDeg(275), DDeg(0))}
FrameDecRaw(fr) == (IF fr = "sdss" THEN SdssDec ELSE SphDec) \cup UNION {Around(p) : p \in SpecialBase(fr)}
FrameDec(fr) == {p \in FrameDecRaw(fr) : ValidIn(fr, PtD(p.lon, p.lat))}
DPLess(p, q) == \/ DLt(p.lon, q.lon) \/ (p.lon = q.lon /\ DLt(p.lat, q.lat))
FrameSeq(fr) == SetToSortSeq(FrameDec(fr), DPLess)
FrameOf(n) == CASE n = 1 -> "eq" [] n = 2 -> "gal" [] n = 3 -> "ec" [] n = 4 -> "sdss" [] n = 5 -> "xyz"
                [] n = 6 -> "eqr" [] n = 7 -> "xyzs"
NFrames == 7
PickFrame == kind = "start" /\ kind' = "frame" /\ UNCHANGED <<path, y, z>> /\ x' \in 1..NFrames

\* ---- options: x = index of the dtype, y = index of the input representation ---------------------------
DTypeSeq == <<"f8", "f4", "ld">>
RepSeq   == <<"array", "scalar", "n1", "npscalar", "list", "f4", "int", "swapped", "strided">>
PickOpt == kind = "start" /\ kind' = "opt" /\ UNCHANGED <<path, z>> /\ x' \in DOMAIN DTypeSeq /\ y' \in DOMAIN RepSeq

\* ---- isometry pairs -----------------------------------------------------------------------------
\* (one state per first point; the theorems quantify over the second point of the row.  TLC does not cache
\* G and S, so each evaluation binds them once with LET)
PickGC1 == kind = "start" /\ kind' = "gc1" /\ x' \in 1..NG /\ UNCHANGED <<path, y, z>>
PickRS1 == kind = "start" /\ kind' = "rs1" /\ x' \in 1..NS /\ UNCHANGED <<path, y, z>>

\* ---- shifts: z = 1: unit 1/8 degree, z = 2: unit 2^-20 degree; y = 2*|s| + (1 if negative) --------
Unit(u)  == IF u = 1 THEN 8 ELSE 1048576
FullOf(u) == 360 * Unit(u)
Lons8 == {k * LonStep8 : k \in 0..((FullOf(1) - 1) \div LonStep8)}
F2 == FullOf(2)
FineLons   == {0, 1, 2, 104857, F2 \div 4 + 3, F2 \div 2 - 1, F2 \div 2, F2 \div 2 + 1, 3 * (F2 \div 4) - 7, F2 - 2, F2 - 1}
FineShifts == {0, 1, 2, 104857, F2 \div 2 - 1, F2 \div 2, F2 \div 2 + 1, F2 - 1, F2, F2 + 1, 2 * F2 - 1, 2 * F2, 2 * F2 + 3}
LonsOf(u)   == IF u = 1 THEN Lons8 ELSE FineLons
ShiftsOf(u) == IF u = 1 THEN ShiftSet8 ELSE FineShifts
PickShift == kind = "start" /\ kind' = "shift" /\ UNCHANGED path
             /\ \E u \in {1, 2} : z' = u /\ x' \in LonsOf(u) /\ \E a \in ShiftsOf(u) : y' \in {2 * a, 2 * a + 1}
ShiftOf(v) == IF v % 2 = 1 THEN -(v \div 2) ELSE v \div 2

\* ---- cube: x encodes (phi, theta, psi) in quarter turns as phi*16 + theta*4 + psi -----------------
PickCube == kind = "start" /\ kind' = "cube" /\ UNCHANGED <<path, y, z>> /\ x' \in 0..63
CubePhi(v) == v \div 16
CubeTheta(v) == (v \div 4) % 4
CubePsi(v) == v % 4

\* ---- anchors: x = selector, y = index into the sorted anchor set of that selector ------------------
ALess(a, b) == \/ DPLess(a.in, b.in) \/ (a.in = b.in /\ DPLess(a.out, b.out))
AnchorSeq(s) == SetToSortSeq(Anchors(s), ALess)
PickAnchor == kind = "start" /\ kind' = "anchor" /\ UNCHANGED <<path, z>>
              /\ x' \in 1..6 /\ y' \in 1..Cardinality(Anchors(x'))

\* ---- scale law on a small scope: x = length of the point list, y = length of the tiled array, z = block size ----
PickScale == kind = "start" /\ kind' = "scale" /\ UNCHANGED path /\ x' \in 1..4 /\ y' \in 0..9 /\ z' \in 1..4
Tok(e) == <<"f", e>>
ScaleTheorems == kind = "scale" =>
    LET base == [i \in 1..x |-> i * 7]  big == TileSeq(base, y) IN
    /\ Len(big) = y
    /\ MapSeq(Tok, big) = TileSeq(MapSeq(Tok, base), y)                                    \* the law used for the large arrays
    /\ \A k \in 0..y : MapSeq(Tok, SubSeq(big, 1, k) \o SubSeq(big, k + 1, y)) = MapSeq(Tok, SubSeq(big, 1, k)) \o MapSeq(Tok, SubSeq(big, k + 1, y))
    /\ BlockMap(Tok, big, z) = MapSeq(Tok, big)                                            \* a block loop is the same map
    /\ \A n \in ScaleSizes : n > 1000 /\ n < 2000000

\* ---- world machine: sessions of calls in one process (kind = "world": path = the steps so far, x = the memo,
\*      y = the log of calls made, each with whether it worked with the parameters it was given) -------------------
\* Euler triples in units of 1e-7 degree: 41.2345 / 123.4567 / -77.25 degree and their twins in the 7th..9th digit
WBase == << <<0, 412345000, 0>>, <<1234567000, 412345000, -772500000>> >>
WTwins(t) == {[t EXCEPT ![c] = WTwin(t[c], n)] : c \in {k \in 1..3 : t[k] # 0}, n \in TwinDigits}
WTriples == UNION {{WBase[i]} \cup WTwins(WBase[i]) : i \in DOMAIN WBase}
RotCalls  == {[fn |-> "rotate", p |-> t] : t \in WTriples}
ConvCalls == {[fn |-> "conv", p |-> <<s, b>>] : s \in Selectors, b \in {0}} \cup {[fn |-> "conv", p |-> <<s, 1>>] : s \in {t \in Selectors : IsEuler(t)}}
\* the other entry point: caps centred at (200, 41.2345) and at its twin declination
RandCalls == {[fn |-> "randcap", p |-> <<2000000000, d>>] : d \in {WBase[1][2], WTwin(WBase[1][2], 7)}}
WorldSteps == {[c |-> c, undo |-> u, scr |-> s] : c \in RotCalls, u \in BOOLEAN, s \in BOOLEAN}
              \cup {[c |-> c, undo |-> FALSE, scr |-> s] : c \in ConvCalls \cup RandCalls, s \in BOOLEAN}
RECURSIVE RunCalls(_, _, _, _)
RunCalls(mk, memo, calls, scr) ==
    IF calls = <<>> THEN [memo |-> memo, log |-> <<>>]
    ELSE LET c == Head(calls)  r == RunCalls(mk, WorldPut(mk, memo, c, scr), Tail(calls), scr)
         IN [memo |-> r.memo, log |-> <<[c |-> c, ok |-> WorldOk(mk, memo, c)]>> \o r.log]
WorldStep == /\ kind \in {"start", "world"} /\ kind' = "world" /\ z' = 0
             /\ LET p == IF kind = "start" THEN <<>> ELSE path  m == IF kind = "start" THEN <<>> ELSE x
                    lg == IF kind = "start" THEN <<>> ELSE y
                IN /\ Len(p) < WorldLen
                   /\ \E st \in WorldSteps : LET r == RunCalls(MemoKind, m, StepCalls(st), st.scr)
                                             IN path' = p \o <<st>> /\ x' = r.memo /\ y' = lg \o r.log
\* every call of every session works with the parameters it was given (= its outcome in a fresh world)
WorldFresh == kind = "world" => \A k \in DOMAIN y : y[k].ok
WorldTheorems == kind = "world" =>
    /\ MemoKind \in MemoKinds
    /\ \A k \in DOMAIN path : path[k] \in WorldSteps
    /\ Len(path) = 1 =>
          \* in a fresh world every call works with what it was given, whatever the mechanism
          /\ \A mk \in MemoKinds : \A st \in WorldSteps : WorldOk(mk, <<>>, st.c)
          \* the twins differ from their base, agree with it to six digits, and are degree-scale 32-bit values
          /\ \A i \in DOMAIN WBase : \A t \in WTwins(WBase[i]) :
                 /\ t # WBase[i] /\ [k \in 1..3 |-> G6(t[k])] = [k \in 1..3 |-> G6(WBase[i][k])]
                 /\ \A k \in 1..3 : VAbs(t[k]) < 2000000000
          /\ Cardinality(WTriples) = 14
          /\ G6(412345400) = 412345000 /\ G6(-772500000) = -772500000 /\ WTwin(412345000, 7) = 412345400 /\ G6(1234567000) = 1234570000
    \* one log entry per call made
    /\ Len(y) >= Len(path) /\ Len(y) <= 3 * Len(path)

Next == WorldStep \/ Start \/ Step \/ PickFrame \/ PickOpt \/ PickScale \/ PickGC1 \/ PickRS1 \/ PickShift \/ PickCube \/ PickAnchor
NextExport == WorldStep \/ Start \/ Step \/ PickFrame \/ PickOpt \/ PickGC1 \/ PickRS1 \/ PickCube \/ PickAnchor
Spec == Init /\ [][Next]_vars

\* ---- theorems ------------------------------------------------------------------------------
PathTheorems == kind = "path" =>
    /\ ValidPath(path)
    /\ \A s \in Selectors : SelInverse(SelInverse(s)) = s /\ SelSrc(SelInverse(s)) = SelDst(s)
    \* among the frames in degrees the two-step equations generate all others; the equations through the radian
    \* frame (same point, other units => same vector) are independent of them
    /\ (HasCanon(path) /\ \A k \in DOMAIN path : SelUnits(path[k]) = "deg") => Reduce(path) = Canon(path)
    /\ HasCanon(path) => EqnTol9(path) \in {1, 2, 3, 4, 10000, 20000, 30000, 40000}
    /\ (Len(path) = 2 /\ path[2] = SelInverse(path[1])) => (Canon(path) = <<>> /\ EqnTol9(path) \in {1, 10000})
    /\ (HasCanon(path) /\ EqnTol9(path) < 10000) => \A k \in DOMAIN path : ~IsEuler(path[k])
    \* options: every conversion leaving one frame treats the type of its input alike; the float32 tolerance is
    \* the weaker one; float64 / longdouble requests and exact representations keep the stated tolerance
    /\ \A s, t \in Selectors : SelSrc(s) = SelSrc(t) => HasDType(s) = HasDType(t)
    /\ HasCanon(path) => \A dt \in DTypes, rp \in Reps :
          /\ EqnTol9x(path, dt, rp) >= EqnTol9(path)
          /\ (dt # "f4" /\ rp # "f4") => (EqnTol9x(path, dt, rp) = EqnTol9(path) /\ LatSlack9(EqnPrec(path, dt, rp)) = 0)
          /\ EqnTol9x(path, dt, rp) < 1073741824

OptTheorems == kind = "opt" =>
    /\ VRange(DTypeSeq) = DTypes /\ VRange(RepSeq) = Reps
    /\ AnchorTol9x(DTypeSeq[x]) >= AnchorTol9

PointTheorems == kind = "frame" =>
    LET fr == FrameOf(x) IN
    /\ \A p \in FrameDec(fr) : ValidIn(fr, PtD(p.lon, p.lat))
    /\ \A v \in RS : ValidIn(fr, PtR(v))
    /\ SpecialBase(fr) \subseteq FrameDecRaw(fr)
    \* lon 0 and lon 360 (eta -180 and 180), both poles
    /\ \E p \in FrameDec(fr) : p.lon = DDeg(IF fr = "sdss" THEN -180 ELSE 0)
    /\ \E p \in FrameDec(fr) : p.lon = DDeg(IF fr = "sdss" THEN 180 ELSE 360)
    /\ \E p \in FrameDec(fr) : p.lat = DDeg(90)
    /\ \E p \in FrameDec(fr) : p.lat = DDeg(-90)
    \* the SDSS node (95, 0) and the documented galactic pole are inputs of the equatorial frame
    /\ fr = "eq" => (DP(DDeg(95), DDeg(0)) \in FrameDec(fr) /\ DP(AlphaG, DeltaG) \in FrameDec(fr))

Wraps == {-1, 0, 1}
IsoTheorems ==
    /\ kind = "gc1" =>
          LET GG == G  p == GG[x] IN
          \A k \in x..Len(GG) : GDefined(p, GG[k]) =>
             LET q == GG[k] IN
             /\ GThmRange(p, q) /\ GThmSymmetric(p, q) /\ GThmZeroIffSame(p, q)
             /\ \A k1, k2 \in Wraps : GThmWrap(p, q, k1, k2)
    /\ kind = "rs1" =>
          LET SS == S  u == SS[x] IN
          \A k \in x..Len(SS) :
             LET v == SS[k] IN
             /\ SIsUnit(u) /\ SIsUnit(v) /\ SThmSymmetric(u, v) /\ SThmRange(u, v) /\ SThmOneIffSame(u, v)
             /\ SThmIsometry(u, v)

ShiftTheorems == kind = "shift" =>
    LET lon == x  s == ShiftOf(y)  F == FullOf(z) IN
    /\ 0 <= lon /\ lon < F
    /\ \A mode \in ShiftModes :
          LET w == ShiftExpect(mode, lon, s, F) IN
          /\ ShiftAccept(mode, lon, s, w, F)
          \* uniqueness where an interval is stated (except the doubly closed end of the wrap interval)
          /\ HasShift(mode) => (~ShiftInterval(mode, w - F, F) /\ ~ShiftInterval(mode, w + F, F))
          /\ mode = "wrap" => (~ShiftInterval(mode, w + F, F) /\ (ShiftInterval(mode, w - F, F) <=> lon = F \div 2))
ShiftRefines == kind = "shift" => ShiftMech(x, ShiftOf(y), FullOf(z), FixedGE) = ShiftSpec(x, ShiftOf(y), FullOf(z))

CubePtSet == {<<1, 0, 0, 1>>, <<0, 1, 0, 1>>, <<0, 0, 1, 1>>, <<2, 3, 6, 7>>, <<-1, 2, 2, 3>>}
CubePts == SetToSortSeq(CubePtSet, LAMBDA u, v : SKey(u) < SKey(v))
CubeTheorems == kind = "cube" =>
    LET f == CubePhi(x)  t == CubeTheta(x)  p == CubePsi(x)  ang == <<f, t, p>>
        c1 == ApplyCand(InvCands[1], ang)  c2 == ApplyCand(InvCands[2], ang)
    IN /\ IsCubeRotation(CubePts, [k \in DOMAIN CubePts |-> CubeRotate(f, t, p, CubePts[k])])
       /\ IsCubeRotation(CubePts, [k \in DOMAIN CubePts |-> CubeRotateStd(f, t, p, CubePts[k])])
       /\ \A v \in CubePtSet : CubeRotate(c1[1], c1[2], c1[3], CubeRotate(f, t, p, v)) = v
       /\ \A v \in CubePtSet : CubeRotateStd(c2[1], c2[2], c2[3], CubeRotateStd(f, t, p, v)) = v
       /\ \A v, w \in CubePtSet : CosSep(CubeRotate(f, t, p, v), CubeRotate(f, t, p, w)) = CosSep(v, w)
       \* a general-position point pins the rotation down: only one of the 24 maps it to its image
       /\ Cardinality({m \in Rot24 : SPApply(m, <<2, 3, 6, 7>>) = CubeRotate(f, t, p, <<2, 3, 6, 7>>)}) = 1

AnchorTheorems == kind = "anchor" =>
    LET a == AnchorSeq(x)[y] IN
    /\ Len(AnchorSeq(x)) = Cardinality(Anchors(x))
    /\ DWellFormed(a.in.lon) /\ DWellFormed(a.in.lat) /\ DWellFormed(a.out.lon) /\ DWellFormed(a.out.lat)
    /\ DLe(DDeg(-90), a.in.lat) /\ DLe(a.in.lat, DDeg(90)) /\ DLe(DDeg(-90), a.out.lat) /\ DLe(a.out.lat, DDeg(90))
    /\ DLe(DDeg(0), a.in.lon) /\ DLt(a.in.lon, DDeg(360)) /\ DLe(DDeg(0), a.out.lon) /\ DLt(a.out.lon, DDeg(360))
    /\ a.free <=> DIsPole(a.out)
    /\ [in |-> a.out, out |-> a.in, free |-> DIsPole(a.in)] \in Anchors(SelInverse(x))
    \* the facts of one conversion are consistent with an isometry wherever the separation is plain arithmetic
    /\ \A b \in Anchors(x) : (DSepDefined(a.in, b.in) /\ DSepDefined(a.out, b.out)) => DSep(a.in, b.in) = DSep(a.out, b.out)

\* ---- export ----------------------------------------------------------------------------------------
SelInfo(s) == [sel |-> s, name |-> SelName(s), src |-> SelSrc(s), dst |-> SelDst(s), euler |-> IsEuler(s),
               units |-> SelUnits(s), stomp |-> SelStomp(s), hasdtype |-> HasDType(s),
               isotol9 |-> IsoTol9(s), lonrange |-> IF HasLonRange(s) THEN <<LonLo(s), LonHi(s)>> ELSE <<>>]
GCRow(a) == LET GG == G
                js == SelectSeq([k \in 1..(Len(GG) - a + 1) |-> a + k - 1], LAMBDA b : GDefined(GG[a], GG[b]))
            IN [i |-> a, js |-> js, seps |-> [k \in 1..Len(js) |-> SepGC(GG[a], GG[js[k]])]]
RSRow(a) == LET SS == S IN [i |-> a, dots |-> [k \in 1..(Len(SS) - a + 1) |-> SDot(SS[a], SS[a + k - 1])]]
ShiftRow(u, lon) == LET ss == SetToSortSeq(UNION {{a, -a} : a \in ShiftsOf(u)}, LAMBDA a, b : a < b)
                    IN [u |-> Unit(u), lon |-> lon, s |-> ss,
                        want |-> [k \in DOMAIN ss |-> ShiftSpec(lon, ss[k], FullOf(u))], wrap |-> WrapSpec(lon, FullOf(u))]

Export == DoExport =>
    /\ kind = "start" =>
          /\ PrintT(<<"SEL", ToJson([sels |-> [s \in 1..17 |-> SelInfo(s)], rottol9 |-> RotTol9, anchortol9 |-> AnchorTol9,
                                     unittol52 |-> UnitTol52, invcands |-> InvCands, f4tol9 |-> F4Tol9,
                                     scalesizes |-> SetToSortSeq(ScaleSizes, LAMBDA a, b : a < b), scaletol9 |-> ScaleTol9,
                                     rottolx |-> [j \in DOMAIN RepSeq |-> RotTol9x(RepSeq[j])], reps |-> RepSeq, dtypes |-> DTypeSeq,
                                     xyztol |-> [i \in DOMAIN DTypeSeq |-> XyzTol9(DTypeSeq[i])]])>>)
          /\ PrintT(<<"GCPTS", ToJson([pts |-> G])>>) /\ PrintT(<<"RSPTS", ToJson([pts |-> S])>>)
          /\ \A u \in {1, 2} : \A lon \in LonsOf(u) : PrintT(<<"SHIFT", ToJson(ShiftRow(u, lon))>>)
    /\ (kind = "path" /\ Len(path) >= 2 /\ HasCanon(path)) =>
          PrintT(<<"EQN", ToJson([path |-> path, rhs |-> Canon(path), tol9 |-> EqnTol9(path), kind |-> EqnKind(path),
                                  frame |-> PathSrc(path),
                                  \* tolerance and latitude slack per (dtype, representation), in the order of DTypeSeq x RepSeq
                                  tolx |-> [i \in DOMAIN DTypeSeq |-> [j \in DOMAIN RepSeq |-> EqnTol9x(path, DTypeSeq[i], RepSeq[j])]],
                                  slack |-> [i \in DOMAIN DTypeSeq |-> [j \in DOMAIN RepSeq |->
                                                 LatSlack9(EqnPrec(path, DTypeSeq[i], RepSeq[j]))]]])>>)
    /\ kind = "opt" => PrintT(<<"OPT", ToJson([dt |-> DTypeSeq[x], rep |-> RepSeq[y], anchortol9 |-> AnchorTol9x(DTypeSeq[x])])>>)
    /\ kind = "frame" => PrintT(<<"PTS", ToJson([frame |-> FrameOf(x), pts |-> FrameSeq(FrameOf(x))])>>)
    /\ kind = "gc1" => PrintT(<<"GCROW", ToJson(GCRow(x))>>)
    /\ kind = "rs1" => PrintT(<<"RSROW", ToJson(RSRow(x))>>)
    /\ kind = "cube" => PrintT(<<"CUBE", ToJson([phi |-> CubePhi(x), theta |-> CubeTheta(x), psi |-> CubePsi(x)])>>)
    /\ (kind = "world" /\ \A k \in DOMAIN path : path[k].scr \in WorldScr) =>
          PrintT(<<"WORLD", ToJson([steps |-> path, tol9 |-> WorldTol9, rottol9 |-> RotTol9])>>)
    /\ kind = "anchor" => PrintT(<<"ANCHOR", ToJson([sel |-> x, a |-> AnchorSeq(x)[y]])>>)
=============================================================================
