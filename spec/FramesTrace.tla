------------------------------- MODULE FramesTrace -------------------------------
(* Trace validation for the coordinate conversions (property C09): every recorded  *)
(* evaluation of the real code (esutil.coords) is judged against Frames.tla.       *)
(* One ndjson line per record:  {"id": n, "c": <case>, "obs": [<observation>...]}  *)
(* Real-valued results are projected by the adapter (DESIGN 4.1/4.2): on-sky       *)
(* separations are measured with the validated longdouble chord kernel and         *)
(* recorded in units of 1e-9 degree, rounded UP (d9, capped at 2^30); the          *)
(* specification recomputes the canonical form and the tolerance of the equation   *)
(* from the path and compares.  Lattice separations are recorded as the lattice    *)
(* values within the exported tolerance of what came back; the specification       *)
(* recomputes SepGC / CosSep from the case and accepts only the exact value.       *)
(*                                                                                *)
(* kinds of case                                                                   *)
(*  eqn    [path, rhs, tol9, frame, b1950, dt, rep]   obs: one per input point      *)
(*         [k, p (PtD / PtR), err, fin, lx, el, eh, ul, d9]                         *)
(*         dt: the dtype= option given to every conversion that documents one;      *)
(*         rep: how the input arrays were represented (Frames.Reps);                *)
(*         fin: every intermediate and final output finite; lx: largest excess of   *)
(*         an output latitude over +-90 degrees (1e-9 degree, rounded up);          *)
(*         ul in ulp of the type asked for; el / eh: floor / ceiling of the smallest / *)
(*         largest eta returned by eq2sdss along both sides (0 when none);          *)
(*         ul: largest | |v| - 1 | of the unit vectors returned by eq2xyz in        *)
(*         units of 2^-52, rounded up; d9: separation of the two sides' endpoints   *)
(*  iso    [sel, tol9, p]  (great-circle lattice)  obs [k, q, err, fin, on, a, blo, bhi] *)
(*  isor   [sel, tol9, u]  (rational sphere)       obs [k, v, err, fin, on, dn, dd] *)
(*         on: the separation of the images is within tol9 of a lattice value       *)
(*  anchor [sel, a, tol9]                          obs [k, err, fin, lat, d9]       *)
(*  cube   [q (quarter turns), pts]                obs [k, err, fin, imgs]          *)
(*  rot    [cands, tol9]                           obs [k, err, fin, lat, ds]       *)
(*         ds[c]: separation of rotate(candidate c)(rotate(angles)(p)) from p       *)
(*  shift  [F, lon] (dyadic lattice, units of 360/F degree)                         *)
(*                                                obs [k, mode, s, err, isint, v]  *)
(*  shiftr [] (generic doubles)  obs [k, mode, err, fin, on, ge0, lt360, gem180, le180] *)
(*         on: result = input - shift + k*360 to rounding (4 ulp of the operands)   *)
(*  xyz    [u]                                     obs [k, err, fin, img, ul]       *)
(*  world  [steps, tol9, rottol9]  a session run in ONE fresh process               *)
(*                                                obs [k, err, fin, lx, dw, ds]    *)
EXTENDS Frames, Json, IOUtils

VARIABLES blk, tid
Traces == ndJsonDeserialize(IOEnv.TRACE_FILE)
NT == Len(Traces)
BlockSize == 64
NBlocks == (NT + BlockSize - 1) \div BlockSize

Init == blk = 0 /\ tid = 0
PickBlock == blk = 0 /\ tid = 0 /\ \E b \in 1..NBlocks : blk' = b /\ tid' = 0
PickTrace == blk > 0 /\ tid = 0
             /\ \E t \in ((blk - 1) * BlockSize + 1)..VMin2(blk * BlockSize, NT) : tid' = t /\ blk' = blk
Next == PickBlock \/ PickTrace

Fails(cond, name) == IF cond THEN {} ELSE {name}

\* ---- path equations ---------------------------------------------------------------------------
EqnWellFormed(c) == /\ ValidPath(c.path) /\ HasCanon(c.path) /\ Len(c.path) >= 2
                    /\ c.dt \in DTypes /\ c.rep \in Reps
                    /\ c.rhs = Canon(c.path) /\ c.tol9 = EqnTol9x(c.path, c.dt, c.rep) /\ c.frame = PathSrc(c.path)
EqnObs(c, o) ==
    IF ~ValidIn(c.frame, o.p) THEN {"malformed_case"}
    ELSE IF o.err # "none" THEN {"no_error"}
    ELSE IF ~o.fin THEN {"finite"}
    ELSE Fails(o.lx <= LatSlack9(EqnPrec(c.path, c.dt, c.rep)), "lat_range")
         \cup Fails((\E k \in DOMAIN c.path : HasLonRange(c.path[k])) => (LonLo(7) <= o.el /\ o.eh <= LonHi(7)), "lon_range")
         \cup Fails(o.ul <= UnitTol52, "unit_length")
         \cup Fails(o.d9 <= EqnTol9x(c.path, c.dt, c.rep), EqnKind(c.path))

\* ---- isometry -----------------------------------------------------------------------------------
IsoWellFormed(c) == c.sel \in 1..17 /\ c.tol9 = IsoTol9(c.sel)
                    /\ IF c.kind = "iso" THEN GValid(c.p) ELSE SIsUnit(c.u)
IsoObs(c, o) ==
    IF c.kind = "iso" /\ ~(GValid(o.q) /\ GDefined(c.p, o.q)) THEN {"malformed_case"}
    ELSE IF c.kind = "isor" /\ ~SIsUnit(o.v) THEN {"malformed_case"}
    ELSE IF o.err # "none" THEN {"no_error"}
    ELSE IF ~o.fin THEN {"finite"}
    ELSE Fails(/\ o.on
               /\ IF c.kind = "iso"
                  THEN LET s == SepGC(c.p, o.q) IN s[1] = o.a /\ o.blo <= s[2] /\ s[2] <= o.bhi
                  ELSE o.dd > 0 /\ REq(<<o.dn, o.dd>>, CosSep(c.u, o.v)), "isometry")

\* ---- anchors --------------------------------------------------------------------------------------
AnchorWellFormed(c) == c.sel \in 1..6 /\ c.a \in Anchors(c.sel) /\ c.dt \in DTypes /\ c.tol9 = AnchorTol9x(c.dt)
AnchorObs(c, o) ==
    IF o.err # "none" THEN {"no_error"}
    ELSE IF ~o.fin THEN {"finite"}
    ELSE Fails(o.lx <= LatSlack9(IF c.dt = "f4" THEN "f4" ELSE "f8"), "lat_range") \cup Fails(o.d9 <= AnchorTol9x(c.dt), "anchor")

\* ---- rotate -----------------------------------------------------------------------------------------
CubeWellFormed(c) == Len(c.q) = 3 /\ Len(c.pts) >= 1 /\ \A k \in DOMAIN c.pts : SIsUnit(c.pts[k])
CubeObs(c, o) ==
    IF o.err # "none" THEN {"no_error"}
    ELSE IF ~o.fin THEN {"finite"}
    ELSE Fails(IsCubeRotation(c.pts, o.imgs), "cube_rotation")
RotWellFormed(c) == c.cands = InvCands /\ c.rep \in Reps /\ c.tol9 = RotTol9x(c.rep)
RotObs(c, o) ==
    IF o.err # "none" THEN {"no_error"}
    ELSE IF ~o.fin THEN {"finite"}
    ELSE Fails(o.lx <= LatSlack9(IF c.rep = "f4" THEN "f4" ELSE "f8"), "lat_range")
         \cup Fails(Len(o.ds) = Len(InvCands) /\ \E k \in DOMAIN o.ds : o.ds[k] <= RotTol9x(c.rep), "rotate_inverse")

\* ---- shiftlon / shiftra ---------------------------------------------------------------------------
ShiftWellFormed(c) == c.kind = "shift" => (c.F > 0 /\ 0 <= c.lon /\ c.lon < c.F)
ShiftObs(c, o) ==
    IF o.mode \notin ShiftModes THEN {"malformed_case"}
    ELSE IF o.err # "none" THEN {"no_error"}
    ELSE IF c.kind = "shift"
    THEN IF ~o.isint THEN {"shift_congruent"}
         ELSE Fails(ShiftInterval(o.mode, o.v, c.F), "shift_interval")
              \cup Fails(ShiftCongruent(o.mode, c.lon, o.s, o.v, c.F), "shift_congruent")
    ELSE IF ~o.fin THEN {"finite"}
         ELSE Fails(o.on, "shift_congruent")
              \cup Fails(IF HasShift(o.mode) THEN o.ge0 /\ o.lt360
                         ELSE IF o.mode = "wrap" THEN o.gem180 /\ o.le180 ELSE TRUE, "shift_interval")

\* ---- eq2xyz on the rational sphere --------------------------------------------------------------------
\* units in {deg, rad} x dtype; the expected image is the point itself, at the resolution asked for
XyzWellFormed(c) == SIsUnit(c.u) /\ c.units \in {"deg", "rad"} /\ c.dt \in DTypes /\ c.tol9 = XyzTol9(c.dt)
XyzObs(c, o) ==
    IF o.err # "none" THEN {"no_error"}
    ELSE IF ~o.fin THEN {"finite"}
    ELSE Fails(o.img = c.u, "xyz_value") \cup Fails(o.ul <= UnitTol52, "unit_length")

\* ---- scale: a large array judged through the concatenation law -------------------------------------------
\* scale  [sel, n, m, mode]  the m-point list of a frame tiled to n points, one array call
\*        obs [k, err, len, fin, lx, el, eh, ul, d9, nbit, rng]
\*        d9: largest on-sky distance of an element from the result the same code gives for that point in the
\*        small call; nbit: number of elements not bit-identical to it (judged for shiftlon, where the arithmetic
\*        is exact; informational for the conversions); rng: every element in the stated shiftlon interval
ScaleWellFormed(c) == c.sel \in (1..17) \cup {0} /\ c.n >= c.m /\ c.m >= 1 /\ (c.sel = 0 => c.mode \in ShiftModes)
ScaleObs(c, o) ==
    IF o.err # "none" THEN {"no_error"}
    ELSE IF o.len # c.n THEN {"scale_length"}
    ELSE IF ~o.fin THEN {"finite"}
    ELSE IF c.sel = 0
    THEN Fails(o.nbit = 0, "scale_law") \cup Fails(o.rng, "shift_interval")
    ELSE Fails(o.lx <= 0, "lat_range")
         \cup Fails(HasLonRange(c.sel) => (LonLo(7) <= o.el /\ o.eh <= LonHi(7)), "lon_range")
         \cup Fails(o.ul <= UnitTol52, "unit_length")
         \cup Fails(o.d9 <= ScaleTol9, "scale_law")

\* ---- world: a session of calls run in ONE process, every call compared with the same call in a fresh process ----
\* world  [steps, tol9, rottol9]   obs: one per step [k, err, fin, lx, dw, ds]
\*        dw: largest on-sky distance (1e-9 degree, rounded up) of what a call of the step returned in the session
\*        from what the SAME call (same arguments) returns in a fresh process; ds[c]: largest distance from the
\*        step's input after undoing with candidate inverse c (<<>> when the step has no undo)
WorldWellFormed(c) ==
    /\ Len(c.steps) >= 1 /\ c.tol9 = WorldTol9 /\ c.rottol9 = RotTol9
    /\ \A k \in DOMAIN c.steps : LET st == c.steps[k] IN
          /\ st.c.fn \in {"rotate", "conv", "randcap"} /\ st.undo \in BOOLEAN /\ st.scr \in BOOLEAN
          /\ st.undo => st.c.fn = "rotate"
          /\ st.c.fn = "rotate" => Len(st.c.p) = 3
          /\ st.c.fn = "randcap" => Len(st.c.p) = 2
          /\ st.c.fn = "conv" => (Len(st.c.p) = 2 /\ st.c.p[1] \in Selectors /\ st.c.p[2] \in {0, 1} /\ (st.c.p[2] = 1 => IsEuler(st.c.p[1])))
WorldObs(c, o) ==
    IF o.k \notin DOMAIN c.steps THEN {"malformed_case"}
    ELSE IF o.err # "none" THEN {"no_error"}
    ELSE IF ~o.fin THEN {"finite"}
    ELSE Fails(o.lx <= 0, "lat_range")
         \cup Fails(o.dw <= WorldTol9, "world_independent")
         \cup Fails(c.steps[o.k].undo => (Len(o.ds) = Len(InvCands) /\ \E j \in DOMAIN o.ds : o.ds[j] <= RotTol9), "rotate_inverse")

\* ---- dispatch ---------------------------------------------------------------------------------------
WellFormed(c) ==
    CASE c.kind = "eqn" -> EqnWellFormed(c)
      [] c.kind \in {"iso", "isor"} -> IsoWellFormed(c)
      [] c.kind = "anchor" -> AnchorWellFormed(c)
      [] c.kind = "cube" -> CubeWellFormed(c)
      [] c.kind = "rot" -> RotWellFormed(c)
      [] c.kind \in {"shift", "shiftr"} -> ShiftWellFormed(c)
      [] c.kind = "xyz" -> XyzWellFormed(c)
      [] c.kind = "scale" -> ScaleWellFormed(c)
      [] c.kind = "world" -> WorldWellFormed(c)
      [] OTHER -> FALSE
FailingObs(c, o) ==
    CASE c.kind = "eqn" -> EqnObs(c, o)
      [] c.kind \in {"iso", "isor"} -> IsoObs(c, o)
      [] c.kind = "anchor" -> AnchorObs(c, o)
      [] c.kind = "cube" -> CubeObs(c, o)
      [] c.kind = "rot" -> RotObs(c, o)
      [] c.kind \in {"shift", "shiftr"} -> ShiftObs(c, o)
      [] c.kind = "xyz" -> XyzObs(c, o)
      [] c.kind = "scale" -> ScaleObs(c, o)
      [] c.kind = "world" -> WorldObs(c, o)

FailingRec(r) ==
    IF ~WellFormed(r.c) THEN {<<"malformed_case", 0>>}
    ELSE UNION {{<<cl, r.obs[n].k>> : cl \in FailingObs(r.c, r.obs[n])} : n \in DOMAIN r.obs}

Check == tid > 0 =>
    LET r == Traces[tid]  f == FailingRec(r)
    IN f = {} \/ PrintT(<<"REJECT", ToJson([id |-> r.id, failing |-> f])>>)
=============================================================================
