------------------------------- MODULE Hist -------------------------------
(* Property-level specification of esutil.stat.histogram / Binner.dohist          *)
(* (binsize and nbin modes) and an implementation-shaped model of the single      *)
(* pass both engines (C: chist_pywrap.c, Python: _dohist) perform.                *)
(*                                                                                *)
(* Data live on a dyadic lattice: every datum, limit and bin size is an integer   *)
(* number of lattice units.  The harness multiplies by a power of two (and adds a *)
(* lattice offset), so subtraction and the quotient's floor are exact in binary64 *)
(* whenever the real quotient is not an integer; see AllowedBins for the rest.    *)
(*                                                                                *)
(* A case is a record                                                             *)
(*   [x : Seq(Int), mode : {"binsize","nbin"}, b : Int (bin size | bin count),    *)
(*    hasmin, hasmax : BOOLEAN, min, max : Int]                                   *)
(* An observation is [err : STRING, hist : Seq(Nat), hasrev : BOOLEAN,            *)
(*                    rev : Seq(Nat)]  (rev holds 0-based indices, as returned)   *)
EXTENDS VU

N(c)  == Len(c.x)
Lo(c) == IF c.hasmin THEN c.min ELSE VSeqMin(c.x)
Hi(c) == IF c.hasmax THEN c.max ELSE VSeqMax(c.x)

InLimits(c, j) == Lo(c) <= c.x[j] /\ c.x[j] <= Hi(c)
Limited(c)     == {j \in 1..N(c) : InLimits(c, j)}

\* the documented rejection: explicit limits that exclude every datum
NoData(c) == Limited(c) = {}

NBin(c) == IF c.mode = "binsize" THEN ((Hi(c) - Lo(c)) \div c.b) + 1 ELSE c.b

\* nbin mode: binsize = (hi-lo)/nbin is exactly representable iff the odd part of
\* nbin divides (hi-lo) (lattice units are dyadic)
RECURSIVE OddPart(_)
OddPart(k) == IF k % 2 = 0 /\ k # 0 THEN OddPart(k \div 2) ELSE k
ExactBinsize(c) == c.mode = "binsize" \/ (Hi(c) - Lo(c)) % OddPart(c.b) = 0

\* nbin mode with hi = lo: binsize 0, the bin index is undefined - unconstrained
Degenerate(c) == c.mode = "nbin" /\ Hi(c) = Lo(c)

\* real-valued bin index as a rational
Ratio(c, j) == IF c.mode = "binsize" THEN RNorm(c.x[j] - Lo(c), c.b)
               ELSE RNorm((c.x[j] - Lo(c)) * c.b, Hi(c) - Lo(c))

\* Bins a datum may be assigned to; NBin(c) stands for "valid index exceeded".
\* Where the rounded bin size is inexact and the real quotient is an integer k,
\* binary64 may deliver k or just below it: both are allowed (DESIGN 4.3).
AllowedBins(c, j) ==
    LET r == Ratio(c, j)
        k == RFloor(r)
    IN IF RIsInt(r) /\ ~ExactBinsize(c) /\ k > 0 THEN {k - 1, k} ELSE {k}

Counted(c, j, k) == InLimits(c, j) /\ 0 <= k /\ k < NBin(c)

\* ---------------------------------------------------------------------------------
\* Property-level acceptance of an observed result.  Each clause is named so that a
\* rejected trace can say which clause failed.
Slice(o, i) ==                                \* members of bin i (0-based), as 1-based data positions
    LET a == o.rev[i + 1]  e == o.rev[i + 2]   \* rev[i], rev[i+1] in 0-based terms
    IN [k \in 1..(e - a) |-> o.rev[a + k] + 1]

PtrOK(c, o) ==
    /\ Len(o.rev) >= NBin(c) + 1
    /\ o.rev[1] = NBin(c) + 1
    /\ \A i \in 1..NBin(c) : o.rev[i] <= o.rev[i + 1]
    /\ o.rev[NBin(c) + 1] <= Len(o.rev)

SliceMembersOK(c, o) ==                         \* every listed index is a counted datum of that bin
    \A i \in 0..(NBin(c) - 1) : \A k \in DOMAIN Slice(o, i) :
        LET j == Slice(o, i)[k] IN j \in 1..N(c) /\ InLimits(c, j) /\ i \in AllowedBins(c, j)

SliceOrderOK(c, o) ==                           \* by value, ties in original order
    \A i \in 0..(NBin(c) - 1) : LET s == Slice(o, i) IN
        \A k \in 1..(Len(s) - 1) : LET p == s[k]  q == s[k + 1] IN
            (p \in 1..N(c) /\ q \in 1..N(c)) => (c.x[p] < c.x[q] \/ (c.x[p] = c.x[q] /\ p < q))

SliceLenOK(c, o) == \A i \in 0..(NBin(c) - 1) : Len(Slice(o, i)) = o.hist[i + 1]

\* every datum that must be counted appears in some slice
CompleteOK(c, o) ==
    \A j \in Limited(c) :
        (\A k \in AllowedBins(c, j) : Counted(c, j, k)) =>
            \E i \in 0..(NBin(c) - 1) : j \in VRange(Slice(o, i))

\* without reverse indices only the counts are visible
CountsOK(c, o) ==
    \A i \in 0..(NBin(c) - 1) :
        LET must == Cardinality({j \in Limited(c) : AllowedBins(c, j) = {i}})
            may  == Cardinality({j \in Limited(c) : i \in AllowedBins(c, j)})
        IN must <= o.hist[i + 1] /\ o.hist[i + 1] <= may

Failing(c, o) ==
    IF o.err # "none" THEN (IF NoData(c) \/ Degenerate(c) THEN {} ELSE {"unexpected_error"})
    ELSE IF NoData(c) THEN {"nodata_not_rejected"}
    ELSE IF Degenerate(c) THEN {}
    ELSE IF Len(o.hist) # NBin(c) THEN {"nbin"}
    ELSE (IF CountsOK(c, o) THEN {} ELSE {"counts"}) \cup
         (IF ~o.hasrev THEN {}
          ELSE IF ~PtrOK(c, o) THEN {"rev_pointers"}
          ELSE (IF SliceLenOK(c, o) THEN {} ELSE {"rev_slice_len_ne_hist"}) \cup
               (IF SliceMembersOK(c, o) THEN {} ELSE {"rev_slice_members"}) \cup
               (IF SliceOrderOK(c, o) THEN {} ELSE {"rev_slice_order"}) \cup
               (IF CompleteOK(c, o) THEN {} ELSE {"rev_incomplete"}))

Accept(c, o) == Failing(c, o) = {}

\* ---------------------------------------------------------------------------------
\* The reference outcome when nothing is ambiguous (used to export expected values
\* and to state theorems about the property-level spec itself).
Unambiguous(c) == ~NoData(c) /\ ~Degenerate(c) /\ \A j \in Limited(c) : Cardinality(AllowedBins(c, j)) = 1
BinOf(c, j)    == CHOOSE k \in AllowedBins(c, j) : TRUE
Members(c, i)  ==                               \* sorted by (value, index)
    LET S == {j \in Limited(c) : BinOf(c, j) = i}
        RECURSIVE go(_)
        go(T) == IF T = {} THEN <<>>
                 ELSE LET m == CHOOSE p \in T : \A q \in T \ {p} : c.x[p] < c.x[q] \/ (c.x[p] = c.x[q] /\ p < q)
                      IN <<m>> \o go(T \ {m})
    IN go(S)
RefHist(c) == [i \in 1..NBin(c) |-> Len(Members(c, i - 1))]

\* ---------------------------------------------------------------------------------
\* Implementation-shaped model of the pass (chist_pywrap.c / stat.util._dohist).
\*   s      : stably sorted, limit-filtered positions (1-based)
\*   rev    : array of size Len(s)+nbin+1, 0-based content, 1-based here
\*   FixedFill = TRUE models the repaired trailing fill (end of the counted data),
\*   FALSE the pinned code (end of the array).
SortedLimited(c) == LET a == VStableArgsort(c.x) IN SelectSeq(a, LAMBDA j : InLimits(c, j))

PassInit(c) == [i |-> 1, old |-> -1, last |-> NBin(c) + 1,
                hist |-> [k \in 1..NBin(c) |-> 0],
                rev  |-> [k \in 1..(Len(SortedLimited(c)) + NBin(c) + 1) |-> 0]]

\* one loop iteration: datum number st.i of the sorted list
PassStep(c, st) ==
    LET s      == SortedLimited(c)
        nb     == NBin(c)
        j      == s[st.i]
        offset == (st.i - 1) + nb + 1                       \* 0-based offset into rev
        rev1   == [st.rev EXCEPT ![offset + 1] = j - 1]
        bn     == BinOf(c, j)
    IN IF bn >= 0 /\ bn < nb
       THEN [i |-> st.i + 1, old |-> bn, last |-> offset + 1,
             hist |-> [st.hist EXCEPT ![bn + 1] = @ + 1],
             rev  |-> [k \in DOMAIN rev1 |-> IF k - 1 > st.old /\ k - 1 <= bn THEN offset ELSE rev1[k]]]
       ELSE [st EXCEPT !.i = @ + 1, !.rev = rev1]

PassFill(c, st, FixedFill) ==
    LET nb == NBin(c)
        endv == IF FixedFill THEN st.last ELSE Len(st.rev)
    IN [st EXCEPT !.rev = [k \in DOMAIN st.rev |-> IF k - 1 > st.old /\ k - 1 <= nb THEN endv ELSE st.rev[k]],
                  !.i = 0]

\* ---------------------------------------------------------------------------------
\* Object histories (added; nothing above is changed).  A Binner object is a state
\* machine: one data array, a sequence of calls on the SAME object.
\*   history  h  == [x : Seq(Int), hasw : BOOLEAN, calls : Seq(call), ...]
\*   call        == [op : {"dohist","calc_stats"}, mode : {"binsize","nbin","nperbin","none" (no bin specification)},
\*                   b, hasmin, min, hasmax, max, rev : BOOLEAN, cs : BOOLEAN]
\* The property quantifies over (data, bin specification, limits) only: what the object
\* holds after call k must be an allowed outcome of the LAST dohist call on the data,
\* whatever was called before (HOStepFailing).  calc_stats must leave hist/rev alone.
HOCase(h, cl) == [x |-> h.x, mode |-> cl.mode, b |-> cl.b,
                  hasmin |-> cl.hasmin, min |-> cl.min, hasmax |-> cl.hasmax, max |-> cl.max]

HOPtrOK(nb, o) ==
    /\ Len(o.rev) >= nb + 1
    /\ o.rev[1] = nb + 1
    /\ \A i \in 1..nb : o.rev[i] <= o.rev[i + 1]
    /\ o.rev[nb + 1] <= Len(o.rev)

\* equal-occupancy calls (nperbin) are steps of a history too; the statement fixes their
\* bins only through the partition clauses: every datum within the limits is counted once,
\* the slices hold original indices ordered by value (ties in original order), their
\* lengths are the counts.  (How many data go to which bin is property C14's business.)
HOPartFailing(c, o) ==
    IF o.err # "none" THEN (IF NoData(c) THEN {} ELSE {"unexpected_error"})
    ELSE IF NoData(c) THEN {"nodata_not_rejected"}
    ELSE LET nb == Len(o.hist) IN
         (IF VSum(o.hist) = Cardinality(Limited(c)) THEN {} ELSE {"counts"}) \cup
         (IF ~o.hasrev THEN {}
          ELSE IF ~HOPtrOK(nb, o) THEN {"rev_pointers"}
          ELSE LET all == [k \in 1..(o.rev[nb + 1] - o.rev[1]) |-> o.rev[o.rev[1] + k] + 1]
               IN (IF \A i \in 0..(nb - 1) : Len(Slice(o, i)) = o.hist[i + 1] THEN {} ELSE {"rev_slice_len_ne_hist"}) \cup
                  (IF \A k \in DOMAIN all : all[k] \in Limited(c) THEN {} ELSE {"rev_slice_members"}) \cup
                  (IF \A k \in 1..(Len(all) - 1) : LET p == all[k]  q == all[k + 1] IN
                         (p \in 1..N(c) /\ q \in 1..N(c)) => (c.x[p] < c.x[q] \/ (c.x[p] = c.x[q] /\ p < q))
                   THEN {} ELSE {"rev_slice_order"}) \cup
                  (IF Limited(c) \subseteq VRange(all) THEN {} ELSE {"rev_incomplete"}))

\* index of the last dohist call among calls[1..k]; 0 if none
RECURSIVE HOLastDo(_, _)
HOLastDo(h, k) == IF k = 0 THEN 0 ELSE IF h.calls[k].op = "dohist" THEN k ELSE HOLastDo(h, k - 1)

\* clauses violated by what the object shows (o) after call number k of history h
HOStepFailing(h, k, o) ==
    LET m == HOLastDo(h, k) IN
    IF m = 0 THEN {}                      \* calc_stats before any dohist: the statement is silent
    ELSE LET cl == h.calls[m]
             cc == HOCase(h, cl)
         IN IF cl.mode = "none" THEN {}       \* a dohist call without bin specification: the statement is silent
            ELSE IF cl.mode = "nperbin"
            THEN HOPartFailing(cc, o) \cup
                 (IF o.err = "none" /\ ~NoData(cc) /\ cl.rev /\ ~o.hasrev THEN {"rev_missing"} ELSE {})
            ELSE Failing(cc, o) \cup
                 (IF o.err = "none" /\ ~NoData(cc) /\ ~Degenerate(cc) /\ cl.rev /\ ~o.hasrev THEN {"rev_missing"} ELSE {})

\* ---------------------------------------------------------------------------------
\* World sessions (added; prefix HW).  The outcome of a call depends on its arguments AS
\* THEY ARE AT THE TIME OF THE CALL and on nothing else that happened in the process:
\* not on what an earlier call saw in the same data object (the caller may have changed a
\* writable base under a read-only view in between), not on calls on other objects or
\* through other entry points, not on what the caller did to results it was handed.
\*   session w == [objs : Seq(Seq(Int)) the data objects as first created, steps : Seq(step), ...]
\*   step      == [op : {"call", "mutate", "replace", "scribble"}, slot, x, mode, b, hasmin, min,
\*                 hasmax, max, rev, entry]
\*      call     : entry(objs[slot], bin specification, limits)      (x unused)
\*      mutate   : the caller overwrites the buffer behind object `slot` with x (same object)
\*      replace  : the caller drops object `slot` and creates a new one holding x
\*      scribble : the caller overwrites every array the previous call returned
\* contents of object s after the first k steps
RECURSIVE HWContents(_, _, _)
HWContents(w, s, k) ==
    IF k = 0 THEN w.objs[s]
    ELSE LET t == w.steps[k] IN
         IF t.op \in {"mutate", "replace"} /\ t.slot = s THEN t.x ELSE HWContents(w, s, k - 1)
HWCase(w, k) == LET t == w.steps[k] IN
    [x |-> HWContents(w, t.slot, k - 1), mode |-> t.mode, b |-> t.b,
     hasmin |-> t.hasmin, min |-> t.min, hasmax |-> t.hasmax, max |-> t.max]
\* clauses violated by what call number k of session w returned (o): those of a fresh world
HWStepFailing(w, k, o) ==
    IF w.steps[k].op # "call" THEN {}
    ELSE LET cc == HWCase(w, k) IN
         Failing(cc, o) \cup
         (IF o.err = "none" /\ ~NoData(cc) /\ ~Degenerate(cc) /\ w.steps[k].rev /\ ~o.hasrev THEN {"rev_missing"} ELSE {})

\* ---------------------------------------------------------------------------------
\* Scale (added).  The law that makes large inputs decidable from small ones: the
\* histogram of a concatenation is the sum of the histograms of the parts over the same
\* bins, and every reverse-index slice is the stable merge of the parts' slices (indices of
\* the second part shifted).  HistMC checks it on the small scope (ConcatLaw).  Hence the
\* result for data made of few distinct values, value k repeated mult[k] times in ANY
\* arrangement, is fixed by the one-datum-per-value case: bin i counts the multiplicities
\* of its values and its slice is, value after value in ascending order, the mult[k]
\* positions of that value in ascending order.
\*   scale case  sc == [vals : strictly ascending Seq(Int), mult : Seq(Nat \ {0}), arr : STRING,
\*                      mode, b, hasmin, min, hasmax, max]
\*   observation o  == [err, hist, hasrev, ptr : the first nbin+1 entries of rev, revlen : Len(rev),
\*                      runs : per bin the run-length encoding BY DATA VALUE of the slice
\*                             <<[v, len, asc : indices strictly ascending within the run]>>]
\* (an O(n) projection of the returned arrays made by the harness; every clause is judged here)
HSBase(sc) == [x |-> sc.vals, mode |-> sc.mode, b |-> sc.b,
               hasmin |-> sc.hasmin, min |-> sc.min, hasmax |-> sc.hasmax, max |-> sc.max]
HSRunnable(sc) == LET cd == HSBase(sc) IN ~NoData(cd) /\ ~Degenerate(cd) /\ Unambiguous(cd)
HSValsIn(sc, i) == LET cd == HSBase(sc) IN {k \in Limited(cd) : BinOf(cd, k) = i}       \* value numbers of bin i
HSExpectHist(sc) == [i \in 1..NBin(HSBase(sc)) |-> VSum([k \in 1..Len(sc.vals) |-> IF k \in HSValsIn(sc, i - 1) THEN sc.mult[k] ELSE 0])]
HSExpectRuns(sc, i) == LET ks == VSortSet(HSValsIn(sc, i))
                       IN [r \in 1..Len(ks) |-> [v |-> sc.vals[ks[r]], len |-> sc.mult[ks[r]]]]
HSFailing(sc, o) ==
    LET nb == NBin(HSBase(sc)) IN
    IF o.err # "none" THEN {"unexpected_error"}
    ELSE IF Len(o.hist) # nb THEN {"nbin"}
    ELSE (IF o.hist = HSExpectHist(sc) THEN {} ELSE {"counts"}) \cup
         (IF ~o.hasrev THEN {}
          ELSE IF ~(/\ Len(o.ptr) = nb + 1 /\ o.ptr[1] = nb + 1
                    /\ \A i \in 1..nb : o.ptr[i] <= o.ptr[i + 1]
                    /\ o.ptr[nb + 1] <= o.revlen /\ Len(o.runs) = nb) THEN {"rev_pointers"}
          ELSE (IF \A i \in 1..nb : o.ptr[i + 1] - o.ptr[i] = o.hist[i] THEN {} ELSE {"rev_slice_len_ne_hist"}) \cup
               (IF \A i \in 1..nb : [r \in DOMAIN o.runs[i] |-> [v |-> o.runs[i][r].v, len |-> o.runs[i][r].len]] = HSExpectRuns(sc, i - 1)
                THEN {} ELSE {"rev_slice_members"}) \cup
               (IF \A i \in 1..nb : \A r \in DOMAIN o.runs[i] : o.runs[i][r].asc THEN {} ELSE {"rev_slice_order"}))
=============================================================================
