------------------------------- MODULE Hist2d -------------------------------
(* Extension X02: property-level specification of esutil.stat.histogram2d and     *)
(* esutil.stat.boxcar_average, built on the 1-d material of Hist.tla (each axis   *)
(* of the 2-d histogram IS a 1-d case of Hist.tla), plus an implementation-       *)
(* shaped model of how histogram2d combines the two bin indices.                  *)
(*                                                                                *)
(* THE CONTRACT (documented behaviour; the docstring line each clause rests on).  *)
(* histogram2d (esutil/stat/util.py):                                             *)
(*  K1 "Histogram two-dimensional data" / "nx: Number of bins in the x            *)
(*     direction", "ny: Number of bins in the y direction": the result is an      *)
(*     nx-by-ny table of counts, x-bin = row, y-bin = column.                     *)
(*  K2 "xbin: binsize in the x direction", "ybin: binsize in the y direction":    *)
(*     with bin sizes the x-bin of a datum is floor((x-xmin)/xbin) (the rule of   *)
(*     histogram(), to which the docstring refers); the number of bins is not     *)
(*     documented: floor(range/xbin)+1 (histogram()'s rule) and ceil(range/xbin)  *)
(*     are both accepted.  With bin counts the bin size is range/nx.              *)
(*  K3 "xbin and ybin supercede nx= and ny=": both given = bin-size mode.         *)
(*  K4 "xmin/xmax/ymin/ymax: min|max range to use in the x|y direction": a datum  *)
(*     outside [xmin,xmax]x[ymin,ymax] is never counted; absent limits are the    *)
(*     extremes of the data.                                                      *)
(*  K5 (silent) a datum ON an upper limit whose bin index equals the number of    *)
(*     bins (bin-count mode: always): histogram() does not count it, the range    *)
(*     reading of K4 counts it in the last bin.  BOTH are accepted - but it is    *)
(*     never counted in any other cell.  Every other datum inside the limits is   *)
(*     counted exactly once, in the cell (x-bin, y-bin).                          *)
(*  K6 "rev: if True, return a tuple hist,rev where rev is the reverse indices    *)
(*     array.  See documentation for the histogram function": for every cell f    *)
(*     of the flattened (row-major) table, rev[rev[f]:rev[f+1]] are the indices   *)
(*     INTO THE ARGUMENTS x, y of exactly the data counted in that cell, and      *)
(*     their number is hist.ravel()[f].  (Order inside a slice: silent, free.)    *)
(*  K7 "more: If True, return a dictionary with the histogram in the 'hist' key,  *)
(*     as well as xlow,xhigh,xcenter and other bin information": the edges and    *)
(*     centres describe the cells the data were counted in: xlow[i] = xmin +      *)
(*     i*binsize, xhigh = xlow + binsize, xcenter = xlow + binsize/2 (to          *)
(*     rounding); the y keys, nx, ny, xbin, ybin, xmin... are judged when present.*)
(*  K8 "z: If sent more=True is implied and 'zmean' is in the output dictionary": *)
(*     zmean[cell] = mean of z over the data counted in the cell (empty cells:    *)
(*     silent, free).                                                             *)
(*  K9 (obvious intent, stated by the task) the marginals of the table agree with *)
(*     esutil.stat.histogram of one coordinate on the same limits and bins, up to *)
(*     the data K5 leaves free.                                                   *)
(*  Limits that exclude every datum, and bin-count mode with xmax = xmin (bin     *)
(*  size 0), are unconstrained.  weights= is undocumented and not covered.        *)
(* boxcar_average:                                                                *)
(*  B1 "convolve the data with a boxcar window of the specified length" (and the  *)
(*     name: average): output element i is (1/N) * the sum of N consecutive data  *)
(*     (zeros beyond the ends), consecutive outputs slide by one datum.  The      *)
(*     alignment of the window and the length of the output (any of numpy's       *)
(*     full/same/valid lengths or len(x)) are not documented: all are accepted.   *)
(*                                                                                *)
(* A 2-d case is a record                                                         *)
(*   [x, y, z : Seq(Int) (lattice units; z may be <<>>), mode : {"binsize",       *)
(*    "nbin","both"}, bx, by : Int (bin sizes), nx, ny : Int (bin counts),        *)
(*    hasxmin, hasxmax, hasymin, hasymax : BOOLEAN, xmin, xmax, ymin, ymax : Int] *)
(* An observation (one call) is                                                   *)
(*   [err : STRING, rev, more, hasz : BOOLEAN (the call's flags), form : {"array",*)
(*    "tuple","dict"}, shape : <<Nat, Nat>>, hist : Seq(Seq(Nat)) (rows),         *)
(*    hasrev : BOOLEAN, revarr : Seq(Nat) (0-based contents, as returned),        *)
(*    hasmore : BOOLEAN, keys : [xlow, xhigh, ... : Seq(<<flag, n>>)],            *)
(*    haszmean : BOOLEAN, zsum : Seq(Seq(<<flag, n>>))]                           *)
(* Observed reals are projected by the adapter: <<1, n>> = the lattice value n    *)
(* (units stated at each clause) to rounding, <<0, 0>> = off the lattice,         *)
(* <<2, 0>> = key absent.                                                         *)
EXTENDS Hist

\* ---- the two axes as 1-d cases of Hist.tla ---------------------------------------
HEff(c) == IF c.mode = "nbin" THEN "nbin" ELSE "binsize"                       \* K3

HAx(c, a) ==
    IF a = "x"
    THEN [x |-> c.x, mode |-> HEff(c), b |-> IF HEff(c) = "binsize" THEN c.bx ELSE c.nx,
          hasmin |-> c.hasxmin, min |-> c.xmin, hasmax |-> c.hasxmax, max |-> c.xmax]
    ELSE [x |-> c.y, mode |-> HEff(c), b |-> IF HEff(c) = "binsize" THEN c.by ELSE c.ny,
          hasmin |-> c.hasymin, min |-> c.ymin, hasmax |-> c.hasymax, max |-> c.ymax]

HN(c) == Len(c.x)
HInLim(c, j)   == InLimits(HAx(c, "x"), j) /\ InLimits(HAx(c, "y"), j)        \* K4
HLimited(c)    == {j \in 1..HN(c) : HInLim(c, j)}
HNoData(c)     == HLimited(c) = {}
HRange(a)      == Hi(a) - Lo(a)
HDegenerate(c) == HEff(c) = "nbin" /\ (HRange(HAx(c, "x")) = 0 \/ HRange(HAx(c, "y")) = 0)

\* numbers of bins an axis may have (K1, K2); only evaluated when some datum is inside
\* the limits, so the range is >= 0
HAllowedN(a) ==
    IF a.mode = "nbin" THEN {a.b}
    ELSE {HRange(a) \div a.b + 1} \cup
         (IF HRange(a) % a.b = 0 /\ HRange(a) > 0 THEN {HRange(a) \div a.b} ELSE {})

\* the number of bins by histogram()'s rule
HRefN(c, a) == IF HEff(c) = "nbin" THEN HAx(c, a).b ELSE HRange(HAx(c, a)) \div HAx(c, a).b + 1

\* Is the bin index of every lattice datum computed exactly by every sensible binary64
\* formula ((x-min)/binsize, (x-min)*(1/binsize), (x-min)*(n/range))?  Bin-size mode:
\* the bin size is a power of two.  Bin-count mode: range/n and n/range both dyadic.
HExact(a) ==
    IF a.mode = "binsize" THEN OddPart(a.b) = 1
    ELSE HRange(a) % OddPart(a.b) = 0 /\ a.b % OddPart(HRange(a)) = 0

\* bin indices the real quotient allows: where it is an integer k > 0 and the
\* arithmetic may be inexact, binary64 may deliver k or just below it (DESIGN 4.3)
HBase(a, j) ==
    LET r == Ratio(a, j)
        k == RFloor(r)
    IN IF RIsInt(r) /\ k > 0 /\ ~HExact(a) THEN {k - 1, k} ELSE {k}

\* outcomes on one axis for a datum inside the limits, top = number of bins:
\* a bin 0..top-1, or -1 = "not counted".  An index >= top only arises for a datum on
\* the upper limit (K5): not counted, or counted in the last bin.
HAxOut(a, j, top) ==
    LET B == HBase(a, j)
    IN {k \in B : k < top} \cup (IF \E k \in B : k >= top THEN {-1, top - 1} ELSE {})

\* outcomes for datum j in the flattened table (cell f = xbin*ny + ybin), -1 = not counted
HCellOut(c, j, nx, ny) ==
    IF ~HInLim(c, j) THEN {-1}
    ELSE LET X == HAxOut(HAx(c, "x"), j, nx)
             Y == HAxOut(HAx(c, "y"), j, ny)
         IN {i * ny + k : i \in X \ {-1}, k \in Y \ {-1}} \cup
            (IF -1 \in X \cup Y THEN {-1} ELSE {})

HCells(c, nx, ny) == [j \in 1..HN(c) |-> HCellOut(c, j, nx, ny)]

\* ---- observed table -----------------------------------------------------------------
HShapeOK(o) == /\ Len(o.shape) = 2 /\ Len(o.hist) = o.shape[1]
               /\ \A i \in DOMAIN o.hist : Len(o.hist[i]) = o.shape[2]
HFlat(o) == LET ny == o.shape[2]
            IN [f \in 1..(o.shape[1] * ny) |-> o.hist[(f - 1) \div ny + 1][((f - 1) % ny) + 1]]

\* the call's documented return form (rev / more / z)
HForm(o) == IF o.more \/ o.hasz THEN "dict" ELSE IF o.rev THEN "tuple" ELSE "array"

\* ---- counts (K4, K5) ----------------------------------------------------------------
HCountsOK(co, h) ==
    /\ \A f \in 0..(Len(h) - 1) :
          /\ Cardinality({j \in DOMAIN co : co[j] = {f}}) <= h[f + 1]
          /\ h[f + 1] <= Cardinality({j \in DOMAIN co : f \in co[j]})
    /\ VSum(h) <= Cardinality({j \in DOMAIN co : co[j] # {-1}})
    /\ VSum(h) >= Cardinality({j \in DOMAIN co : -1 \notin co[j]})

\* ---- reverse indices over the flattened cells (K6) -----------------------------------
\* Slice(o, f) of Hist.tla reads o.rev; the 2-d observation keeps the array in .revarr
HRevObs(o) == [rev |-> o.revarr]
HPtrOK(nc, o) ==
    /\ Len(o.revarr) >= nc + 1
    /\ o.revarr[1] = nc + 1
    /\ \A i \in 1..nc : o.revarr[i] <= o.revarr[i + 1]
    /\ o.revarr[nc + 1] <= Len(o.revarr)
HSlice(o, f) == Slice(HRevObs(o), f)

HRevMembersOK(co, nc, o) ==
    \A f \in 0..(nc - 1) : \A k \in DOMAIN HSlice(o, f) :
        LET j == HSlice(o, f)[k] IN j \in DOMAIN co /\ f \in co[j]
HRevLenOK(h, nc, o) == \A f \in 0..(nc - 1) : Len(HSlice(o, f)) = h[f + 1]
HRevNoDupOK(nc, o) ==
    \A f, g \in 0..(nc - 1) : \A k \in DOMAIN HSlice(o, f) : \A m \in DOMAIN HSlice(o, g) :
        (HSlice(o, f)[k] = HSlice(o, g)[m]) => (f = g /\ k = m)
HRevCompleteOK(co, nc, o) ==
    \A j \in DOMAIN co : (-1 \notin co[j]) => \E f \in 0..(nc - 1) : j \in VRange(HSlice(o, f))

\* ---- bin information (K7) --------------------------------------------------------------
\* Values are in units of 1/HDen of a lattice unit, relative to the lattice origin:
\* bin-size mode: halves (centres);  bin-count mode: 1/(2n) (edges are min + i*range/n).
HDen(a)   == IF a.mode = "binsize" THEN 2 ELSE 2 * a.b
HWidth(a) == IF a.mode = "binsize" THEN 2 * a.b ELSE 2 * HRange(a)             \* bin size * HDen
HLow(a, i)  == HDen(a) * Lo(a) + i * HWidth(a)
HSeqOK(s, n, F(_)) == Len(s) = n /\ \A i \in 1..n : s[i][1] = 1 /\ s[i][2] = F(i - 1)
HAbsent(s)  == Len(s) = 1 /\ s[1][1] = 2
HScalarOK(s, v) == Len(s) = 1 /\ s[1][1] = 1 /\ s[1][2] = v

HMoreFailing(c, o) ==
    LET ax == HAx(c, "x")  ay == HAx(c, "y")  nx == o.shape[1]  ny == o.shape[2]  k == o.keys
        Opt(s, ok) == HAbsent(s) \/ ok
    IN (IF HSeqOK(k.xlow, nx, LAMBDA i : HLow(ax, i)) THEN {} ELSE {"xlow"}) \cup
       (IF HSeqOK(k.xhigh, nx, LAMBDA i : HLow(ax, i) + HWidth(ax)) THEN {} ELSE {"xhigh"}) \cup
       (IF HSeqOK(k.xcenter, nx, LAMBDA i : HLow(ax, i) + HWidth(ax) \div 2) THEN {} ELSE {"xcenter"}) \cup
       (IF Opt(k.ylow, HSeqOK(k.ylow, ny, LAMBDA i : HLow(ay, i))) THEN {} ELSE {"ylow"}) \cup
       (IF Opt(k.yhigh, HSeqOK(k.yhigh, ny, LAMBDA i : HLow(ay, i) + HWidth(ay))) THEN {} ELSE {"yhigh"}) \cup
       (IF Opt(k.ycenter, HSeqOK(k.ycenter, ny, LAMBDA i : HLow(ay, i) + HWidth(ay) \div 2)) THEN {} ELSE {"ycenter"}) \cup
       (IF Opt(k.nx, HScalarOK(k.nx, nx)) /\ Opt(k.ny, HScalarOK(k.ny, ny)) THEN {} ELSE {"nx_ny"}) \cup
       (IF Opt(k.xbin, HScalarOK(k.xbin, HWidth(ax))) /\ Opt(k.ybin, HScalarOK(k.ybin, HWidth(ay))) THEN {} ELSE {"xbin_ybin"}) \cup
       (IF /\ Opt(k.xmin, HScalarOK(k.xmin, HDen(ax) * Lo(ax))) /\ Opt(k.xmax, HScalarOK(k.xmax, HDen(ax) * Hi(ax)))
           /\ Opt(k.ymin, HScalarOK(k.ymin, HDen(ay) * Lo(ay))) /\ Opt(k.ymax, HScalarOK(k.ymax, HDen(ay) * Hi(ay)))
        THEN {} ELSE {"min_max"})

\* ---- zmean (K8): zsum[cell] = zmean * count projected to an integer -----------------
HZSumOf(c, P) == VSumF(LAMBDA j : c.z[j], P)
HZmeanOK(c, co, h, o) ==
    /\ Len(o.zsum) = o.shape[1] /\ \A i \in DOMAIN o.zsum : Len(o.zsum[i]) = o.shape[2]
    /\ \A f \in 0..(Len(h) - 1) :
         LET zs   == o.zsum[f \div o.shape[2] + 1][(f % o.shape[2]) + 1]
             must == {j \in DOMAIN co : co[j] = {f}}
             may  == {j \in DOMAIN co : f \in co[j]}
             \* the members: the returned slice when there is one; else only a cell without
             \* free data (K5) is judged
             free == ~(o.hasrev /\ HPtrOK(Len(h), o)) /\ may # must
             P    == IF o.hasrev /\ HPtrOK(Len(h), o) THEN VRange(HSlice(o, f)) ELSE must
         IN (h[f + 1] > 0 /\ ~free) =>
              /\ zs[1] = 1
              /\ P \subseteq DOMAIN co
              /\ zs[2] = HZSumOf(c, P)

\* ---- structural class of a case, per kind of clause (goes into the signature; no values) ----
HClass(c, cl) ==
    LET ax == HAx(c, "x")  ay == HAx(c, "y")
        excl  == \E j \in 1..HN(c) : ~HInLim(c, j)
        yedge == HEff(c) = "nbin" /\ \E j \in HLimited(c) : c.y[j] = Hi(ay) /\ c.x[j] < Hi(ax)
        flat  == HRange(ax) = 0 \/ HRange(ay) = 0
    IN c.mode \o
       (IF excl /\ cl \in {"rev_slice_len_ne_hist", "rev_slice_members", "rev_duplicate", "rev_incomplete"}
        THEN ",data_outside_limits" ELSE "") \o
       (IF yedge THEN ",y_on_upper_limit" ELSE "") \o
       (IF flat /\ cl = "unexpected_error" THEN ",zero_range" ELSE "")

\* one clause per rejected call: the first failing one in this order (a wrong table makes most
\* later clauses fail too; naming all of them would multiply the signatures of one defect)
HOrder == <<"unexpected_error", "return_form", "shape", "nbins", "counts", "rev_missing", "rev_pointers",
            "rev_slice_len_ne_hist", "rev_slice_members", "rev_duplicate", "rev_incomplete",
            "more_keys_missing", "xlow", "xhigh", "xcenter", "ylow", "yhigh", "ycenter", "nx_ny", "xbin_ybin", "min_max",
            "zmean_missing", "zmean">>
HPrimary(S) == IF S = {} THEN {}
               ELSE IF \E i \in DOMAIN HOrder : HOrder[i] \in S
               THEN {HOrder[CHOOSE i \in DOMAIN HOrder : HOrder[i] \in S /\ \A k \in 1..(i - 1) : HOrder[k] \notin S]}
               ELSE S

\* ---- acceptance of one observed call ----------------------------------------------------
\* every datum inside the limits may go uncounted (K5): "no data" may then be raised, as
\* histogram() documents for limits that exclude everything
HMayBeEmpty(c) == \A j \in HLimited(c) : -1 \in HCellOut(c, j, HRefN(c, "x"), HRefN(c, "y"))

HFailing0(c, o) ==
    IF o.err # "none" THEN (IF HNoData(c) \/ HDegenerate(c) \/ HMayBeEmpty(c) THEN {} ELSE {"unexpected_error"})
    ELSE IF HNoData(c) \/ HDegenerate(c) THEN {}
    ELSE IF o.form # HForm(o) THEN {"return_form"}
    ELSE IF ~HShapeOK(o) THEN {"shape"}
    ELSE IF o.shape[1] \notin HAllowedN(HAx(c, "x")) \/ o.shape[2] \notin HAllowedN(HAx(c, "y")) THEN {"nbins"}
    ELSE LET nx == o.shape[1]  ny == o.shape[2]  nc == nx * ny
             co == HCells(c, nx, ny)
             h  == HFlat(o)
         IN (IF HCountsOK(co, h) THEN {} ELSE {"counts"}) \cup
            (IF o.rev /\ ~o.more /\ ~o.hasz /\ ~o.hasrev THEN {"rev_missing"} ELSE {}) \cup
            (IF ~o.hasrev THEN {}
             ELSE IF ~HPtrOK(nc, o) THEN {"rev_pointers"}
             ELSE (IF HRevLenOK(h, nc, o) THEN {} ELSE {"rev_slice_len_ne_hist"}) \cup
                  (IF HRevMembersOK(co, nc, o) THEN {} ELSE {"rev_slice_members"}) \cup
                  (IF HRevNoDupOK(nc, o) THEN {} ELSE {"rev_duplicate"}) \cup
                  (IF HRevCompleteOK(co, nc, o) THEN {} ELSE {"rev_incomplete"})) \cup
            (IF o.form = "dict" /\ ~o.hasmore THEN {"more_keys_missing"}
             ELSE IF o.hasmore THEN HMoreFailing(c, o) ELSE {}) \cup
            (IF o.hasz /\ ~o.haszmean THEN {"zmean_missing"}
             ELSE IF o.haszmean /\ ~HZmeanOK(c, co, h, o) THEN {"zmean"} ELSE {})

HFailing(c, o) == {cl \o "@" \o HClass(c, cl) : cl \in HPrimary(HFailing0(c, o))}
HAccept(c, o)  == HFailing0(c, o) = {}

\* ---- marginals against the 1-d histogram (K9) ---------------------------------------------
\* the 1-d case "this coordinate of the data inside the OTHER coordinate's limits, same
\* bins, the effective limits given explicitly"
HOther(a) == IF a = "x" THEN "y" ELSE "x"
HMargSel(c, a) == SelectSeq([j \in 1..HN(c) |-> j], LAMBDA j : InLimits(HAx(c, HOther(a)), j))
HMargCase(c, a) ==
    LET A == HAx(c, a)  D == HMargSel(c, a)
    IN [x |-> [k \in 1..Len(D) |-> A.x[D[k]]], mode |-> A.mode, b |-> A.b,
        hasmin |-> TRUE, min |-> Lo(A), hasmax |-> TRUE, max |-> Hi(A)]

\* o: an accepted 2-d observation, m = [c |-> 1-d case, o |-> 1-d observation of Hist.tla]
HMargSum(o, a, i) == IF a = "x" THEN VSum(o.hist[i + 1])
                     ELSE VSum([r \in 1..o.shape[1] |-> o.hist[r][i + 1]])
HMargFailing(c, o, a, m) ==
    IF o.err # "none" \/ HNoData(c) \/ HDegenerate(c) \/ ~HShapeOK(o) THEN {}
    ELSE IF m.c # HMargCase(c, a) THEN {"marginal_case_binding_" \o a}
    ELSE IF Failing(m.c, m.o) # {} \/ m.o.err # "none" THEN {"marginal_1d_rejected_" \o a}
    ELSE LET nx == o.shape[1]  ny == o.shape[2]
             co == HCells(c, nx, ny)
             na == IF a = "x" THEN nx ELSE ny
             Part(f) == IF a = "x" THEN f \div ny ELSE f % ny
             Amb(i) == Cardinality({j \in DOMAIN co : Cardinality(co[j]) > 1 /\ \E f \in co[j] \ {-1} : Part(f) = i})
             H1(i)  == IF i + 1 <= Len(m.o.hist) THEN m.o.hist[i + 1] ELSE 0
         IN IF \A i \in 0..(na - 1) : VAbs(HMargSum(o, a, i) - H1(i)) <= Amb(i)
            THEN {} ELSE {"marginal_" \o a \o "@" \o HClass(c, "marginal_" \o a)}

\* ---- reference outcomes (theorems about the spec itself; MC) -------------------------------
\* policy "drop": upper-limit data are not counted (histogram()'s rule); "clamp": last bin
HUnambiguous(c) ==
    /\ ~HNoData(c) /\ ~HDegenerate(c)
    /\ \A j \in HLimited(c) : \A a \in {"x", "y"} : Cardinality(HBase(HAx(c, a), j)) = 1
HRefCell(c, j, policy) ==
    LET s == HCellOut(c, j, HRefN(c, "x"), HRefN(c, "y"))
    IN IF Cardinality(s) = 1 THEN CHOOSE f \in s : TRUE
       ELSE IF policy = "drop" THEN -1 ELSE CHOOSE f \in s : f # -1
HRefMembers(c, f, policy) == {j \in 1..HN(c) : HRefCell(c, j, policy) = f}
HRefObs(c, policy) ==
    LET nx == HRefN(c, "x")  ny == HRefN(c, "y")  nc == nx * ny
        mem == [f \in 0..(nc - 1) |-> VSortSet(HRefMembers(c, f, policy))]
        RECURSIVE cat(_)
        cat(f) == IF f >= nc THEN <<>> ELSE mem[f] \o cat(f + 1)
        all == cat(0)
        RECURSIVE before(_)
        before(f) == IF f = 0 THEN 0 ELSE before(f - 1) + Len(mem[f - 1])
    IN [err |-> "none", rev |-> TRUE, more |-> FALSE, hasz |-> FALSE, form |-> "tuple",
        shape |-> <<nx, ny>>,
        hist |-> [i \in 1..nx |-> [k \in 1..ny |-> Len(mem[(i - 1) * ny + (k - 1)])]],
        hasrev |-> TRUE,
        revarr |-> [p \in 1..(nc + 1) |-> nc + 1 + before(p - 1)] \o [p \in 1..Len(all) |-> all[p] - 1],
        hasmore |-> FALSE, haszmean |-> FALSE]

\* ---- boxcar_average (B1) ---------------------------------------------------------------------
\* case [x : Seq(Int), n : Int (window)], observation [err, sums : Seq(<<flag, n>>)]:
\* element * N projected to an integer number of lattice units
BoxAt(x, t) == IF t >= 1 /\ t <= Len(x) THEN x[t] ELSE 0
\* entry t (0-based) of the full convolution times N: x[t-N+1 .. t] in 0-based terms
BoxFull(c, t) == VSum([k \in 1..c.n |-> BoxAt(c.x, t - (k - 1) + 1)])
BoxLens(c) == LET n == Len(c.x) IN
    {n, n + c.n - 1, VMax2(n, c.n), VMax2(n, c.n) - VMin2(n, c.n) + 1}
BoxFailing(c, o) ==
    IF c.n < 1 \/ Len(c.x) < 1 THEN {}
    ELSE IF o.err # "none" THEN {"unexpected_error"}
    ELSE IF Len(o.sums) \notin BoxLens(c) THEN {"length"}
    ELSE IF \E i \in DOMAIN o.sums : o.sums[i][1] # 1 THEN {"not_a_window_average"}
    ELSE IF \E s \in 0..(Len(c.x) + c.n - 1 - Len(o.sums)) :
               \A i \in 1..Len(o.sums) : o.sums[i][2] = BoxFull(c, s + i - 1)
         THEN {} ELSE {"window_sums"}
\* the code: numpy.convolve(x, ones(N)/N) (full) and then [N-1:]
BoxMech(c) == [err |-> "none", sums |-> [i \in 1..Len(c.x) |-> <<1, BoxFull(c, c.n - 1 + i - 1)>>]]
=============================================================================
