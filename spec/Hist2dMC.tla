------------------------------- MODULE Hist2dMC -------------------------------
(* Exhaustive small-scope model of two-dimensional histogramming (extension X02):  *)
(*  - ChooseData / ChooseSpec enumerate every case of the bounded space (exported  *)
(*    as JSON and replayed into the real code);                                    *)
(*  - MSelect / MIndex / MFlatten / MHist1d / MReturn follow histogram2d step by   *)
(*    step: limit selection, the two bin indices, their combination into ONE flat  *)
(*    index, the 1-d histogram of the flat index (the verified pass of Hist.tla)   *)
(*    and the reshaping / reverse-index / bin-information output;                  *)
(*  - MechRefines: the finished mechanism is accepted by the property-level spec   *)
(*    Hist2d.tla.  The three places where the code as found deviates are switches: *)
(*      FixedIndex = FALSE : bin index = floor((x-xmin) * nx/(xmax-xmin)) in BOTH  *)
(*                           modes (as found) instead of floor((x-xmin)/binsize);  *)
(*      FixedEdge  = FALSE : indices equal to nx / ny (data on an upper limit) go  *)
(*                           into the flat index unchecked (as found: a y index ny *)
(*                           WRAPS into the next x row) instead of being dropped;  *)
(*      FixedRev   = FALSE : reverse indices count positions in the limit-selected *)
(*                           subset (as found) instead of the caller's arrays;     *)
(*  - RefTheorems: theorems about the spec itself (both reference outcomes are     *)
(*    accepted; their marginals are the 1-d histograms of Hist.tla).               *)
(*  - ChooseBox / BoxRefines: boxcar_average (full convolution, slice [N-1:]).     *)
EXTENDS Hist2d, Json

CONSTANTS MaxLen,      \* data arrays of length 1..MaxLen
          Vals,        \* lattice values of both coordinates
          BinPairs,    \* bin-size mode: 10*xbin + ybin
          NbinPairs,   \* bin-count mode: 10*nx + ny
          BothPairs,   \* both given (bin sizes must win): 10*xbin + ybin, with nx=3, ny=2
          XMinSet, XMaxSet, YMinSet, YMaxSet,   \* explicit limits tried; 99 = absent
          FixedIndex, FixedEdge, FixedRev,
          BoxMaxLen, BoxVals, BoxShift, BoxWindows,   \* boxcar: values v - BoxShift, windows
          DoExport,    \* print every chosen case as JSON
          DoExportRef  \* print (case, finished mechanism observation) pairs (self-test probes)

VARIABLES phase, c, m
vars == <<phase, c, m>>

Absent == 99
NoCase == [x |-> <<>>]

Init == phase = "start" /\ c = NoCase /\ m = <<>>

RECURSIVE Pow2(_)
Pow2(k) == IF k = 0 THEN 1 ELSE 2 * Pow2(k - 1)

ChooseData ==
    /\ phase = "start"
    /\ \E n \in 1..MaxLen : \E x \in [1..n -> Vals] : \E y \in [1..n -> Vals] :
          c' = [x |-> x, y |-> y, z |-> [j \in 1..n |-> Pow2(j - 1)]]
    /\ phase' = "data" /\ UNCHANGED m

Specs == {<<"binsize", p \div 10, p % 10, 0, 0>> : p \in BinPairs} \cup
         {<<"nbin", 0, 0, p \div 10, p % 10>> : p \in NbinPairs} \cup
         {<<"both", p \div 10, p % 10, 3, 2>> : p \in BothPairs}

ChooseSpec ==
    /\ phase = "data"
    /\ \E s \in Specs : \E x0 \in XMinSet : \E x1 \in XMaxSet : \E y0 \in YMinSet : \E y1 \in YMaxSet :
          c' = [x |-> c.x, y |-> c.y, z |-> c.z, mode |-> s[1], bx |-> s[2], by |-> s[3], nx |-> s[4], ny |-> s[5],
                hasxmin |-> x0 # Absent, xmin |-> IF x0 = Absent THEN 0 ELSE x0,
                hasxmax |-> x1 # Absent, xmax |-> IF x1 = Absent THEN 0 ELSE x1,
                hasymin |-> y0 # Absent, ymin |-> IF y0 = Absent THEN 0 ELSE y0,
                hasymax |-> y1 # Absent, ymax |-> IF y1 = Absent THEN 0 ELSE y1]
    /\ phase' = "case" /\ UNCHANGED m

\* ---- the mechanism (esutil/stat/util.py, histogram2d) ---------------------------------
Runnable(cc) == HUnambiguous(cc)

\* lines 742-761: default limits, the selection w, the numbers of bins
MSelect ==
    /\ phase = "case" /\ Runnable(c)
    /\ m' = [w  |-> SelectSeq([j \in 1..HN(c) |-> j], LAMBDA j : HInLim(c, j)),
             nx |-> HRefN(c, "x"), ny |-> HRefN(c, "y")]
    /\ phase' = "selected" /\ UNCHANGED c

\* lines 763-764: the two bin indices of every selected datum
MIdx(a, j, n) ==
    IF FixedIndex \/ a.mode = "nbin" THEN RFloor(Ratio(a, j))
    ELSE RFloor(RNorm((a.x[j] - Lo(a)) * n, HRange(a)))          \* as found; range 0 handled in MIndex
MIndex ==
    /\ phase = "selected"
    /\ IF ~FixedIndex /\ (HRange(HAx(c, "x")) = 0 \/ HRange(HAx(c, "y")) = 0)
       THEN m' = [err |-> "ValueError"] /\ phase' = "done"      \* 0 * inf = nan: nothing is counted, histogram() raises
       ELSE /\ m' = [w |-> m.w, nx |-> m.nx, ny |-> m.ny,
                     xi |-> [p \in DOMAIN m.w |-> MIdx(HAx(c, "x"), m.w[p], m.nx)],
                     yi |-> [p \in DOMAIN m.w |-> MIdx(HAx(c, "y"), m.w[p], m.ny)]]
            /\ phase' = "indexed"
    /\ UNCHANGED c

\* line 768: ind = yind + ny*xind  (repaired: data whose index is not a bin are left out first)
MFlatten ==
    /\ phase = "indexed"
    /\ LET keep == IF FixedEdge
                   THEN SelectSeq([p \in DOMAIN m.w |-> p], LAMBDA p : m.xi[p] < m.nx /\ m.yi[p] < m.ny)
                   ELSE [p \in DOMAIN m.w |-> p]
       IN m' = [w |-> [q \in DOMAIN keep |-> m.w[keep[q]]], nx |-> m.nx, ny |-> m.ny,
                ind |-> [q \in DOMAIN keep |-> m.yi[keep[q]] + m.ny * m.xi[keep[q]]]]
    /\ phase' = "flat" /\ UNCHANGED c

\* lines 770-779: histogram(ind, min=0, max=nx*ny-1, rev=True) - the pass of Hist.tla
FlatCase(mm) == [x |-> mm.ind, mode |-> "binsize", b |-> 1, hasmin |-> TRUE, min |-> 0,
                 hasmax |-> TRUE, max |-> mm.nx * mm.ny - 1]
RECURSIVE RunPass(_, _)
RunPass(c1, st) == IF st.i > Len(SortedLimited(c1)) THEN PassFill(c1, st, TRUE)
                   ELSE RunPass(c1, PassStep(c1, st))
MHist1d ==
    /\ phase = "flat"
    /\ IF Len(m.ind) = 0 \/ NoData(FlatCase(m))
       THEN m' = [err |-> "ValueError"] /\ phase' = "done"
       ELSE LET st == RunPass(FlatCase(m), PassInit(FlatCase(m)))
            IN /\ m' = [w |-> m.w, nx |-> m.nx, ny |-> m.ny, hist |-> st.hist, rev |-> st.rev]
               /\ phase' = "counted"
    /\ UNCHANGED c

\* lines 781-840: reshape, reverse indices, bin information, zmean
MObs(mm) ==
    LET nx == mm.nx  ny == mm.ny  nc == nx * ny
        ax == HAx(c, "x")  ay == HAx(c, "y")
        members(f) == [k \in 1..(mm.rev[f + 2] - mm.rev[f + 1]) |-> mm.w[mm.rev[mm.rev[f + 1] + k] + 1]]
        One(v) == <<1, v>>
    IN [err |-> "none", rev |-> TRUE, more |-> TRUE, hasz |-> TRUE, form |-> "dict",
        shape |-> <<nx, ny>>,
        hist |-> [i \in 1..nx |-> [k \in 1..ny |-> mm.hist[(i - 1) * ny + k]]],
        hasrev |-> TRUE,
        revarr |-> [p \in DOMAIN mm.rev |-> IF p <= nc + 1 \/ ~FixedRev \/ p > mm.rev[nc + 1] THEN mm.rev[p]
                                          ELSE mm.w[mm.rev[p] + 1] - 1],
        hasmore |-> TRUE,
        keys |-> [xlow |-> [i \in 1..nx |-> One(HLow(ax, i - 1))],
                  xhigh |-> [i \in 1..nx |-> One(HLow(ax, i - 1) + HWidth(ax))],
                  xcenter |-> [i \in 1..nx |-> One(HLow(ax, i - 1) + HWidth(ax) \div 2)],
                  ylow |-> [i \in 1..ny |-> One(HLow(ay, i - 1))],
                  yhigh |-> [i \in 1..ny |-> One(HLow(ay, i - 1) + HWidth(ay))],
                  ycenter |-> [i \in 1..ny |-> One(HLow(ay, i - 1) + HWidth(ay) \div 2)],
                  nx |-> <<One(nx)>>, ny |-> <<One(ny)>>,
                  xbin |-> <<One(HWidth(ax))>>, ybin |-> <<One(HWidth(ay))>>,
                  xmin |-> <<One(HDen(ax) * Lo(ax))>>, xmax |-> <<One(HDen(ax) * Hi(ax))>>,
                  ymin |-> <<One(HDen(ay) * Lo(ay))>>, ymax |-> <<One(HDen(ay) * Hi(ay))>>],
        haszmean |-> TRUE,
        zsum |-> [i \in 1..nx |-> [k \in 1..ny |-> One(VSum([q \in DOMAIN members((i - 1) * ny + k - 1) |->
                                                              c.z[members((i - 1) * ny + k - 1)[q]]]))]]]

MReturn ==
    /\ phase = "counted"
    /\ m' = MObs(m) /\ phase' = "done" /\ UNCHANGED c

\* ---- boxcar_average --------------------------------------------------------------------
ChooseBox ==
    /\ phase = "start"
    /\ \E n \in 1..BoxMaxLen : \E x \in [1..n -> BoxVals] : \E w \in BoxWindows :
          c' = [x |-> [i \in 1..n |-> x[i] - BoxShift], n |-> w]
    /\ phase' = "box" /\ UNCHANGED m

Next == ChooseData \/ ChooseSpec \/ MSelect \/ MIndex \/ MFlatten \/ MHist1d \/ MReturn \/ ChooseBox

NextExport == ChooseData \/ ChooseSpec \/ ChooseBox        \* enumeration only (export run)

Spec == Init /\ [][Next]_vars

\* ---- properties ---------------------------------------------------------------------------
\* the mechanism refines the property
MechRefines == phase = "done" => HAccept(c, m)

\* the flat index never leaves the table once the edges are handled
FlatSafe == (phase = "flat" /\ FixedEdge) => \A q \in DOMAIN m.ind : m.ind[q] >= 0 /\ m.ind[q] < m.nx * m.ny

\* theorems about the property-level spec itself
Ref1d(mc) == [c |-> mc, o |-> [err |-> "none", hist |-> RefHist(mc), hasrev |-> FALSE, rev |-> <<>>]]
\* this coordinate of the data that are inside the other coordinate's limits AND in one of its bins
CountedMargCase(cc, a) ==
    LET A == HAx(cc, a)  O == HAx(cc, HOther(a))
        D == SelectSeq([j \in 1..HN(cc) |-> j],
                       LAMBDA j : InLimits(O, j) /\ \A k \in HBase(O, j) : k < HRefN(cc, HOther(a)))
    IN [x |-> [k \in 1..Len(D) |-> A.x[D[k]]], mode |-> A.mode, b |-> A.b,
        hasmin |-> TRUE, min |-> Lo(A), hasmax |-> TRUE, max |-> Hi(A)]
RefTheorems == (phase = "case" /\ Runnable(c)) =>
    /\ \A pol \in {"drop", "clamp"} :
          LET ro == HRefObs(c, pol) IN
          /\ HAccept(c, ro)
          /\ \A a \in {"x", "y"} : HMargFailing(c, ro, a, Ref1d(HMargCase(c, a))) = {}
    /\ LET rd == HRefObs(c, "drop") IN
       \A a \in {"x", "y"} :           \* drop policy = histogram()'s rule on both axes: exact marginals
          LET mc == CountedMargCase(c, a)
              rh == RefHist(mc)
          IN /\ NBin(mc) = HRefN(c, a)
             /\ \A i \in 0..(NBin(mc) - 1) : HMargSum(rd, a, i) = rh[i + 1]

BoxRefines == phase = "box" => BoxFailing(c, BoxMech(c)) = {}

\* ---- export ----------------------------------------------------------------------------------
Export == /\ (DoExport /\ phase = "case") => PrintT(<<"CASE", ToJson(c)>>)
          /\ (DoExport /\ phase = "box")  => PrintT(<<"BOX", ToJson(c)>>)
          /\ (DoExportRef /\ phase = "done") => PrintT(<<"REF", ToJson([c |-> c, o |-> m])>>)
=============================================================================
