------------------------------- MODULE Hist2dTrace -------------------------------
(* Trace validation for extension X02: every recorded call of the real code is     *)
(* judged by the property-level spec Hist2d.tla.  One ndjson line per record:       *)
(*   {"id": k, "kind": "h2d", "c": <2-d case>, "obs": [<observation>, ...],         *)
(*    "mx": {"c": <1-d case>, "o": <1-d observation of Hist.tla>}, "my": {...}}     *)
(*   {"id": k, "kind": "box", "c": <boxcar case>, "o": <observation>}               *)
(* The observations of one h2d record are calls with different flags / engines on   *)
(* the same arguments; mx / my are esutil.stat.histogram of one coordinate (K9).    *)
(* Rejected records are printed with the names of the failing clauses.              *)
EXTENDS Hist2d, Json, IOUtils

VARIABLES blk, tid
Traces == ndJsonDeserialize(IOEnv.TRACE_FILE)
NT == Len(Traces)
BlockSize == 256
NBlocks == (NT + BlockSize - 1) \div BlockSize

Init == blk = 0 /\ tid = 0
PickBlock == blk = 0 /\ tid = 0 /\ \E b \in 1..NBlocks : blk' = b /\ tid' = 0
PickTrace == blk > 0 /\ tid = 0
             /\ \E t \in ((blk - 1) * BlockSize + 1)..VMin2(blk * BlockSize, NT) : tid' = t /\ blk' = blk
Next == PickBlock \/ PickTrace

\* calls on the same arguments must show the same table
CallsAgree(r) ==
    \A k, n \in DOMAIN r.obs :
        (r.obs[k].err = "none" /\ r.obs[n].err = "none") =>
            r.obs[k].shape = r.obs[n].shape /\ r.obs[k].hist = r.obs[n].hist

\* the marginals are judged on the calls whose table is otherwise accepted
FailingRec(r) ==
    IF r.kind = "box" THEN {"boxcar_average|" \o cl : cl \in BoxFailing(r.c, r.o)}
    ELSE {"histogram2d|" \o cl : cl \in
            UNION {HFailing(r.c, r.obs[k]) : k \in DOMAIN r.obs} \cup
            (IF r.kind = "h2d0" THEN {}       \* record without 1-d marginals (self-test probes)
             ELSE UNION {IF HFailing(r.c, r.obs[k]) # {} THEN {}
                         ELSE HMargFailing(r.c, r.obs[k], "x", r.mx) \cup HMargFailing(r.c, r.obs[k], "y", r.my) : k \in DOMAIN r.obs}) \cup
            (IF CallsAgree(r) THEN {} ELSE {"calls_differ"})}

Check == tid > 0 =>
    LET r == Traces[tid]  f == FailingRec(r)
    IN f = {} \/ PrintT(<<"REJECT", ToJson([id |-> r.id, failing |-> f])>>)
=============================================================================
