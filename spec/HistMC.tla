------------------------------- MODULE HistMC -------------------------------
(* Exhaustive small-scope model of histogramming:                                 *)
(*  - ChooseData / ChooseSpec enumerate every case of the bounded space (these    *)
(*    states are exported as JSON and replayed into the real code); every case    *)
(*    carries the REPRESENTATION of the data argument (element type, byte order,  *)
(*    strided / reversed / record-field view, python sequence, 0-d ...), the      *)
(*    entry point and the kind of scalar used for binsize / min / max - a covering *)
(*    design (RepFan representations per case), none of them changes a value;     *)
(*  - Step / Fill run the implementation-shaped pass of Hist.tla on the case;     *)
(*  - MechRefines: the finished pass is accepted by the property-level spec;      *)
(*  - ObjNew / ObjCall: a Binner OBJECT as a state machine - histories of dohist  *)
(*    / calc_stats calls with different options on one object, with the cached    *)
(*    sort index as implementation state; ObjRefines: what the object holds after *)
(*    every call is accepted by the property-level spec of the last dohist call.  *)
EXTENDS Hist, Json

CONSTANTS MaxLen,      \* data arrays of length 1..MaxLen
          Vals,        \* over these lattice values
          BinSizes,    \* bin sizes (lattice units) for binsize mode
          NBinSet,     \* bin counts for nbin mode
          LimVals,     \* explicit min / max values tried (besides "absent")
          FixedFill,   \* TRUE: trailing fill ends at the counted data (repaired code)
          DoExport,    \* TRUE: print every chosen case as JSON
          RepFan,      \* representations tried per case (covering design)
          HLens,       \* object histories: lengths of the data array
          HVals,       \*   its lattice values
          HBinSizes, HNBins, HNPer,   \*   bin specifications of a dohist call
          HMins, HMaxs,               \*   explicit limits of a call (besides "absent")
          HDepth,      \*   calls per history
          HThin,       \*   the LAST call of a history is thinned 1 : HThin (covering design)
          HBothW,      \*   TRUE: every data array with and without weights; FALSE: by design
          FixedCache,  \* TRUE: the cached sort index is always the stable argsort; FALSE: a
                       \* deviating object that skips the sort for plain counts (self-test)
          FixedSel,    \* TRUE: the [min,max] selection is recomputed by every call; FALSE: a deviating
                       \* object that caches it and stores the new limits before an empty window raises
          ScaleNs,     \* scale cases: numbers of data (across and at the block boundaries of the engines)
          SmallNs,     \*   numbers of data small enough to expand: the scale law is CHECKED on them
          ScaleThin,   \*   scale cases are thinned 1 : ScaleThin (covering design)
          WLens, WVals,  \* world sessions: lengths / lattice values of the data objects
          WDepth,      \*   steps per session
          WThin,       \*   the LAST step of a session is thinned 1 : WThin (covering design)
          WXColl, WXRest,  \* export: sessions that contain a designed collision are thinned 1 : WXColl, the others 1 : WXRest
          WMemo,       \*   process-level memo of the sort index kept by histogram(): "none" | "content" (keyed by
                       \*   the data values: faithful) | "ro_id" (keyed by object identity, dropped when the
                       \*   object dies: deviating) | "id" (keyed by identity only: deviating)
          WShare       \*   TRUE: a deviating memo that hands out its own result arrays (self-test)

VARIABLES phase, c, st, ob
vars == <<phase, c, st, ob>>

Absent == 99
NoCase == [x |-> <<>>]
NoOb   == [x |-> <<>>]

Init == phase = "start" /\ c = NoCase /\ st = <<>> /\ ob = NoOb

\* ---- representations of the data argument -------------------------------------------------
\* names are mapped to concrete numpy / python objects by the adapter ("be" = non-native byte
\* order; recNN = field of a packed record array with itemsize NN; the last group only for n = 1)
RepSeq    == <<"f8", "f8be", "f4", "f4be", "i2", "i4", "i4be", "i8", "u1", "u4", "list", "intlist", "tuple",
               "strided2", "strided3", "reversed", "col2d", "rec12", "rec20", "rec12be", "reci4", "recf4",
               "readonly">>
ScalarSeq == <<"zerod", "pyfloat", "pyint", "npf8", "npi4">>
EntrySeq  == <<"histogram", "binner", "more", "weighted">>
SrepSeq   == <<"pyfloat", "pyint", "npf8", "npi8">>
RepsFor(n) == IF n = 1 THEN RepSeq \o ScalarSeq ELSE RepSeq

B2I(b) == IF b THEN 1 ELSE 0
RECURSIVE WSum(_, _), WLastCall(_, _)
WSum(x, i) == IF i > Len(x) THEN 0 ELSE x[i] * (2 * i - 1) + WSum(x, i + 1)
CaseHash(x, mode, b, mn, mx) ==
    WSum(x, 1) + 3 * b + (IF mode = "binsize" THEN 0 ELSE 11)
    + (IF mn = Absent THEN 0 ELSE 5 + 7 * mn) + (IF mx = Absent THEN 0 ELSE 13 + 5 * mx)

\* independent linear forms: every (representation, entry point, scalar kind) triple and every pair with mode /
\* limit pattern occurs (checked on the exported cases by the adapter)
EntryHash(x, mode, b, mn, mx) ==
    VSum(x) + 2 * b + (IF mode = "binsize" THEN 0 ELSE 1)
    + (IF mn = Absent THEN 0 ELSE 1 + mn) + (IF mx = Absent THEN 0 ELSE 2 + 3 * mx)
SrepHash(x, b, mn, mx) ==
    x[1] + Len(x) + b + (IF mn = Absent THEN 0 ELSE 3 + 2 * mn) + (IF mx = Absent THEN 0 ELSE 1 + mx)

\* ---- cases ---------------------------------------------------------------------------------
ChooseData ==
    /\ phase = "start"
    /\ \E n \in 1..MaxLen : \E x \in [1..n -> Vals] :
          c' = [x |-> x]
    /\ phase' = "data" /\ UNCHANGED <<st, ob>>

ChooseSpec ==
    /\ phase = "data"
    /\ \E m \in {<<"binsize", b>> : b \in BinSizes} \cup {<<"nbin", b>> : b \in NBinSet} :
       \E mn \in LimVals \cup {Absent} : \E mx \in LimVals \cup {Absent} : \E f \in 0..(RepFan - 1) :
          LET h  == CaseHash(c.x, m[1], m[2], mn, mx)
              rs == RepsFor(Len(c.x))
          IN c' = [x |-> c.x, mode |-> m[1], b |-> m[2],
                   hasmin |-> mn # Absent, min |-> IF mn = Absent THEN 0 ELSE mn,
                   hasmax |-> mx # Absent, max |-> IF mx = Absent THEN 0 ELSE mx,
                   rep   |-> rs[((h + 7 * f) % Len(rs)) + 1],
                   entry |-> EntrySeq[((EntryHash(c.x, m[1], m[2], mn, mx) + f) % Len(EntrySeq)) + 1],
                   srep  |-> SrepSeq[((SrepHash(c.x, m[2], mn, mx) + f) % Len(SrepSeq)) + 1]]
    /\ phase' = "case" /\ UNCHANGED <<st, ob>>

Runnable(cc) == ~NoData(cc) /\ ~Degenerate(cc) /\ Unambiguous(cc)

Begin ==
    /\ phase = "case" /\ Runnable(c)
    /\ st' = PassInit(c) /\ phase' = "pass" /\ UNCHANGED <<c, ob>>

Step ==
    /\ phase = "pass" /\ st.i <= Len(SortedLimited(c))
    /\ st' = PassStep(c, st) /\ UNCHANGED <<phase, c, ob>>

Fill ==
    /\ phase = "pass" /\ st.i > Len(SortedLimited(c))
    /\ st' = PassFill(c, st, FixedFill) /\ phase' = "done" /\ UNCHANGED <<c, ob>>

\* ---- the object as a state machine ------------------------------------------------------------
\* implementation state: cache = the sort index kept by the object (<<>> = not yet computed),
\* res = what the object holds (hist / rev) after the last call
NoRes   == [err |-> "noresult", hist |-> <<>>, hasrev |-> FALSE, rev |-> <<>>]
SkipRes == [err |-> "skip",     hist |-> <<>>, hasrev |-> FALSE, rev |-> <<>>]
ErrRes  == [err |-> "ValueError", hist |-> <<>>, hasrev |-> FALSE, rev |-> <<>>]

CalcStatsCall == [op |-> "calc_stats", mode |-> "none", b |-> 0, hasmin |-> FALSE, min |-> 0,
                  hasmax |-> FALSE, max |-> 0, rev |-> FALSE, cs |-> TRUE]

\* a call the object must reject (no bin specification at all), inside a history
BadCall(mn, mx) == [op |-> "dohist", mode |-> "none", b |-> 0,
                    hasmin |-> mn # Absent, min |-> IF mn = Absent THEN 0 ELSE mn,
                    hasmax |-> mx # Absent, max |-> IF mx = Absent THEN 0 ELSE mx, rev |-> FALSE, cs |-> TRUE]
BadCalls == {BadCall(Absent, Absent)} \cup {BadCall(mn, mx) : mn \in HMins, mx \in HMaxs}

HSpecs == {<<"binsize", b>> : b \in HBinSizes} \cup {<<"nbin", b>> : b \in HNBins} \cup {<<"nperbin", b>> : b \in HNPer}

\* the dohist calls tried at position k of a history on data x; the option calc_stats=
\* (cs) follows a covering design over (data, position, call)
DoCalls(x, k) ==
    {[op |-> "dohist", mode |-> m[1], b |-> m[2],
      hasmin |-> mn # Absent, min |-> IF mn = Absent THEN 0 ELSE mn,
      hasmax |-> mx # Absent, max |-> IF mx = Absent THEN 0 ELSE mx,
      rev |-> rv, cs |-> (WSum(x, 1) + k + m[2] + B2I(rv) + B2I(mn # Absent)) % 2 = 0]
       : m \in HSpecs, mn \in HMins \cup {Absent}, mx \in HMaxs \cup {Absent}, rv \in BOOLEAN}

CallHash(cl) == cl.b + (IF cl.mode = "binsize" THEN 0 ELSE IF cl.mode = "nbin" THEN 3 ELSE IF cl.mode = "nperbin" THEN 7
                        ELSE IF cl.op = "dohist" THEN 13 ELSE 17)
                + 2 * B2I(cl.rev) + 5 * B2I(cl.hasmin) + 11 * B2I(cl.hasmax)

ObjNew ==
    /\ phase = "start"
    /\ \E n \in HLens : \E x \in [1..n -> HVals] : \E hw \in BOOLEAN :
          /\ HBothW \/ hw = ((WSum(x, 1) + n) % 3 = 0)
          /\ LET rs == RepsFor(n)
                 h  == WSum(x, 1) + 5 * n + B2I(hw)
             IN ob' = [x |-> x, hasw |-> hw, rep |-> rs[(h % Len(rs)) + 1], wrep |-> RepSeq[((h \div 2) % Len(RepSeq)) + 1],
                       calls |-> <<>>, cache |-> <<>>, lim |-> <<>>, sel |-> <<>>, res |-> NoRes]
    /\ phase' = "obj" /\ UNCHANGED <<c, st>>

\* -- the pass over an explicitly given sorted index s (chist_pywrap.c / _dohist)
HPassInit(cc, s) == [i |-> 1, old |-> -1, last |-> NBin(cc) + 1,
                     hist |-> [k \in 1..NBin(cc) |-> 0],
                     rev  |-> [k \in 1..(Len(s) + NBin(cc) + 1) |-> 0]]
HPassStep(cc, s, t) ==
    LET nb     == NBin(cc)
        j      == s[t.i]
        offset == (t.i - 1) + nb + 1
        rev1   == [t.rev EXCEPT ![offset + 1] = j - 1]
        bn     == BinOf(cc, j)
    IN IF bn >= 0 /\ bn < nb
       THEN [i |-> t.i + 1, old |-> bn, last |-> offset + 1,
             hist |-> [t.hist EXCEPT ![bn + 1] = @ + 1],
             rev  |-> [k \in DOMAIN rev1 |-> IF k - 1 > t.old /\ k - 1 <= bn THEN offset ELSE rev1[k]]]
       ELSE [t EXCEPT !.i = @ + 1, !.rev = rev1]
RECURSIVE HPassLoop(_, _, _)
HPassLoop(cc, s, t) == IF t.i > Len(s) THEN t ELSE HPassLoop(cc, s, HPassStep(cc, s, t))
HPassRun(cc, s, dorev) ==
    LET f == PassFill(cc, HPassLoop(cc, s, HPassInit(cc, s)), TRUE)
    IN [err |-> "none", hist |-> f.hist, hasrev |-> dorev, rev |-> IF dorev THEN f.rev ELSE <<>>]

\* -- equal occupancy: nper consecutive members of the sorted, limited index per bin, a short
\*    last bin merged into its predecessor (mergelast default)
HByNum(w, nper) ==
    LET n     == Len(w)
        nb0   == ((n - 1) \div nper) + 1
        short == n - (nb0 - 1) * nper
        merge == short # nper /\ nb0 >= 2
        nb    == IF merge THEN nb0 - 1 ELSE nb0
    IN [err |-> "none", hasrev |-> TRUE,
        hist |-> [i \in 1..nb |-> IF i < nb THEN nper ELSE n - (nb - 1) * nper],
        rev  |-> [k \in 1..(nb + 1 + n) |-> IF k <= nb THEN nb + 1 + (k - 1) * nper
                                             ELSE IF k = nb + 1 THEN nb + 1 + n ELSE w[k - nb - 1] - 1]]

\* -- one call on the object (Binner.dohist / calc_stats).  A rejected call (empty window, no bin
\*    specification) is a stutter step on everything later calls read: sort index, selection.
HApply(o, cl) ==
    IF cl.op = "calc_stats" THEN [o EXCEPT !.calls = Append(@, cl)]          \* hist / rev untouched
    ELSE LET x      == o.x
             need   == cl.rev \/ cl.mode = "nperbin" \/ o.hasw
             srt    == FixedCache \/ need
             cache2 == IF o.cache # <<>> THEN o.cache
                       ELSE IF srt THEN VStableArgsort(x) ELSE [i \in 1..Len(x) |-> i]
             lo     == IF cl.hasmin THEN cl.min ELSE IF srt THEN x[cache2[1]] ELSE VSeqMin(x)
             hi     == IF cl.hasmax THEN cl.max ELSE IF srt THEN x[cache2[Len(x)]] ELSE VSeqMax(x)
             where  == cl.hasmin \/ cl.hasmax
             reuse  == ~FixedSel /\ where /\ o.lim = <<lo, hi>>
             w      == IF reuse THEN o.sel ELSE SelectSeq(cache2, LAMBDA j : lo <= x[j] /\ x[j] <= hi)
             lim2   == IF ~FixedSel /\ where THEN <<lo, hi>> ELSE o.lim       \* deviating: stored BEFORE the raise
             sel2   == IF ~FixedSel /\ where /\ w # <<>> THEN w ELSE o.sel
             cc     == [x |-> x, mode |-> cl.mode, b |-> cl.b, hasmin |-> TRUE, min |-> lo, hasmax |-> TRUE, max |-> hi]
             res    == IF w = <<>> THEN ErrRes
                       ELSE IF cl.mode = "none" THEN ErrRes
                       ELSE IF cl.mode = "nperbin" THEN HByNum(w, cl.b)
                       ELSE IF ~Runnable(cc) THEN SkipRes
                       ELSE HPassRun(cc, w, cl.rev \/ o.hasw)
         IN [o EXCEPT !.calls = Append(@, cl), !.cache = cache2, !.lim = lim2, !.sel = sel2, !.res = res]

\* covering design: only the LAST call of a history is thinned
ThinOK(o, cl) ==
    \/ Len(o.calls) + 1 < HDepth
    \/ (WSum(o.x, 1) + B2I(o.hasw) + 3 * CallHash(cl)
        + VSum([k \in 1..Len(o.calls) |-> (2 * k + 5) * CallHash(o.calls[k])])) % HThin = 0

ObjCall ==
    /\ phase = "obj" /\ Len(ob.calls) < HDepth
    /\ \E cl \in DoCalls(ob.x, Len(ob.calls) + 1) \cup {CalcStatsCall} \cup BadCalls :
          /\ ThinOK(ob, cl)
          /\ ob' = HApply(ob, cl)
    /\ UNCHANGED <<phase, c, st>>

\* enumeration only: the same histories without running the mechanism (export run)
ObjCallX ==
    /\ phase = "obj" /\ Len(ob.calls) < HDepth
    /\ \E cl \in DoCalls(ob.x, Len(ob.calls) + 1) \cup {CalcStatsCall} \cup BadCalls :
          /\ ThinOK(ob, cl)
          /\ ob' = [ob EXCEPT !.calls = Append(@, cl)]
    /\ UNCHANGED <<phase, c, st>>

\* ---- the process as a world machine ---------------------------------------------------------------
\* Two data objects alive in one process (the second starts as the reversal of the first: related inputs),
\* calls of the convenience function / fresh Binner objects on either, and caller steps: `mutate` (the caller
\* rewrites the buffer behind object 1 - a writable base under a read-only view, a second memmap -, the object
\* stays the same), `replace` (object 1 is dropped and a new one created, very likely at the same address) and
\* `scribble` (the caller overwrites the arrays the previous call returned).  Implementation state of the
\* process (kept in `ob`): memo = per object the remembered sort index (with the values it was computed from),
\* keep = the result arrays the previous call returned together with its arguments.
\* The kind of object (read-only view, broadcast, memmap, buffer, writable, list ...) and the entry point of
\* each call are carried as names for the adapter (covering design); no value depends on them.
WKindSeq == <<"roview", "bcast", "memmap", "robuf", "rostrided", "writable", "list", "rofield">>
WSpecSeq == <<<<"binsize", 1>>, <<"nbin", 2>>, <<"binsize", 2>>, <<"nbin", 3>>>>
WLimSeq  == <<<<Absent, Absent>>, <<2, Absent>>, <<Absent, 3>>, <<2, 3>>>>
NoMemo == [s |-> <<>>, x |-> <<>>]
NoKeep == [slot |-> 0, x |-> <<>>, key |-> <<>>, val |-> NoRes]

WRevSeq(x) == [i \in 1..Len(x) |-> x[Len(x) + 1 - i]]
WRot(x)    == [i \in 1..Len(x) |-> x[(i % Len(x)) + 1]]
WConst(x)  == [i \in 1..Len(x) |-> x[Len(x)]]
WMuts(x)   == {WRevSeq(x), WRot(x), WConst(x)}

WNoStep == [op |-> "scribble", slot |-> 0, x |-> <<>>, mode |-> "none", b |-> 0, hasmin |-> FALSE, min |-> 0,
            hasmax |-> FALSE, max |-> 0, rev |-> FALSE, entry |-> "none"]
\* the calls tried at position k: a covering design over (data, position, slot) picks 4 of the 16 (bin specification,
\* limits) pairs; entry point and rev= follow independent linear forms
WCalls(wd, k) ==
    {LET l == CHOOSE q \in 1..4 : (q + m + k + s + WSum(wd.objs[1], 1)) % 4 = 0 IN
     [WNoStep EXCEPT !.op = "call", !.slot = s, !.mode = WSpecSeq[m][1], !.b = WSpecSeq[m][2],
        !.hasmin = WLimSeq[l][1] # Absent, !.min = IF WLimSeq[l][1] = Absent THEN 0 ELSE WLimSeq[l][1],
        !.hasmax = WLimSeq[l][2] # Absent, !.max = IF WLimSeq[l][2] = Absent THEN 0 ELSE WLimSeq[l][2],
        !.rev = (m + k) % 3 # 0,
        !.entry = EntrySeq[((WSum(wd.objs[1], 1) + m + 2 * l + k) % Len(EntrySeq)) + 1]]
       : s \in 1..2, m \in 1..4}
\* ... and calls DESIGNED to collide: the last call once more, and the last call on the other object
WLastCall(wd, k) == IF k = 0 THEN {} ELSE IF wd.steps[k].op = "call" THEN {wd.steps[k]} ELSE WLastCall(wd, k - 1)
WRepeats(wd) == UNION {{t, [t EXCEPT !.slot = 3 - t.slot]} : t \in WLastCall(wd, Len(wd.steps))}
WCallerSteps(wd) ==
    {[WNoStep EXCEPT !.op = "mutate", !.slot = 1, !.x = y] : y \in WMuts(wd.cur[1])} \cup
    {[WNoStep EXCEPT !.op = "replace", !.slot = 1, !.x = y] : y \in WMuts(wd.cur[1])} \cup
    (IF Len(wd.steps) > 0 /\ wd.steps[Len(wd.steps)].op = "call" THEN {WNoStep} ELSE {})
WStepHash(t) == t.slot + 3 * t.b + (IF t.mode = "nbin" THEN 7 ELSE 0) + 5 * B2I(t.hasmin) + 11 * B2I(t.hasmax)
                + (IF t.op = "call" THEN 0 ELSE IF t.op = "mutate" THEN 13 ELSE IF t.op = "replace" THEN 17 ELSE 19)
                + (IF t.x = <<>> THEN 0 ELSE WSum(t.x, 1))
WThinOK(wd, t) ==
    \/ Len(wd.steps) + 1 < WDepth
    \/ (WSum(wd.objs[1], 1) + 3 * WStepHash(t)
        + VSum([k \in 1..Len(wd.steps) |-> (2 * k + 5) * WStepHash(wd.steps[k])])) % WThin = 0

WNew ==
    /\ phase = "start"
    /\ \E n \in WLens : \E x \in [1..n -> WVals] :
          LET h == WSum(x, 1) + n IN
          ob' = [objs |-> <<x, WRevSeq(x)>>, cur |-> <<x, WRevSeq(x)>>,
                 kinds |-> <<WKindSeq[(h % Len(WKindSeq)) + 1], WKindSeq[((h \div 3) % Len(WKindSeq)) + 1]>>,
                 memo |-> <<NoMemo, NoMemo>>, keep |-> NoKeep, steps |-> <<>>, res |-> NoRes]
    /\ phase' = "world" /\ UNCHANGED <<c, st>>

\* the pass of one call over a given sort index s of the data x (s is stale if a deviating memo supplied it)
WRun(x, s, t) ==
    LET lo == IF t.hasmin THEN t.min ELSE x[s[1]]
        hi == IF t.hasmax THEN t.max ELSE x[s[Len(x)]]
        w  == SelectSeq(s, LAMBDA j : lo <= x[j] /\ x[j] <= hi)
        cc == [x |-> x, mode |-> t.mode, b |-> t.b, hasmin |-> TRUE, min |-> lo, hasmax |-> TRUE, max |-> hi]
    IN IF w = <<>> THEN ErrRes
       ELSE IF lo > hi \/ ~Runnable(cc) THEN SkipRes
       ELSE HPassRun(cc, w, t.rev)
WGarbage(r) == [r EXCEPT !.hist = [i \in DOMAIN r.hist |-> 0], !.rev = [i \in DOMAIN r.rev |-> 0]]

WApply(wd, t) ==
    LET log == [wd EXCEPT !.steps = Append(@, t)] IN
    IF t.op = "mutate" THEN [log EXCEPT !.cur[t.slot] = t.x]                 \* no code runs: the memo cannot notice
    ELSE IF t.op = "replace"
    THEN [log EXCEPT !.cur[t.slot] = t.x,
                     !.memo[t.slot] = IF WMemo = "ro_id" THEN NoMemo ELSE @]   \* the weak reference expires
    ELSE IF t.op = "scribble"
    THEN [log EXCEPT !.keep.val = IF WShare THEN WGarbage(@) ELSE @]           \* the caller's arrays; shared only if deviating
    ELSE LET x    == wd.cur[t.slot]
             m    == wd.memo[t.slot]
             hit  == /\ m.s # <<>> /\ Len(m.s) = Len(x)
                     /\ \/ WMemo \in {"ro_id", "id"}
                        \/ WMemo = "content" /\ m.x = x
             s    == IF hit THEN m.s ELSE VStableArgsort(x)
             key  == <<t.mode, t.b, t.hasmin, t.min, t.hasmax, t.max, t.rev>>
             res  == IF WShare /\ wd.keep.slot = t.slot /\ wd.keep.x = x /\ wd.keep.key = key THEN wd.keep.val
                     ELSE WRun(x, s, t)
         IN [log EXCEPT !.memo[t.slot] = IF WMemo = "none" THEN NoMemo ELSE [s |-> s, x |-> x],
                        !.keep = [slot |-> t.slot, x |-> x, key |-> key, val |-> res],
                        !.res = res]

WStep ==
    /\ phase = "world" /\ Len(ob.steps) < WDepth
    /\ \E t \in WCalls(ob, Len(ob.steps) + 1) \cup WRepeats(ob) \cup WCallerSteps(ob) :
          /\ WThinOK(ob, t)
          /\ ob' = WApply(ob, t)
    /\ UNCHANGED <<phase, c, st>>

\* a designed collision: an object histogrammed again after the caller changed its buffer, replaced it, or
\* overwrote results in between
WCollides(wd) ==
    \E k \in 2..Len(wd.steps) : \E j \in 1..(k - 1) :
        /\ wd.steps[k].op = "call" /\ wd.steps[j].op = "call" /\ wd.steps[j].slot = wd.steps[k].slot
        /\ \E q \in (j + 1)..(k - 1) : wd.steps[q].op # "call"
WSessHash(wd) == WSum(wd.objs[1], 1) + VSum([k \in 1..Len(wd.steps) |-> (2 * k + 5) * WStepHash(wd.steps[k])])
WExported(wd) == WSessHash(wd) % (IF WCollides(wd) THEN WXColl ELSE WXRest) = 0
\* enumeration only: the same sessions without running the mechanism (export / simulation)
WStepX ==
    /\ phase = "world" /\ Len(ob.steps) < WDepth
    /\ \E t \in WCalls(ob, Len(ob.steps) + 1) \cup WRepeats(ob) \cup WCallerSteps(ob) :
          LET nw == [ob EXCEPT !.steps = Append(@, t),
                              !.cur = IF t.op \in {"mutate", "replace"} THEN [@ EXCEPT ![t.slot] = t.x] ELSE @]
          IN /\ WThinOK(ob, t)
             /\ (Len(nw.steps) = WDepth) => WExported(nw)          \* covering design of the export
             /\ ob' = nw
    /\ UNCHANGED <<phase, c, st>>

WSess(wd) == [objs |-> wd.objs, kinds |-> wd.kinds, steps |-> wd.steps]

\* ---- scale cases ---------------------------------------------------------------------------------
\* few distinct values 1..k, value j repeated mult[j] times, in three arrangements; numbers of data
\* across and at the block boundaries; bin specifications that give one / two values per bin, and a
\* top value with index nbin (not counted).  Hist.tla (HSFailing) fixes the result through the law.
ScaleSchemes == {"equal", "tail", "head", "maxone"}
ScaleArrs    == {"blocks", "rblocks", "cyclic"}
Mults(n, k, sch) ==
    IF sch = "equal" THEN [j \in 1..k |-> (n \div k) + (IF j = 1 THEN n % k ELSE 0)]
    ELSE IF sch = "tail" THEN [j \in 1..k |-> IF j = k THEN n - (k - 1) ELSE 1]
    ELSE IF sch = "head" THEN [j \in 1..k |-> IF j = 1 THEN n - (k - 1) ELSE 1]
    ELSE [j \in 1..k |-> IF j = k THEN 1 ELSE ((n - 1) \div (k - 1)) + (IF j = 1 THEN (n - 1) % (k - 1) ELSE 0)]
ScaleCases(Ns) ==
    {[vals |-> [j \in 1..k |-> j], mult |-> Mults(n, k, sch), arr |-> ar, mode |-> m[1], b |-> m[2],
      hasmin |-> lm[1] # Absent, min |-> IF lm[1] = Absent THEN 0 ELSE lm[1],
      hasmax |-> lm[2] # Absent, max |-> IF lm[2] = Absent THEN 0 ELSE lm[2]]
        : n \in Ns, k \in {2, 3, 4}, sch \in ScaleSchemes, ar \in ScaleArrs,
          m \in {<<"binsize", 1>>, <<"binsize", 2>>, <<"nbin", 1>>, <<"nbin", 2>>, <<"nbin", 3>>},
          lm \in {<<Absent, Absent>>, <<2, Absent>>, <<Absent, 3>>, <<Absent, 2>>}}
ScaleN(sc) == VSum(sc.mult)
ScaleHash(sc) == ScaleN(sc) + 3 * Len(sc.vals) + 5 * sc.mult[1] + 7 * sc.b + (IF sc.mode = "nbin" THEN 11 ELSE 0)
                 + (IF sc.arr = "blocks" THEN 0 ELSE IF sc.arr = "rblocks" THEN 13 ELSE 29)
                 + (IF sc.hasmin THEN 17 ELSE 0) + (IF sc.hasmax THEN 19 + sc.max ELSE 0)

ChooseScale ==
    /\ phase = "start"
    /\ \E sc \in ScaleCases(ScaleNs \cup SmallNs) :
          /\ \A j \in DOMAIN sc.mult : sc.mult[j] >= 1
          /\ HSRunnable(sc)
          /\ ScaleN(sc) \in SmallNs \/ ScaleHash(sc) % ScaleThin = 0
          /\ c' = sc
    /\ phase' = "scale" /\ UNCHANGED <<st, ob>>

\* the data of a (small) scale case written out
RECURSIVE Rep(_, _), Cyc(_, _, _)
Rep(v, m) == IF m = 0 THEN <<>> ELSE <<v>> \o Rep(v, m - 1)
Cyc(vals, rem, j) ==                       \* round robin over the values that are left
    IF VSum(rem) = 0 THEN <<>>
    ELSE IF rem[j] = 0 THEN Cyc(vals, rem, (j % Len(vals)) + 1)
    ELSE <<vals[j]>> \o Cyc(vals, [rem EXCEPT ![j] = @ - 1], (j % Len(vals)) + 1)
RECURSIVE Blocks(_, _, _)
Blocks(vals, mult, j) == IF j > Len(vals) THEN <<>> ELSE Rep(vals[j], mult[j]) \o Blocks(vals, mult, j + 1)
RECURSIVE RBlocks(_, _, _)
RBlocks(vals, mult, j) == IF j = 0 THEN <<>> ELSE Rep(vals[j], mult[j]) \o RBlocks(vals, mult, j - 1)
Expand(sc) == IF sc.arr = "blocks" THEN Blocks(sc.vals, sc.mult, 1)
              ELSE IF sc.arr = "rblocks" THEN RBlocks(sc.vals, sc.mult, Len(sc.vals))
              ELSE Cyc(sc.vals, sc.mult, 1)
\* run-length encoding by data value of a sequence of positions, as the harness projects a slice
RECURSIVE Rle(_, _)
Rle(x, s) == IF s = <<>> THEN <<>>
             ELSE LET v == x[s[1]]
                      n == CHOOSE m \in 1..Len(s) : (\A q \in 1..m : x[s[q]] = v) /\ (m = Len(s) \/ x[s[m + 1]] # v)
                  IN <<[v |-> v, len |-> n, asc |-> \A q \in 1..(n - 1) : s[q] < s[q + 1]]>> \o Rle(x, SubSeq(s, n + 1, Len(s)))

Next == ChooseData \/ ChooseSpec \/ Begin \/ Step \/ Fill \/ ObjNew \/ ObjCall \/ ChooseScale \/ WNew \/ WStep

NextExport == ChooseData \/ ChooseSpec \/ ObjNew \/ ObjCallX \/ ChooseScale \/ WNew \/ WStepX   \* enumeration only (export run)

NextDeep == ObjNew \/ ObjCallX               \* long random histories (tlc -simulate)
NextWorld == WNew \/ WStep                   \* the world machine alone (self-tests)
NextWorldDeep == WNew \/ WStepX              \* long random sessions (tlc -simulate)

Spec == Init /\ [][Next]_vars

\* ---- properties ------------------------------------------------------------------
Obs == [err |-> "none", hist |-> st.hist, hasrev |-> TRUE, rev |-> st.rev]

\* the mechanism refines the property (both engines are this pass)
MechRefines == phase = "done" => Accept(c, Obs)

\* the pass never writes outside rev and counts every datum at most once
PassSafe == phase \in {"pass", "done"} =>
    /\ VSum(st.hist) <= Len(SortedLimited(c))
    /\ \A k \in DOMAIN st.rev : st.rev[k] >= 0 /\ st.rev[k] <= Len(st.rev)

\* theorems about the property-level spec itself
RefAccepted == (phase = "case" /\ Runnable(c)) =>
    /\ VSum(RefHist(c)) = Cardinality({j \in Limited(c) : Counted(c, j, BinOf(c, j))})
    /\ \A j \in Limited(c) : BinOf(c, j) >= 0

\* the law behind the scale cases, on the small scope: split the data anywhere; over the same bins (the limits
\* of the whole made explicit) the counts of the parts add up and every slice of the whole, restricted to a
\* part, is that part's slice (second part shifted): the slices of the whole are the stable merges
ConcatLaw == (phase = "case" /\ Runnable(c)) =>
    \A p \in 1..(N(c) - 1) :
        LET fix(xx) == [x |-> xx, mode |-> c.mode, b |-> c.b, hasmin |-> TRUE, min |-> Lo(c), hasmax |-> TRUE, max |-> Hi(c)]
            ca == fix(SubSeq(c.x, 1, p))
            cb == fix(SubSeq(c.x, p + 1, N(c)))
        IN \A i \in 0..(NBin(c) - 1) :
              LET m == Members(c, i) IN
              /\ SelectSeq(m, LAMBDA j : j <= p) = Members(ca, i)
              /\ SelectSeq(m, LAMBDA j : j > p) = [q \in DOMAIN Members(cb, i) |-> Members(cb, i)[q] + p]
              /\ Len(m) = Len(Members(ca, i)) + Len(Members(cb, i))

\* ... and its consequence used to judge the scale cases: on every scale case small enough to write out, the
\* reference histogram and the run-length encoded reference slices are what HSFailing demands
ScaleLaw == (phase = "scale" /\ ScaleN(c) \in SmallNs) =>
    LET cx == [HSBase(c) EXCEPT !.x = Expand(c)] IN
    /\ Len(cx.x) = ScaleN(c) /\ Runnable(cx) /\ NBin(cx) = NBin(HSBase(c))
    /\ HSFailing(c, [err |-> "none", hist |-> RefHist(cx), hasrev |-> TRUE,
                     revlen |-> NBin(cx) + 1 + VSum(RefHist(cx)),
                     ptr |-> [i \in 1..(NBin(cx) + 1) |-> NBin(cx) + 1 + VSum(SubSeq(RefHist(cx), 1, i - 1))],
                     runs |-> [i \in 1..NBin(cx) |-> Rle(cx.x, Members(cx, i - 1))]]) = {}

\* the object: whatever was called before, what it holds after a call is an outcome the
\* property allows for the last dohist call on the data; the cache is the stable argsort
HistOf(o) == [x |-> o.x, hasw |-> o.hasw, calls |-> o.calls]
ObjRefines == (phase = "obj" /\ Len(ob.calls) > 0 /\ ob.res.err \notin {"skip", "noresult"}) =>
    HOStepFailing(HistOf(ob), Len(ob.calls), ob.res) = {}
CacheSound == phase = "obj" => (ob.cache = <<>> \/ ob.cache = VStableArgsort(ob.x))

\* the world: every call's outcome is an outcome the property allows for ITS arguments as they are at the time of
\* the call - whatever happened in the process before (the faithful memo satisfies it, the deviating ones do not)
WorldRefines == (phase = "world" /\ Len(ob.steps) > 0 /\ ob.steps[Len(ob.steps)].op = "call"
                 /\ ob.res.err \notin {"skip", "noresult"}) =>
    HWStepFailing(WSess(ob), Len(ob.steps), ob.res) = {}
WorldCurOK == phase = "world" => \A s \in 1..2 : ob.cur[s] = HWContents(WSess(ob), s, Len(ob.steps))

\* ---- export -------------------------------------------------------------------------
Export == /\ (DoExport /\ phase = "case") => PrintT(<<"CASE", ToJson(c)>>)
          /\ (DoExport /\ phase = "scale" /\ ScaleN(c) \notin SmallNs) => PrintT(<<"SCALE", ToJson(c)>>)
          /\ (DoExport /\ phase = "world" /\ Len(ob.steps) = WDepth) => PrintT(<<"WORLD", ToJson(WSess(ob))>>)
          /\ (DoExport /\ phase = "obj" /\ Len(ob.calls) = HDepth) =>
                PrintT(<<"HIST", ToJson([x |-> ob.x, hasw |-> ob.hasw, rep |-> ob.rep, wrep |-> ob.wrep, calls |-> ob.calls])>>)
=============================================================================
