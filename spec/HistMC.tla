------------------------------- MODULE HistMC -------------------------------
(* Exhaustive small-scope model of histogramming:                                 *)
(*  - ChooseData / ChooseSpec enumerate every case of the bounded space (these    *)
(*    states are exported as JSON and replayed into the real code); every case    *)
(*    carries the REPRESENTATION of the data argument (element type, byte order,  *)
(*    strided / reversed / record-field view, python sequence, 0-d ...), the      *)
(*    entry point and the kind of scalar used for binsize / min / max - a covering *)
(*    design (RepFan representations per case), none of them changes a value;     *)
(*  - Step / Fill run the implementation-shaped pass of Hist.tla on the case;     *)
(*  - MechRefines: the finished pass is accepted by the property-level spec;      *)
(*  - ObjNew / ObjCall: a Binner OBJECT as a state machine - histories of dohist  *)
(*    / calc_stats calls with different options on one object, with the cached    *)
(*    sort index as implementation state; ObjRefines: what the object holds after *)
(*    every call is accepted by the property-level spec of the last dohist call.  *)
EXTENDS Hist, Json

CONSTANTS MaxLen,      \* data arrays of length 1..MaxLen
          Vals,        \* over these lattice values
          BinSizes,    \* bin sizes (lattice units) for binsize mode
          NBinSet,     \* bin counts for nbin mode
          LimVals,     \* explicit min / max values tried (besides "absent")
          FixedFill,   \* TRUE: trailing fill ends at the counted data (repaired code)
          DoExport,    \* TRUE: print every chosen case as JSON
          RepFan,      \* representations tried per case (covering design)
          HLens,       \* object histories: lengths of the data array
          HVals,       \*   its lattice values
          HBinSizes, HNBins, HNPer,   \*   bin specifications of a dohist call
          HMins, HMaxs,               \*   explicit limits of a call (besides "absent")
          HDepth,      \*   calls per history
          HThin,       \*   the LAST call of a history is thinned 1 : HThin (covering design)
          HBothW,      \*   TRUE: every data array with and without weights; FALSE: by design
          FixedCache,  \* TRUE: the cached sort index is always the stable argsort; FALSE: a
                       \* deviating object that skips the sort for plain counts (self-test)
          FixedSel,    \* TRUE: the [min,max] selection is recomputed by every call; FALSE: a deviating
                       \* object that caches it and stores the new limits before an empty window raises
          ScaleNs,     \* scale cases: numbers of data (across and at the block boundaries of the engines)
          SmallNs,     \*   numbers of data small enough to expand: the scale law is CHECKED on them
          ScaleThin    \*   scale cases are thinned 1 : ScaleThin (covering design)

VARIABLES phase, c, st, ob
vars == <<phase, c, st, ob>>

Absent == 99
NoCase == [x |-> <<>>]
NoOb   == [x |-> <<>>]

Init == phase = "start" /\ c = NoCase /\ st = <<>> /\ ob = NoOb

\* ---- representations of the data argument -------------------------------------------------
\* names are mapped to concrete numpy / python objects by the adapter ("be" = non-native byte
\* order; recNN = field of a packed record array with itemsize NN; the last group only for n = 1)
RepSeq    == <<"f8", "f8be", "f4", "f4be", "i2", "i4", "i4be", "i8", "u1", "u4", "list", "intlist", "tuple",
               "strided2", "strided3", "reversed", "col2d", "rec12", "rec20", "rec12be", "reci4", "recf4",
               "readonly">>
ScalarSeq == <<"zerod", "pyfloat", "pyint", "npf8", "npi4">>
EntrySeq  == <<"histogram", "binner", "more", "weighted">>
SrepSeq   == <<"pyfloat", "pyint", "npf8", "npi8">>
RepsFor(n) == IF n = 1 THEN RepSeq \o ScalarSeq ELSE RepSeq

B2I(b) == IF b THEN 1 ELSE 0
RECURSIVE WSum(_, _)
WSum(x, i) == IF i > Len(x) THEN 0 ELSE x[i] * (2 * i - 1) + WSum(x, i + 1)
CaseHash(x, mode, b, mn, mx) ==
    WSum(x, 1) + 3 * b + (IF mode = "binsize" THEN 0 ELSE 11)
    + (IF mn = Absent THEN 0 ELSE 5 + 7 * mn) + (IF mx = Absent THEN 0 ELSE 13 + 5 * mx)

\* independent linear forms: every (representation, entry point, scalar kind) triple and every pair with mode /
\* limit pattern occurs (checked on the exported cases by the adapter)
EntryHash(x, mode, b, mn, mx) ==
    VSum(x) + 2 * b + (IF mode = "binsize" THEN 0 ELSE 1)
    + (IF mn = Absent THEN 0 ELSE 1 + mn) + (IF mx = Absent THEN 0 ELSE 2 + 3 * mx)
SrepHash(x, b, mn, mx) ==
    x[1] + Len(x) + b + (IF mn = Absent THEN 0 ELSE 3 + 2 * mn) + (IF mx = Absent THEN 0 ELSE 1 + mx)

\* ---- cases ---------------------------------------------------------------------------------
ChooseData ==
    /\ phase = "start"
    /\ \E n \in 1..MaxLen : \E x \in [1..n -> Vals] :
          c' = [x |-> x]
    /\ phase' = "data" /\ UNCHANGED <<st, ob>>

ChooseSpec ==
    /\ phase = "data"
    /\ \E m \in {<<"binsize", b>> : b \in BinSizes} \cup {<<"nbin", b>> : b \in NBinSet} :
       \E mn \in LimVals \cup {Absent} : \E mx \in LimVals \cup {Absent} : \E f \in 0..(RepFan - 1) :
          LET h  == CaseHash(c.x, m[1], m[2], mn, mx)
              rs == RepsFor(Len(c.x))
          IN c' = [x |-> c.x, mode |-> m[1], b |-> m[2],
                   hasmin |-> mn # Absent, min |-> IF mn = Absent THEN 0 ELSE mn,
                   hasmax |-> mx # Absent, max |-> IF mx = Absent THEN 0 ELSE mx,
                   rep   |-> rs[((h + 7 * f) % Len(rs)) + 1],
                   entry |-> EntrySeq[((EntryHash(c.x, m[1], m[2], mn, mx) + f) % Len(EntrySeq)) + 1],
                   srep  |-> SrepSeq[((SrepHash(c.x, m[2], mn, mx) + f) % Len(SrepSeq)) + 1]]
    /\ phase' = "case" /\ UNCHANGED <<st, ob>>

Runnable(cc) == ~NoData(cc) /\ ~Degenerate(cc) /\ Unambiguous(cc)

Begin ==
    /\ phase = "case" /\ Runnable(c)
    /\ st' = PassInit(c) /\ phase' = "pass" /\ UNCHANGED <<c, ob>>

Step ==
    /\ phase = "pass" /\ st.i <= Len(SortedLimited(c))
    /\ st' = PassStep(c, st) /\ UNCHANGED <<phase, c, ob>>

Fill ==
    /\ phase = "pass" /\ st.i > Len(SortedLimited(c))
    /\ st' = PassFill(c, st, FixedFill) /\ phase' = "done" /\ UNCHANGED <<c, ob>>

\* ---- the object as a state machine ------------------------------------------------------------
\* implementation state: cache = the sort index kept by the object (<<>> = not yet computed),
\* res = what the object holds (hist / rev) after the last call
NoRes   == [err |-> "noresult", hist |-> <<>>, hasrev |-> FALSE, rev |-> <<>>]
SkipRes == [err |-> "skip",     hist |-> <<>>, hasrev |-> FALSE, rev |-> <<>>]
ErrRes  == [err |-> "ValueError", hist |-> <<>>, hasrev |-> FALSE, rev |-> <<>>]

CalcStatsCall == [op |-> "calc_stats", mode |-> "none", b |-> 0, hasmin |-> FALSE, min |-> 0,
                  hasmax |-> FALSE, max |-> 0, rev |-> FALSE, cs |-> TRUE]

\* a call the object must reject (no bin specification at all), inside a history
BadCall(mn, mx) == [op |-> "dohist", mode |-> "none", b |-> 0,
                    hasmin |-> mn # Absent, min |-> IF mn = Absent THEN 0 ELSE mn,
                    hasmax |-> mx # Absent, max |-> IF mx = Absent THEN 0 ELSE mx, rev |-> FALSE, cs |-> TRUE]
BadCalls == {BadCall(Absent, Absent)} \cup {BadCall(mn, mx) : mn \in HMins, mx \in HMaxs}

HSpecs == {<<"binsize", b>> : b \in HBinSizes} \cup {<<"nbin", b>> : b \in HNBins} \cup {<<"nperbin", b>> : b \in HNPer}

\* the dohist calls tried at position k of a history on data x; the option calc_stats=
\* (cs) follows a covering design over (data, position, call)
DoCalls(x, k) ==
    {[op |-> "dohist", mode |-> m[1], b |-> m[2],
      hasmin |-> mn # Absent, min |-> IF mn = Absent THEN 0 ELSE mn,
      hasmax |-> mx # Absent, max |-> IF mx = Absent THEN 0 ELSE mx,
      rev |-> rv, cs |-> (WSum(x, 1) + k + m[2] + B2I(rv) + B2I(mn # Absent)) % 2 = 0]
       : m \in HSpecs, mn \in HMins \cup {Absent}, mx \in HMaxs \cup {Absent}, rv \in BOOLEAN}

CallHash(cl) == cl.b + (IF cl.mode = "binsize" THEN 0 ELSE IF cl.mode = "nbin" THEN 3 ELSE IF cl.mode = "nperbin" THEN 7
                        ELSE IF cl.op = "dohist" THEN 13 ELSE 17)
                + 2 * B2I(cl.rev) + 5 * B2I(cl.hasmin) + 11 * B2I(cl.hasmax)

ObjNew ==
    /\ phase = "start"
    /\ \E n \in HLens : \E x \in [1..n -> HVals] : \E hw \in BOOLEAN :
          /\ HBothW \/ hw = ((WSum(x, 1) + n) % 3 = 0)
          /\ LET rs == RepsFor(n)
                 h  == WSum(x, 1) + 5 * n + B2I(hw)
             IN ob' = [x |-> x, hasw |-> hw, rep |-> rs[(h % Len(rs)) + 1], wrep |-> RepSeq[((h \div 2) % Len(RepSeq)) + 1],
                       calls |-> <<>>, cache |-> <<>>, lim |-> <<>>, sel |-> <<>>, res |-> NoRes]
    /\ phase' = "obj" /\ UNCHANGED <<c, st>>

\* -- the pass over an explicitly given sorted index s (chist_pywrap.c / _dohist)
HPassInit(cc, s) == [i |-> 1, old |-> -1, last |-> NBin(cc) + 1,
                     hist |-> [k \in 1..NBin(cc) |-> 0],
                     rev  |-> [k \in 1..(Len(s) + NBin(cc) + 1) |-> 0]]
HPassStep(cc, s, t) ==
    LET nb     == NBin(cc)
        j      == s[t.i]
        offset == (t.i - 1) + nb + 1
        rev1   == [t.rev EXCEPT ![offset + 1] = j - 1]
        bn     == BinOf(cc, j)
    IN IF bn >= 0 /\ bn < nb
       THEN [i |-> t.i + 1, old |-> bn, last |-> offset + 1,
             hist |-> [t.hist EXCEPT ![bn + 1] = @ + 1],
             rev  |-> [k \in DOMAIN rev1 |-> IF k - 1 > t.old /\ k - 1 <= bn THEN offset ELSE rev1[k]]]
       ELSE [t EXCEPT !.i = @ + 1, !.rev = rev1]
RECURSIVE HPassLoop(_, _, _)
HPassLoop(cc, s, t) == IF t.i > Len(s) THEN t ELSE HPassLoop(cc, s, HPassStep(cc, s, t))
HPassRun(cc, s, dorev) ==
    LET f == PassFill(cc, HPassLoop(cc, s, HPassInit(cc, s)), TRUE)
    IN [err |-> "none", hist |-> f.hist, hasrev |-> dorev, rev |-> IF dorev THEN f.rev ELSE <<>>]

\* -- equal occupancy: nper consecutive members of the sorted, limited index per bin, a short
\*    last bin merged into its predecessor (mergelast default)
HByNum(w, nper) ==
    LET n     == Len(w)
        nb0   == ((n - 1) \div nper) + 1
        short == n - (nb0 - 1) * nper
        merge == short # nper /\ nb0 >= 2
        nb    == IF merge THEN nb0 - 1 ELSE nb0
    IN [err |-> "none", hasrev |-> TRUE,
        hist |-> [i \in 1..nb |-> IF i < nb THEN nper ELSE n - (nb - 1) * nper],
        rev  |-> [k \in 1..(nb + 1 + n) |-> IF k <= nb THEN nb + 1 + (k - 1) * nper
                                             ELSE IF k = nb + 1 THEN nb + 1 + n ELSE w[k - nb - 1] - 1]]

\* -- one call on the object (Binner.dohist / calc_stats).  A rejected call (empty window, no bin
\*    specification) is a stutter step on everything later calls read: sort index, selection.
HApply(o, cl) ==
    IF cl.op = "calc_stats" THEN [o EXCEPT !.calls = Append(@, cl)]          \* hist / rev untouched
    ELSE LET x      == o.x
             need   == cl.rev \/ cl.mode = "nperbin" \/ o.hasw
             srt    == FixedCache \/ need
             cache2 == IF o.cache # <<>> THEN o.cache
                       ELSE IF srt THEN VStableArgsort(x) ELSE [i \in 1..Len(x) |-> i]
             lo     == IF cl.hasmin THEN cl.min ELSE IF srt THEN x[cache2[1]] ELSE VSeqMin(x)
             hi     == IF cl.hasmax THEN cl.max ELSE IF srt THEN x[cache2[Len(x)]] ELSE VSeqMax(x)
             where  == cl.hasmin \/ cl.hasmax
             reuse  == ~FixedSel /\ where /\ o.lim = <<lo, hi>>
             w      == IF reuse THEN o.sel ELSE SelectSeq(cache2, LAMBDA j : lo <= x[j] /\ x[j] <= hi)
             lim2   == IF ~FixedSel /\ where THEN <<lo, hi>> ELSE o.lim       \* deviating: stored BEFORE the raise
             sel2   == IF ~FixedSel /\ where /\ w # <<>> THEN w ELSE o.sel
             cc     == [x |-> x, mode |-> cl.mode, b |-> cl.b, hasmin |-> TRUE, min |-> lo, hasmax |-> TRUE, max |-> hi]
             res    == IF w = <<>> THEN ErrRes
                       ELSE IF cl.mode = "none" THEN ErrRes
                       ELSE IF cl.mode = "nperbin" THEN HByNum(w, cl.b)
                       ELSE IF ~Runnable(cc) THEN SkipRes
                       ELSE HPassRun(cc, w, cl.rev \/ o.hasw)
         IN [o EXCEPT !.calls = Append(@, cl), !.cache = cache2, !.lim = lim2, !.sel = sel2, !.res = res]

\* covering design: only the LAST call of a history is thinned
ThinOK(o, cl) ==
    \/ Len(o.calls) + 1 < HDepth
    \/ (WSum(o.x, 1) + B2I(o.hasw) + 3 * CallHash(cl)
        + VSum([k \in 1..Len(o.calls) |-> (2 * k + 5) * CallHash(o.calls[k])])) % HThin = 0

ObjCall ==
    /\ phase = "obj" /\ Len(ob.calls) < HDepth
    /\ \E cl \in DoCalls(ob.x, Len(ob.calls) + 1) \cup {CalcStatsCall} \cup BadCalls :
          /\ ThinOK(ob, cl)
          /\ ob' = HApply(ob, cl)
    /\ UNCHANGED <<phase, c, st>>

\* enumeration only: the same histories without running the mechanism (export run)
ObjCallX ==
    /\ phase = "obj" /\ Len(ob.calls) < HDepth
    /\ \E cl \in DoCalls(ob.x, Len(ob.calls) + 1) \cup {CalcStatsCall} \cup BadCalls :
          /\ ThinOK(ob, cl)
          /\ ob' = [ob EXCEPT !.calls = Append(@, cl)]
    /\ UNCHANGED <<phase, c, st>>

\* ---- scale cases ---------------------------------------------------------------------------------
\* few distinct values 1..k, value j repeated mult[j] times, in three arrangements; numbers of data
\* across and at the block boundaries; bin specifications that give one / two values per bin, and a
\* top value with index nbin (not counted).  Hist.tla (HSFailing) fixes the result through the law.
ScaleSchemes == {"equal", "tail", "head", "maxone"}
ScaleArrs    == {"blocks", "rblocks", "cyclic"}
Mults(n, k, sch) ==
    IF sch = "equal" THEN [j \in 1..k |-> (n \div k) + (IF j = 1 THEN n % k ELSE 0)]
    ELSE IF sch = "tail" THEN [j \in 1..k |-> IF j = k THEN n - (k - 1) ELSE 1]
    ELSE IF sch = "head" THEN [j \in 1..k |-> IF j = 1 THEN n - (k - 1) ELSE 1]
    ELSE [j \in 1..k |-> IF j = k THEN 1 ELSE ((n - 1) \div (k - 1)) + (IF j = 1 THEN (n - 1) % (k - 1) ELSE 0)]
ScaleCases(Ns) ==
    {[vals |-> [j \in 1..k |-> j], mult |-> Mults(n, k, sch), arr |-> ar, mode |-> m[1], b |-> m[2],
      hasmin |-> lm[1] # Absent, min |-> IF lm[1] = Absent THEN 0 ELSE lm[1],
      hasmax |-> lm[2] # Absent, max |-> IF lm[2] = Absent THEN 0 ELSE lm[2]]
        : n \in Ns, k \in {2, 3, 4}, sch \in ScaleSchemes, ar \in ScaleArrs,
          m \in {<<"binsize", 1>>, <<"binsize", 2>>, <<"nbin", 1>>, <<"nbin", 2>>, <<"nbin", 3>>},
          lm \in {<<Absent, Absent>>, <<2, Absent>>, <<Absent, 3>>, <<Absent, 2>>}}
ScaleN(sc) == VSum(sc.mult)
ScaleHash(sc) == ScaleN(sc) + 3 * Len(sc.vals) + 5 * sc.mult[1] + 7 * sc.b + (IF sc.mode = "nbin" THEN 11 ELSE 0)
                 + (IF sc.arr = "blocks" THEN 0 ELSE IF sc.arr = "rblocks" THEN 13 ELSE 29)
                 + (IF sc.hasmin THEN 17 ELSE 0) + (IF sc.hasmax THEN 19 + sc.max ELSE 0)

ChooseScale ==
    /\ phase = "start"
    /\ \E sc \in ScaleCases(ScaleNs \cup SmallNs) :
          /\ \A j \in DOMAIN sc.mult : sc.mult[j] >= 1
          /\ HSRunnable(sc)
          /\ ScaleN(sc) \in SmallNs \/ ScaleHash(sc) % ScaleThin = 0
          /\ c' = sc
    /\ phase' = "scale" /\ UNCHANGED <<st, ob>>

\* the data of a (small) scale case written out
RECURSIVE Rep(_, _), Cyc(_, _, _)
Rep(v, m) == IF m = 0 THEN <<>> ELSE <<v>> \o Rep(v, m - 1)
Cyc(vals, rem, j) ==                       \* round robin over the values that are left
    IF VSum(rem) = 0 THEN <<>>
    ELSE IF rem[j] = 0 THEN Cyc(vals, rem, (j % Len(vals)) + 1)
    ELSE <<vals[j]>> \o Cyc(vals, [rem EXCEPT ![j] = @ - 1], (j % Len(vals)) + 1)
RECURSIVE Blocks(_, _, _)
Blocks(vals, mult, j) == IF j > Len(vals) THEN <<>> ELSE Rep(vals[j], mult[j]) \o Blocks(vals, mult, j + 1)
RECURSIVE RBlocks(_, _, _)
RBlocks(vals, mult, j) == IF j = 0 THEN <<>> ELSE Rep(vals[j], mult[j]) \o RBlocks(vals, mult, j - 1)
Expand(sc) == IF sc.arr = "blocks" THEN Blocks(sc.vals, sc.mult, 1)
              ELSE IF sc.arr = "rblocks" THEN RBlocks(sc.vals, sc.mult, Len(sc.vals))
              ELSE Cyc(sc.vals, sc.mult, 1)
\* run-length encoding by data value of a sequence of positions, as the harness projects a slice
RECURSIVE Rle(_, _)
Rle(x, s) == IF s = <<>> THEN <<>>
             ELSE LET v == x[s[1]]
                      n == CHOOSE m \in 1..Len(s) : (\A q \in 1..m : x[s[q]] = v) /\ (m = Len(s) \/ x[s[m + 1]] # v)
                  IN <<[v |-> v, len |-> n, asc |-> \A q \in 1..(n - 1) : s[q] < s[q + 1]]>> \o Rle(x, SubSeq(s, n + 1, Len(s)))

Next == ChooseData \/ ChooseSpec \/ Begin \/ Step \/ Fill \/ ObjNew \/ ObjCall \/ ChooseScale

NextExport == ChooseData \/ ChooseSpec \/ ObjNew \/ ObjCallX \/ ChooseScale   \* enumeration only (export run)

NextDeep == ObjNew \/ ObjCallX               \* long random histories (tlc -simulate)

Spec == Init /\ [][Next]_vars

\* ---- properties ------------------------------------------------------------------
Obs == [err |-> "none", hist |-> st.hist, hasrev |-> TRUE, rev |-> st.rev]

\* the mechanism refines the property (both engines are this pass)
MechRefines == phase = "done" => Accept(c, Obs)

\* the pass never writes outside rev and counts every datum at most once
PassSafe == phase \in {"pass", "done"} =>
    /\ VSum(st.hist) <= Len(SortedLimited(c))
    /\ \A k \in DOMAIN st.rev : st.rev[k] >= 0 /\ st.rev[k] <= Len(st.rev)

\* theorems about the property-level spec itself
RefAccepted == (phase = "case" /\ Runnable(c)) =>
    /\ VSum(RefHist(c)) = Cardinality({j \in Limited(c) : Counted(c, j, BinOf(c, j))})
    /\ \A j \in Limited(c) : BinOf(c, j) >= 0

\* the law behind the scale cases, on the small scope: split the data anywhere; over the same bins (the limits
\* of the whole made explicit) the counts of the parts add up and every slice of the whole, restricted to a
\* part, is that part's slice (second part shifted): the slices of the whole are the stable merges
ConcatLaw == (phase = "case" /\ Runnable(c)) =>
    \A p \in 1..(N(c) - 1) :
        LET fix(xx) == [x |-> xx, mode |-> c.mode, b |-> c.b, hasmin |-> TRUE, min |-> Lo(c), hasmax |-> TRUE, max |-> Hi(c)]
            ca == fix(SubSeq(c.x, 1, p))
            cb == fix(SubSeq(c.x, p + 1, N(c)))
        IN \A i \in 0..(NBin(c) - 1) :
              LET m == Members(c, i) IN
              /\ SelectSeq(m, LAMBDA j : j <= p) = Members(ca, i)
              /\ SelectSeq(m, LAMBDA j : j > p) = [q \in DOMAIN Members(cb, i) |-> Members(cb, i)[q] + p]
              /\ Len(m) = Len(Members(ca, i)) + Len(Members(cb, i))

\* ... and its consequence used to judge the scale cases: on every scale case small enough to write out, the
\* reference histogram and the run-length encoded reference slices are what HSFailing demands
ScaleLaw == (phase = "scale" /\ ScaleN(c) \in SmallNs) =>
    LET cx == [HSBase(c) EXCEPT !.x = Expand(c)] IN
    /\ Len(cx.x) = ScaleN(c) /\ Runnable(cx) /\ NBin(cx) = NBin(HSBase(c))
    /\ HSFailing(c, [err |-> "none", hist |-> RefHist(cx), hasrev |-> TRUE,
                     revlen |-> NBin(cx) + 1 + VSum(RefHist(cx)),
                     ptr |-> [i \in 1..(NBin(cx) + 1) |-> NBin(cx) + 1 + VSum(SubSeq(RefHist(cx), 1, i - 1))],
                     runs |-> [i \in 1..NBin(cx) |-> Rle(cx.x, Members(cx, i - 1))]]) = {}

\* the object: whatever was called before, what it holds after a call is an outcome the
\* property allows for the last dohist call on the data; the cache is the stable argsort
HistOf(o) == [x |-> o.x, hasw |-> o.hasw, calls |-> o.calls]
ObjRefines == (phase = "obj" /\ Len(ob.calls) > 0 /\ ob.res.err \notin {"skip", "noresult"}) =>
    HOStepFailing(HistOf(ob), Len(ob.calls), ob.res) = {}
CacheSound == phase = "obj" => (ob.cache = <<>> \/ ob.cache = VStableArgsort(ob.x))

\* ---- export -------------------------------------------------------------------------
Export == /\ (DoExport /\ phase = "case") => PrintT(<<"CASE", ToJson(c)>>)
          /\ (DoExport /\ phase = "scale" /\ ScaleN(c) \notin SmallNs) => PrintT(<<"SCALE", ToJson(c)>>)
          /\ (DoExport /\ phase = "obj" /\ Len(ob.calls) = HDepth) =>
                PrintT(<<"HIST", ToJson([x |-> ob.x, hasw |-> ob.hasw, rep |-> ob.rep, wrep |-> ob.wrep, calls |-> ob.calls])>>)
=============================================================================
