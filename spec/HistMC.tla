------------------------------- MODULE HistMC -------------------------------
(* Exhaustive small-scope model of histogramming:                                 *)
(*  - ChooseData / ChooseSpec enumerate every case of the bounded space (these    *)
(*    states are exported as JSON and replayed into the real code);               *)
(*  - Step / Fill run the implementation-shaped pass of Hist.tla on the case;     *)
(*  - MechRefines: the finished pass is accepted by the property-level spec.      *)
EXTENDS Hist, Json

CONSTANTS MaxLen,      \* data arrays of length 1..MaxLen
          Vals,        \* over these lattice values
          BinSizes,    \* bin sizes (lattice units) for binsize mode
          NBinSet,     \* bin counts for nbin mode
          LimVals,     \* explicit min / max values tried (besides "absent")
          FixedFill,   \* TRUE: trailing fill ends at the counted data (repaired code)
          DoExport     \* TRUE: print every chosen case as JSON

VARIABLES phase, c, st
vars == <<phase, c, st>>

Absent == 99
NoCase == [x |-> <<>>]

Init == phase = "start" /\ c = NoCase /\ st = <<>>

ChooseData ==
    /\ phase = "start"
    /\ \E n \in 1..MaxLen : \E x \in [1..n -> Vals] :
          c' = [x |-> x]
    /\ phase' = "data" /\ UNCHANGED st

ChooseSpec ==
    /\ phase = "data"
    /\ \E m \in {<<"binsize", b>> : b \in BinSizes} \cup {<<"nbin", b>> : b \in NBinSet} :
       \E mn \in LimVals \cup {Absent} : \E mx \in LimVals \cup {Absent} :
          c' = [x |-> c.x, mode |-> m[1], b |-> m[2],
                hasmin |-> mn # Absent, min |-> IF mn = Absent THEN 0 ELSE mn,
                hasmax |-> mx # Absent, max |-> IF mx = Absent THEN 0 ELSE mx]
    /\ phase' = "case" /\ UNCHANGED st

Runnable(cc) == ~NoData(cc) /\ ~Degenerate(cc) /\ Unambiguous(cc)

Begin ==
    /\ phase = "case" /\ Runnable(c)
    /\ st' = PassInit(c) /\ phase' = "pass" /\ UNCHANGED c

Step ==
    /\ phase = "pass" /\ st.i <= Len(SortedLimited(c))
    /\ st' = PassStep(c, st) /\ UNCHANGED <<phase, c>>

Fill ==
    /\ phase = "pass" /\ st.i > Len(SortedLimited(c))
    /\ st' = PassFill(c, st, FixedFill) /\ phase' = "done" /\ UNCHANGED c

Next == ChooseData \/ ChooseSpec \/ Begin \/ Step \/ Fill

NextExport == ChooseData \/ ChooseSpec          \* enumeration only (export run)

Spec == Init /\ [][Next]_vars

\* ---- properties ------------------------------------------------------------------
Obs == [err |-> "none", hist |-> st.hist, hasrev |-> TRUE, rev |-> st.rev]

\* the mechanism refines the property (both engines are this pass)
MechRefines == phase = "done" => Accept(c, Obs)

\* the pass never writes outside rev and counts every datum at most once
PassSafe == phase \in {"pass", "done"} =>
    /\ VSum(st.hist) <= Len(SortedLimited(c))
    /\ \A k \in DOMAIN st.rev : st.rev[k] >= 0 /\ st.rev[k] <= Len(st.rev)

\* theorems about the property-level spec itself
RefAccepted == (phase = "case" /\ Runnable(c)) =>
    /\ VSum(RefHist(c)) = Cardinality({j \in Limited(c) : Counted(c, j, BinOf(c, j))})
    /\ \A j \in Limited(c) : BinOf(c, j) >= 0

\* ---- export -------------------------------------------------------------------------
Export == (DoExport /\ phase = "case") => PrintT(<<"CASE", ToJson(c)>>)
=============================================================================
