------------------------------- MODULE HistTrace -------------------------------
(* Trace validation for histogramming: every recorded call of the real code        *)
(* (case + what both engines returned) is judged by the property-level spec of     *)
(* Hist.tla.  One ndjson line per record:                                          *)
(*   {"id": k, "c": <case>, "obs": [<observation>, ...]}                           *)
(* Rejected records are printed with the names of the failing clauses.             *)
EXTENDS Hist, Json, IOUtils

VARIABLES blk, tid
Traces == ndJsonDeserialize(IOEnv.TRACE_FILE)
NT == Len(Traces)
BlockSize == 256
NBlocks == (NT + BlockSize - 1) \div BlockSize

Init == blk = 0 /\ tid = 0
PickBlock == blk = 0 /\ tid = 0 /\ \E b \in 1..NBlocks : blk' = b /\ tid' = 0
PickTrace == blk > 0 /\ tid = 0
             /\ \E t \in ((blk - 1) * BlockSize + 1)..VMin2(blk * BlockSize, NT) : tid' = t /\ blk' = blk
Next == PickBlock \/ PickTrace

\* all observations of one record must be accepted, and they must agree with each
\* other where they show the same thing (engine equality)
FailingRec(r) ==
    UNION {Failing(r.c, r.obs[k]) : k \in DOMAIN r.obs} \cup
    (IF \A k, m \in DOMAIN r.obs :
           (r.obs[k].err = "none" /\ r.obs[m].err = "none") =>
              /\ r.obs[k].hist = r.obs[m].hist
              /\ (r.obs[k].hasrev /\ r.obs[m].hasrev) => r.obs[k].rev = r.obs[m].rev
     THEN {} ELSE {"engines_differ"})

Check == tid > 0 =>
    LET r == Traces[tid]  f == FailingRec(r)
    IN f = {} \/ PrintT(<<"REJECT", ToJson([id |-> r.id, failing |-> f])>>)
=============================================================================
