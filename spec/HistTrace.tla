------------------------------- MODULE HistTrace -------------------------------
(* Trace validation for histogramming: every recorded call of the real code        *)
(* (case + what both engines returned) is judged by the property-level spec of     *)
(* Hist.tla.  One ndjson line per record:                                          *)
(*   {"id": k, "kind": "case", "c": <case>, "obs": [<observation>, ...]}           *)
(*   {"id": k, "kind": "history", "h": <history>, "steps": [<step>, ...]}          *)
(*      step k = what ONE Binner object showed after call k of the history:        *)
(*      {"obs": [<observation per engine>], "fresh": [BOOLEAN per engine]}         *)
(*      fresh[e] = the object's result (all keys) is bit-for-bit that of a fresh   *)
(*      object given only the calls since the last dohist (a relation between two  *)
(*      implementation outputs, compared by the harness).                          *)
(*   {"id": k, "kind": "scale", "sc": <scale case>, "obs": [<projection>, ...],     *)
(*    "same": BOOLEAN}   (Hist.tla: HSFailing)                                     *)
(*   {"id": k, "kind": "world", "w": <session>, "outs": [<observation per step>]}   *)
(*      a session of calls / caller steps over two data objects in ONE process      *)
(*      (Hist.tla: HWStepFailing; the observation of a caller step is a dummy)      *)
(* The representation of the data argument, the entry point and the scalar kinds   *)
(* are carried in the case but no clause mentions them: no value depends on them.  *)
(* Rejected records are printed with the names of the failing clauses (history:    *)
(* "<step>:<clause>").                                                             *)
EXTENDS Hist, Json, IOUtils

VARIABLES blk, tid
Traces == ndJsonDeserialize(IOEnv.TRACE_FILE)
NT == Len(Traces)
BlockSize == 256
NBlocks == (NT + BlockSize - 1) \div BlockSize

Init == blk = 0 /\ tid = 0
PickBlock == blk = 0 /\ tid = 0 /\ \E b \in 1..NBlocks : blk' = b /\ tid' = 0
PickTrace == blk > 0 /\ tid = 0
             /\ \E t \in ((blk - 1) * BlockSize + 1)..VMin2(blk * BlockSize, NT) : tid' = t /\ blk' = blk
Next == PickBlock \/ PickTrace

\* observations that show the same thing must agree (engine equality)
ObsAgree(obs) ==
    \A k, m \in DOMAIN obs :
        (obs[k].err = "none" /\ obs[m].err = "none") =>
            /\ obs[k].hist = obs[m].hist
            /\ (obs[k].hasrev /\ obs[m].hasrev) => obs[k].rev = obs[m].rev

\* all observations of one record must be accepted, and they must agree with each
\* other where they show the same thing (engine equality)
FailingCase(r) ==
    UNION {Failing(r.c, r.obs[k]) : k \in DOMAIN r.obs} \cup
    (IF ObsAgree(r.obs) THEN {} ELSE {"engines_differ"})

StepNames == <<"1", "2", "3", "4", "5", "6", "7", "8", "9", "10", "11", "12", "13", "14", "15", "16", "17", "18", "19", "20">>
FailingStep(h, k, s) ==
    UNION {HOStepFailing(h, k, s.obs[e]) : e \in DOMAIN s.obs} \cup
    (IF ObsAgree(s.obs) THEN {} ELSE {"engines_differ"}) \cup
    (IF \A e \in DOMAIN s.fresh : s.fresh[e] THEN {} ELSE {"reused_object_differs_from_fresh"})

FailingHistory(r) ==
    UNION {{StepNames[k] \o ":" \o cl : cl \in FailingStep(r.h, k, r.steps[k])} : k \in DOMAIN r.steps}

\* scale cases: every engine's (projected) result is judged through the law; same = the two engines returned
\* bit-for-bit identical hist and rev (a relation between two implementation outputs, evaluated by the harness)
FailingScale(r) ==
    UNION {HSFailing(r.sc, r.obs[e]) : e \in DOMAIN r.obs} \cup (IF r.same THEN {} ELSE {"engines_differ"})

\* world sessions: every call of a session executed in ONE process is judged on its own, with the contents its data
\* object had at the time of the call (Hist.tla: HWStepFailing) - "<step>:<clause>"
FailingWorld(r) ==
    UNION {{StepNames[k] \o ":" \o cl : cl \in HWStepFailing(r.w, k, r.outs[k])} : k \in DOMAIN r.outs}

FailingRec(r) == IF r.kind = "history" THEN FailingHistory(r)
                 ELSE IF r.kind = "world" THEN FailingWorld(r)
                 ELSE IF r.kind = "scale" THEN FailingScale(r) ELSE FailingCase(r)

Check == tid > 0 =>
    LET r == Traces[tid]  f == FailingRec(r)
    IN f = {} \/ PrintT(<<"REJECT", ToJson([id |-> r.id, failing |-> f])>>)
=============================================================================
