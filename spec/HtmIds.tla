------------------------------- MODULE HtmIds -------------------------------
(* Property-level specification of the HTM id / circle-cover / pair-count calls     *)
(* of esutil.htm (property C13):                                                    *)
(*   HTM(depth).lookup_id(ra, dec)                                                  *)
(*   HTM(depth).intersect(ra, dec, radius, inclusive=)                              *)
(*   HTM(depth).bincount(rmin, rmax, nbin, ra1, dec1, ra2, dec2, scale=,            *)
(*                       htmid2=, htmrev2=, minid=, maxid=)                         *)
(*                                                                                  *)
(* Ids.  An HTM id at depth d is the sequence of its d+2 base-4 digits, leading     *)
(* digit 2 (south) or 3 (north); the parent is the sequence without its last digit. *)
(* No integer above 2^22 is ever formed: the real code's int64 is logged as three   *)
(* limbs <<l1, l2, l3>> = l1*2^44 + l2*2^22 + l3 (each limb = 11 base-4 digits) and  *)
(* the digit string is derived here (HiDigits).  HtmIdsMC checks that the digit     *)
(* view and the numeric view agree: IdValid(id,d) <=> 8*4^d <= id < 16*4^d,          *)
(* parent = id div 4 = prefix.                                                      *)
(*                                                                                  *)
(* Geometry.  The two exact lattices of DESIGN 4.1 (the operators are those of      *)
(* HtmSphere.tla, owned by C12, copied here under the prefix Hi):                   *)
(*   "gc"  all points of a record lie on ONE great circle; a position is <<a,b>> =   *)
(*         a + b*eps degrees of arc, a radius / bin edge is <<a,h>> = a + h*eps/2    *)
(*         (half steps; an odd h never ties with a separation);                     *)
(*   "rs"  rational unit vectors <<x,y,z,d>>, x^2+y^2+z^2 = d^2; a radius / bin     *)
(*         edge is the rational cosine <<p,q>> of the angle.                        *)
(* Which circle, which eps, which depth, which memory layout: chosen by the harness *)
(* and invisible here - the specification says the result does not depend on them.  *)
EXTENDS VU

\* ---- lexicographic pairs ----------------------------------------------------------
HiLt(x, y)  == x[1] < y[1] \/ (x[1] = y[1] /\ x[2] < y[2])
HiCmp(x, y) == IF x[1] = y[1] /\ x[2] = y[2] THEN 0 ELSE IF HiLt(x, y) THEN -1 ELSE 1
HiSign(n)   == IF n = 0 THEN 0 ELSE IF n < 0 THEN -1 ELSE 1

\* ---- great-circle lattice ---------------------------------------------------------
HiGcIsPos(p) == p[1] \in 0..359
\* separation of two positions: <<a, b>> with <<0,0>> <= . <= <<180,0>>
HiGcSep(p, q) ==
    LET d0 == <<p[1] - q[1], p[2] - q[2]>>
        d1 == IF HiLt(d0, <<0, 0>>) THEN <<-d0[1], -d0[2]>> ELSE d0
    IN IF HiLt(<<180, 0>>, d1) THEN <<360 - d1[1], -d1[2]>> ELSE d1
\* m * separation (m a positive integer) against an edge / radius in half steps: -1 / 0 / 1
HiGcEdgeCmp(s, m, e) == HiCmp(<<m * s[1], 2 * m * s[2]>>, e)

\* ---- rational sphere ---------------------------------------------------------------
HiRsIsPoint(p) == p[4] > 0 /\ p[1] * p[1] + p[2] * p[2] + p[3] * p[3] = p[4] * p[4]
HiRsDot(p, q)  == p[1] * q[1] + p[2] * q[2] + p[3] * q[3]
HiRsCos(p, q)  == RNorm(HiRsDot(p, q), p[4] * q[4])
HiRCmp(a, b)   == HiSign(a[1] * b[2] - b[1] * a[2])             \* two rationals, d > 0
\* cos(k*theta) from c = cos(theta), k \in 1..3 (Chebyshev).  Monotone use requires k*theta <= 180
HiCheb(k, c) == IF k = 1 THEN c
                ELSE IF k = 2 THEN RSub(RMul(RInt(2), RSq(c)), RInt(1))
                ELSE RSub(RMul(RInt(4), RMul(c, RSq(c))), RMul(RInt(3), c))
\* k*theta <= 180 degrees, theta given by its cosine
HiChebOK(k, c) == k = 1 \/ (k = 2 /\ RLe(RInt(0), c)) \/ (k = 3 /\ RLe(<<1, 2>>, c))
\* separation(p,q) against k * (the angle whose cosine is e): -1 smaller, 0 equal, 1 larger
HiRsEdgeCmp(p, q, k, e) == HiRCmp(HiCheb(k, e), HiRsCos(p, q))

\* ---- uniform interface ----------------------------------------------------------------
\* separation of p and q, scaled by the multiplier m, against the edge e
\*   gc: m * sep  vs  e           rs: sep  vs  m * angle(e)   (the harness's scale is 1/m there)
HiEdgeCmp(lat, p, q, m, e) ==
    IF lat = "gc" THEN HiGcEdgeCmp(HiGcSep(p, q), m, e) ELSE HiRsEdgeCmp(p, q, m, e)
HiSame(lat, p, q) == IF lat = "gc" THEN HiGcSep(p, q) = <<0, 0>> ELSE HiRCmp(HiRsCos(p, q), <<1, 1>>) = 0

\* =======================================================================================
\* HTM ids
\* =======================================================================================
HiLimbBase == 4194304                                   \* 2^22 = 4^11
RECURSIVE HiDig(_, _)
HiDig(n, k) == IF k = 0 THEN <<>> ELSE HiDig(n \div 4, k - 1) \o <<n % 4>>     \* k base-4 digits of n
RECURSIVE HiStrip(_)
HiStrip(s) == IF s # <<>> /\ Head(s) = 0 THEN HiStrip(Tail(s)) ELSE s
HiLimbsOK(l) == Len(l) = 3 /\ \A k \in 1..3 : l[k] >= 0 /\ l[k] < HiLimbBase
\* canonical digit string of a logged id (<<>> for anything that is not a positive number)
HiDigits(l) == IF ~HiLimbsOK(l) THEN <<>>
               ELSE HiStrip(HiDig(l[1], 11) \o HiDig(l[2], 11) \o HiDig(l[3], 11))

IdValid(id, d)  == Len(id) = d + 2 /\ id[1] \in {2, 3} /\ \A i \in DOMAIN id : id[i] \in 0..3
IdIsChild(c, p) == Len(c) = Len(p) + 1 /\ VIsPrefix(p, c)
IdParent(c)     == SubSeq(c, 1, Len(c) - 1)
IdDepth(id)     == Len(id) - 2

\* the numeric view, on limbs
RECURSIVE HiPow2(_)
HiPow2(n) == IF n = 0 THEN 1 ELSE 2 * HiPow2(n - 1)
HiLimbsOfPow2(p) == [k \in 1..3 |-> IF (3 - k) = p \div 22 THEN HiPow2(p % 22) ELSE 0]
HiLimbLt(a, b) == a[1] < b[1] \/ (a[1] = b[1] /\ (a[2] < b[2] \/ (a[2] = b[2] /\ a[3] < b[3])))
\* 8*4^d <= id < 16*4^d
HiInRange(l, d) == HiLimbsOK(l) /\ ~HiLimbLt(l, HiLimbsOfPow2(2 * d + 3)) /\ HiLimbLt(l, HiLimbsOfPow2(2 * d + 4))
HiDiv4(l) == <<l[1] \div 4, (l[1] % 4) * 1048576 + l[2] \div 4, (l[2] % 4) * 1048576 + l[3] \div 4>>
HiMul4Add(l, x) == <<l[1] * 4 + l[2] \div 1048576, (l[2] % 1048576) * 4 + l[3] \div 1048576, (l[3] % 1048576) * 4 + x>>

\* ---- representations of the arguments ------------------------------------------------------------
\* A call may carry   rep : Seq(<<argument name, representation>>)   - how each array (or scalar) argument was
\* handed over.  The allowed RESULT never depends on it: every representation below carries exactly the same
\* numbers (the harness picks positions that the element type holds exactly).  What may depend on it is only
\* whether the call may be REFUSED with an exception: the statement is silent about 2-d arrays, about reverse
\* indices that are not native int64 arrays, and about non-float scalars for intersect - a clean rejection is
\* accepted there, a wrong result or a crash of the interpreter never is.
\*   layouts   "contig" "strided" (every 2nd element) "recfield12" "recfield20" (field of a packed record: odd
\*             strides, unaligned) "reversed" (negative stride) "twod_row" (1,n) "twod_col" (n,1) "zerod" (n = 1)
\*   types     "be" (non-native byte order) "f4" "i4" "i8" "u8" "list" "tuple" "npscalar" "pyscalar" (n = 1)
\*   scalars   "pyfloat" "npfloat64" "npfloat32" "npint" "longdouble" "zerod" "onearray"  (intersect)
HiRepTwoD   == {"twod_row", "twod_col"}
HiRepRejectablePair(a, x) ==
    \/ x \in HiRepTwoD
    \/ (a = "htmrev2" /\ x \in {"be", "i4", "u8", "list", "tuple"})
    \/ (a \in {"c_ra", "c_dec", "c_radius"} /\ x # "pyfloat")
HiRepRejectable(rp) == \E k \in DOMAIN rp : HiRepRejectablePair(rp[k][1], rp[k][2])
HiRepOf(x) == IF "rep" \in DOMAIN x THEN x.rep ELSE <<>>
\* what an exception / a crash means for a call made with representation rp
HiErrFailing(err, rp) == IF err = "CRASH" THEN {"interpreter_crash"}
                         ELSE IF HiRepRejectable(rp) THEN {} ELSE {"unexpected_error"}

\* ---- lookup_id ---------------------------------------------------------------------------
\* record  [kind |-> "lookup", err : STRING, depths : Seq(Nat) (increasing),
\*          ids : Seq(limbs)  the point's element of an ARRAY call, one per depth,
\*          sids : Seq(limbs) what the SCALAR call returned, one per depth]
LookupFailing(r) ==
    IF r.err # "none" THEN HiErrFailing(r.err, HiRepOf(r))
    ELSE IF Len(r.ids) # Len(r.depths) \/ Len(r.sids) # Len(r.depths) THEN {"result_shape"}
    ELSE LET dg == [k \in DOMAIN r.ids |-> HiDigits(r.ids[k])] IN
         (IF \A k \in DOMAIN dg : IdValid(dg[k], r.depths[k]) THEN {} ELSE {"id_out_of_range"}) \cup
         (IF \A k \in 1..(Len(dg) - 1) : VIsPrefix(dg[k], dg[k + 1]) /\ Len(dg[k + 1]) - Len(dg[k]) = r.depths[k + 1] - r.depths[k]
          THEN {} ELSE {"not_child_of_parent"}) \cup
         (IF \A k \in DOMAIN r.ids : r.sids[k] = r.ids[k] THEN {} ELSE {"scalar_ne_array"})

\* ---- intersect -------------------------------------------------------------------------------
\* record  [kind |-> "cover", lat, err, depth, c : position, rad : radius,
\*          probes : Seq(position),
\*          cid : limbs, pid : Seq(limbs)      lookup_id of the centre / the probes at that depth
\*          listed : BOOLEAN, incl, full : Seq(limbs)   the two returned lists (inclusive=True / False),
\*                                                       written out when short enough
\*          cin : BOOLEAN, pin, pfull : Seq(BOOLEAN)     projection: cid \in incl, pid[k] \in incl / full]
\* Only separations FROM THE CENTRE enter the clauses.  On lattice "gc" the harness therefore also uses "star"
\* records: c = <<0,0>> is ANY sky position (lattice or not) and probe <<a,b>> lies a + b*eps degrees from it
\* along a ray of arbitrary direction (HiGcSep(<<0,0>>, <<a,b>>) is that arc, folded at 180).
\* Optional field  how : Seq("lookup" | "aimed")  per probe.  "aimed" (depths 13..24 only): the harness placed the probe
\* strictly inside the trixel pid[k] - by 0.5 percent of its edge length, using its reconstruction of the mesh, which is
\* validated against lookup_id on every run - and pid[k] is THAT trixel, the one that contains the position geometrically.
\* (At depth >= 20 lookup_id's own edge tolerance, 1e-15 in (v_i x v_j).p, is up to a tenth of a triangle, the scale at
\* which "fully inside" has to be judged there.)  The clauses are the same for both.
\* -1 strictly inside the circle, 0 exactly on it (unconstrained), 1 outside
CoverRC(r, k) == HiEdgeCmp(r.lat, r.c, r.probes[k], 1, r.rad)
HiMember(x, s) == \E t \in DOMAIN s : s[t] = x
\* the projection done by the harness, re-derived here whenever the lists are written out
CoverProjectionOK(r) ==
    r.listed => /\ r.cin = HiMember(r.cid, r.incl)
                /\ \A k \in DOMAIN r.probes : r.pin[k] = HiMember(r.pid[k], r.incl) /\ r.pfull[k] = HiMember(r.pid[k], r.full)
CoverFailing(r) ==
    IF r.err # "none" THEN HiErrFailing(r.err, HiRepOf(r))
    ELSE IF Len(r.pid) # Len(r.probes) \/ Len(r.pin) # Len(r.probes) \/ Len(r.pfull) # Len(r.probes) THEN {"MACHINERY_shape"}
    ELSE IF ~CoverProjectionOK(r) THEN {"MACHINERY_projection"}
    ELSE (IF IdValid(HiDigits(r.cid), r.depth) /\ \A k \in DOMAIN r.pid : IdValid(HiDigits(r.pid[k]), r.depth)
          THEN {} ELSE {"id_out_of_range"}) \cup
         (IF r.cin THEN {} ELSE {"centre_triangle_not_listed"}) \cup
         (IF \A k \in DOMAIN r.probes : CoverRC(r, k) = -1 => r.pin[k] THEN {} ELSE {"inside_position_not_listed"}) \cup
         (IF \A k \in DOMAIN r.probes : r.pfull[k] => CoverRC(r, k) <= 0 THEN {} ELSE {"full_triangle_has_outside_position"})

\* ---- bincount ------------------------------------------------------------------------------------
\* record  [kind |-> "pairs", lat, p1, p2 : Seq(position),
\*          edges : Seq(edge)  nbin+1 strictly increasing bin edges (rmin ... rmax),
\*          scale : <<>> (none) | <<m>> (scalar) | <<m_1..m_N1>> (per point)   small positive integers,
\*          obs : Seq([var : STRING, err : STRING, counts : Seq(Nat)])]
\*          one observation per way of calling (plain, precomputed ids, ids + reverse indices, depth, layout)
\* (one-to-many "star" records: p1 = << <<0,0>> >> is any sky position, p2[j] the arc from it along some ray)
PN1(r) == Len(r.p1)
PN2(r) == Len(r.p2)
PNBin(r) == Len(r.edges) - 1
PMult(r, i) == IF r.scale = <<>> THEN 1 ELSE IF Len(r.scale) = 1 THEN r.scale[1] ELSE r.scale[i]
PEdgeCmp(r, i, j, k) == HiEdgeCmp(r.lat, r.p1[i], r.p2[j], PMult(r, i), r.edges[k])
\* number of edges at or below the separation, and whether it sits exactly on one
PNle(r, i, j)  == Cardinality({k \in DOMAIN r.edges : PEdgeCmp(r, i, j, k) >= 0})
PTie(r, i, j)  == \E k \in DOMAIN r.edges : PEdgeCmp(r, i, j, k) = 0
\* the 0-based bins the pair may be counted in; -1 and nbin stand for "in no bin".
\* A pair exactly on an edge may fall on either side of it (DESIGN 4.3).
PBins(r, i, j) == LET n == PNle(r, i, j) IN IF PTie(r, i, j) THEN {n - 2, n - 1} ELSE {n - 1}
PPairs(r) == (1..PN1(r)) \X (1..PN2(r))
PMust(r, b) == Cardinality({pr \in PPairs(r) : PBins(r, pr[1], pr[2]) = {b}})
PMay(r, b)  == Cardinality({pr \in PPairs(r) : b \in PBins(r, pr[1], pr[2])})
\* pairs closer than rmin that are not the same position (for naming a failure only)
PBelow(r)   == {pr \in PPairs(r) : PBins(r, pr[1], pr[2]) = {-1} /\ ~HiSame(r.lat, r.p1[pr[1]], r.p2[pr[2]])}

PEdgesOK(r) == /\ Len(r.edges) >= 2
               /\ Len(r.scale) \in {0, 1, PN1(r)}
               /\ \A s \in DOMAIN r.scale : r.scale[s] \in 1..9
               /\ IF r.lat = "gc"
                  THEN \A k \in 1..(Len(r.edges) - 1) : HiLt(r.edges[k], r.edges[k + 1])
                  ELSE /\ \A k \in 1..(Len(r.edges) - 1) : HiRCmp(r.edges[k + 1], r.edges[k]) < 0      \* cosines decrease
                       /\ \A s \in DOMAIN r.scale : HiChebOK(r.scale[s], r.edges[Len(r.edges)])

\* the allowed bins of every pair, the least and the largest admissible count of every bin: evaluated once per record
PBinTable(r) == [pr \in PPairs(r) |-> PBins(r, pr[1], pr[2])]
PMustOf(r, t) == [b \in 0..(PNBin(r) - 1) |-> Cardinality({pr \in DOMAIN t : t[pr] = {b}})]
PMayOf(r, t)  == [b \in 0..(PNBin(r) - 1) |-> Cardinality({pr \in DOMAIN t : b \in t[pr]})]
PBelowOf(r, t) == \E pr \in DOMAIN t : t[pr] = {-1} /\ ~HiSame(r.lat, r.p1[pr[1]], r.p2[pr[2]])

PObsFailingT(r, o, must, may, below) ==
    IF o.err # "none" THEN HiErrFailing(o.err, HiRepOf(o))
    ELSE IF Len(o.counts) # PNBin(r) THEN {"counts_length"}
    ELSE LET low  == {b \in 0..(PNBin(r) - 1) : o.counts[b + 1] < must[b]}
             high == {b \in 0..(PNBin(r) - 1) : o.counts[b + 1] > may[b]}
         IN (IF low = {} THEN {} ELSE {"pairs_missing"}) \cup
            (IF 0 \in high THEN {IF below THEN "extra_in_first_bin_with_pairs_below_rmin" ELSE "extra_in_first_bin"} ELSE {}) \cup
            (IF high \ {0} # {} THEN {"extra_in_later_bin"} ELSE {})
PObsFailing(r, o) == LET t == PBinTable(r) IN PObsFailingT(r, o, PMustOf(r, t), PMayOf(r, t), PBelowOf(r, t))

PairFailing(r) ==
    IF ~PEdgesOK(r) THEN {"MACHINERY_malformed_case"}
    ELSE LET t     == PBinTable(r)
             must  == PMustOf(r, t)
             may   == PMayOf(r, t)
             below == PBelowOf(r, t)
         IN UNION {PObsFailingT(r, r.obs[n], must, may, below) : n \in DOMAIN r.obs} \cup
            (IF \A n, m \in DOMAIN r.obs : (r.obs[n].err = "none" /\ r.obs[m].err = "none") => r.obs[n].counts = r.obs[m].counts
             THEN {} ELSE {"ways_of_calling_differ"})

\* the brute-force count when nothing is ambiguous
PUnambiguous(r) == \A pr \in PPairs(r) : ~PTie(r, pr[1], pr[2])
PRefCounts(r) == [b \in 1..PNBin(r) |-> PMust(r, b - 1)]

\* ---- the additivity law and first lists beyond what can be enumerated ------------------------------------------
\* Pair counts are additive in the first list: counting for p1 = a \o b is counting for a plus counting for b, each
\* with its own slice of a per-point scale (a scalar scale or none goes with both).  HtmIdsMC checks the law on the
\* small scope (PairAdditive, ScaleLaw); it makes a first list of 10^5 .. 10^6 points decidable from small ones.
PScaleSlice(sc, a, b) == IF Len(sc) <= 1 THEN sc ELSE SubSeq(sc, a, b)
PPart(r, a, b) == [r EXCEPT !.p1 = SubSeq(r.p1, a, b), !.scale = PScaleSlice(r.scale, a, b)]
PAdditiveAt(r, k) ==                   \* split after the k-th first-set point
    LET t == PBinTable(r)  ta == PBinTable(PPart(r, 1, k))  tb == PBinTable(PPart(r, k + 1, PN1(r))) IN
    \A b \in 0..(PNBin(r) - 1) :
        /\ PMustOf(r, t)[b] = PMustOf(PPart(r, 1, k), ta)[b] + PMustOf(PPart(r, k + 1, PN1(r)), tb)[b]
        /\ PMayOf(r, t)[b]  = PMayOf(PPart(r, 1, k), ta)[b]  + PMayOf(PPart(r, k + 1, PN1(r)), tb)[b]
\* record  [kind |-> "scale", lat, p1 (the UNIT: a small first list), p2, edges, scale (none | scalar | per point of the unit),
\*          n, tiles, rem : the executed first list is `tiles` copies of the unit followed by its first `rem` points (n points,
\*          the per-point scale tiled alike), uobs, robs, bobs : [err, counts] of the SAME implementation on the unit, on the
\*          first rem points of the unit, and on the n points]
\* The parts are judged by brute force; the big call is judged through the law: counts = tiles * unit + remainder.
ScaleFailing(r) ==
    LET m    == Len(r.p1)
        unit == [kind |-> "pairs", lat |-> r.lat, p1 |-> r.p1, p2 |-> r.p2, edges |-> r.edges, scale |-> r.scale, obs |-> <<r.uobs>>]
        remr == [kind |-> "pairs", lat |-> r.lat, p1 |-> SubSeq(r.p1, 1, r.rem), p2 |-> r.p2, edges |-> r.edges,
                 scale |-> PScaleSlice(r.scale, 1, r.rem), obs |-> <<r.robs>>]
    IN IF r.n # r.tiles * m + r.rem \/ r.rem >= m \/ r.rem < 0 THEN {"MACHINERY_malformed_case"}
       ELSE {"part_" \o f : f \in PairFailing(unit)} \cup
            (IF r.rem > 0 THEN {"part_" \o f : f \in PairFailing(remr)} ELSE {}) \cup
            (IF r.bobs.err # "none" THEN {"unexpected_error"}
             ELSE IF r.uobs.err # "none" \/ (r.rem > 0 /\ r.robs.err # "none") THEN {}
             ELSE IF Len(r.bobs.counts) # PNBin(unit) \/ Len(r.uobs.counts) # PNBin(unit) \/ (r.rem > 0 /\ Len(r.robs.counts) # PNBin(unit))
                  THEN {"counts_length"}
             ELSE IF \A b \in 1..PNBin(unit) :
                        r.bobs.counts[b] = r.tiles * r.uobs.counts[b] + (IF r.rem > 0 THEN r.robs.counts[b] ELSE 0)
                  THEN {} ELSE {"large_first_list_not_sum_of_parts"})

\* ---- histories on one HTM object ------------------------------------------------------------------------
\* record  [kind |-> "history", lat, calls : Seq([p1, p2, edges, scale, obs])]
\* The calls were made in this order on ONE HTM object, the caller re-using the same array objects (ra1, dec1,
\* ra2, dec2, scale, htmid2) with their contents overwritten in place between calls.  The object has no
\* abstract state: every call is judged by the brute-force clause on ITS OWN contents; a clause failing in a
\* call after the first overwrite is reported as "after_overwrite_<clause>".
HistCall(r, n) == [kind |-> "pairs", lat |-> r.lat, p1 |-> r.calls[n].p1, p2 |-> r.calls[n].p2,
                   edges |-> r.calls[n].edges, scale |-> r.calls[n].scale, obs |-> r.calls[n].obs]
HistoryFailing(r) ==
    UNION {{IF n = 1 \/ f = "MACHINERY_malformed_case" THEN f ELSE "after_overwrite_" \o f : f \in PairFailing(HistCall(r, n))}
           : n \in DOMAIN r.calls}

\* ---- sessions over several HTM objects in one process (world machine: HtmIdsWorldMC.tla) ---------------------
\* record  [kind |-> "world", depths : Seq(Nat)  the depth of every live HTM object,
\*          calls : Seq([op : "lookup" | "intersect" | "scribble", obj, pos, mode, target,
\*                       err, id : limbs          what the call returned IN THE SESSION (lookup: the id; else <<0,0,0>>),
\*                       dig : Seq(Int)           digest of the returned list (intersect: length, min, max, sum as limbs),
\*                       ferr, fid, fdig          the same call, same arguments, as the ONLY call of a fresh process])]
\* The steps were executed in this order in ONE process, all objects alive; "scribble" = the caller overwrote the array
\* it was handed by step `target`.  Neither the objects nor the process have abstract state: every lookup is judged by
\* the id clauses for the depth of ITS object, all lookups of one position agree across objects / entry forms, and every
\* call equals the same call in a fresh world.
WorldFailing(r) ==
    LET C      == {n \in DOMAIN r.calls : r.calls[n].op # "scribble"}
        L      == {n \in C : r.calls[n].op = "lookup" /\ r.calls[n].err = "none"}
        dep(n) == r.depths[r.calls[n].obj]
        dgs    == [n \in DOMAIN r.calls |-> HiDigits(r.calls[n].id)]
    IN (IF \E n \in C : r.calls[n].err # "none" THEN {"session_unexpected_error"} ELSE {}) \cup
       (IF \A n \in L : IdValid(dgs[n], dep(n)) THEN {} ELSE {"session_id_out_of_range_for_its_depth"}) \cup
       (IF \A n, m \in L : (r.calls[n].pos = r.calls[m].pos /\ dep(n) < dep(m)) =>
                               (VIsPrefix(dgs[n], dgs[m]) /\ Len(dgs[m]) - Len(dgs[n]) = dep(m) - dep(n))
        THEN {} ELSE {"session_not_descendant_across_objects"}) \cup
       (IF \A n, m \in L : (r.calls[n].pos = r.calls[m].pos /\ dep(n) = dep(m)) => r.calls[n].id = r.calls[m].id
        THEN {} ELSE {"session_scalar_ne_array"}) \cup
       (IF \A n \in C : (r.calls[n].err = "none" /\ r.calls[n].ferr = "none") =>
                            (r.calls[n].id = r.calls[n].fid /\ r.calls[n].dig = r.calls[n].fdig)
        THEN {} ELSE {"session_differs_from_fresh_world"})

\* ---- dispatch ---------------------------------------------------------------------------------------
Failing(r) == IF r.kind = "lookup" THEN LookupFailing(r)
              ELSE IF r.kind = "cover" THEN CoverFailing(r)
              ELSE IF r.kind = "pairs" THEN PairFailing(r)
              ELSE IF r.kind = "history" THEN HistoryFailing(r)
              ELSE IF r.kind = "scale" THEN ScaleFailing(r)
              ELSE IF r.kind = "world" THEN WorldFailing(r)
              ELSE {"MACHINERY_unknown_kind"}
=============================================================================
