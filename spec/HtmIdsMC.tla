------------------------------- MODULE HtmIdsMC -------------------------------
(* Small-scope models for property C13, three parts selected by the constant Part:  *)
(*                                                                                  *)
(* "ids"    id arithmetic as a descent machine  Root ; Descend*  (one digit per      *)
(*          level, depth 0..MaxDepth = 20; every digit up to FullDepth, one child    *)
(*          per level below).  Three views of the same id are carried along: the     *)
(*          digit string dg (the path of triangles), the number lm on three 22-bit   *)
(*          limbs (lm' = 4*lm + digit, what "child" means numerically) and the name   *)
(*          nm the code builds level by level (SpatialIndex::idByPoint appends one   *)
(*          character per level, idByName turns it into the number).  IdsTheorems:   *)
(*          IdValid(dg,d) <=> 8*4^d <= lm < 16*4^d for exactly that d, the digits     *)
(*          decoded from the limbs (what HtmIdsTrace does with a logged id) are dg,   *)
(*          parent = lm div 4 = dg without its last digit.  IdsMechRefines: the id    *)
(*          built from the name is the leaf reached.  Deviation "miss_level" (no      *)
(*          child accepts the point, the loop goes on without appending) is the       *)
(*          self-test: it yields an id of a shallower depth.                          *)
(*                                                                                  *)
(* "cover"  (a) an implementation-shaped model of the recursive circle/triangle      *)
(*          classification (SpatialConvex::testNode: count the corners inside; all    *)
(*          inside -> full unless the circle's complement reaches into the cell, none *)
(*          inside -> rejected unless the circle reaches into the cell, else partial; *)
(*          partial cells are split down to the leaves, full cells contribute all     *)
(*          their leaves) on a ring of 4^(Levels+1) leaf cells of two positions each, *)
(*          for every centre and every radius; CoverMechRefines = the three clauses   *)
(*          of the property.  Deviations "no_inner_test" / "no_hole_test" drop the     *)
(*          two subtle branches (self-tests: each violates one clause).               *)
(*          (b) enumeration of (centre, radius, probes) on the real lattices for      *)
(*          export; CoverCaseSane is the vacuity guard of the catalogue.              *)
(*                                                                                  *)
(* "pairs"  every pair-count problem of the scope: p2 ; p1 (or p1 = p2) ; bins ;      *)
(*          scale ; then an implementation-shaped model of HTMC::cbincount run per    *)
(*          first-set point (MechStep): leaves from a circle cover of the largest      *)
(*          angle (any superset of the leaves of the positions inside - the cover     *)
(*          clause above), restricted to [minid, maxid], their members from the       *)
(*          reverse indices of the histogram of the ids (Hist.tla's reference          *)
(*          Members), distance filter dis <= maxangle, bin = floor of the logarithmic  *)
(*          index.  PairMechRefines: the counts are accepted by the property-level    *)
(*          PairFailing of HtmIds.tla (= brute force over all pairs).  Deviations      *)
(*          "trunc_toward_zero" ((int) cast instead of floor: a pair less than one     *)
(*          bin width below rmin lands in bin 0), "lossy_cover", "maxid_exclusive"     *)
(*          are self-tests.  Cases are exported and replayed into the real code.      *)
(*                                                                                  *)
(* "big"    first lists of 10^5 .. 10^6 points as tilings of a small unit; the additivity   *)
(*          law (PairAdditive, ScaleLaw) makes them decidable from the parts.          *)
(*                                                                                  *)
(* "reps"   the representation of every array / scalar argument, independently per   *)
(*          argument, as a covering design (ChooseRep); exported and replayed.        *)
(*                                                                                  *)
(* "hist"   the HTM object with the caller's buffers as a state machine: histories   *)
(*          (Overwrite ; Bincount)* on ONE object re-using the SAME coordinate        *)
(*          buffers with their contents replaced in place.  The object has no         *)
(*          abstract state; HistMechRefines: every call of every history equals the    *)
(*          brute force on the contents at the time of the call.  Deviation            *)
(*          "stale_cache" (reverse indices kept per buffer identity) is the self-test. *)
(*          Histories are exported and replayed call by call into one real object.    *)
EXTENDS HtmIds, Json
H == INSTANCE Hist

CONSTANTS Part,        \* "ids" | "cover" | "pairs"
          Lat,         \* "gc" | "rs"   (lattice of the exported cover / pairs cases)
          Scope,       \* "q" | "t"     (catalogue size)
          FullDepth,   \* ids: all four digits down to this depth ...
          MaxDepth,    \* ... one per level down to this one
          Levels,      \* cover mechanism: ring of 4^(Levels+1) leaves
          MaxN1,       \* pairs: first sets of 1..MaxN1 points (plus p1 = p2)
          MaxN2,       \* pairs: second sets of 1..MaxN2 points
          Deviation,   \* "none" | "miss_level" | "no_inner_test" | "no_hole_test" |
                       \* "trunc_toward_zero" | "lossy_cover" | "maxid_exclusive" | "stale_cache"
          DoExport

VARIABLES phase,
          dg, lm, nm,                  \* ids
          cc, work, fullL, partL,      \* cover
          pc, mech,                    \* pairs
          hcalls, hcache,              \* hist
          rp                           \* reps
vars == <<phase, dg, lm, nm, cc, work, fullL, partL, pc, mech, hcalls, hcache, rp>>
idsVars   == <<dg, lm, nm, rp>>
coverVars == <<cc, work, fullL, partL>>
pairVars  == <<pc, mech, hcalls, hcache>>
NoCache   == [valid |-> FALSE, lf |-> <<>>]

\* =========================================================================================
\* catalogues (the positions and radii are those of HtmMatchMC, so that C12 and C13 walk the
\* same point sets)
GcPosQ == {<<0, 0>>, <<0, 1>>, <<0, -1>>, <<90, 0>>, <<180, 1>>}
GcPosT == GcPosQ \cup {<<0, 2>>, <<90, -1>>, <<270, 0>>, <<45, 0>>}
GcPosC == {<<a, b>> : a \in {0, 1, 45, 89, 90, 91, 179, 180, 181, 270, 359}, b \in -2..2}     \* cover probes
GcRadQ == {<<0, 1>>, <<0, 3>>, <<0, 5>>, <<1, -1>>, <<45, 1>>, <<90, -1>>, <<90, 1>>, <<135, -1>>, <<179, 1>>}
GcRadT == GcRadQ \cup {<<0, 7>>, <<1, 1>>, <<2, 1>>, <<44, 1>>, <<89, 1>>, <<90, -3>>, <<10, 3>>, <<30, -3>>, <<91, 1>>, <<100, 3>>, <<120, -1>>, <<150, 1>>, <<170, -3>>, <<179, 3>>}

RsPosQ == {<<1, 0, 0, 1>>, <<0, 0, 1, 1>>, <<3, 4, 0, 5>>, <<2, -1, 2, 3>>, <<-1, 0, 0, 1>>}
RsPosT == RsPosQ \cup {<<0, 0, -1, 1>>, <<4, 3, 0, 5>>, <<0, 1, 0, 1>>, <<2, 3, 6, 7>>}
RsPosC == RsPosT \cup {<<1, 2, 2, 3>>, <<2, 2, 1, 3>>, <<-2, -2, -1, 3>>, <<0, -3, 4, 5>>, <<6, 2, -3, 7>>,
                       <<1, 4, 8, 9>>, <<-4, 4, 7, 9>>, <<2, 6, 9, 11>>, <<6, -6, 7, 11>>, <<3, 4, 12, 13>>,
                       <<2, 10, 11, 15>>, <<-10, 10, 5, 15>>, <<2, 5, -14, 15>>, <<0, -1, 0, 1>>, <<-3, -4, 0, 5>>,
                       <<12, 0, 5, 13>>, <<0, 5, -12, 13>>, <<14, 2, 5, 15>>}
\* radii as cosines: 224/225 (5.4), 24/25 (16.3), 4/5 (36.9), 3/5 (53.1), 1/2 (60), 0 (90), -1/2 (120), -4/5 (143.1),
\* -24/25 (163.7) degrees: the statement puts no upper bound on the radius, (90, 180) is the negative-cosine regime
RsRadQ == {<<24, 25>>, <<4, 5>>, <<1, 2>>, <<0, 1>>, <<-1, 2>>, <<-4, 5>>}
RsRadT == RsRadQ \cup {<<224, 225>>, <<3, 5>>, <<2, 3>>, <<8, 9>>, <<12, 13>>, <<1, 3>>, <<99, 100>>,
                       <<-1, 5>>, <<-3, 5>>, <<-24, 25>>, <<-12, 13>>, <<-99, 100>>}

Pos   == IF Lat = "gc" THEN (IF Scope = "q" THEN GcPosQ ELSE GcPosT) ELSE (IF Scope = "q" THEN RsPosQ ELSE RsPosT)
Radii == IF Lat = "gc" THEN (IF Scope = "q" THEN GcRadQ ELSE GcRadT) ELSE (IF Scope = "q" THEN RsRadQ ELSE RsRadT)
ASSUME Lat = "rs" => \A p \in RsPosC : HiRsIsPoint(p)
ASSUME Lat = "gc" => \A p \in GcPosC : HiGcIsPos(p)

\* pair-count bins.  gc: <<below, rho, nbin>> stands for the edges below*rho^k, k = 1..nbin+1 (all exact:
\* rmin = below*rho, rmax = below*rho^(nbin+1), logarithmic spacing); `below` itself is one bin width
\* under rmin.  An odd half-step count times an odd rho stays odd: such edges never tie.
RECURSIVE IPow(_, _)
IPow(b, k) == IF k = 0 THEN 1 ELSE b * IPow(b, k - 1)
GcEdges(bs) == [k \in 1..(bs[3] + 1) |-> <<bs[1][1] * IPow(bs[2], k), bs[1][2] * IPow(bs[2], k)>>]
GcBinsQ == {<<<<0, 1>>, 3, 2>>, <<<<0, 3>>, 2, 2>>, <<<<10, 1>>, 3, 1>>, <<<<20, -1>>, 3, 1>>}
GcBinsT == GcBinsQ \cup {<<<<0, 1>>, 3, 4>>, <<<<0, 1>>, 5, 1>>, <<<<1, 1>>, 3, 3>>, <<<<5, 1>>, 2, 4>>, <<<<45, -1>>, 2, 1>>}
\* rs: one logarithmic bin between two angles with rational cosines
RsBinsQ == {<<<<4, 5>>, <<0, 1>>>>, <<<<24, 25>>, <<3, 5>>>>, <<<<1, 2>>, <<-1, 2>>>>, <<<<0, 1>>, <<-1, 1>>>>}
RsBinsT == RsBinsQ \cup {<<<<224, 225>>, <<4, 5>>>>, <<<<3, 5>>, <<-4, 5>>>>, <<<<24, 25>>, <<1, 2>>>>, <<<<12, 13>>, <<0, 1>>>>}
NoBelow == <<-1, 0>>
BinChoices ==
    IF Lat = "gc" THEN {[edges |-> GcEdges(bs), below |-> bs[1]] : bs \in (IF Scope = "q" THEN GcBinsQ ELSE GcBinsT)}
    ELSE {[edges |-> bs, below |-> NoBelow] : bs \in (IF Scope = "q" THEN RsBinsQ ELSE RsBinsT)}
ASSUME Lat = "gc" => \A bc \in BinChoices : HiCmp(bc.edges[Len(bc.edges)], <<180, 0>>) <= 0
Mults == IF Scope = "q" THEN {1, 2} ELSE {1, 2, 3}
ScaleChoices(n, edges) ==
    LET ok(m) == Lat = "gc" \/ (HiChebOK(m, edges[Len(edges)])
                                 /\ (m = 3 => \A k \in DOMAIN edges : edges[k][2] <= 25))     \* 32-bit arithmetic of cos(3x)
        ms    == {m \in Mults : ok(m)}
    IN {<<>>} \cup {<<m>> : m \in ms} \cup
       (IF n >= 2 THEN {[i \in 1..n |-> IF i % 2 = 1 THEN a ELSE b] : a \in ms, b \in ms \ {1}} ELSE {})

\* =========================================================================================
NoCircle == [c |-> <<>>, r2 |-> 0]
NoPairs  == [p2 |-> <<>>, p1 |-> <<>>, edges |-> <<>>, below |-> NoBelow, scale |-> <<>>]
NoMech   == [i |-> 0, counts |-> <<>>]

Init == /\ phase = Part
        /\ dg = <<>> /\ lm = <<0, 0, 0>> /\ nm = <<>>
        /\ cc = NoCircle /\ work = <<>> /\ fullL = {} /\ partL = {}
        /\ pc = NoPairs /\ mech = NoMech /\ hcalls = <<>> /\ hcache = NoCache /\ rp = <<>>

\* =========================================================================================
\* Part "ids"
BuildLevel == 2                                   \* levels kept in memory by the code; names are built below
NextDigits == IF Len(dg) - 2 < FullDepth THEN 0..3 ELSE {(dg[Len(dg)] + dg[3] + 1) % 4}
Miss(x) == Deviation = "miss_level" /\ x = 3 /\ Len(dg) - 2 >= BuildLevel

IdsRoot == /\ phase = "ids" /\ dg = <<>>
           /\ \E h \in {2, 3} : \E q \in 0..3 : dg' = <<h, q>> /\ lm' = <<0, 0, 4 * h + q>> /\ nm' = <<h, q>>
           /\ UNCHANGED <<phase, rp, coverVars, pairVars>>
IdsDescend == /\ phase = "ids" /\ Len(dg) >= 2 /\ Len(dg) - 2 < MaxDepth
              /\ \E x \in NextDigits : /\ dg' = Append(dg, x)
                                       /\ lm' = HiMul4Add(lm, x)
                                       /\ nm' = IF Miss(x) THEN nm ELSE Append(nm, x)
              /\ UNCHANGED <<phase, rp, coverVars, pairVars>>

\* idByName: the leading character sets the two top bits, every further character two more bits
RECURSIVE NameValue(_)
NameValue(s) == IF s = <<>> THEN <<0, 0, 0>> ELSE HiMul4Add(NameValue(SubSeq(s, 1, Len(s) - 1)), s[Len(s)])

IdsTheorems == (phase = "ids" /\ Len(dg) >= 2) =>
    LET d == Len(dg) - 2 IN
    /\ IdValid(dg, d)
    /\ HiInRange(lm, d)
    /\ \A e \in 0..MaxDepth : HiInRange(lm, e) <=> e = d
    /\ \A e \in 0..MaxDepth : IdValid(dg, e) <=> e = d
    /\ HiDigits(lm) = dg
    /\ d >= 1 => /\ HiDigits(HiDiv4(lm)) = IdParent(dg)
                 /\ IdIsChild(dg, HiDigits(HiDiv4(lm)))
                 /\ HiInRange(HiDiv4(lm), d - 1)
\* the converse on plain integers: a number is in the range of depth d iff its digit string is valid for d
IdsSmall == (phase = "ids" /\ dg = <<>>) =>
    \A n \in 0..4200 : \A d \in 0..4 :
        IdValid(HiDigits(<<0, 0, n>>), d) <=> (8 * IPow(4, d) <= n /\ n < 16 * IPow(4, d))
IdsMechRefines == (phase = "ids" /\ Len(dg) >= 2) =>
    /\ HiDigits(NameValue(nm)) = dg
    /\ IdValid(HiDigits(NameValue(nm)), Len(dg) - 2)

\* =========================================================================================
\* Part "cover" (a): the classification recursion on a ring
NLeaf == IPow(4, Levels + 1)
RingN == 2 * NLeaf
CellWidth(level) == RingN \div IPow(4, level + 1)
CellPos(cell) == LET w == CellWidth(cell[1]) IN (cell[2] * w)..(cell[2] * w + w - 1)
RingDist(p, c) == LET d == VAbs(p - c) IN VMin2(d, RingN - d)
RInside(p) == 2 * RingDist(p, cc.c) < cc.r2                 \* r2 odd: never a tie
LeafOf(p) == <<Levels, p \div 2>>
Children(cell) == [k \in 1..4 |-> <<cell[1] + 1, 4 * cell[2] + k - 1>>]
LeavesUnder(cell) == {<<Levels, q>> : q \in (cell[2] * IPow(4, Levels - cell[1]))..((cell[2] + 1) * IPow(4, Levels - cell[1]) - 1)}

Classify(cell) ==
    LET S   == CellPos(cell)
        lo  == VSetMin(S)
        hi  == VSetMax(S)
        nin == (IF RInside(lo) THEN 1 ELSE 0) + (IF RInside(hi) THEN 1 ELSE 0)
    IN IF nin = 2 THEN (IF Deviation = "no_hole_test" \/ \A p \in S : RInside(p) THEN "full" ELSE "partial")
       ELSE IF nin = 1 THEN "partial"
       ELSE (IF Deviation # "no_inner_test" /\ \E p \in S : RInside(p) THEN "partial" ELSE "out")

CoverChoose == /\ phase = "cover" /\ Deviation \in {"none", "no_inner_test", "no_hole_test"}
               /\ \E c \in 0..(RingN - 1) : \E h \in 0..NLeaf : cc' = [c |-> c, r2 |-> 2 * h + 1]
               /\ work' = [k \in 1..4 |-> <<0, k - 1>>]
               /\ phase' = "coverrun" /\ UNCHANGED <<fullL, partL, idsVars, pairVars>>
CoverStep == /\ phase = "coverrun" /\ work # <<>>
             /\ LET cell == Head(work)  cls == Classify(cell) IN
                /\ fullL' = IF cls = "full" THEN fullL \cup LeavesUnder(cell) ELSE fullL
                /\ partL' = IF cls = "partial" /\ cell[1] = Levels THEN partL \cup {cell} ELSE partL
                /\ work'  = IF cls = "partial" /\ cell[1] < Levels THEN Children(cell) \o Tail(work) ELSE Tail(work)
             /\ UNCHANGED <<phase, cc, idsVars, pairVars>>
CoverDone == /\ phase = "coverrun" /\ work = <<>>
             /\ phase' = "coverdone" /\ UNCHANGED <<coverVars, idsVars, pairVars>>

CoverMechRefines == phase = "coverdone" =>
    /\ \A p \in 0..(RingN - 1) : RInside(p) => LeafOf(p) \in fullL \cup partL        \* every inside position's triangle listed
    /\ LeafOf(cc.c) \in fullL \cup partL                                              \* hence the centre's
    /\ \A p \in 0..(RingN - 1) : LeafOf(p) \in fullL => RInside(p)                    \* full triangles hold only inside positions

\* Part "cover" (b): circles on the real lattices, for export
CoverCentres == IF Lat = "gc" THEN (IF Scope = "q" THEN GcPosT ELSE GcPosC) ELSE (IF Scope = "q" THEN RsPosT ELSE RsPosC)
\* probes: the whole catalogue, and on the great circle also the lattice positions next to the boundary
BoundaryNbrs(c, r) ==
    {<<(c[1] + s * r[1] + 720) % 360, c[2] + s * ((r[2] + t) \div 2)>> : s \in {-1, 1}, t \in {-3, -1, 1, 3}}
ProbeSet(c, r) == IF Lat = "gc" THEN GcPosC \cup (IF r[2] % 2 = 1 THEN BoundaryNbrs(c, r) ELSE {}) ELSE RsPosC
RECURSIVE SetToSeq(_)
SetToSeq(S) == IF S = {} THEN <<>> ELSE LET x == CHOOSE y \in S : TRUE IN <<x>> \o SetToSeq(S \ {x})
CoverCase == /\ phase = "cover" /\ Deviation = "none"
             /\ \E c \in CoverCentres : \E r \in Radii : cc' = [c |-> c, r2 |-> r]
             /\ phase' = "covercase" /\ UNCHANGED <<work, fullL, partL, idsVars, pairVars>>
CaseRC(p) == HiEdgeCmp(Lat, cc.c, p, 1, cc.r2)
CoverCaseSane == phase = "covercase" =>
    /\ CaseRC(cc.c) = -1                                                        \* the centre is inside its circle
    /\ (Lat = "gc" \/ HiRCmp(cc.r2, <<0, 1>>) >= 0) =>
          \E p \in ProbeSet(cc.c, cc.r2) : CaseRC(p) = 1                        \* some probe is outside (radius <= 90 on rs)
    /\ (Lat = "gc" /\ HiLt(<<0, 2>>, cc.r2)) =>                                  \* and (radius above one step) another one inside
          \E p \in ProbeSet(cc.c, cc.r2) : CaseRC(p) = -1 /\ ~HiSame(Lat, p, cc.c)

\* =========================================================================================
\* Part "pairs"
SeqsUpTo(S, n) == UNION {[1..k -> S] : k \in 1..n}
ChooseP2 == /\ phase = "pairs"
            /\ \E s \in SeqsUpTo(Pos, MaxN2) : pc' = [pc EXCEPT !.p2 = s]
            /\ phase' = "p1" /\ UNCHANGED <<mech, hcalls, hcache, idsVars, coverVars>>
ChooseP1 == /\ phase = "p1"
            /\ \E s \in SeqsUpTo(Pos, MaxN1) \cup {pc.p2} : pc' = [pc EXCEPT !.p1 = s]
            /\ phase' = "bins" /\ UNCHANGED <<mech, hcalls, hcache, idsVars, coverVars>>
ChooseBins == /\ phase = "bins"
              /\ \E bc \in BinChoices : pc' = [pc EXCEPT !.edges = bc.edges, !.below = bc.below]
              /\ phase' = "scale" /\ UNCHANGED <<mech, hcalls, hcache, idsVars, coverVars>>
ChooseScale(runmech) ==
    /\ phase = "scale"
    /\ \E sc \in ScaleChoices(Len(pc.p1), pc.edges) : pc' = [pc EXCEPT !.scale = sc]
    /\ IF runmech THEN phase' = "mech" /\ mech' = [i |-> 1, counts |-> [b \in 1..(Len(pc.edges) - 1) |-> 0]]
       ELSE phase' = "case" /\ mech' = NoMech
    /\ UNCHANGED <<hcalls, hcache, idsVars, coverVars>>

PRec == [kind |-> "pairs", lat |-> Lat, p1 |-> pc.p1, p2 |-> pc.p2, edges |-> pc.edges, scale |-> pc.scale, obs |-> <<>>]

\* ---- implementation-shaped model of HTMC::cbincount for one first-set point ------------------
\* an abstract leaf triangle per position: positions a few eps apart share one (gc); one per octant (rs)
Leaf(p) == IF Lat = "gc" THEN 1000 + p[1]
           ELSE 8 + (IF p[1] < 0 THEN 1 ELSE 0) + (IF p[2] < 0 THEN 2 ELSE 0) + (IF p[3] < 0 THEN 4 ELSE 0)
Leaf2(r)  == IF "lf" \in DOMAIN r THEN r.lf ELSE [j \in 1..PN2(r) |-> Leaf(r.p2[j])]     \* r.lf: ids the object kept from an earlier call
MinId(r)  == VSeqMin(Leaf2(r))
MaxId(r)  == VSeqMax(Leaf2(r))
\* stat.histogram(htmid2 - minid, rev=True): the members of leaf bin k, per the reference semantics of Hist.tla
HCase(r)  == [x |-> Leaf2(r), mode |-> "binsize", b |-> 1, hasmin |-> FALSE, min |-> 0, hasmax |-> FALSE, max |-> 0]
RevSlice(r, k) == H!Members(HCase(r), k)
\* the circle of the largest angle around p1[i]: -1 inside, 0 on it, 1 outside
MaxCmp(r, i, j) == PEdgeCmp(r, i, j, Len(r.edges))
NeededLeaves(r, i) == {Leaf(r.p2[j]) : j \in {h \in 1..PN2(r) : MaxCmp(r, i, h) = -1}}
Covers(r, i) ==
    IF Deviation = "lossy_cover" /\ NeededLeaves(r, i) # {}
    THEN {NeededLeaves(r, i) \ {VSetMax(NeededLeaves(r, i))}}
    ELSE {NeededLeaves(r, i), NeededLeaves(r, i) \cup VRange(Leaf2(r))}   \* any superset will do: the two extremes
InIdRange(r, leaf) == leaf >= MinId(r) /\ (IF Deviation = "maxid_exclusive" THEN leaf < MaxId(r) ELSE leaf <= MaxId(r))
Candidates(r, cover) ==
    LET RECURSIVE go(_)
        go(S) == IF S = {} THEN <<>>
                 ELSE LET m == VSetMin(S) IN RevSlice(r, m - MinId(r)) \o go(S \ {m})
    IN go({leaf \in cover : InIdRange(r, leaf)})
\* the bins the code can put pair (i,j) into; -1 = none.  floor((logr - logrmin)/binsize); with the (int) cast
\* every index in (-1, 0) becomes 0 as well
MechBins(r, i, j) ==
    LET keep == IF MaxCmp(r, i, j) = -1 THEN {TRUE} ELSE IF MaxCmp(r, i, j) = 0 THEN {TRUE, FALSE} ELSE {FALSE}
        inb  == {b \in PBins(r, i, j) : b >= 0 /\ b < PNBin(r)}
        trunc == Deviation = "trunc_toward_zero" /\ Lat = "gc" /\ PBins(r, i, j) = {-1}
                 /\ HiGcEdgeCmp(HiGcSep(r.p1[i], r.p2[j]), PMult(r, i), pc.below) = 1
    IN UNION {IF k THEN (IF trunc THEN {0} ELSE {IF b >= 0 /\ b < PNBin(r) THEN b ELSE -1 : b \in PBins(r, i, j)}) ELSE {-1} : k \in keep}
AddTo(cn, b) == IF b = -1 THEN cn ELSE [cn EXCEPT ![b + 1] = @ + 1]
RECURSIVE Outcomes(_, _, _, _)
Outcomes(r, i, cand, cn) ==
    IF cand = <<>> THEN {cn}
    ELSE UNION {Outcomes(r, i, Tail(cand), AddTo(cn, b)) : b \in MechBins(r, i, Head(cand))}

MechStep == /\ phase = "mech" /\ mech.i <= PN1(PRec)
            /\ \E cover \in Covers(PRec, mech.i) :
               \E cn \in Outcomes(PRec, mech.i, Candidates(PRec, cover), mech.counts) :
                  mech' = [i |-> mech.i + 1, counts |-> cn]
            /\ UNCHANGED <<phase, pc, hcalls, hcache, idsVars, coverVars>>
MechDone == /\ phase = "mech" /\ mech.i > PN1(PRec)
            /\ phase' = "done" /\ UNCHANGED <<pc, mech, hcalls, hcache, idsVars, coverVars>>

PairMechRefines == phase = "done" =>
    PObsFailing(PRec, [var |-> "mech", err |-> "none", counts |-> mech.counts]) = {}
\* the property-level spec is satisfiable, and its reference result counts exactly the pairs inside [rmin, rmax)
PairRefAccepted == (phase = "case" \/ (phase = "mech" /\ mech.i = 1)) =>
    /\ PEdgesOK(PRec)
    /\ PObsFailing(PRec, [var |-> "ref", err |-> "none", counts |-> PRefCounts(PRec)]) = {}
    /\ \A b \in 0..(PNBin(PRec) - 1) : PMust(PRec, b) <= PMay(PRec, b)
    /\ PUnambiguous(PRec) =>
          VSum(PRefCounts(PRec)) = Cardinality({pr \in PPairs(PRec) :
               PEdgeCmp(PRec, pr[1], pr[2], 1) >= 0 /\ PEdgeCmp(PRec, pr[1], pr[2], Len(pc.edges)) < 0})

\* additivity in the first list (the law behind the scale cases), every split point of every problem of the scope
PairAdditive == (phase = "case" \/ (phase = "mech" /\ mech.i = 1)) =>
    \A k \in 1..(PN1(PRec) - 1) : PAdditiveAt(PRec, k)

\* =========================================================================================
\* Part "big": first lists far beyond the enumerable scope, decided through the law.  A scale case is a small UNIT
\* problem and a size n: the executed first list is the unit tiled to n points (n across and at block boundaries,
\* unit lengths 3 and 7 divide none of 10^5, 2^16, 2^20).  ScaleLaw: on two tiles plus the remainder - small enough
\* for TLC - the brute-force counts are 2 * unit + remainder; by induction (PairAdditive) the same holds for n.
CONSTANTS ScaleSizes
ScaleUnits ==
    IF Lat = "gc"
    THEN {[p1 |-> <<<<0, 0>>, <<0, 1>>, <<90, 0>>>>, p2 |-> <<<<0, -1>>, <<0, 2>>, <<90, 1>>, <<180, 0>>>>],
          [p1 |-> <<<<0, 0>>, <<0, 2>>, <<0, -1>>, <<45, 0>>, <<90, -1>>, <<0, 1>>, <<180, 1>>>>, p2 |-> <<<<0, 1>>, <<0, -2>>, <<45, 1>>, <<90, 0>>, <<270, 0>>>>]}
    ELSE {[p1 |-> <<<<1, 0, 0, 1>>, <<3, 4, 0, 5>>, <<2, -1, 2, 3>>>>, p2 |-> <<<<0, 0, 1, 1>>, <<4, 3, 0, 5>>, <<2, 3, 6, 7>>, <<-1, 0, 0, 1>>>>]}
ScaleKinds(m, edges) == {<<>>, <<2>>, [i \in 1..m |-> 1 + (i % 2)]} \cup
                        (IF Lat = "gc" THEN {[i \in 1..m |-> 1 + (i % 3)]} ELSE {})
ChooseScaleCase ==
    /\ phase = "big"
    /\ \E u \in {x \in ScaleUnits : Scope = "t" \/ Len(x.p1) = 3} : \E bc \in {x \in BinChoices : Len(x.edges) = 3 \/ Lat = "rs"} : \E n \in ScaleSizes :
        \E sc \in {x \in ScaleKinds(Len(u.p1), bc.edges) : Lat = "gc" \/ x = <<>> \/ HiChebOK(2, bc.edges[Len(bc.edges)])} :
           pc' = [p2 |-> u.p2, p1 |-> u.p1, edges |-> bc.edges, below |-> bc.below, scale |-> sc]
           /\ mech' = [i |-> n, counts |-> <<>>]
    /\ phase' = "scalecase" /\ UNCHANGED <<hcalls, hcache, idsVars, coverVars>>
ScaleLaw == phase = "scalecase" =>
    LET m    == PN1(PRec)
        rm   == mech.i % m
        tsc  == IF Len(pc.scale) <= 1 THEN pc.scale ELSE pc.scale \o pc.scale \o SubSeq(pc.scale, 1, rm)
        two  == [PRec EXCEPT !.p1 = pc.p1 \o pc.p1 \o SubSeq(pc.p1, 1, rm), !.scale = tsc]
        one  == PRefCounts(PRec)
        remc == PRefCounts(PPart(PRec, 1, rm))
    IN /\ PEdgesOK(PRec)
       /\ \A k \in {m} \cup (IF rm > 0 THEN {2 * m} ELSE {}) : PAdditiveAt(two, k)             \* at the tile boundaries
       /\ PUnambiguous(PRec) => \A b \in 1..PNBin(PRec) : PRefCounts(two)[b] = 2 * one[b] + (IF rm > 0 THEN remc[b] ELSE 0)

\* =========================================================================================
\* Part "hist": one HTM object, the caller's coordinate buffers, and a history  (Overwrite ; Bincount)*.
\* The object has NO abstract state: what a call may return is a function of the buffers' contents at the
\* time of the call (PairFailing), whatever was called before and whichever array objects carry the points.
\* HOverwrite writes new point sets of the same sizes into the same buffers; HBincount runs the cbincount
\* model on them.  Deviation "stale_cache" (self-test) keeps the ids / reverse indices of the first call on
\* the object, keyed on the identity of the buffers: later calls walk the old leaf membership.
CONSTANTS HistN2, HistCalls
HistScales == {<<>>, <<2>>}
HStart == /\ phase = "hist"
          /\ \E bc \in BinChoices : \E sc \in HistScales :
                (Lat = "gc" \/ HiChebOK(2, bc.edges[Len(bc.edges)]) \/ sc = <<>>)
                /\ pc' = [NoPairs EXCEPT !.edges = bc.edges, !.below = bc.below, !.scale = sc]
          /\ phase' = "hready" /\ UNCHANGED <<mech, hcalls, hcache, idsVars, coverVars>>
HOverwrite == /\ phase = "hready" /\ Len(hcalls) < HistCalls
              /\ \E a \in (IF hcalls = <<>> THEN Pos ELSE {pc.p1[1]}) : \E b \in [1..HistN2 -> Pos] :      \* later: the second list's buffers
                    pc' = [pc EXCEPT !.p1 = <<a>>, !.p2 = b]
              /\ phase' = "hfilled" /\ UNCHANGED <<mech, hcalls, hcache, idsVars, coverVars>>
HRec == IF Deviation = "stale_cache" /\ hcache.valid THEN PRec @@ [lf |-> hcache.lf] ELSE PRec
RECURSIVE AllOutcomes(_, _, _)
AllOutcomes(r, i, cn) ==
    IF i > PN1(r) THEN {cn}
    ELSE UNION {UNION {AllOutcomes(r, i + 1, c2) : c2 \in Outcomes(r, i, Candidates(r, cover), cn)} : cover \in Covers(r, i)}
HBincount(runmech) ==
    /\ phase = "hfilled"
    /\ IF runmech
       THEN \E cn \in AllOutcomes(HRec, 1, [b \in 1..PNBin(PRec) |-> 0]) :
               hcalls' = Append(hcalls, [p1 |-> pc.p1, p2 |-> pc.p2, counts |-> cn])
       ELSE hcalls' = Append(hcalls, [p1 |-> pc.p1, p2 |-> pc.p2, counts |-> <<>>])
    /\ hcache' = IF hcache.valid THEN hcache ELSE [valid |-> TRUE, lf |-> Leaf2(PRec)]
    /\ phase' = "hready" /\ UNCHANGED <<pc, mech, idsVars, coverVars>>
HCallRec(n) == [kind |-> "pairs", lat |-> Lat, p1 |-> hcalls[n].p1, p2 |-> hcalls[n].p2, edges |-> pc.edges, scale |-> pc.scale, obs |-> <<>>]
\* every call of every history is accepted by the property-level brute force on its own buffers' contents
HistMechRefines == (phase = "hready" /\ hcalls # <<>>) =>
    LET n == Len(hcalls) IN PObsFailing(HCallRec(n), [var |-> "mech", err |-> "none", counts |-> hcalls[n].counts]) = {}

\* =========================================================================================
\* Part "reps": how the arguments are handed over.  A covering design over (entry point, argument,
\* representation, partner): one argument takes the representation, every other argument of the call takes the
\* partner layout ("contig" or "strided"), so every argument meets every representation it admits against a
\* contiguous and against a non-contiguous neighbour - independently per argument, never "all arguments alike".
\* The rows are exported and replayed; the property-level judgement ignores the row except for HiRepRejectable.
Entries == {"lookup_id", "bincount", "intersect"}
ArgsOf(e) == IF e = "lookup_id" THEN <<"ra", "dec">>
             ELSE IF e = "bincount" THEN <<"ra1", "dec1", "ra2", "dec2", "scale", "htmid2", "htmrev2">>
             ELSE <<"c_ra", "c_dec", "c_radius">>
CoordReps == {"contig", "strided", "recfield12", "recfield20", "reversed", "be", "f4", "i4", "i8", "list", "tuple",
              "zerod", "npscalar", "pyscalar", "twod_row", "twod_col"}
IndexReps == {"contig", "strided", "recfield12", "recfield20", "reversed", "be", "i4", "u8", "list", "twod_row"}
ScalarReps == {"pyfloat", "npfloat64", "npfloat32", "npint", "longdouble", "zerod", "onearray"}
RepsFor(a) == IF a \in {"htmid2", "htmrev2"} THEN IndexReps
              ELSE IF a \in {"c_ra", "c_dec"} THEN ScalarReps
              ELSE IF a = "c_radius" THEN ScalarReps \ {"npfloat32", "npint"}          \* the radius is not a whole number
              ELSE CoordReps
Partners(e) == IF e = "intersect" THEN {"pyfloat"} ELSE {"contig", "strided"}
DesignRow(e, a, x, pt) == [k \in DOMAIN ArgsOf(e) |-> <<ArgsOf(e)[k], IF ArgsOf(e)[k] = a THEN x ELSE pt>>]
ChooseRep == /\ phase = "reps"
             /\ \E e \in Entries : \E a \in VRange(ArgsOf(e)) : \E x \in RepsFor(a) : \E pt \in Partners(e) :
                   rp' = [entry |-> e, odd |-> <<a, x, pt>>, row |-> DesignRow(e, a, x, pt)]
             /\ phase' = "repcase" /\ UNCHANGED <<dg, lm, nm, coverVars, pairVars>>
\* the design covers what it promises, and a call in the plain representation can never be refused
RepDesignOK == phase = "reps" =>
    \A e \in Entries : \A a \in VRange(ArgsOf(e)) : \A x \in RepsFor(a) : \A pt \in Partners(e) :
        LET row == DesignRow(e, a, x, pt) IN
        /\ \E k \in DOMAIN row : row[k] = <<a, x>>
        /\ \A k \in DOMAIN row : row[k][1] # a => row[k][2] = pt
        /\ (x \in {"contig", "strided", "pyfloat"}) => ~HiRepRejectable(row)
RepRowSane == phase = "repcase" =>
    /\ Len(rp.row) = Len(ArgsOf(rp.entry))
    /\ HiRepRejectable(rp.row) <=> HiRepRejectablePair(rp.odd[1], rp.odd[2])

\* =========================================================================================
Next ==
    \/ IdsRoot \/ IdsDescend
    \/ CoverChoose \/ CoverStep \/ CoverDone \/ CoverCase
    \/ ChooseP2 \/ ChooseP1 \/ ChooseBins \/ ChooseScale(TRUE) \/ MechStep \/ MechDone
    \/ HStart \/ HOverwrite \/ HBincount(TRUE)
    \/ ChooseRep \/ ChooseScaleCase
NextExport == ChooseRep \/ ChooseScaleCase \/ CoverCase \/ ChooseP2 \/ ChooseP1 \/ ChooseBins \/ ChooseScale(FALSE) \/ HStart \/ HOverwrite \/ HBincount(FALSE)
Spec == Init /\ [][Next]_vars

Export ==
    /\ (DoExport /\ phase = "covercase") =>
          PrintT(<<"CASE", ToJson([kind |-> "cover", lat |-> Lat, c |-> cc.c, rad |-> cc.r2,
                                   probes |-> SetToSeq(ProbeSet(cc.c, cc.r2))])>>)
    /\ (DoExport /\ phase = "hready" /\ Len(hcalls) = HistCalls) =>
          PrintT(<<"CASE", ToJson([kind |-> "history", lat |-> Lat, edges |-> pc.edges, scale |-> pc.scale,
                                   calls |-> [n \in DOMAIN hcalls |-> [p1 |-> hcalls[n].p1, p2 |-> hcalls[n].p2]]])>>)
    /\ (DoExport /\ phase = "scalecase") =>
          PrintT(<<"CASE", ToJson([kind |-> "scale", lat |-> Lat, p1 |-> pc.p1, p2 |-> pc.p2, edges |-> pc.edges, scale |-> pc.scale,
                                   n |-> mech.i, tiles |-> mech.i \div Len(pc.p1), rem |-> mech.i % Len(pc.p1)])>>)
    /\ (DoExport /\ phase = "repcase") => PrintT(<<"CASE", ToJson([kind |-> "reps", entry |-> rp.entry, odd |-> rp.odd, row |-> rp.row])>>)
    /\ (DoExport /\ phase = "case") =>
          PrintT(<<"CASE", ToJson([kind |-> "pairs", lat |-> Lat, p1 |-> pc.p1, p2 |-> pc.p2, edges |-> pc.edges,
                                   scale |-> pc.scale])>>)
=============================================================================
