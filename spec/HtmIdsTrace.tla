------------------------------- MODULE HtmIdsTrace -------------------------------
(* Trace validation for HTM ids, circle covers and pair counts (property C13).      *)
(* One ndjson line = one recorded interaction with the real code:                   *)
(*   {"id": n, "kind": "lookup", ...}  one position looked up at a ladder of depths, *)
(*                                     as an array element and as a scalar call      *)
(*   {"id": n, "kind": "cover", ...}   one circle: the two lists HTM.intersect        *)
(*                                     returned and the ids of probe positions       *)
(*   {"id": n, "kind": "pairs", ...}   one pair-count problem on lattice points and   *)
(*                                     the counts every way of calling returned      *)
(* (field lists: HtmIds.tla).  Every record is judged by the property-level          *)
(* Failing of HtmIds.tla: ids are decoded from limbs to digit strings here, the       *)
(* inside / outside predicate of every probe and the brute-force bin of every pair   *)
(* are evaluated here with exact lattice arithmetic.  The depth, the great circle,   *)
(* eps, the memory layout and the way of calling are not part of what is judged      *)
(* against: the specification says the outcome does not depend on them.              *)
EXTENDS HtmIds, Json, IOUtils

VARIABLES blk, tid
Traces == ndJsonDeserialize(IOEnv.TRACE_FILE)
NT == Len(Traces)
BlockSize == 256
NBlocks == (NT + BlockSize - 1) \div BlockSize

Init == blk = 0 /\ tid = 0
PickBlock == blk = 0 /\ tid = 0 /\ \E b \in 1..NBlocks : blk' = b /\ tid' = 0
PickTrace == blk > 0 /\ tid = 0
             /\ \E t \in ((blk - 1) * BlockSize + 1)..VMin2(blk * BlockSize, NT) : tid' = t /\ blk' = blk
Next == PickBlock \/ PickTrace

Check == tid > 0 =>
    LET r == Traces[tid]  f == Failing(r)
    IN f = {} \/ PrintT(<<"REJECT", ToJson([id |-> r.id, failing |-> f])>>)
=============================================================================
