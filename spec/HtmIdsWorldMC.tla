------------------------------- MODULE HtmIdsWorldMC -------------------------------
(* World machine for property C13 (class W: process-level state).                         *)
(*                                                                                        *)
(* The property-level specification (HtmIds.tla) gives an HTM object NO abstract state    *)
(* and the process none either: what HTM(d).lookup_id(ra, dec) / HTM(d).intersect(...)     *)
(* returns is a function of d and the position only - never of what was asked of OTHER    *)
(* HTM objects (other depths, twins of the same depth) earlier in the process, never of   *)
(* which entry form (scalar / array) asked first, and never of what the caller did to the *)
(* arrays it was handed (results are the caller's).                                       *)
(*                                                                                        *)
(* A session is a sequence of NCalls steps in ONE process over NObj live objects          *)
(* (depths Dep[k]; object 3 is a twin of object 2, e.g. a copy or an unpickled one):       *)
(*     Call(op, k, p, mode)   op = "lookup" (mode "scalar": one 0-d position, or "array")  *)
(*                            or "intersect" (a circle around p), on object k, position p  *)
(*     Scribble(n)            the caller overwrites the array returned by step n          *)
(* The mechanism answers from a heap of array objects (h = which object was handed out).  *)
(* WorldRefines: every call's outcome is the outcome in a fresh world, Truth(op, k, p).     *)
(* WorldResultsAreCallers: no two calls hand out the same array object.                    *)
(* Deviations (self-tests, each must violate WorldRefines):                                *)
(*   "memo_without_depth"   scalar calls are remembered in a process-wide memo keyed by   *)
(*                          the position only (a class attribute shared by all objects)   *)
(*   "memo_own_storage"     the memo is keyed correctly but hands out its own array       *)
(* Sessions are exported (DoExport) and replayed, each in one fresh process; the records  *)
(* are judged by WorldFailing of HtmIds.tla.                                              *)
EXTENDS HtmIds, Json

CONSTANTS NObj,        \* 2 | 3 live HTM objects
          NCalls,      \* steps per session
          Deviation,   \* "none" | "memo_without_depth" | "memo_own_storage"
          DoExport

VARIABLES ses, memo, heap
vars == <<ses, memo, heap>>

WPos  == {1, 2}                                          \* two sky positions (made twins agreeing to ~15 digits by the harness, too)
Path(p) == IF p = 1 THEN <<3, 0, 2, 1, 3>> ELSE <<3, 0, 2, 3, 0>>
Dep   == [k \in 1..NObj |-> IF k = 3 THEN 2 ELSE k]      \* object 3: a twin of object 2
Modes(op) == IF op = "lookup" THEN {"scalar", "array"} ELSE {"scalar"}
Ops   == {"lookup", "intersect"}
Garbage == <<0>>

\* the outcome in a fresh world
Truth(op, k, p) == IF op = "lookup" THEN SubSeq(Path(p), 1, Dep[k] + 2) ELSE <<9, Dep[k], p>>

Init == ses = <<>> /\ memo = {} /\ heap = <<>>

Call(op, k, p, md) ==
    /\ Len(ses) < NCalls
    /\ LET key     == IF Deviation = "memo_without_depth" THEN <<op, p, 0>> ELSE <<op, p, Dep[k]>>
           usememo == md = "scalar" /\ Deviation # "none"
           hit     == usememo /\ \E e \in memo : e.key = key
           ent     == CHOOSE e \in memo : e.key = key
           own     == Deviation = "memo_own_storage"
           h       == IF hit /\ own THEN ent.h ELSE Len(heap) + 1
           v       == IF hit THEN (IF own THEN heap[ent.h] ELSE ent.v) ELSE Truth(op, k, p)
       IN /\ heap' = IF h > Len(heap) THEN Append(heap, v) ELSE heap
          /\ memo' = IF usememo /\ ~hit THEN memo \cup {[key |-> key, v |-> v, h |-> h]} ELSE memo
          /\ ses'  = Append(ses, [op |-> op, obj |-> k, pos |-> p, mode |-> md, target |-> 0, h |-> h, val |-> v])

Scribble(n) ==
    /\ Len(ses) < NCalls /\ n \in DOMAIN ses /\ ses[n].op # "scribble"
    /\ \A m \in DOMAIN ses : ses[m].op = "scribble" => ses[m].target # n
    /\ heap' = [heap EXCEPT ![ses[n].h] = Garbage]
    /\ memo' = memo
    /\ ses'  = Append(ses, [op |-> "scribble", obj |-> 0, pos |-> 0, mode |-> "-", target |-> n, h |-> ses[n].h, val |-> <<>>])

Next == \/ \E op \in Ops : \E k \in 1..NObj : \E p \in WPos : \E md \in Modes(op) : Call(op, k, p, md)
        \/ \E n \in 1..NCalls : Scribble(n)
Spec == Init /\ [][Next]_vars

IsCall(n) == ses[n].op # "scribble"
WorldRefines == \A n \in DOMAIN ses : IsCall(n) => ses[n].val = Truth(ses[n].op, ses[n].obj, ses[n].pos)
WorldResultsAreCallers == \A n, m \in DOMAIN ses : (IsCall(n) /\ IsCall(m) /\ n # m) => ses[n].h # ses[m].h
\* the abstract ids are ids: valid for the object's depth, descendants of each other across the objects
WorldIdsSane == \A n, m \in DOMAIN ses :
    (ses[n].op = "lookup" /\ ses[m].op = "lookup" /\ ses[n].pos = ses[m].pos /\ Deviation = "none") =>
        /\ IdValid(ses[n].val, Dep[ses[n].obj])
        /\ Dep[ses[n].obj] <= Dep[ses[m].obj] => VIsPrefix(ses[n].val, ses[m].val)

\* sessions DESIGNED to collide: the last step is a call on a position some earlier call of the session used,
\* and a scribble is always followed by a call
Collides == LET n == Len(ses) IN
    /\ IsCall(n)
    /\ \E m \in 1..(n - 1) : IsCall(m) /\ ses[m].pos = ses[n].pos /\ ses[m].op = ses[n].op
Export == (DoExport /\ Len(ses) = NCalls /\ Collides) =>
    PrintT(<<"CASE", ToJson([kind |-> "world", nobj |-> NObj,
                             steps |-> [n \in DOMAIN ses |-> [op |-> ses[n].op, obj |-> ses[n].obj, pos |-> ses[n].pos,
                                                              mode |-> ses[n].mode, target |-> ses[n].target]]])>>)
=============================================================================
