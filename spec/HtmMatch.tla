------------------------------- MODULE HtmMatch -------------------------------
(* Property-level specification of esutil.htm matching (C12):                      *)
(*   HTM(depth).match(ra1,dec1,ra2,dec2,radius,maxmatch=k[,file=])                 *)
(*   Matcher(depth,ra2,dec2).match(ra1,dec1,radius,maxmatch=k[,file=])             *)
(* over the exact lattices of HtmSphere.tla.                                       *)
(*                                                                                *)
(* A call is a record                                                             *)
(*   c = [kind : "gc"|"rs", p2 : Seq(point)   \* the matcher's own (second) set   *)
(*        p1 : Seq(point),                     \* the points searched around       *)
(*        rad : Seq(radius)  (length 1 = one radius, else one per p1 point),       *)
(*        k : Int,                             \* maxmatch; <= 0 means "all"       *)
(*        ident : BOOLEAN]  \* equal lattice points are handed over as bit-identical *)
(*                          \* coordinates (FALSE: a pole may carry different        *)
(*                          \* longitudes) - then "identical points match at zero    *)
(*                          \* distance" is no rounding question, whatever the       *)
(*                          \* radius >= 0 (d = 0 <= r)                              *)
(* and what the real code returned is an observation                              *)
(*   o = [err : STRING, m1, m2 : Seq(Nat) (0-based, as returned),                  *)
(*        d : Seq([on : BOOLEAN, v : exact separation value]),                      *)
(*        via : "mem"|"file", count : Int, rerr : STRING, mem1, mem2 : Seq(Nat)]   *)
(*   d[t].on = the reported separation is within 1e-9 degree of a lattice value,   *)
(*   d[t].v that lattice value (projection done by the harness, DESIGN 4.1);       *)
(*   via = "file": count is the returned value, m1/m2/d what read_pairs gave back  *)
(*   (rerr its exception class or "none"), mem1/mem2 the in-memory result of the   *)
(*   same call on the same object.                                                 *)
(*   hasall = TRUE (calls with a positive limit): all1/all2 is what the SAME object *)
(*   returned for the SAME inputs with maxmatch = 0; "the k closest pairs of each    *)
(*   group" relates the two whatever the matcher decided about pairs lying exactly  *)
(*   on the radius (those stay unconstrained as a SET question).                    *)
(* The result of a call is a function of the point set the matcher was BUILT from:  *)
(* the caller overwriting its arrays afterwards (HtmMatchMC: Overwrite) changes      *)
(* nothing - the matcher is a snapshot.                                              *)
(*                                                                                *)
(* The matcher is a little state machine: New(depth, p2) then any sequence of      *)
(* calls.  Its abstract state is p2 alone - the result of a call is a function of  *)
(* (p2, p1, rad, k): no depth, no history (HtmMatchMC states that as a machine,    *)
(* HtmMatchTrace judges every call of a recorded life against it).                 *)
EXTENDS HtmSphere

N1(c) == Len(c.p1)
N2(c) == Len(c.p2)
RadOf(c, i) == IF Len(c.rad) = 1 THEN c.rad[1] ELSE c.rad[i]
\* -1 strictly inside the radius of p1[i], 0 exactly on it (unconstrained), 1 outside
RC(c, i, j)  == HsRadCmp(c.kind, c.p1[i], c.p2[j], RadOf(c, i))
\* identical points (the same lattice point, handed over bit-identically) are zero apart: within every radius
Ident(c, i, j) == c.ident /\ c.p1[i] = c.p2[j]
Must(c, i)   == {j \in 1..N2(c) : RC(c, i, j) = -1 \/ (RC(c, i, j) = 0 /\ Ident(c, i, j))}
May(c, i)    == {j \in 1..N2(c) : RC(c, i, j) <= 0}
\* -1 : p2[j1] is closer to p1[i] than p2[j2];  0 : exact tie
SC(c, i, j1, j2) == HsSepCmp(c.kind, c.p1[i], c.p2[j1], c.p2[j2])
Cls(c, i, j)     == HsSepClass(c.kind, c.p1[i], c.p2[j])
Limited(c)       == c.k > 0

\* ---- observed groups ---------------------------------------------------------------
GPos(o, i) == {t \in DOMAIN o.m1 : o.m1[t] = i - 1}
GSet(o, i) == {o.m2[t] + 1 : t \in GPos(o, i)}

ShapeOK(c, o) ==
    /\ Len(o.m1) = Len(o.m2) /\ Len(o.d) = Len(o.m1)
    /\ \A t \in DOMAIN o.m1 : o.m1[t] \in 0..(N1(c) - 1) /\ o.m2[t] \in 0..(N2(c) - 1)

\* grouped by first-set index, groups in input order
GroupOrderOK(o) == \A t \in 1..(Len(o.m1) - 1) : o.m1[t] <= o.m1[t + 1]
\* each pair once
OnceOK(o) == \A t, u \in DOMAIN o.m1 : t < u => ~(o.m1[t] = o.m1[u] /\ o.m2[t] = o.m2[u])
\* none extra: names of the classes of reported pairs that are outside the radius
ExtraCls(c, o) == {Cls(c, o.m1[t] + 1, o.m2[t] + 1) : t \in {u \in DOMAIN o.m1 : (o.m2[u] + 1) \notin May(c, o.m1[u] + 1)}}
\* none missing (no limit, or the group did not reach the limit)
MissingCls(c, o) ==
    UNION {{Cls(c, i, j) : j \in Must(c, i) \ GSet(o, i)} :
           i \in {h \in 1..N1(c) : ~Limited(c) \/ Cardinality(GSet(o, h)) < c.k}}
\* with a limit: at most k per group, and nothing left out is closer than something kept
LimitOK(c, o)   == Limited(c) => \A i \in 1..N1(c) : Cardinality(GPos(o, i)) <= c.k
ClosestOK(c, o) == Limited(c) => \A i \in 1..N1(c) :
                      \A j \in Must(c, i) \ GSet(o, i) : \A g \in GSet(o, i) : SC(c, i, g, j) <= 0
\* sorted by increasing separation inside a group (any order among exact ties)
SortedOK(c, o) == \A t \in 1..(Len(o.m1) - 1) :
                      o.m1[t] = o.m1[t + 1] => SC(c, o.m1[t] + 1, o.m2[t] + 1, o.m2[t + 1] + 1) <= 0
\* the reported separation is the true one
SepBadCls(c, o) ==
    {Cls(c, o.m1[t] + 1, o.m2[t] + 1) :
        t \in {u \in DOMAIN o.m1 :
                 ~(o.d[u].on /\ o.d[u].v = HsSep(c.kind, c.p1[o.m1[u] + 1], c.p2[o.m2[u] + 1]))}}

\* with a positive limit the result is the first k of every group of the unlimited result of the same matcher on
\* the same inputs (exact separation ties may be broken either way)
GSeq(a1, a2, i) == LET pos == VSortSet({t \in DOMAIN a1 : a1[t] = i - 1}) IN [n \in DOMAIN pos |-> a2[pos[n]] + 1]
AllShapeOK(c, o) == /\ Len(o.all1) = Len(o.all2)
                    /\ \A t \in DOMAIN o.all1 : o.all1[t] \in 0..(N1(c) - 1) /\ o.all2[t] \in 0..(N2(c) - 1)
PrefixOK(c, o) ==
    (Limited(c) /\ o.hasall) =>
        /\ AllShapeOK(c, o)
        /\ \A i \in 1..N1(c) :
              LET gl == GSeq(o.m1, o.m2, i)
                  ga == GSeq(o.all1, o.all2, i)
              IN /\ Len(gl) = VMin2(c.k, Len(ga))
                 /\ \A t \in DOMAIN gl : gl[t] = ga[t] \/ SC(c, i, gl[t], ga[t]) = 0
                 /\ VRange(gl) \subseteq VRange(ga)

Tag(prefix, S) == {prefix \o "_" \o x : x \in S}

PairsFailing(c, o) ==
    IF ~ShapeOK(c, o) THEN {"result_shape"}
    ELSE (IF GroupOrderOK(o) THEN {} ELSE {"groups_not_in_input_order"}) \cup
         (IF OnceOK(o) THEN {} ELSE {"pair_repeated"}) \cup
         Tag("extra_pair", ExtraCls(c, o)) \cup
         Tag("missing_pair", MissingCls(c, o)) \cup
         (IF LimitOK(c, o) THEN {} ELSE {"more_than_maxmatch"}) \cup
         (IF ClosestOK(c, o) THEN {} ELSE {"not_the_closest"}) \cup
         (IF SortedOK(c, o) THEN {} ELSE {"group_not_sorted"}) \cup
         (IF PrefixOK(c, o) THEN {} ELSE {"limited_not_prefix_of_unlimited"}) \cup
         Tag("separation", SepBadCls(c, o))

PairSet(a, b) == {<<a[t], b[t]>> : t \in DOMAIN a}

Failing(c, o) ==
    IF o.err # "none" THEN {"unexpected_error"}
    ELSE IF o.via = "mem" THEN PairsFailing(c, o)
    ELSE IF o.rerr # "none" THEN {"file_unreadable"}
    ELSE PairsFailing(c, o) \cup
         (IF o.count = Len(o.m1) THEN {} ELSE {"file_count"}) \cup
         (IF Len(o.m1) = Len(o.m2) /\ Len(o.mem1) = Len(o.m1) /\ PairSet(o.m1, o.m2) = PairSet(o.mem1, o.mem2)
          THEN {} ELSE {"file_pairs_differ"})

Accept(c, o) == Failing(c, o) = {}

\* ---------------------------------------------------------------------------------
\* Reference result (the one a matcher produces that includes exact ties on the
\* radius and breaks separation ties by second-set index).
RefGroup(c, i) ==
    LET RECURSIVE go(_)
        go(S) == IF S = {} THEN <<>>
                 ELSE LET m == CHOOSE j \in S : \A h \in S \ {j} :
                                   SC(c, i, j, h) < 0 \/ (SC(c, i, j, h) = 0 /\ j < h)
                      IN <<m>> \o go(S \ {m})
        all == go(May(c, i))
    IN IF Limited(c) /\ Len(all) > c.k THEN SubSeq(all, 1, c.k) ELSE all

RECURSIVE RefFrom(_, _)
RefFrom(c, i) == IF i > N1(c) THEN <<>>
                 ELSE [t \in 1..Len(RefGroup(c, i)) |-> <<i - 1, RefGroup(c, i)[t] - 1>>] \o RefFrom(c, i + 1)
ObsOfPairs(c, prs) ==
    [err |-> "none", via |-> "mem", count |-> -1, rerr |-> "none", mem1 |-> <<>>, mem2 |-> <<>>,
     hasall |-> FALSE, all1 |-> <<>>, all2 |-> <<>>,
     m1 |-> [t \in DOMAIN prs |-> prs[t][1]], m2 |-> [t \in DOMAIN prs |-> prs[t][2]],
     d  |-> [t \in DOMAIN prs |-> [on |-> TRUE, v |-> HsSep(c.kind, c.p1[prs[t][1] + 1], c.p2[prs[t][2] + 1])]]]
RefObs(c) == ObsOfPairs(c, RefFrom(c, 1))

\* ---- the scale law ------------------------------------------------------------------
\* A group depends on its own first-set point (and radius) only: the result for a concatenated first set is the
\* concatenation of the results for the parts, first indices shifted.  Checked by TLC on the small scope
\* (HtmMatchMC: ConcatLaw); the harness judges first sets of 2^16 and more points through it, from parts small
\* enough for the exact oracle.
SubCall(c, lo, hi) == [c EXCEPT !.p1 = SubSeq(c.p1, lo, hi),
                                !.rad = IF Len(c.rad) = 1 THEN c.rad ELSE SubSeq(c.rad, lo, hi)]
ShiftPairs(prs, n) == [t \in DOMAIN prs |-> <<prs[t][1] + n, prs[t][2]>>]
ConcatLawAt(c, n) == RefFrom(c, 1) = RefFrom(SubCall(c, 1, n), 1) \o ShiftPairs(RefFrom(SubCall(c, n + 1, N1(c)), 1), n)
ConcatLaw(c) == \A n \in 1..(N1(c) - 1) : ConcatLawAt(c, n)
\* and acceptance is group-wise too: what is accepted for the whole is accepted, restricted, for each part
RestrictObs(o, lo, hi) ==
    LET pos == VSortSet({t \in DOMAIN o.m1 : o.m1[t] + 1 \in lo..hi})
        apos == VSortSet({t \in DOMAIN o.all1 : o.all1[t] + 1 \in lo..hi})
    IN [o EXCEPT !.m1 = [n \in DOMAIN pos |-> o.m1[pos[n]] - (lo - 1)], !.m2 = [n \in DOMAIN pos |-> o.m2[pos[n]]],
                 !.d = [n \in DOMAIN pos |-> o.d[pos[n]]],
                 !.all1 = [n \in DOMAIN apos |-> o.all1[apos[n]] - (lo - 1)], !.all2 = [n \in DOMAIN apos |-> o.all2[apos[n]]]]
AcceptLaw(c, o) == (o.via = "mem" /\ Accept(c, o)) =>
    \A n \in 1..(N1(c) - 1) : /\ Accept(SubCall(c, 1, n), RestrictObs(o, 1, n))
                               /\ Accept(SubCall(c, n + 1, N1(c)), RestrictObs(o, n + 1, N1(c)))
MaxGroup(c) == VSetMax({Cardinality(May(c, i)) : i \in 1..N1(c)})
=============================================================================
