------------------------------- MODULE HtmMatchMC -------------------------------
(* The matcher as a state machine, small scope:                                    *)
(*   AddP2* ; New ; ( Overwrite | (AddP1+ | SelfCall) ; ChooseRad ; (ChooseK ; MechStep* ; MechDone | ChooseKs) )* *)
(*  - the abstract state of a matcher is its own point list p2, frozen by New      *)
(*    (StateFrozen); a call's allowed results are a function of (p2, call) only -  *)
(*    no depth, no history - so every path through the machine is a behaviour the  *)
(*    real Matcher / HTM.match must reproduce call by call (exported and replayed); *)
(*  - Overwrite: the caller overwrites, in place, the arrays it built the matcher   *)
(*    from (buf).  buf is not matcher state: the matcher is a snapshot, every later *)
(*    call is still judged against p2;                                              *)
(*  - Next (model checking): ChooseK picks ONE maxmatch and MechStep runs an        *)
(*    implementation-shaped model of htmc.cc Matcher::match on the call (per        *)
(*    first-set point: candidates from the triangle cover, distance filter          *)
(*    dis <= rad, unstable sort by distance, truncation to maxmatch, append);       *)
(*    MechRefines states that whatever it produces is accepted by the property-     *)
(*    level Failing of HtmMatch.tla.  Deviation # "none" selects a deviating        *)
(*    mechanism (a cover that loses a candidate; truncation before the sort) that   *)
(*    must VIOLATE MechRefines - the non-vacuity self-tests of the harness;         *)
(*  - RefAccepted: the property-level spec is satisfiable on every call (its own    *)
(*    reference result is accepted);                                                *)
(*  - NextExport (case generation, also under -simulate): ChooseKs records the      *)
(*    list of maxmatch values the call is to be made with (KMode "each": one of     *)
(*    KSet, "sweep": all of KSet in ascending order on the same matcher), Finish    *)
(*    ends a life and Export prints it.                                             *)
EXTENDS HtmMatch, Json

CONSTANTS Kind,        \* "gc" | "rs"
          Scope,       \* "q" | "t" | "s" | "m" | "h" | "d" : which sub-lattice / radius catalogue (below)
          MaxN2,       \* matcher sets of 1..MaxN2 points (sequences: order and duplicates matter)
          MaxN1,       \* searched sets of 1..MaxN1 points (plus the self-match p1 = p2)
          MaxCalls,    \* calls per matcher life
          PerPoint,    \* TRUE: also one radius per point
          Deviation,   \* "none" | "lossy_cover" | "truncate_unsorted" | "fastpath_strict" (deviating variants: self-tests)
          DoExport,    \* TRUE: print every finished life as JSON
          KMode,       \* export runs only - "each": a call carries ONE maxmatch of KSet; "sweep": a call is made
                       \* with EVERY maxmatch of KSet, ascending, one after the other on the same matcher
          MaxOw,       \* how often the caller may overwrite, in place, the arrays the matcher was built from
          ScaleN       \* export runs: sizes a finished life's first set may be tiled up to ({}: no scale cases)

VARIABLES phase, p2, ident, buf, calls, cur, mech, scale
vars == <<phase, p2, ident, buf, calls, cur, mech, scale>>

\* ---- catalogues ---------------------------------------------------------------------
\* great circle: <<a, b>> = a + b*eps degrees along the circle.  0/360 = the seam (equator) ;
\* 90 / 270 = the poles (meridian circles) or octant corners (equator) ; 180 antipode of the origin
GcPosQ == {<<0, 0>>, <<0, 1>>, <<0, -1>>, <<90, 0>>, <<180, 1>>}
GcPosT == GcPosQ \cup {<<0, 2>>, <<90, -1>>, <<270, 0>>, <<45, 0>>}
GcPosS == {<<a, b>> : a \in {0, 1, 45, 89, 90, 91, 179, 180, 181, 270, 359}, b \in -2..2}
\* radii <<a, h>> = a + h*eps/2 : ODD half steps never tie; <<0,0>> (identical points only) and <<180,0>> are the two
\* ends of the range, <<0,2>> = one eps ties with neighbours
GcRadQ == {<<0, 0>>, <<0, 1>>, <<0, 3>>, <<90, 1>>, <<180, -1>>}
GcRadT == GcRadQ \cup {<<0, 2>>, <<0, 5>>, <<1, -1>>, <<89, 1>>, <<90, -1>>, <<179, 3>>, <<180, 0>>}
GcRadS == GcRadT \cup {<<0, 7>>, <<2, 1>>, <<44, 1>>, <<45, -1>>, <<91, 3>>, <<135, 1>>, <<180, -3>>}

\* rational sphere: unit vectors (x,y,z)/d
RsPosQ == {<<1, 0, 0, 1>>, <<0, 0, 1, 1>>, <<3, 4, 0, 5>>, <<2, -1, 2, 3>>, <<-1, 0, 0, 1>>}
RsPosT == RsPosQ \cup {<<0, 0, -1, 1>>, <<4, 3, 0, 5>>, <<0, 1, 0, 1>>, <<2, 3, 6, 7>>}
RsPosS == RsPosT \cup {<<1, 2, 2, 3>>, <<2, 2, 1, 3>>, <<-2, -2, -1, 3>>, <<0, -3, 4, 5>>, <<6, 2, -3, 7>>,
                       <<1, 4, 8, 9>>, <<-4, 4, 7, 9>>, <<2, 6, 9, 11>>, <<6, -6, 7, 11>>, <<3, 4, 12, 13>>,
                       <<2, 10, 11, 15>>, <<-10, 10, 5, 15>>, <<2, 5, -14, 15>>, <<0, -1, 0, 1>>, <<-3, -4, 0, 5>>,
                       <<12, 0, 5, 13>>, <<0, 5, -12, 13>>, <<14, 2, 5, 15>>}
\* radii as cosines <<p, q>>: 1 (r = 0), 224/225, 24/25, 4/5, 3/5, 1/2, 0, -1/2, -4/5, -1 (r = 180); several tie exactly
RsRadQ == {<<1, 1>>, <<4, 5>>, <<1, 2>>, <<0, 1>>, <<-1, 1>>}
RsRadT == RsRadQ \cup {<<224, 225>>, <<24, 25>>, <<3, 5>>, <<-1, 2>>, <<-4, 5>>, <<2, 3>>}
RsRadS == RsRadT \cup {<<8, 9>>, <<-2, 3>>, <<1, 3>>, <<-3, 5>>, <<99, 100>>, <<-99, 100>>, <<12, 13>>}

\* scope "m" (great circle only) - micro-degree radii: the harness binds eps = 1e-7 degree, so the radii below are
\* 1.05e-6 .. 2.45e-6 degree (the statement's radii start at 1e-6) and the points sit a few 1e-7 degree either side
\* of position 45 (equator: a vertex of the depth-1 mesh) and of the origin (seam / octant corner)
GcPosM == {<<45, -13>>, <<45, -1>>, <<45, 0>>, <<45, 1>>, <<45, 8>>, <<0, -13>>, <<0, 1>>}
GcRadM == {<<0, 21>>, <<0, 29>>, <<0, 31>>, <<0, 49>>}
\* scope "h" - tiny catalogue for exhaustive multi-call lives (history independence)
GcPosH == {<<0, 0>>, <<0, 1>>, <<180, 1>>}
GcRadH == {<<0, 3>>, <<180, -1>>}
RsPosH == {<<1, 0, 0, 1>>, <<3, 4, 0, 5>>, <<-1, 0, 0, 1>>}
RsRadH == {<<1, 2>>, <<-1, 1>>}

\* scope "d" (great circle only) - a DENSE matcher set: every integer position of the circle, every third one twice
\* (eps apart): 480 points in 360 distinct places, so the tree has far more than 256 occupied triangles at depth >= 6;
\* searched around a few points with radii of 1..10 degrees (covers of hundreds to thousands of leaf triangles, full
\* and partial ones)
DenseP2 == [t \in 1..360 |-> <<t - 1, 0>>] \o [t \in 1..120 |-> <<3 * (t - 1), 1>>]
GcPosD == {<<0, 0>>, <<0, 1>>, <<45, -1>>, <<90, 0>>, <<180, 2>>, <<359, 0>>}
GcRadD == {<<1, 1>>, <<2, -1>>, <<5, 1>>, <<10, -1>>}

Pos   == IF Kind = "gc" THEN (CASE Scope = "d" -> GcPosD [] Scope = "q" -> GcPosQ [] Scope = "t" -> GcPosT [] Scope = "s" -> GcPosS
                                [] Scope = "m" -> GcPosM [] Scope = "h" -> GcPosH)
         ELSE (CASE Scope = "q" -> RsPosQ [] Scope = "t" -> RsPosT [] Scope = "s" -> RsPosS [] Scope = "h" -> RsPosH)
Radii == IF Kind = "gc" THEN (CASE Scope = "d" -> GcRadD [] Scope = "q" -> GcRadQ [] Scope = "t" -> GcRadT [] Scope = "s" -> GcRadS
                                [] Scope = "m" -> GcRadM [] Scope = "h" -> GcRadH)
         ELSE (CASE Scope = "q" -> RsRadQ [] Scope = "t" -> RsRadT [] Scope = "s" -> RsRadS [] Scope = "h" -> RsRadH)

ASSUME Kind = "rs" => \A p \in Pos : RsIsPoint(p)
ASSUME Kind = "gc" => \A p \in Pos : GcIsPos(p)

\* ---- the machine ------------------------------------------------------------------------
\* state of the matcher: p2 (the point set it was built from) and ident (were equal points handed over bit-identically).
\* buf is NOT matcher state: it is the present content of the caller's own arrays, which the caller may overwrite.
\* calls is the history: events [op |-> "call", ...] and [op |-> "ow", buf |-> new content]
NoCall  == [p1 |-> <<>>, rad |-> <<>>]
NoMech  == [on |-> FALSE, i |-> 0, out |-> <<>>, all |-> <<>>]
Init == phase = "p2" /\ p2 = (IF Scope = "d" THEN DenseP2 ELSE <<>>) /\ scale = 0 /\ ident = TRUE /\ buf = <<>> /\ calls = <<>> /\ cur = NoCall /\ mech = NoMech

IsCall(e) == e.op = "call"
NCalls    == Cardinality({n \in DOMAIN calls : IsCall(calls[n])})
NOw       == Len(calls) - NCalls
\* a pole may be written with any longitude: then two copies of it are the same point without being bit-identical
HasPole(sq) == Kind = "gc" /\ \E t \in DOMAIN sq : sq[t][1] \in {90, 270} /\ sq[t][2] = 0

AddP2 == /\ phase = "p2" /\ Len(p2) < MaxN2 /\ Scope # "d"
         /\ \E p \in Pos : p2' = Append(p2, p)
         /\ UNCHANGED <<scale, phase, ident, buf, calls, cur, mech>>

New == /\ phase = "p2" /\ Len(p2) >= 1              \* New(depth, arrays): the depth is not part of the abstract state
       /\ \E id \in (IF HasPole(p2) THEN BOOLEAN ELSE {TRUE}) : ident' = id
       /\ buf' = p2                                 \* the matcher is a snapshot of what the arrays hold now
       /\ phase' = "idle" /\ UNCHANGED <<scale, p2, calls, cur, mech>>

\* the caller re-uses its arrays: every entry set to one catalogue point, or the content reversed
OwSet == {[t \in DOMAIN buf |-> q] : q \in Pos} \cup {[t \in DOMAIN buf |-> buf[Len(buf) + 1 - t]]}
Overwrite == /\ phase = "idle" /\ NOw < MaxOw /\ NCalls < MaxCalls
             /\ \E nb \in OwSet \ {buf} : buf' = nb /\ calls' = Append(calls, [op |-> "ow", buf |-> nb])
             /\ UNCHANGED <<scale, phase, p2, ident, cur, mech>>

AddP1 == /\ phase \in {"idle", "p1"} /\ NCalls < MaxCalls /\ Len(cur.p1) < MaxN1
         /\ \E p \in Pos : cur' = [cur EXCEPT !.p1 = Append(@, p)]
         /\ phase' = "p1" /\ UNCHANGED <<scale, p2, ident, buf, calls, mech>>

SelfCall == /\ phase = "idle" /\ NCalls < MaxCalls /\ Scope # "d"       \* match the set against itself
            /\ cur' = [cur EXCEPT !.p1 = p2]
            /\ phase' = "p1" /\ UNCHANGED <<scale, p2, ident, buf, calls, mech>>

RadVectors(n) ==                      \* one radius, or (n >= 2) a few per-point vectors built from the catalogue
    {<<r>> : r \in Radii} \cup
    (IF PerPoint /\ n >= 2
     THEN {[i \in 1..n |-> IF i % 2 = 1 THEN r ELSE s] : r \in Radii, s \in Radii}
     ELSE {})

ChooseRad == /\ phase = "p1" /\ Len(cur.p1) >= 1
             /\ \E rv \in RadVectors(Len(cur.p1)) : cur' = [cur EXCEPT !.rad = rv]
             /\ phase' = "k" /\ UNCHANGED <<scale, p2, ident, buf, calls, mech>>

CallWith(k) == [kind |-> Kind, p2 |-> p2, p1 |-> cur.p1, rad |-> cur.rad, k |-> k, ident |-> ident]
KSet == IF Scope = "h" THEN {0, 1} ELSE IF Scope = "d" THEN {0, 1, 3} ELSE {-1, 0, 1, 2, 3, MaxGroup(CallWith(0)) + 1}

ChooseK ==                                \* model-checking flavour: one maxmatch, then the mechanism runs
    /\ phase = "k"
    /\ \E k \in KSet : calls' = Append(calls, [op |-> "call", p1 |-> cur.p1, rad |-> cur.rad, k |-> k])
    /\ cur' = NoCall
    /\ phase' = "mech" /\ mech' = [on |-> TRUE, i |-> 1, out |-> <<>>, all |-> <<>>]
    /\ UNCHANGED <<scale, p2, ident, buf>>

\* export flavour: the exported call record carries the list ks of maxmatch values it is to be made with
ChooseKs ==
    /\ phase = "k"
    /\ \E ks \in (IF KMode = "sweep" THEN {VSortSet(KSet)} ELSE {<<k>> : k \in KSet}) :
          calls' = Append(calls, [op |-> "call", p1 |-> cur.p1, rad |-> cur.rad, ks |-> ks])
    /\ cur' = NoCall /\ phase' = "idle" /\ mech' = NoMech
    /\ UNCHANGED <<scale, p2, ident, buf>>

\* the call is judged against the point set the matcher was BUILT from - never against buf
LastCall == LET e == calls[Len(calls)] IN [kind |-> Kind, p2 |-> p2, p1 |-> e.p1, rad |-> e.rad, k |-> e.k, ident |-> ident]

\* ---- implementation-shaped model of Matcher::match for one first-set point ------------------
\* all orders of S that are non-decreasing in separation from p1[i] (std::sort is not stable)
RECURSIVE Orderings(_, _, _)
Orderings(c, i, S) ==
    IF S = {} THEN {<<>>}
    ELSE UNION {{<<m>> \o t : t \in Orderings(c, i, S \ {m})} :
                m \in {j \in S : \A h \in S : SC(c, i, j, h) <= 0}}
\* the triangles returned by the circle intersection hold every point within the radius (that is
\* C13's cover clause); points outside may be among the candidates too - the filter removes them
Candidates(c, i) ==
    IF Deviation = "lossy_cover" /\ N2(c) > 1 THEN 1..(N2(c) - 1) ELSE 1..N2(c)
\* dis <= rad : exact ties may fall either way in floating point - except bit-identical points (dis = 0 exactly)
Kept(c, i) ==
    LET cand == Candidates(c, i)
        must == cand \cap Must(c, i)
        ties == (cand \cap May(c, i)) \ must
    IN {must \cup T : T \in SUBSET ties}
Trunc(c, sq) == IF Limited(c) /\ Len(sq) > c.k THEN SubSeq(sq, 1, c.k) ELSE sq
\* one pass decides once which candidates are kept (S) and how ties sort (sq): the unlimited answer is sq, the limited
\* answer its first k.  Deviating variants: truncation before the sort; a closest-only fast path for maxmatch = 1
\* that compares strictly and so loses a nearest neighbour lying exactly on the radius
LimGroups(c, i, S, sq) ==
    IF Deviation = "truncate_unsorted" THEN Orderings(c, i, VRange(Trunc(c, VSortSet(S))))
    ELSE IF Deviation = "fastpath_strict" /\ c.k = 1
         THEN {Trunc(c, q) : q \in Orderings(c, i, {j \in S : RC(c, i, j) = -1})}
         ELSE {Trunc(c, sq)}

MechStep ==
    /\ phase = "mech" /\ mech.i <= N1(LastCall)
    /\ \E S \in Kept(LastCall, mech.i) : \E sq \in Orderings(LastCall, mech.i, S) :
       \E g \in LimGroups(LastCall, mech.i, S, sq) :
          mech' = [mech EXCEPT !.i = @ + 1,
                               !.out = @ \o [t \in DOMAIN g |-> <<mech.i - 1, g[t] - 1>>],
                               !.all = @ \o [t \in DOMAIN sq |-> <<mech.i - 1, sq[t] - 1>>]]
    /\ UNCHANGED <<scale, phase, p2, ident, buf, calls, cur>>

MechDone ==
    /\ phase = "mech" /\ mech.i > N1(LastCall)
    /\ phase' = "idle" /\ UNCHANGED <<scale, p2, ident, buf, calls, cur, mech>>

\* a finished life may be marked as a SCALE case: its (single) call is to be made with the first set tiled up to
\* `scale` points and judged through ConcatLaw from the small call
Finish == /\ phase = "idle" /\ NCalls >= 1 /\ IsCall(calls[Len(calls)])
          /\ \E n \in (IF ScaleN = {} THEN {0} ELSE ScaleN) : scale' = n
          /\ phase' = "done" /\ UNCHANGED <<p2, ident, buf, calls, cur, mech>>

Next       == AddP2 \/ New \/ Overwrite \/ AddP1 \/ SelfCall \/ ChooseRad \/ ChooseK \/ MechStep \/ MechDone
NextExport == AddP2 \/ New \/ Overwrite \/ AddP1 \/ SelfCall \/ ChooseRad \/ ChooseKs \/ Finish
Spec == Init /\ [][Next]_vars

\* ---- properties -----------------------------------------------------------------------------
\* the matcher's abstract state never changes after New: neither a call nor the caller overwriting its arrays
\* (buf) can influence a later call
StateFrozen == [][phase # "p2" => (p2' = p2 /\ ident' = ident)]_vars

\* the implementation-shaped pass refines the property (with a positive limit: also "first k of the unlimited answer")
MechObs(c) == [ObsOfPairs(c, mech.out) EXCEPT !.hasall = Limited(c),
                                              !.all1 = [t \in DOMAIN mech.all |-> mech.all[t][1]],
                                              !.all2 = [t \in DOMAIN mech.all |-> mech.all[t][2]]]
MechRefines == (phase = "mech" /\ mech.i > N1(LastCall)) => Accept(LastCall, MechObs(LastCall))

\* the property-level spec accepts its own reference result, and that result has the stated shape
RefAccepted == (phase = "mech" /\ mech.i = 1) =>            \* once per call: the state right after ChooseK
    LET c == LastCall  o == RefObs(c) IN
    /\ Accept(c, o)
    /\ \A i \in 1..N1(c) : Must(c, i) \subseteq May(c, i)
    /\ ~Limited(c) => Len(o.m1) = VSumF(LAMBDA i : Cardinality(May(c, i)), 1..N1(c))
    /\ ConcatLaw(c)                                          \* the scale law, on every call of the small scope

\* acceptance is group-wise: every accepted output of the mechanism stays accepted when restricted to a part
AcceptLawHolds == (phase = "mech" /\ mech.i > N1(LastCall)) => AcceptLaw(LastCall, MechObs(LastCall))

\* ---- export ---------------------------------------------------------------------------------
Export == (DoExport /\ phase = "done") =>
              PrintT(<<"CASE", ToJson([kind |-> Kind, p2 |-> p2, ident |-> ident, calls |-> calls, scale |-> scale])>>)
=============================================================================
