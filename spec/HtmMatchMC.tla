------------------------------- MODULE HtmMatchMC -------------------------------
(* The matcher as a state machine, small scope:                                    *)
(*   AddP2* ; New ; ( (AddP1+ | SelfCall) ; ChooseRad ; (ChooseK ; MechStep* ; MechDone | ChooseKs) )* *)
(*  - the abstract state of a matcher is its own point list p2, frozen by New      *)
(*    (StateFrozen); a call's allowed results are a function of (p2, call) only -  *)
(*    no depth, no history - so every path through the machine is a behaviour the  *)
(*    real Matcher / HTM.match must reproduce call by call (exported and replayed); *)
(*  - Next (model checking): ChooseK picks ONE maxmatch and MechStep runs an        *)
(*    implementation-shaped model of htmc.cc Matcher::match on the call (per        *)
(*    first-set point: candidates from the triangle cover, distance filter          *)
(*    dis <= rad, unstable sort by distance, truncation to maxmatch, append);       *)
(*    MechRefines states that whatever it produces is accepted by the property-     *)
(*    level Failing of HtmMatch.tla.  Deviation # "none" selects a deviating        *)
(*    mechanism (a cover that loses a candidate; truncation before the sort) that   *)
(*    must VIOLATE MechRefines - the non-vacuity self-tests of the harness;         *)
(*  - RefAccepted: the property-level spec is satisfiable on every call (its own    *)
(*    reference result is accepted);                                                *)
(*  - NextExport (case generation, also under -simulate): ChooseKs records the      *)
(*    list of maxmatch values the call is to be made with (KMode "each": one of     *)
(*    KSet, "sweep": all of KSet in ascending order on the same matcher), Finish    *)
(*    ends a life and Export prints it.                                             *)
EXTENDS HtmMatch, Json

CONSTANTS Kind,        \* "gc" | "rs"
          Scope,       \* "q" | "t" | "s" | "m" | "h" : which sub-lattice / radius catalogue (below)
          MaxN2,       \* matcher sets of 1..MaxN2 points (sequences: order and duplicates matter)
          MaxN1,       \* searched sets of 1..MaxN1 points (plus the self-match p1 = p2)
          MaxCalls,    \* calls per matcher life
          PerPoint,    \* TRUE: also one radius per point
          Deviation,   \* "none" | "lossy_cover" | "truncate_unsorted" (the two deviating variants are self-tests)
          DoExport,    \* TRUE: print every finished life as JSON
          KMode        \* export runs only - "each": a call carries ONE maxmatch of KSet; "sweep": a call is made
                       \* with EVERY maxmatch of KSet, ascending, one after the other on the same matcher

VARIABLES phase, p2, calls, cur, mech
vars == <<phase, p2, calls, cur, mech>>

\* ---- catalogues ---------------------------------------------------------------------
\* great circle: <<a, b>> = a + b*eps degrees along the circle.  0/360 = the seam (equator) ;
\* 90 / 270 = the poles (meridian circles) or octant corners (equator) ; 180 antipode of the origin
GcPosQ == {<<0, 0>>, <<0, 1>>, <<0, -1>>, <<90, 0>>, <<180, 1>>}
GcPosT == GcPosQ \cup {<<0, 2>>, <<90, -1>>, <<270, 0>>, <<45, 0>>}
GcPosS == {<<a, b>> : a \in {0, 1, 45, 89, 90, 91, 179, 180, 181, 270, 359}, b \in -2..2}
\* radii <<a, h>> = a + h*eps/2 : half steps never tie; <<0,0>> and <<180,0>> are the two ends of the range
GcRadQ == {<<0, 1>>, <<0, 3>>, <<90, 1>>, <<180, -1>>}
GcRadT == GcRadQ \cup {<<0, 0>>, <<0, 5>>, <<1, -1>>, <<89, 1>>, <<90, -1>>, <<179, 3>>, <<180, 0>>}
GcRadS == GcRadT \cup {<<0, 7>>, <<2, 1>>, <<44, 1>>, <<45, -1>>, <<91, 3>>, <<135, 1>>, <<180, -3>>}

\* rational sphere: unit vectors (x,y,z)/d
RsPosQ == {<<1, 0, 0, 1>>, <<0, 0, 1, 1>>, <<3, 4, 0, 5>>, <<2, -1, 2, 3>>, <<-1, 0, 0, 1>>}
RsPosT == RsPosQ \cup {<<0, 0, -1, 1>>, <<4, 3, 0, 5>>, <<0, 1, 0, 1>>, <<2, 3, 6, 7>>}
RsPosS == RsPosT \cup {<<1, 2, 2, 3>>, <<2, 2, 1, 3>>, <<-2, -2, -1, 3>>, <<0, -3, 4, 5>>, <<6, 2, -3, 7>>,
                       <<1, 4, 8, 9>>, <<-4, 4, 7, 9>>, <<2, 6, 9, 11>>, <<6, -6, 7, 11>>, <<3, 4, 12, 13>>,
                       <<2, 10, 11, 15>>, <<-10, 10, 5, 15>>, <<2, 5, -14, 15>>, <<0, -1, 0, 1>>, <<-3, -4, 0, 5>>,
                       <<12, 0, 5, 13>>, <<0, 5, -12, 13>>, <<14, 2, 5, 15>>}
\* radii as cosines <<p, q>>: 1 (r = 0), 224/225, 24/25, 4/5, 3/5, 1/2, 0, -1/2, -4/5, -1 (r = 180); several tie exactly
RsRadQ == {<<4, 5>>, <<1, 2>>, <<0, 1>>, <<-1, 1>>}
RsRadT == RsRadQ \cup {<<1, 1>>, <<224, 225>>, <<24, 25>>, <<3, 5>>, <<-1, 2>>, <<-4, 5>>, <<2, 3>>}
RsRadS == RsRadT \cup {<<8, 9>>, <<-2, 3>>, <<1, 3>>, <<-3, 5>>, <<99, 100>>, <<-99, 100>>, <<12, 13>>}

\* scope "m" (great circle only) - micro-degree radii: the harness binds eps = 1e-7 degree, so the radii below are
\* 1.05e-6 .. 2.45e-6 degree (the statement's radii start at 1e-6) and the points sit a few 1e-7 degree either side
\* of position 45 (equator: a vertex of the depth-1 mesh) and of the origin (seam / octant corner)
GcPosM == {<<45, -13>>, <<45, -1>>, <<45, 0>>, <<45, 1>>, <<45, 8>>, <<0, -13>>, <<0, 1>>}
GcRadM == {<<0, 21>>, <<0, 29>>, <<0, 31>>, <<0, 49>>}
\* scope "h" - tiny catalogue for exhaustive multi-call lives (history independence)
GcPosH == {<<0, 0>>, <<0, 1>>, <<180, 1>>}
GcRadH == {<<0, 3>>, <<180, -1>>}
RsPosH == {<<1, 0, 0, 1>>, <<3, 4, 0, 5>>, <<-1, 0, 0, 1>>}
RsRadH == {<<1, 2>>, <<-1, 1>>}

Pos   == IF Kind = "gc" THEN (CASE Scope = "q" -> GcPosQ [] Scope = "t" -> GcPosT [] Scope = "s" -> GcPosS
                                [] Scope = "m" -> GcPosM [] Scope = "h" -> GcPosH)
         ELSE (CASE Scope = "q" -> RsPosQ [] Scope = "t" -> RsPosT [] Scope = "s" -> RsPosS [] Scope = "h" -> RsPosH)
Radii == IF Kind = "gc" THEN (CASE Scope = "q" -> GcRadQ [] Scope = "t" -> GcRadT [] Scope = "s" -> GcRadS
                                [] Scope = "m" -> GcRadM [] Scope = "h" -> GcRadH)
         ELSE (CASE Scope = "q" -> RsRadQ [] Scope = "t" -> RsRadT [] Scope = "s" -> RsRadS [] Scope = "h" -> RsRadH)

ASSUME Kind = "rs" => \A p \in Pos : RsIsPoint(p)
ASSUME Kind = "gc" => \A p \in Pos : GcIsPos(p)

\* ---- the machine ------------------------------------------------------------------------
NoCall  == [p1 |-> <<>>, rad |-> <<>>]
NoMech  == [on |-> FALSE, i |-> 0, out |-> <<>>]
Init == phase = "p2" /\ p2 = <<>> /\ calls = <<>> /\ cur = NoCall /\ mech = NoMech

AddP2 == /\ phase = "p2" /\ Len(p2) < MaxN2
         /\ \E p \in Pos : p2' = Append(p2, p)
         /\ UNCHANGED <<phase, calls, cur, mech>>

New == /\ phase = "p2" /\ Len(p2) >= 1              \* New(depth, p2): the depth is not part of the abstract state
       /\ phase' = "idle" /\ UNCHANGED <<p2, calls, cur, mech>>

AddP1 == /\ phase \in {"idle", "p1"} /\ Len(calls) < MaxCalls /\ Len(cur.p1) < MaxN1
         /\ \E p \in Pos : cur' = [cur EXCEPT !.p1 = Append(@, p)]
         /\ phase' = "p1" /\ UNCHANGED <<p2, calls, mech>>

SelfCall == /\ phase = "idle" /\ Len(calls) < MaxCalls          \* match the set against itself
            /\ cur' = [cur EXCEPT !.p1 = p2]
            /\ phase' = "p1" /\ UNCHANGED <<p2, calls, mech>>

RadVectors(n) ==                      \* one radius, or (n >= 2) a few per-point vectors built from the catalogue
    {<<r>> : r \in Radii} \cup
    (IF PerPoint /\ n >= 2
     THEN {[i \in 1..n |-> IF i % 2 = 1 THEN r ELSE s] : r \in Radii, s \in Radii}
     ELSE {})

ChooseRad == /\ phase = "p1" /\ Len(cur.p1) >= 1
             /\ \E rv \in RadVectors(Len(cur.p1)) : cur' = [cur EXCEPT !.rad = rv]
             /\ phase' = "k" /\ UNCHANGED <<p2, calls, mech>>

CallWith(k) == [kind |-> Kind, p2 |-> p2, p1 |-> cur.p1, rad |-> cur.rad, k |-> k]
KSet == IF Scope = "h" THEN {0, 1} ELSE {-1, 0, 1, 2, 3, MaxGroup(CallWith(0)) + 1}

ChooseK ==                                \* model-checking flavour: one maxmatch, then the mechanism runs
    /\ phase = "k"
    /\ \E k \in KSet : calls' = Append(calls, [p1 |-> cur.p1, rad |-> cur.rad, k |-> k])
    /\ cur' = NoCall
    /\ phase' = "mech" /\ mech' = [on |-> TRUE, i |-> 1, out |-> <<>>]
    /\ UNCHANGED p2

\* export flavour: the exported call record carries the list ks of maxmatch values it is to be made with
ChooseKs ==
    /\ phase = "k"
    /\ \E ks \in (IF KMode = "sweep" THEN {VSortSet(KSet)} ELSE {<<k>> : k \in KSet}) :
          calls' = Append(calls, [p1 |-> cur.p1, rad |-> cur.rad, ks |-> ks])
    /\ cur' = NoCall /\ phase' = "idle" /\ mech' = NoMech
    /\ UNCHANGED p2

LastCall == LET e == calls[Len(calls)] IN [kind |-> Kind, p2 |-> p2, p1 |-> e.p1, rad |-> e.rad, k |-> e.k]

\* ---- implementation-shaped model of Matcher::match for one first-set point ------------------
\* all orders of S that are non-decreasing in separation from p1[i] (std::sort is not stable)
RECURSIVE Orderings(_, _, _)
Orderings(c, i, S) ==
    IF S = {} THEN {<<>>}
    ELSE UNION {{<<m>> \o t : t \in Orderings(c, i, S \ {m})} :
                m \in {j \in S : \A h \in S : SC(c, i, j, h) <= 0}}
\* the triangles returned by the circle intersection hold every point within the radius (that is
\* C13's cover clause); points outside may be among the candidates too - the filter removes them
Candidates(c, i) ==
    IF Deviation = "lossy_cover" /\ N2(c) > 1 THEN 1..(N2(c) - 1) ELSE 1..N2(c)
\* dis <= rad : exact ties may fall either way in floating point
Kept(c, i) ==
    LET cand == Candidates(c, i)
        must == {j \in cand : RC(c, i, j) = -1}
        ties == {j \in cand : RC(c, i, j) = 0}
    IN {must \cup T : T \in SUBSET ties}
Trunc(c, sq) == IF Limited(c) /\ Len(sq) > c.k THEN SubSeq(sq, 1, c.k) ELSE sq
GroupOutputs(c, i) ==
    IF Deviation = "truncate_unsorted"
    THEN UNION {Orderings(c, i, VRange(Trunc(c, VSortSet(S)))) : S \in Kept(c, i)}      \* first k by index, then sorted
    ELSE UNION {{Trunc(c, sq) : sq \in Orderings(c, i, S)} : S \in Kept(c, i)}

MechStep ==
    /\ phase = "mech" /\ mech.i <= N1(LastCall)
    /\ \E g \in GroupOutputs(LastCall, mech.i) :
          mech' = [mech EXCEPT !.i = @ + 1,
                               !.out = @ \o [t \in DOMAIN g |-> <<mech.i - 1, g[t] - 1>>]]
    /\ UNCHANGED <<phase, p2, calls, cur>>

MechDone ==
    /\ phase = "mech" /\ mech.i > N1(LastCall)
    /\ phase' = "idle" /\ UNCHANGED <<p2, calls, cur, mech>>

Finish == /\ phase = "idle" /\ Len(calls) >= 1 /\ phase' = "done" /\ UNCHANGED <<p2, calls, cur, mech>>

Next       == AddP2 \/ New \/ AddP1 \/ SelfCall \/ ChooseRad \/ ChooseK \/ MechStep \/ MechDone
NextExport == AddP2 \/ New \/ AddP1 \/ SelfCall \/ ChooseRad \/ ChooseKs \/ Finish
Spec == Init /\ [][Next]_vars

\* ---- properties -----------------------------------------------------------------------------
\* the matcher's abstract state never changes after New: no call can influence a later one
StateFrozen == [][phase # "p2" => p2' = p2]_vars

\* the implementation-shaped pass refines the property
MechRefines == (phase = "mech" /\ mech.i > N1(LastCall)) => Accept(LastCall, ObsOfPairs(LastCall, mech.out))

\* the property-level spec accepts its own reference result, and that result has the stated shape
RefAccepted == (phase = "mech" /\ mech.i = 1) =>            \* once per call: the state right after ChooseK
    LET c == LastCall  o == RefObs(c) IN
    /\ Accept(c, o)
    /\ \A i \in 1..N1(c) : Must(c, i) \subseteq May(c, i)
    /\ ~Limited(c) => Len(o.m1) = VSumF(LAMBDA i : Cardinality(May(c, i)), 1..N1(c))

\* ---- export ---------------------------------------------------------------------------------
Export == (DoExport /\ phase = "done") =>
              PrintT(<<"CASE", ToJson([kind |-> Kind, p2 |-> p2, calls |-> calls])>>)
=============================================================================
