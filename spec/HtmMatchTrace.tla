------------------------------- MODULE HtmMatchTrace -------------------------------
(* Trace validation for HTM matching: one ndjson line = one recorded LIFE of a      *)
(* matcher on the real code,                                                        *)
(*   {"id": n, "kind": "gc"|"rs", "p2": [...], "ident": bool,                       *)
(*    "calls": [{"p1": [...], "rad": [...], "k": k, <observation fields>}, ...]}    *)
(* (New(depth, p2), then the calls in order; the depth, the object flavour -       *)
(* reusable Matcher or one-shot HTM.match -, the coordinate-array layout, the      *)
(* lattice instantiation and whatever the caller did to its arrays after handing   *)
(* them over (overwriting them in place) are NOT in the record: the specification  *)
(* says the result does not depend on them).  Every call is judged by the property-level Failing   *)
(* of HtmMatch.tla against the matcher state p2 alone, so a result that depends on *)
(* depth, flavour, layout or on earlier calls is rejected wherever it deviates.    *)
EXTENDS HtmMatch, Json, IOUtils

VARIABLES blk, tid
Traces == ndJsonDeserialize(IOEnv.TRACE_FILE)
NT == Len(Traces)
BlockSize == 256
NBlocks == (NT + BlockSize - 1) \div BlockSize

Init == blk = 0 /\ tid = 0
PickBlock == blk = 0 /\ tid = 0 /\ \E b \in 1..NBlocks : blk' = b /\ tid' = 0
PickTrace == blk > 0 /\ tid = 0
             /\ \E t \in ((blk - 1) * BlockSize + 1)..VMin2(blk * BlockSize, NT) : tid' = t /\ blk' = blk
Next == PickBlock \/ PickTrace

CallOf(r, e) == [kind |-> r.kind, p2 |-> r.p2, p1 |-> e.p1, rad |-> e.rad, k |-> e.k, ident |-> r.ident]

\* failing clauses, each tagged with the number of the call that shows it
FailingRec(r) == UNION {{<<n, f>> : f \in Failing(CallOf(r, r.calls[n]), r.calls[n])} : n \in DOMAIN r.calls}

Check == tid > 0 =>
    LET r == Traces[tid]  f == FailingRec(r)
    IN f = {} \/ PrintT(<<"REJECT", ToJson([id |-> r.id, failing |-> f])>>)
=============================================================================
