------------------------------- MODULE HtmMatchWorld -------------------------------
(* The WORLD machine of HTM matching (C12): one process, several matcher objects of    *)
(* different tree depths alive at once, the one-shot entry point HTM(depth).match, and  *)
(* the caller's own steps, interleaved:                                                 *)
(*   Pick ; ( New(depth, p2) | Call(obj) | OneShot(depth, p2) | Scribble(result) |      *)
(*            Drop(obj) | Repick )*                                                     *)
(* The property-level statement (HtmMatch.tla) makes the result of a call a function of *)
(* the point set ITS object was built from and of the call's arguments.  Hence          *)
(*   WorldIndependent: the outcome of every call of a session = the outcome of the same *)
(*   call in a fresh world (Fresh) - whatever other objects were built before or since, *)
(*   at whatever depth, whatever the other entry point did, whatever the caller did to  *)
(*   the arrays it was handed (they are the caller's), whichever objects were dropped.  *)
(* Mechanism selects an implementation-shaped model of the process state:               *)
(*   "own"                   every Matcher owns its spatial index (faithful);           *)
(*   "shared_index_by_depth" one per-process index, rebuilt only when a Matcher of a    *)
(*                           different depth is constructed (New or OneShot): an older  *)
(*                           object of another depth then looks its leaf ids up at the  *)
(*                           wrong depth and finds nothing;                             *)
(*   "memo_handout"          a per-object memo of results that hands out its own        *)
(*                           storage: the caller scribbling over a result corrupts the  *)
(*                           next identical call.                                       *)
(* "own" must satisfy WorldIndependent, the other two must violate it (self-tests).     *)
(* Depths are abstract labels: only their being equal or different matters.             *)
(* NextExport prints finished sessions; the harness executes each in ONE process and    *)
(* HtmMatchTrace judges every call against the point set of its own object.            *)
EXTENDS HtmMatch, Json

CONSTANTS Kind,        \* "gc" | "rs"
          Scope,       \* "h" tiny (exhaustive) | "w" wider (simulation / export)
          MaxObjs,     \* matcher objects per session
          MaxN2,       \* points per matcher set
          MaxN1,       \* points per searched set
          MaxEv,       \* events per session
          Depths,      \* abstract depth labels
          Mechanism,   \* "own" | "shared_index_by_depth" | "memo_handout"
          DoExport

VARIABLES phase, objs, ev, probe, shared, memo
vars == <<phase, objs, ev, probe, shared, memo>>

GcPosH == {<<0, 0>>, <<0, 1>>, <<180, 1>>}
GcRadH == {<<0, 3>>, <<180, -1>>}
RsPosH == {<<1, 0, 0, 1>>, <<3, 4, 0, 5>>, <<-1, 0, 0, 1>>}
RsRadH == {<<1, 2>>, <<-1, 1>>}
GcPosW == {<<0, 0>>, <<0, 1>>, <<0, -1>>, <<45, 0>>, <<180, 1>>, <<359, 2>>}
GcRadW == {<<0, 1>>, <<0, 3>>, <<1, 1>>, <<90, 1>>, <<180, -1>>}
RsPosW == {<<1, 0, 0, 1>>, <<0, 0, 1, 1>>, <<3, 4, 0, 5>>, <<2, -1, 2, 3>>, <<-1, 0, 0, 1>>, <<4, 3, 0, 5>>}
RsRadW == {<<1, 1>>, <<24, 25>>, <<4, 5>>, <<1, 2>>, <<0, 1>>, <<-1, 1>>}

Pos   == IF Kind = "gc" THEN (IF Scope = "h" THEN GcPosH ELSE GcPosW) ELSE (IF Scope = "h" THEN RsPosH ELSE RsPosW)
Radii == IF Kind = "gc" THEN (IF Scope = "h" THEN GcRadH ELSE GcRadW) ELSE (IF Scope = "h" THEN RsRadH ELSE RsRadW)
ASSUME Kind = "rs" => \A p \in Pos : RsIsPoint(p)
ASSUME Kind = "gc" => \A p \in Pos : GcIsPos(p)

SeqsUpTo(S, n) == UNION {[1..m -> S] : m \in 1..n}
P2Set  == SeqsUpTo(Pos, MaxN2)
Probes == [p1 : SeqsUpTo(Pos, MaxN1), rad : {<<r>> : r \in Radii}, k : {0, 1}]

NoProbe == [p1 |-> <<>>, rad |-> <<>>, k |-> 0]
Init == phase = "pick" /\ objs = <<>> /\ ev = <<>> /\ probe = NoProbe /\ shared = 0 /\ memo = <<>>

\* the call `pr` on a matcher built from p2v; equal lattice points are handed over bit-identically (no poles here)
CallRec(p2v, pr) == [kind |-> Kind, p2 |-> p2v, p1 |-> pr.p1, rad |-> pr.rad, k |-> pr.k, ident |-> TRUE]
\* the outcome in a fresh world: nothing but the object's own point set and the arguments
Fresh(p2v, pr) == RefFrom(CallRec(p2v, pr), 1)

Pick == /\ phase = "pick" /\ \E pr \in Probes : probe' = pr
        /\ phase' = "run" /\ UNCHANGED <<objs, ev, shared, memo>>
\* the next calls are made with other arguments (export / simulation only: model checking covers one probe per session)
Repick == /\ phase = "run" /\ Len(ev) < MaxEv /\ \E pr \in Probes \ {probe} : probe' = pr
          /\ UNCHANGED <<phase, objs, ev, shared, memo>>

New == /\ phase = "run" /\ Len(objs) < MaxObjs /\ Len(ev) < MaxEv
       /\ \E pv \in P2Set, d \in Depths :
             /\ objs' = Append(objs, [p2 |-> pv, depth |-> d, alive |-> TRUE])
             /\ ev' = Append(ev, [op |-> "new", obj |-> Len(objs) + 1, p2 |-> pv, depth |-> d])
             /\ shared' = d                       \* constructing a Matcher (re)builds the per-process index at its depth
       /\ UNCHANGED <<phase, probe, memo>>

\* what the mechanism returns for the probe on object o
Lookup(o) ==
    LET f == Fresh(objs[o].p2, probe) IN
    CASE Mechanism = "shared_index_by_depth" -> IF shared = objs[o].depth THEN f ELSE <<>>
      [] Mechanism = "memo_handout" ->
            IF \E n \in DOMAIN memo : memo[n].obj = o /\ memo[n].pr = probe
            THEN memo[CHOOSE n \in DOMAIN memo : memo[n].obj = o /\ memo[n].pr = probe].val ELSE f
      [] OTHER -> f

Call == /\ phase = "run" /\ Len(ev) < MaxEv
        /\ \E o \in DOMAIN objs :
              /\ objs[o].alive
              /\ ev' = Append(ev, [op |-> "call", obj |-> o, p1 |-> probe.p1, rad |-> probe.rad, k |-> probe.k, out |-> Lookup(o)])
              /\ memo' = IF \E n \in DOMAIN memo : memo[n].obj = o /\ memo[n].pr = probe THEN memo
                         ELSE Append(memo, [obj |-> o, pr |-> probe, val |-> Lookup(o), at |-> Len(ev) + 1])
        /\ UNCHANGED <<phase, objs, probe, shared>>

\* HTM(depth).match on the point set of one of the objects (the twin: same catalogue, any depth) - it builds a
\* Matcher of its own for the one call
OneShot == /\ phase = "run" /\ Len(ev) < MaxEv /\ Len(objs) >= 1
           /\ \E o \in DOMAIN objs, d \in Depths :
                 /\ ev' = Append(ev, [op |-> "oneshot", depth |-> d, p2 |-> objs[o].p2, p1 |-> probe.p1, rad |-> probe.rad,
                                       k |-> probe.k, out |-> Fresh(objs[o].p2, probe)])
                 /\ shared' = d
           /\ UNCHANGED <<phase, objs, probe, memo>>

\* the caller overwrites the arrays an earlier call returned (they are the caller's)
Scribble == /\ phase = "run" /\ Len(ev) < MaxEv
            /\ \E n \in DOMAIN ev :
                  /\ ev[n].op \in {"call", "oneshot"}
                  /\ \A m \in DOMAIN ev : ev[m].op = "scribble" => ev[m].at # n
                  /\ ev' = Append(ev, [op |-> "scribble", at |-> n])
                  /\ memo' = [t \in DOMAIN memo |-> IF Mechanism = "memo_handout" /\ memo[t].at = n
                                                    THEN [memo[t] EXCEPT !.val = <<>>] ELSE memo[t]]
            /\ UNCHANGED <<phase, objs, probe, shared>>

\* the caller drops an object (garbage collected); the others live on
Drop == /\ phase = "run" /\ Len(ev) < MaxEv
        /\ \E o \in DOMAIN objs : /\ objs[o].alive /\ \E q \in DOMAIN objs : q # o /\ objs[q].alive
                                  /\ objs' = [objs EXCEPT ![o].alive = FALSE]
                                  /\ ev' = Append(ev, [op |-> "drop", obj |-> o])
        /\ UNCHANGED <<phase, probe, shared, memo>>

IsCallEv(e) == e.op \in {"call", "oneshot"}
Finish == /\ phase = "run" /\ \E n \in DOMAIN ev : IsCallEv(ev[n])
          /\ phase' = "done" /\ UNCHANGED <<objs, ev, probe, shared, memo>>

Next       == Pick \/ New \/ Call \/ OneShot \/ Scribble \/ Drop
NextExport == Pick \/ Repick \/ New \/ Call \/ OneShot \/ Scribble \/ Drop \/ Finish
NextExportOne == Pick \/ New \/ Call \/ OneShot \/ Scribble \/ Drop \/ Finish       \* one probe per session (exhaustive export)
Spec == Init /\ [][Next]_vars

\* ---- properties ---------------------------------------------------------------------------
P2Of(e) == IF e.op = "call" THEN objs[e.obj].p2 ELSE e.p2
PrOf(e) == [p1 |-> e.p1, rad |-> e.rad, k |-> e.k]
\* every call's outcome is the fresh-world outcome, and the property-level clauses accept it
WorldIndependent ==
    \A n \in DOMAIN ev : IsCallEv(ev[n]) =>
        /\ ev[n].out = Fresh(P2Of(ev[n]), PrOf(ev[n]))
        /\ Accept(CallRec(P2Of(ev[n]), PrOf(ev[n])), ObsOfPairs(CallRec(P2Of(ev[n]), PrOf(ev[n])), ev[n].out))
\* an object's point set and depth are fixed by New; nothing done in the world changes them
WorldFrozen == [][\A o \in DOMAIN objs : objs'[o].p2 = objs[o].p2 /\ objs'[o].depth = objs[o].depth]_vars

Export == (DoExport /\ phase = "done") => PrintT(<<"CASE", ToJson([kind |-> Kind, events |-> ev])>>)
=============================================================================
