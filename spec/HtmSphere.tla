------------------------------- MODULE HtmSphere -------------------------------
(* Exact spherical geometry on two integer lattices, for the HTM properties       *)
(* (C12 matching, C13 ids / circle cover / pair counts).  Self-contained.          *)
(*                                                                                *)
(* kind "gc" - great-circle lattice.  All points of one case lie on ONE great     *)
(*   circle (the equator or a meridian circle through both poles; which one, and  *)
(*   where its origin is, is a concretisation chosen by the harness and invisible *)
(*   here).  A position is <<a, b>> standing for the arc  a + b*eps  degrees      *)
(*   along the circle, a \in 0..359, b a small integer, eps a symbolic unit with  *)
(*   |b|*eps < 1/2 (the harness instantiates eps = 1e-3, 1e-6, ...).  Values are  *)
(*   compared lexicographically, separations are arithmetic modulo 360 - exact.   *)
(*   A radius is <<a, h>> standing for  a + h*eps/2  (HALF lattice steps: an odd  *)
(*   h can never tie with a separation).                                          *)
(*                                                                                *)
(* kind "rs" - rational sphere.  A point is <<x, y, z, d>> with x^2+y^2+z^2=d^2,  *)
(*   i.e. the unit vector (x,y,z)/d.  The cosine of a separation is the rational  *)
(*   dot/(d1*d2); a radius is its cosine <<p, q>> (q > 0).  Every comparison is   *)
(*   an integer cross-multiplication; two different values differ by at least     *)
(*   1/(15^3), so only EXACT ties are boundary cases.                             *)
EXTENDS VU

\* ---- lexicographic pairs --------------------------------------------------------
HsLt(x, y)  == x[1] < y[1] \/ (x[1] = y[1] /\ x[2] < y[2])
HsCmp(x, y) == IF x[1] = y[1] /\ x[2] = y[2] THEN 0 ELSE IF HsLt(x, y) THEN -1 ELSE 1
HsSign(n)   == IF n = 0 THEN 0 ELSE IF n < 0 THEN -1 ELSE 1

\* ---- great-circle lattice -------------------------------------------------------
GcIsPos(p) == p[1] \in 0..359
\* separation of two positions: <<a, b>> with <<0,0>> <= . <= <<180,0>>
GcSep(p, q) ==
    LET d0 == <<p[1] - q[1], p[2] - q[2]>>
        d1 == IF HsLt(d0, <<0, 0>>) THEN <<-d0[1], -d0[2]>> ELSE d0          \* |p - q| in [0, 360)
    IN IF HsLt(<<180, 0>>, d1) THEN <<360 - d1[1], -d1[2]>> ELSE d1
\* a separation against a radius in half steps
GcRadCmp(s, r) == HsCmp(<<s[1], 2 * s[2]>>, r)
\* scaled separation m*s (C13 pair counts with a scale)
GcScale(s, m) == <<m * s[1], m * s[2]>>

\* ---- rational sphere --------------------------------------------------------------
RsIsPoint(p) == p[4] > 0 /\ p[1] * p[1] + p[2] * p[2] + p[3] * p[3] = p[4] * p[4]
RsDot(p, q)  == p[1] * q[1] + p[2] * q[2] + p[3] * q[3]
RsCos(p, q)  == RNorm(RsDot(p, q), p[4] * q[4])            \* normalised <<n, d>>
\* compare two rationals <<n1,d1>>, <<n2,d2>> (d > 0):  -1 / 0 / 1
RsRCmp(a, b) == HsSign(a[1] * b[2] - b[1] * a[2])

\* ---- the interface used by HtmMatch / HtmIds -------------------------------------
\* exact separation "value": gc -> <<a,b>>, rs -> the cosine <<n,d>>
HsSep(kind, p, q) == IF kind = "gc" THEN GcSep(p, q) ELSE RsCos(p, q)
\* is sep(p,q1) smaller (-1), equal (0), larger (1) than sep(p,q2)
HsSepCmp(kind, p, q1, q2) ==
    IF kind = "gc" THEN HsCmp(GcSep(p, q1), GcSep(p, q2))
    ELSE RsRCmp(RsCos(p, q2), RsCos(p, q1))                 \* larger cosine = smaller separation
\* sep(p,q) against the radius r:  -1 strictly inside, 0 exactly on it, 1 outside
HsRadCmp(kind, p, q, r) ==
    IF kind = "gc" THEN GcRadCmp(GcSep(p, q), r)
    ELSE RsRCmp(r, RsCos(p, q))
HsSame(kind, p, q) == IF kind = "gc" THEN GcSep(p, q) = <<0, 0>> ELSE RsRCmp(RsCos(p, q), <<1, 1>>) = 0
\* coarse class of a separation (only used to name failing clauses stably)
HsSepClass(kind, p, q) ==
    IF kind = "gc"
    THEN LET s == GcSep(p, q) IN
         IF s = <<0, 0>> THEN "zero"
         ELSE IF s[1] = 0 THEN "few_eps"                   \* b*eps, b > 0
         ELSE IF s[1] = 180 THEN "near_180"                \* 180 - |b|*eps
         ELSE "generic"
    ELSE LET c == RsCos(p, q) IN
         IF c = <<1, 1>> THEN "zero" ELSE IF c = <<-1, 1>> THEN "near_180" ELSE "generic"

\* ---- base-4 digit strings (HTM ids) ------------------------------------------------
\* an id at depth d is the sequence of its d+2 base-4 digits, leading digit 2 (south) or 3 (north)
IdValid(id, d)   == Len(id) = d + 2 /\ id[1] \in {2, 3} /\ \A i \in DOMAIN id : id[i] \in 0..3
IdIsChild(c, p)  == Len(c) = Len(p) + 1 /\ VIsPrefix(p, c)
=============================================================================
