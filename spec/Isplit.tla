------------------------------- MODULE Isplit -------------------------------
(* Exhaustive model of the two chunking functions of C20.                          *)
(*                                                                                 *)
(*  isplit(num, nchunks)   esutil/algorithm.py: division points from divmod -      *)
(*      Divmod -> Sizes -> Cumsum -> Fill, one action per code step;               *)
(*  splitarray(nper, a)    esutil/numpy_util.py: ceil(len/nper) slices             *)
(*      [i*nper, (i+1)*nper) - SCount -> SSlice (one slice per step).              *)
(*                                                                                 *)
(* ChooseNum / ChooseChunks (and ChooseLen / ChooseNper) enumerate every case of   *)
(* the bounded space in two levels, so that TLC's workers share the space; the     *)
(* case states are exported as JSON and executed on the real functions.  The       *)
(* finished mechanism run must be accepted by the property-level definitions of    *)
(* Algo.tla (MechRefines), which must also accept their own reference answer and   *)
(* nothing else of the same shape (RefUnique: the statement determines isplit).    *)
EXTENDS Algo, Json

CONSTANTS MaxNum,      \* isplit: num in 0..MaxNum
          MaxChunks,   \* isplit: nchunks in 1..MaxChunks
          MaxLen,      \* splitarray: arrays of length 0..MaxLen (the array 1..len)
          MaxNper,     \* splitarray: nper in 1..MaxNper
          SizesFirst,  \* TRUE: the `extras` larger sections come first (the code as written)
          DoExport

VARIABLES phase, c, m
vars == <<phase, c, m>>

Init == phase = "start" /\ c = [fn |-> "none"] /\ m = <<>>

\* ---- enumeration ------------------------------------------------------------------------
ChooseNum ==
    /\ phase = "start"
    /\ \E num \in 0..MaxNum : c' = [fn |-> "isplit", num |-> num, nchunks |-> 0]
    /\ phase' = "num" /\ UNCHANGED m
ChooseChunks ==
    /\ phase = "num"
    /\ \E n \in 1..MaxChunks : c' = [c EXCEPT !.nchunks = n]
    /\ phase' = "icase" /\ UNCHANGED m
ChooseLen ==
    /\ phase = "start"
    /\ \E len \in 0..MaxLen : c' = [fn |-> "splitarray", a |-> [i \in 1..len |-> i], nper |-> 0]
    /\ phase' = "len" /\ UNCHANGED m
ChooseNper ==
    /\ phase = "len"
    /\ \E p \in 1..MaxNper : c' = [c EXCEPT !.nper = p]
    /\ phase' = "scase" /\ UNCHANGED m

\* ---- isplit, step by step ---------------------------------------------------------------
Divmod ==                                   \* neach_section, extras = divmod(num, nchunks)
    /\ phase = "icase"
    /\ m' = [each |-> c.num \div c.nchunks, extras |-> c.num % c.nchunks]
    /\ phase' = "divmod" /\ UNCHANGED c
Sizes ==                                    \* [0] + extras*[each+1] + (nchunks-extras)*[each]
    /\ phase = "divmod"
    /\ LET big   == [i \in 1..m.extras |-> m.each + 1]
           small == [i \in 1..(c.nchunks - m.extras) |-> m.each]
       IN m' = [sizes |-> <<0>> \o (IF SizesFirst THEN big \o small ELSE small \o big)]
    /\ phase' = "sizes" /\ UNCHANGED c
RECURSIVE RunningSums(_)
RunningSums(s) == IF s = <<>> THEN <<>>
                  ELSE LET p == RunningSums(SubSeq(s, 1, Len(s) - 1))
                       IN Append(p, (IF p = <<>> THEN 0 ELSE p[Len(p)]) + s[Len(s)])
Cumsum ==                                   \* div_points = cumsum(section_sizes)
    /\ phase = "sizes"
    /\ m' = [div |-> RunningSums(m.sizes)]
    /\ phase' = "cumsum" /\ UNCHANGED c
Fill ==                                     \* subs['start'][i] = div[i]; subs['end'][i] = div[i+1]
    /\ phase = "cumsum"
    /\ m' = [err |-> "none",
             starts |-> [i \in 1..c.nchunks |-> m.div[i]],
             ends   |-> [i \in 1..c.nchunks |-> m.div[i + 1]]]
    /\ phase' = "idone" /\ UNCHANGED c

\* ---- splitarray, step by step -------------------------------------------------------------
SCount ==                                   \* nchunks = size // nper (+1 if size % nper != 0)
    /\ phase = "scase"
    /\ LET n == Len(c.a) IN
       m' = [k |-> (n \div c.nper) + (IF n % c.nper # 0 THEN 1 ELSE 0), i |-> 0, chunks |-> <<>>]
    /\ phase' = "slicing" /\ UNCHANGED c
PySlice(a, s, e) == SubSeq(a, VMin2(s, Len(a)) + 1, VMin2(e, Len(a)))   \* a[s:e], 0 <= s <= e
SSlice ==                                   \* chunks.append(var[i*nper:(i+1)*nper])
    /\ phase = "slicing" /\ m.i < m.k
    /\ m' = [m EXCEPT !.i = @ + 1, !.chunks = Append(@, PySlice(c.a, m.i * c.nper, (m.i + 1) * c.nper))]
    /\ UNCHANGED <<phase, c>>
SReturn ==
    /\ phase = "slicing" /\ m.i = m.k
    /\ m' = [err |-> "none", chunks |-> m.chunks]
    /\ phase' = "sdone" /\ UNCHANGED c

Next == \/ ChooseNum \/ ChooseChunks \/ Divmod \/ Sizes \/ Cumsum \/ Fill
        \/ ChooseLen \/ ChooseNper \/ SCount \/ SSlice \/ SReturn
NextExport == ChooseNum \/ ChooseChunks \/ ChooseLen \/ ChooseNper
Spec == Init /\ [][Next]_vars

\* ---- properties ------------------------------------------------------------------------------
MechRefines ==
    /\ phase = "idone" => IsplitAccept(c, m)
    /\ phase = "sdone" => SplitAccept(c, m)

\* the property-level definitions accept their reference answers, and the mechanisms
\* compute exactly those
RefAccepted ==
    /\ phase = "icase" => IsplitAccept(c, IsplitRef(c))
    /\ phase = "idone" => m = IsplitRef(c)
    /\ phase = "scase" => SplitAccept(c, SplitRef(c))
    /\ phase = "sdone" => m = SplitRef(c)

\* the statement determines isplit's answer: among all division-point vectors that
\* move one boundary of the reference by one, none is accepted (checked for num <= 40,
\* nchunks <= 8: the check is cubic in nchunks)
RefUnique == (phase = "icase" /\ c.nchunks >= 2 /\ c.nchunks <= 8 /\ c.num <= 40) =>
    LET r == IsplitRef(c) IN
    \A k \in 1..(c.nchunks - 1) : \A d \in {-1, 1} :
        ~IsplitAccept(c, [r EXCEPT !.ends[k] = @ + d, !.starts[k + 1] = @ + d])

\* ---- export ---------------------------------------------------------------------------------------
Export == (DoExport /\ phase \in {"icase", "scase"}) => PrintT(<<"CASE", ToJson(c)>>)
=============================================================================
