------------------------------- MODULE IsplitWorld -------------------------------
(* WORLD machine for the chunking functions of C20: a SESSION is a sequence of      *)
(* calls made by one process -                                                      *)
(*   icall(num, nchunks)      isplit; the result is handed to the caller (a slot);  *)
(*   scribble(slot, how)      the caller overwrites a result it was handed, in      *)
(*                            place ("shift": start += 1000, end += 1000 - ranges   *)
(*                            turned into row numbers of a file section; "zero":    *)
(*                            end[:] = 0) - results are the caller's;               *)
(*   scall(nper, arr)         splitarray on one of the caller's arrays;             *)
(*   mutarr(arr, how)         the caller changes that array in place between calls  *)
(*                            (through the writable base when a read-only view is   *)
(*                            what it passes).                                      *)
(* The property-level statement: the outcome of a call depends on its arguments     *)
(* (for splitarray: on what the array holds AT THE TIME of the call) - never on     *)
(* earlier calls, nor on what the caller did to results of earlier calls; and a     *)
(* result, once handed out, changes only when its holder changes it.                *)
(*   WorldInv   every call returned the fresh-world outcome (Algo!IsplitAccept /    *)
(*              SplitAccept of the reference answer) and every held result is what  *)
(*              was handed out plus the holder's own scribbles.                     *)
(* Mechanisms (Mech):                                                               *)
(*   "fresh"        a new table per call (the code as written);                     *)
(*   "memo_copy"    tables memoised by (num, nchunks), a COPY handed out: faithful;  *)
(*   "memo_shared"  tables memoised, the memo's own storage handed out; splitarray  *)
(*                  memoised by (nper, identity of the array): both violate         *)
(*                  WorldInv (self-test).                                           *)
(* Sessions for the conformance run come from `tlc -simulate` (WNextExport prefers  *)
(* nothing: the alphabets are small, so equal-argument calls with a scribble in     *)
(* between are frequent; the adapter's vacuity guard counts them).                  *)
EXTENDS Algo, Json

CONSTANTS Nums, Chunks,   \* isplit arguments
          ArrLenA, ArrLenB, \* the caller's two arrays: array i holds 1..ArrLens[i] at the start
          Npers,          \* splitarray chunk sizes
          MaxOps, MaxSlots, Mech, DoExport

VARIABLES ops, heap, slots, exp, arrs, memo, smemo, ok
wvars == <<ops, heap, slots, exp, arrs, memo, smemo, ok>>

ArrLens == <<ArrLenA, ArrLenB>>
Table(c) == LET r == IsplitRef(c) IN [starts |-> r.starts, ends |-> r.ends]
AsObs(t) == [err |-> "none", starts |-> t.starts, ends |-> t.ends]
Scrib(t, how) ==
    CASE how = "shift" -> [starts |-> [i \in DOMAIN t.starts |-> t.starts[i] + 1000], ends |-> [i \in DOMAIN t.ends |-> t.ends[i] + 1000]]
      [] how = "zero"  -> [starts |-> t.starts, ends |-> [i \in DOMAIN t.ends |-> 0]]
      [] OTHER         -> t
Mut(a, how) ==
    CASE how = "reverse" -> [i \in 1..Len(a) |-> a[Len(a) + 1 - i]]
      [] how = "rot"     -> [i \in 1..Len(a) |-> a[(i % Len(a)) + 1]]
      [] OTHER           -> a
Arrs0 == [i \in DOMAIN ArrLens |-> [j \in 1..ArrLens[i] |-> j]]

WInit == /\ ops = <<>> /\ heap = <<>> /\ slots = <<>> /\ exp = <<>> /\ arrs = Arrs0
         /\ memo = {} /\ smemo = {} /\ ok = TRUE

\* what the mechanism does for isplit(num, k): <<heap', cell handed out, memo'>>
IMech(num, k) ==
    LET c == [num |-> num, nchunks |-> k]
        hit == {m \in memo : m[1] = <<num, k>>}
        n == Len(heap)
    IN IF Mech = "fresh" THEN <<Append(heap, Table(c)), n + 1, memo>>
       ELSE IF hit # {}
            THEN LET cell == (CHOOSE m \in hit : TRUE)[2] IN
                 IF Mech = "memo_shared" THEN <<heap, cell, memo>>
                 ELSE <<Append(heap, heap[cell]), n + 1, memo>>
            ELSE IF Mech = "memo_shared" THEN <<Append(heap, Table(c)), n + 1, memo \cup {<< <<num, k>>, n + 1 >>}>>
                 ELSE <<heap \o <<Table(c), Table(c)>>, n + 2, memo \cup {<< <<num, k>>, n + 1 >>}>>
ICall(num, k, fl) ==
    /\ Len(slots) < MaxSlots
    /\ LET r == IMech(num, k)  c == [num |-> num, nchunks |-> k] IN
       /\ heap' = r[1] /\ slots' = Append(slots, r[2]) /\ memo' = r[3]
       /\ exp' = Append(exp, Table(c))
       /\ ok' = (DoExport \/ (ok /\ IsplitAccept(c, AsObs(r[1][r[2]]))))       \* export runs only enumerate sessions
    /\ ops' = Append(ops, [op |-> "icall", num |-> num, nchunks |-> k, fl |-> fl])
    /\ UNCHANGED <<arrs, smemo>>
Scribble(s, how) ==
    /\ heap' = [heap EXCEPT ![slots[s]] = Scrib(@, how)]
    /\ exp' = [exp EXCEPT ![s] = Scrib(@, how)]
    /\ ops' = Append(ops, [op |-> "scribble", slot |-> s, how |-> how])
    /\ UNCHANGED <<slots, arrs, memo, smemo, ok>>
SCall(p, a) ==
    LET c == [nper |-> p, a |-> arrs[a]]
        hit == {m \in smemo : m[1] = <<p, a>>}
        res == IF Mech = "memo_shared" /\ hit # {} THEN (CHOOSE m \in hit : TRUE)[2] ELSE SplitRef(c).chunks
    IN /\ ok' = (DoExport \/ (ok /\ SplitAccept(c, [err |-> "none", chunks |-> res])))
       /\ smemo' = IF Mech = "memo_shared" /\ hit = {} THEN smemo \cup {<< <<p, a>>, res >>} ELSE smemo
       /\ ops' = Append(ops, [op |-> "scall", nper |-> p, arr |-> a])
       /\ UNCHANGED <<heap, slots, exp, arrs, memo>>
MutArr(a, how) ==
    /\ arrs' = [arrs EXCEPT ![a] = Mut(@, how)]
    /\ ops' = Append(ops, [op |-> "mutarr", arr |-> a, how |-> how])
    /\ UNCHANGED <<heap, slots, exp, memo, smemo, ok>>

\* python int / numpy integer arguments (equal, and equal as memo keys): a dimension of the exported sessions only
Flavours == IF DoExport THEN {"int", "npint"} ELSE {"int"}
WNext == /\ Len(ops) < MaxOps
         /\ \/ \E num \in Nums, k \in Chunks, fl \in Flavours : ICall(num, k, fl)
            \/ \E s \in DOMAIN slots, how \in {"shift", "zero"} : Scribble(s, how)
            \/ \E p \in Npers, a \in DOMAIN ArrLens : SCall(p, a)
            \/ \E a \in DOMAIN ArrLens, how \in {"reverse", "rot"} : MutArr(a, how)

WorldInv == /\ ok
            /\ \A s \in DOMAIN slots : heap[slots[s]] = exp[s]

Export == (DoExport /\ Len(ops) = MaxOps) => PrintT(<<"SESS", ToJson([ops |-> ops])>>)
=============================================================================
