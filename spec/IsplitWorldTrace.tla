------------------------------- MODULE IsplitWorldTrace -------------------------------
(* Trace validation for SESSIONS of isplit / splitarray calls made by one process   *)
(* (IsplitWorld.tla).  One ndjson line per session:                                 *)
(*   {"id": k, "arrs0": [[..], ..], "ops": [                                        *)
(*      {"op": "icall", "num": .., "nchunks": .., "fl": ..,                         *)
(*       "res": {"err": .., "starts": [..], "ends": [..]}, "held": [..]},           *)
(*      {"op": "scribble", "slot": .., "how": .., "done": true|false, "held": [..]},*)
(*      {"op": "scall", "nper": .., "arr": .., "res": {"err": .., "chunks": [[..]]},*)
(*       "held": [..]},                                                             *)
(*      {"op": "mutarr", "arr": .., "how": .., "after": [..], "held": [..]} ]}      *)
(* `res` is what the real function returned, `held` what ALL results handed out so  *)
(* far hold after the operation (re-read through the caller's handles), `after`     *)
(* what the caller's real array holds (must agree with IsplitWorld!Mut: clause      *)
(* harness_state_mismatch = machinery, not a verdict), `done` whether the result    *)
(* let itself be overwritten (a read-only result is a stutter step).  The abstract  *)
(* state is folded along the operations; every call is judged by Algo!IsplitFailing *)
(* / SplitFailing against the arguments AT THE TIME of the call (= the outcome in a *)
(* fresh world), every operation by earlier_result_changed: the held results are    *)
(* what was handed out plus the holder's own scribbles.                             *)
EXTENDS IsplitWorld, IOUtils

VARIABLES blk, tid
Traces == ndJsonDeserialize(IOEnv.TRACE_FILE)
NT == Len(Traces)
BlockSize == 64
NBlocks == (NT + BlockSize - 1) \div BlockSize

Init == blk = 0 /\ tid = 0 /\ WInit
PickBlock == blk = 0 /\ tid = 0 /\ \E b \in 1..NBlocks : blk' = b /\ tid' = 0
PickTrace == blk > 0 /\ tid = 0
             /\ \E t \in ((blk - 1) * BlockSize + 1)..VMin2(blk * BlockSize, NT) : tid' = t /\ blk' = blk
Next == (PickBlock \/ PickTrace) /\ UNCHANGED wvars

NoTable == [starts |-> <<>>, ends |-> <<>>]
TStep(st, o) ==
    CASE o.op = "icall"    -> [st EXCEPT !.exp = Append(@, IF o.res.err = "none" THEN [starts |-> o.res.starts, ends |-> o.res.ends] ELSE NoTable)]
      [] o.op = "scribble" -> IF o.done THEN [st EXCEPT !.exp[o.slot] = Scrib(@, o.how)] ELSE st
      [] o.op = "mutarr"   -> [st EXCEPT !.arrs[o.arr] = Mut(@, o.how)]
      [] OTHER             -> st
TOpFailing(st, o) ==
    (CASE o.op = "icall"  -> IsplitFailing([num |-> o.num, nchunks |-> o.nchunks], o.res)
       [] o.op = "scall"  -> SplitFailing([nper |-> o.nper, a |-> st.arrs[o.arr]], o.res)
       [] o.op = "mutarr" -> IF Mut(st.arrs[o.arr], o.how) = o.after THEN {} ELSE {"harness_state_mismatch"}
       [] OTHER           -> {})
    \cup (IF o.held = TStep(st, o).exp THEN {} ELSE {"earlier_result_changed"})

\* after an operation the fold continues from what the handles really hold: every unexplained change is reported once
RECURSIVE TRun(_, _, _, _)
TRun(os, i, st, acc) ==
    IF i > Len(os) THEN acc
    ELSE TRun(os, i + 1, [TStep(st, os[i]) EXCEPT !.exp = os[i].held], acc \cup {<<i, f>> : f \in TOpFailing(st, os[i])})

Check == tid > 0 =>
    LET r == Traces[tid]  f == TRun(r.ops, 1, [exp |-> <<>>, arrs |-> r.arrs0], {})
    IN f = {} \/ PrintT(<<"REJECT", ToJson([id |-> r.id, failing |-> f])>>)
=============================================================================
