------------------------------- MODULE PoolHist -------------------------------
(* HISTORIES of esutil.pbar.pmap calls made by ONE process.                         *)
(*                                                                                 *)
(* PoolMap.tla is one call: under every schedule the delivered list is              *)
(* map(fn, items) (FinalInv).  This module is the machine over calls: every call    *)
(* has its own fn / items / nproc / chunksize / item source, and between the calls  *)
(* the caller changes what the next call must see:                                  *)
(*   settab   the module-level table the task functions read (vh/c20_tasks.TABLE)   *)
(*            is re-bound to a new list or overwritten in place;                    *)
(*   mut      the caller's item list - ONE list object for the whole history - is   *)
(*            appended to, popped, reversed, overwritten, cleared;                  *)
(*   newiter  a long-lived iterator over (a copy of) the current items is made; a   *)
(*            call fed from it consumes it, the next call fed from it gets nothing; *)
(*   call     pmap(fn, <list | tuple copy | fresh generator | the iterator>,        *)
(*                 nproc = W, chunksize = cs, <progress options>).                  *)
(* The statement "the parallel map returns list(map(fn, items))" is read per call,  *)
(* in the parent, AT THE TIME of the call:                                          *)
(*     result of call k = PHExpect(fn_k, table at call k, items at call k).         *)
(* A call whose fn raises for some item fails like list(map(fn, items)) does and    *)
(* is a stutter step on the abstract state, as is a call with an argument outside   *)
(* the quantifier (chunksize 0): whatever it does, the calls after it are judged    *)
(* as if it had not happened.                                                       *)
(*                                                                                 *)
(* The model part is the same machine with an implementation-shaped worker pool:    *)
(* PoolMode = "fresh"  - the pool is created inside the call, its workers are       *)
(*                       forked from the parent as it is then (the code);           *)
(* PoolMode = "cached" - one pool per nproc is kept between calls, its workers are  *)
(*                       a snapshot of the parent at the FIRST call with that nproc *)
(*                       (self-test variant: must violate HistRefines).             *)
(* Histories are exported with `tlc -simulate` (HIST records of HDepth operations). *)
EXTENDS VU, Json

CONSTANTS NV,        \* item values 0..NV-1; the table has NV entries
          MaxLen,    \* the caller's list holds 0..MaxLen items
          MaxW,      \* nproc 1..MaxW
          MaxCS,     \* chunksize 1..MaxCS
          Gens,      \* table generations the caller re-binds to
          HDepth,    \* operations per history
          PoolMode,  \* "fresh" | "cached"
          Thin,      \* TRUE: fewer variants of the in-place changes (keeps the random histories balanced)
          DoExport

Poison == 99                                    \* table entry for which fn "chk" raises
PHTable(g) == [i \in 1..NV |-> 10 * g + i]      \* distinct for distinct generations
Fns  == {"sq", "tab", "chk"}
Srcs == {"list", "tuple", "gen", "iter"}
Opts == {"exact", "none", "simple"}             \* total=n | no total | simple=True with total=n

\* ---- the task functions on the abstract item value ------------------------------------
PHRaises(fn, tab, v) == fn = "chk" /\ tab[v + 1] = Poison
PHVal(fn, tab, v) == CASE fn = "sq"  -> v * v + 1
                       [] fn = "tab" -> tab[v + 1]
                       [] fn = "chk" -> tab[v + 1] + 1
\* list(map(fn, xs)) in a process whose table is tab
PHExpect(fn, tab, xs) ==
    IF \E i \in DOMAIN xs : PHRaises(fn, tab, xs[i]) THEN Err("ValueError")
    ELSE Ok([i \in DOMAIN xs |-> PHVal(fn, tab, xs[i])])

\* ---- abstract state of the calling process ----------------------------------------------
PHItems0 == [i \in 1..VMin2(NV, 2) |-> i - 1]      \* the caller's list object as first created
PHInit == [tab |-> PHTable(0), items |-> PHItems0, it |-> [live |-> FALSE, rest |-> <<>>]]

PHReverse(xs) == [i \in DOMAIN xs |-> xs[Len(xs) + 1 - i]]
PHMutate(xs, o) ==
    CASE o.how = "append"  -> Append(xs, o.v)
      [] o.how = "pop"     -> SubSeq(xs, 1, Len(xs) - 1)
      [] o.how = "reverse" -> PHReverse(xs)
      [] o.how = "set"     -> [xs EXCEPT ![o.i] = o.v]
      [] o.how = "clear"   -> <<>>

PHSrcItems(s, src) == IF src = "iter" THEN s.it.rest ELSE s.items
PHWant(s, o) == PHExpect(o.fn, s.tab, PHSrcItems(s, o.src))

PHStep(s, o) ==
    CASE o.op = "settab"  -> [s EXCEPT !.tab = o.tab]
      [] o.op = "mut"     -> [s EXCEPT !.items = PHMutate(s.items, o)]
      [] o.op = "newiter" -> [s EXCEPT !.it = [live |-> TRUE, rest |-> s.items]]
      [] o.op = "call"    ->
            IF o.src # "iter" THEN s                                              \* the caller's state is not touched
            ELSE IF o.bad = "none" /\ PHWant(s, o).err = "none"
                 THEN [s EXCEPT !.it = [live |-> TRUE, rest |-> <<>>]]             \* consumed
                 ELSE [s EXCEPT !.it = [live |-> FALSE, rest |-> <<>>]]            \* how far a failed call read is not said

\* which clause a recorded call breaks; o.res = [err, val] is what pmap did; seentabs / seenitems (the tables and
\* lists of earlier moments of the history) only serve to NAME a wrong result
PHCallFailing(s, o, seentabs, seenitems) ==
    IF o.bad # "none" THEN {}                            \* outside the quantifier: any outcome
    ELSE LET want == PHWant(s, o)  xs == PHSrcItems(s, o.src) IN
         IF want.err # "none" THEN (IF o.res.err # "none" THEN {} ELSE {"exception_of_fn_swallowed"})
         ELSE IF o.res.err # "none" THEN {"unexpected_error"}
         ELSE IF o.res.val = want.val THEN {}
         ELSE IF Len(o.res.val) # Len(want.val) THEN
              (IF \E ys \in seenitems : Len(ys) = Len(o.res.val) /\ PHExpect(o.fn, s.tab, ys) = Ok(o.res.val)
               THEN {"result_of_earlier_items"} ELSE {"result_length"})
         ELSE IF \E t \in seentabs : PHExpect(o.fn, t, xs) = Ok(o.res.val) THEN {"result_from_stale_process_state"}
         ELSE IF \E ys \in seenitems : PHExpect(o.fn, s.tab, ys) = Ok(o.res.val) THEN {"result_of_earlier_items"}
         ELSE {"result_values"}

\* ---- the model ---------------------------------------------------------------------------
VARIABLES phase,   \* "env": the caller may change its state; "call": the next operation is a call, either with
                   \* the arguments of the call before ("callrep") or with any arguments ("callnew")
          last,    \* the call operation before (<<>>: none yet)
          s,       \* abstract state
          nops,    \* operations so far
          hist,    \* the operations (export runs only)
          snap,    \* mechanism: per nproc, the table the cached pool's workers hold (<<>>: no pool yet)
          mres,    \* mechanism: what the pool returned for the last call
          wres     \* property: what the last call had to return
vars == <<phase, last, s, nops, hist, snap, mres, wres>>

HInit == /\ phase = "env" /\ last = <<>> /\ s = PHInit /\ nops = 0 /\ hist = <<>>
         /\ snap = [w \in 1..MaxW |-> <<>>] /\ mres = Ok(<<>>) /\ wres = Ok(<<>>)

Record(o) == /\ hist' = IF DoExport THEN Append(hist, o) ELSE hist
             /\ nops' = nops + 1

EnvOp(o) == /\ phase = "env" /\ nops < HDepth
            /\ s' = PHStep(s, o)
            /\ (s'.tab # s.tab \/ s'.items # s.items \/ s'.it # s.it)                    \* a real change
            /\ Record(o) /\ phase' = "call" /\ UNCHANGED <<last, snap, mres, wres>>

SetTab == \/ \E g \in Gens : EnvOp([op |-> "settab", how |-> "rebind", tab |-> PHTable(g)])
          \/ \E i \in (IF Thin THEN {(nops % NV) + 1} ELSE 1..NV) : \E x \in {Poison, 50 + i} :
                EnvOp([op |-> "settab", how |-> "inplace", tab |-> [s.tab EXCEPT ![i] = x]])
Mutate == \/ \E v \in 0..(NV - 1) : Len(s.items) < MaxLen /\ EnvOp([op |-> "mut", how |-> "append", i |-> 0, v |-> v])
          \/ Len(s.items) > 0 /\ EnvOp([op |-> "mut", how |-> "pop", i |-> 0, v |-> 0])
          \/ EnvOp([op |-> "mut", how |-> "reverse", i |-> 0, v |-> 0])
          \/ \E i \in 1..Len(s.items) : \E v \in (IF Thin THEN {(nops + i) % NV} ELSE 0..(NV - 1)) : EnvOp([op |-> "mut", how |-> "set", i |-> i, v |-> v])
          \/ EnvOp([op |-> "mut", how |-> "clear", i |-> 0, v |-> 0])
NewIter == EnvOp([op |-> "newiter"])
EnvSkip == phase = "env" /\ nops < HDepth /\ phase' = "call" /\ UNCHANGED <<last, s, nops, hist, snap, mres, wres>>
\* the same call again (same fn, nproc, chunksize, the same list object ...) or a new one: a step of its own so that
\* simulated histories repeat calls often
CallPick == /\ phase = "call" /\ nops < HDepth
            /\ phase' \in (IF last = <<>> THEN {"callnew"} ELSE {"callnew", "callrep"})
            /\ UNCHANGED <<last, s, nops, hist, snap, mres, wres>>

\* chunksize, progress options and list / tuple / generator do not enter the abstract result: the exhaustive runs
\* (DoExport = FALSE) keep one representative of each, the exported histories vary them all
CSs   == IF DoExport THEN 1..MaxCS ELSE {1}
SrcsM == IF DoExport THEN Srcs ELSE {"list", "iter"}
OptsM == IF DoExport THEN Opts ELSE {"exact"}

\* the pool behind a call: which table do the workers that evaluate fn hold?
WorkerTab(W) == IF PoolMode = "fresh" \/ snap[W] = <<>> THEN s.tab ELSE snap[W]
DoCall(o) ==
    /\ o.src = "iter" => s.it.live
    /\ s' = PHStep(s, o)
    /\ Record(o)
    /\ last' = o
    /\ IF o.bad = "none"
       THEN /\ wres' = PHWant(s, o)
            /\ mres' = PHExpect(o.fn, WorkerTab(o.W), PHSrcItems(s, o.src))        \* the items travel with the call
            /\ snap' = IF PoolMode = "cached" /\ snap[o.W] = <<>> THEN [snap EXCEPT ![o.W] = s.tab] ELSE snap
       ELSE UNCHANGED <<snap, mres, wres>>                                         \* rejected before a pool is used
    /\ phase' = "env"
Call ==
    \/ /\ phase = "callrep" /\ DoCall(last)
    \/ /\ phase = "callnew"
       /\ \E fn \in Fns : \E W \in 1..MaxW : \E cs \in CSs : \E src \in SrcsM : \E opt \in OptsM : \E bad \in {"none", "cs0"} :
             /\ bad = "cs0" => (cs = 1 /\ opt = "exact" /\ fn = "tab")             \* one representative bad call
             /\ DoCall([op |-> "call", fn |-> fn, W |-> W, cs |-> cs, src |-> src, opt |-> opt, bad |-> bad])
\* a repeated call fed from the iterator that the call before consumed must find it empty; if that call failed the
\* iterator is not live and the repetition is not made
CallRepSkip == phase = "callrep" /\ last.src = "iter" /\ ~s.it.live /\ phase' = "callnew"
               /\ UNCHANGED <<last, s, nops, hist, snap, mres, wres>>

HNext == SetTab \/ Mutate \/ NewIter \/ EnvSkip \/ CallPick \/ Call \/ CallRepSkip
HSpec == HInit /\ [][HNext]_vars

\* ---- properties --------------------------------------------------------------------------------
\* every call of every history returns what list(map(fn, items)) gives in the parent at that moment
HistRefines == mres = wres
\* the stutter law: a call - also a failing or rejected one - leaves the caller's table and list alone (only an
\* iterator it was fed from moves), so the calls after it are judged as if it had not happened
StutterLaw == [][(phase \in {"callrep", "callnew"} /\ phase' = "env") => (s'.tab = s.tab /\ s'.items = s.items)]_vars
TypeInv == /\ Len(s.items) <= MaxLen /\ Len(s.tab) = NV /\ (s.it.live \/ s.it.rest = <<>>)

\* ---- export ----------------------------------------------------------------------------------------
Export == (DoExport /\ nops = HDepth) => PrintT(<<"HIST", ToJson([ops |-> hist])>>)
=============================================================================
