------------------------------- MODULE PoolHistTrace -------------------------------
(* Trace validation for HISTORIES of esutil.pbar.pmap calls made by one process.    *)
(* One ndjson line per history:                                                     *)
(*   {"id": k, "ops": [ {"op": "settab", "how": .., "tab": [..], "after": [..]},    *)
(*                      {"op": "mut", "how": .., "i": .., "v": .., "after": [..]},  *)
(*                      {"op": "newiter"},                                          *)
(*                      {"op": "call", "fn": .., "W": .., "cs": .., "src": ..,      *)
(*                       "opt": .., "bad": .., "res": {"err": .., "val": [..]}} ]}  *)
(* The operations are those of a history exported by PoolHist.tla; `after` is what  *)
(* the harness's real table / real list object held after it applied the operation  *)
(* (must agree with PHStep: clause harness_state_mismatch = machinery, not a        *)
(* verdict); `res` is what the real pmap returned or raised.  The abstract state is *)
(* folded along the operations with PHStep and every call is judged by              *)
(* PHCallFailing against the state AT THE TIME of the call.  Rejected histories are *)
(* printed with <<operation index, clause>> pairs.                                  *)
(* The model variables of PoolHist.tla are held constant here (its own initial      *)
(* predicate and next-state relation are HInit / HNext).                            *)
EXTENDS PoolHist, IOUtils

VARIABLES blk, tid
Traces == ndJsonDeserialize(IOEnv.TRACE_FILE)
NT == Len(Traces)
BlockSize == 64
NBlocks == (NT + BlockSize - 1) \div BlockSize

Init == blk = 0 /\ tid = 0 /\ HInit
PickBlock == blk = 0 /\ tid = 0 /\ \E b \in 1..NBlocks : blk' = b /\ tid' = 0
PickTrace == blk > 0 /\ tid = 0
             /\ \E t \in ((blk - 1) * BlockSize + 1)..VMin2(blk * BlockSize, NT) : tid' = t /\ blk' = blk
Next == (PickBlock \/ PickTrace) /\ UNCHANGED vars

PHOpFailing(st, o, seentabs, seenitems) ==
    CASE o.op = "call"    -> PHCallFailing(st, o, seentabs, seenitems)
      [] o.op = "settab"  -> IF PHStep(st, o).tab = o.after THEN {} ELSE {"harness_state_mismatch"}
      [] o.op = "mut"     -> IF PHStep(st, o).items = o.after THEN {} ELSE {"harness_state_mismatch"}
      [] OTHER            -> {}

\* fold once, left to right (no re-evaluation of the prefix for every operation)
RECURSIVE PHRun(_, _, _, _, _, _)
PHRun(ops, i, st, acc, seentabs, seenitems) ==
    IF i > Len(ops) THEN acc
    ELSE LET nx == PHStep(st, ops[i]) IN
         PHRun(ops, i + 1, nx, acc \cup {<<i, f>> : f \in PHOpFailing(st, ops[i], seentabs, seenitems)},
               seentabs \cup {st.tab}, seenitems \cup {st.items})

Check == tid > 0 =>
    LET r == Traces[tid]  f == PHRun(r.ops, 1, PHInit, {}, {}, {})
    IN f = {} \/ PrintT(<<"REJECT", ToJson([id |-> r.id, failing |-> f])>>)
=============================================================================
