------------------------------- MODULE PoolMap -------------------------------
(* esutil.pbar.pmap(fn, items, chunksize, nproc): an ordered map over a pool of    *)
(* worker processes, under every schedule.                                         *)
(*                                                                                 *)
(*   Submit     the items are cut into chunks of `cs` consecutive items (the last  *)
(*              possibly shorter) and queued in order;                             *)
(*   Take(w)    an idle worker takes the chunk at the head of the queue;           *)
(*   Eval(w)    it applies fn to the next item of its chunk;                       *)
(*   Finish(w)  it hands the chunk's results back (any time after the last Eval);  *)
(*   Deliver    the parent appends the results of the NEXT UNDELIVERED chunk to    *)
(*              the output - enabled only when that chunk has finished.            *)
(* Workers interleave freely.  PrefixInv: at every moment the output is a prefix   *)
(* of map(fn, items); AllDelivered: under weak fairness the whole map is           *)
(* eventually delivered.  With AnyOrder = TRUE Deliver takes any finished chunk    *)
(* (what collecting results in completion order would do): the self-test variant   *)
(* that must violate PrefixInv.                                                    *)
(*                                                                                 *)
(* `forder` (history) is the order in which chunks finished: the final states are  *)
(* exported, and the harness makes the real pool complete its chunks in exactly    *)
(* that order before judging what pmap returned (PoolMapTrace.tla).                *)
(*                                                                                 *)
(* This module is ONE call.  PoolHist.tla is the machine over calls (histories of   *)
(* pmap calls in one process); it uses FinalInv - delivered = map(fn, items) when   *)
(* all chunks are delivered - as the summary of a call.                             *)
EXTENDS VU, Json

CONSTANTS MaxItems,   \* 0..MaxItems items
          MaxW,       \* 1..MaxW workers
          MaxCS,      \* chunksize 1..MaxCS
          AnyOrder,   \* FALSE: ordered delivery (the statement); TRUE: self-test
          DoExport

VARIABLES phase, c, queue, running, pos, part, done, dchunks, delivered, forder
vars == <<phase, c, queue, running, pos, part, done, dchunks, delivered, forder>>
poolvars == <<queue, running, pos, part, done, dchunks, delivered, forder>>

\* the task function of the harness (vh/c20_tasks.py) on the abstract item value
PMF(v) == v * v + 1
MapF(items) == [i \in 1..Len(items) |-> PMF(items[i])]

NChunks(cc) == (cc.n + cc.cs - 1) \div cc.cs
ChunkItems(cc, k) == VArange((k - 1) * cc.cs + 1, VMin2(k * cc.cs, cc.n) + 1, 1)   \* item positions of chunk k

Init == /\ phase = "start" /\ c = [n |-> 0]
        /\ queue = <<>> /\ running = <<>> /\ pos = <<>> /\ part = <<>> /\ done = <<>>
        /\ dchunks = <<>> /\ delivered = <<>> /\ forder = <<>>

Submit(cc) ==                       \* ex.map(fn, items, chunksize=cs) with max_workers = W
    /\ c' = cc
    /\ queue' = [k \in 1..NChunks(cc) |-> k]
    /\ running' = [w \in 1..cc.W |-> 0]
    /\ pos' = [w \in 1..cc.W |-> 0]
    /\ part' = [w \in 1..cc.W |-> <<>>]
    /\ done' = [k \in 1..NChunks(cc) |-> <<>>]
    /\ dchunks' = <<>> /\ delivered' = <<>> /\ forder' = <<>>
    /\ phase' = "run"

ChooseN ==
    /\ phase = "start"
    /\ \E n \in 0..MaxItems : c' = [n |-> n]
    /\ phase' = "n" /\ UNCHANGED poolvars
ChooseWC ==
    /\ phase = "n"
    /\ \E W \in 1..MaxW : \E cs \in 1..MaxCS :
          Submit([n |-> c.n, W |-> W, cs |-> cs, items |-> [i \in 1..c.n |-> i]])

Finished == {k \in DOMAIN done : k \in VRange(forder)}

Take(w) ==
    /\ phase = "run" /\ running[w] = 0 /\ queue # <<>>
    /\ running' = [running EXCEPT ![w] = Head(queue)]
    /\ queue' = Tail(queue)
    /\ pos' = [pos EXCEPT ![w] = 0]
    /\ part' = [part EXCEPT ![w] = <<>>]
    /\ UNCHANGED <<phase, c, done, dchunks, delivered, forder>>

NextItem(w) == ChunkItems(c, running[w])[pos[w] + 1]       \* position of the item worker w evaluates next
Eval(w) ==
    /\ phase = "run" /\ running[w] # 0 /\ pos[w] < Len(ChunkItems(c, running[w]))
    /\ part' = [part EXCEPT ![w] = Append(@, PMF(c.items[NextItem(w)]))]
    /\ pos' = [pos EXCEPT ![w] = @ + 1]
    /\ UNCHANGED <<phase, c, queue, running, done, dchunks, delivered, forder>>

Finish(w) ==
    /\ phase = "run" /\ running[w] # 0 /\ pos[w] = Len(ChunkItems(c, running[w]))
    /\ done' = [done EXCEPT ![running[w]] = part[w]]
    /\ forder' = Append(forder, running[w])
    /\ running' = [running EXCEPT ![w] = 0]
    /\ UNCHANGED <<phase, c, queue, pos, part, dchunks, delivered>>

Deliverable == IF AnyOrder THEN Finished \ VRange(dchunks)
               ELSE {k \in Finished : k = Len(dchunks) + 1}
Deliver ==
    /\ phase = "run"
    /\ \E k \in Deliverable :
          /\ delivered' = delivered \o done[k]
          /\ dchunks' = Append(dchunks, k)
    /\ UNCHANGED <<phase, c, queue, running, pos, part, done, forder>>

TakeAny   == \E w \in DOMAIN running : Take(w)
EvalAny   == \E w \in DOMAIN running : Eval(w)
FinishAny == \E w \in DOMAIN running : Finish(w)

Next == ChooseN \/ ChooseWC \/ TakeAny \/ EvalAny \/ FinishAny \/ Deliver
Spec == Init /\ [][Next]_vars /\ WF_vars(Next)

\* ---- properties ------------------------------------------------------------------------------
AllDone == phase = "run" /\ Len(dchunks) = NChunks(c)

PrefixInv == phase = "run" => VIsPrefix(delivered, MapF(c.items))
\* every chunk is in exactly one place; a worker holds at most one
ConserveInv == phase = "run" =>
    \A k \in 1..NChunks(c) :
        Cardinality({j \in DOMAIN queue : queue[j] = k}) +
        Cardinality({w \in DOMAIN running : running[w] = k}) +
        (IF k \in Finished THEN 1 ELSE 0) = 1
\* the final output is the whole map
FinalInv == AllDone => delivered = MapF(c.items)
\* liveness: under weak fairness everything is eventually delivered
AllDelivered == <>(phase = "run" /\ delivered = MapF(c.items) /\ AllDone)

\* ---- export ---------------------------------------------------------------------------------------
Export == (DoExport /\ AllDone) =>
    PrintT(<<"CASE", ToJson([n |-> c.n, W |-> c.W, cs |-> c.cs, forder |-> forder])>>)
=============================================================================
