------------------------------- MODULE PoolMapTrace -------------------------------
(* Trace validation for esutil.pbar.pmap.  One ndjson line per real call:           *)
(*   {"id": k,                                                                      *)
(*    "c":   {"n": .., "W": nproc, "cs": chunksize, "items": [v1, ..]},             *)
(*    "opt": {"total": "none"|"exact", "simple": bool},                             *)
(*    "res": {"err": "none"|<exception class>, "val": [what pmap returned]},        *)
(*    "workers": [[{"op": "start"|"saw"|"finish", "item": position}, ..], ..],      *)
(*    "forder": [chunk ids in the order TLC's schedule finished them] or []}        *)
(* `workers` holds one event stream per worker *process*, each in the order of that *)
(* process's own sequence numbers; nothing orders events of different processes     *)
(* except "saw": the task of this item waited until it saw the completion marker    *)
(* that the task of item `item` wrote after its own "finish" event.                 *)
(*                                                                                  *)
(* Two judgements, two TLC runs over the same file:                                 *)
(*  (1) INIT TInit / NEXT JNext / CONSTRAINT Check - property level: what pmap      *)
(*      returned is list(map(fn, items)), in order (or the documented rejection of  *)
(*      a simple bar without total=).  This alone decides VIOLATION.                *)
(*  (2) INIT TInit / NEXT XNext / CONSTRAINT Explained - mechanism level: TLC       *)
(*      searches for an interleaving of the actions of PoolMap.tla (Take, Eval,     *)
(*      Finish, Deliver - unchanged) that reproduces every worker's stream, obeys   *)
(*      every "saw", finishes the chunks in the order `forder` when one is given,   *)
(*      and delivers exactly the returned list.  Records for which such a state is  *)
(*      reached are printed as EXPLAINED.                                           *)
(* Reduce = TRUE prunes the search by priorities (Deliver, then Finish, then the    *)
(* lowest worker that can move).  This loses no explanation: no action of the       *)
(* stream-constrained system ever disables an action of another worker (guards are  *)
(* monotone: a finished item stays finished, the chunk at the head of the queue     *)
(* can be started by one stream only), so the system is confluent.  The harness     *)
(* cross-checks Reduce = TRUE against the unpruned search on the small records.     *)
EXTENDS PoolMap, IOUtils

CONSTANT Reduce

VARIABLES blk, tid, cur, open
tvars == <<blk, tid, cur, open>>

Traces == ndJsonDeserialize(IOEnv.TRACE_FILE)
NT == Len(Traces)
BlockSize == 64
NBlocks == (NT + BlockSize - 1) \div BlockSize
Block(b) == ((b - 1) * BlockSize + 1)..VMin2(b * BlockSize, NT)

TInit == blk = 0 /\ tid = 0 /\ cur = <<>> /\ open = <<>> /\ Init
PickBlock == /\ blk = 0 /\ tid = 0 /\ \E b \in 1..NBlocks : blk' = b /\ tid' = 0
             /\ UNCHANGED <<cur, open>> /\ UNCHANGED vars

\* ---- (1) property level ---------------------------------------------------------------
PickTrace == /\ blk > 0 /\ tid = 0 /\ \E t \in Block(blk) : tid' = t /\ blk' = blk
             /\ UNCHANGED <<cur, open>> /\ UNCHANGED vars
JNext == PickBlock \/ PickTrace

ACount(s, x) == Cardinality({i \in DOMAIN s : s[i] = x})
PMFailing(r) ==
    LET want == MapF(r.c.items) IN
    IF r.res.err # "none"
    THEN (IF r.opt.simple /\ r.opt.total = "none" THEN {} ELSE {"unexpected_error"})
    ELSE IF r.res.val = want THEN {}
    ELSE IF Len(r.res.val) # Len(want) THEN {"result_length"}
    ELSE IF \A x \in VRange(want) \cup VRange(r.res.val) : ACount(want, x) = ACount(r.res.val, x)
         THEN {"result_out_of_input_order"}
    ELSE {"result_values"}

Check == tid > 0 =>
    LET r == Traces[tid]  f == PMFailing(r)
    IN f = {} \/ PrintT(<<"REJECT", ToJson([id |-> r.id, failing |-> f])>>)

\* ---- (2) mechanism level: find an interleaving ----------------------------------------------
R == Traces[tid]
NW == Len(R.workers)
Stream(w) == R.workers[w]
HasNxt(w) == cur[w] < Len(Stream(w))
Nxt(w)    == Stream(w)[cur[w] + 1]
Advance(w) == cur' = [cur EXCEPT ![w] = @ + 1]

Load == /\ blk > 0 /\ tid = 0
        /\ \E t \in Block(blk) :
              /\ tid' = t /\ blk' = blk
              /\ Submit(Traces[t].c)
              /\ cur'  = [w \in 1..Len(Traces[t].workers) |-> 0]
              /\ open' = [w \in 1..Len(Traces[t].workers) |-> 0]

ChunkOf(i) == ((i - 1) \div c.cs) + 1
\* the task of item i has returned (its Eval has happened)
Evaluated(i) ==
    LET k == ChunkOf(i) IN
    \/ k \in Finished
    \/ \E w \in DOMAIN running : running[w] = k /\ ChunkItems(c, k)[1] + pos[w] > i

\* a worker's stream starts a chunk: it must be the head of the queue
TTake(w) == /\ w <= VMin2(NW, c.W) /\ HasNxt(w) /\ open[w] = 0 /\ Nxt(w).op = "start"
            /\ running[w] = 0 /\ queue # <<>> /\ Nxt(w).item = ChunkItems(c, Head(queue))[1]
            /\ Take(w) /\ UNCHANGED tvars
TStart(w) == /\ w <= VMin2(NW, c.W) /\ HasNxt(w) /\ open[w] = 0 /\ Nxt(w).op = "start"
             /\ running[w] # 0 /\ pos[w] < Len(ChunkItems(c, running[w])) /\ Nxt(w).item = NextItem(w)
             /\ open' = [open EXCEPT ![w] = Nxt(w).item] /\ Advance(w)
             /\ UNCHANGED <<blk, tid>> /\ UNCHANGED vars
TSaw(w) == /\ w <= VMin2(NW, c.W) /\ HasNxt(w) /\ open[w] # 0 /\ Nxt(w).op = "saw"
           /\ Nxt(w).item \in 1..c.n /\ Evaluated(Nxt(w).item)
           /\ Advance(w) /\ UNCHANGED <<blk, tid, open>> /\ UNCHANGED vars
TItemDone(w) == /\ w <= VMin2(NW, c.W) /\ HasNxt(w) /\ open[w] # 0 /\ Nxt(w).op = "finish"
                /\ Nxt(w).item = open[w]
                /\ Eval(w) /\ open' = [open EXCEPT ![w] = 0] /\ Advance(w) /\ UNCHANGED <<blk, tid>>
\* silent steps of the pool
ExpectedNext(k) == R.forder = <<>> \/ (Len(forder) < Len(R.forder) /\ R.forder[Len(forder) + 1] = k)
CanFinish(w) == running[w] # 0 /\ pos[w] = Len(ChunkItems(c, running[w])) /\ ExpectedNext(running[w])
                /\ (w <= NW => open[w] = 0)
TFinish(w) == CanFinish(w) /\ Finish(w) /\ UNCHANGED tvars
TDeliver == Deliver /\ UNCHANGED tvars

Local(w) == TTake(w) \/ TStart(w) \/ TSaw(w) \/ TItemDone(w)
CanLocal(w) ==
    /\ w <= VMin2(NW, c.W) /\ HasNxt(w)
    /\ \/ open[w] = 0 /\ Nxt(w).op = "start" /\ running[w] = 0 /\ queue # <<>>
          /\ Nxt(w).item = ChunkItems(c, Head(queue))[1]
       \/ open[w] = 0 /\ Nxt(w).op = "start" /\ running[w] # 0
          /\ pos[w] < Len(ChunkItems(c, running[w])) /\ Nxt(w).item = NextItem(w)
       \/ open[w] # 0 /\ Nxt(w).op = "saw" /\ Nxt(w).item \in 1..c.n /\ Evaluated(Nxt(w).item)
       \/ open[w] # 0 /\ Nxt(w).op = "finish" /\ Nxt(w).item = open[w]

Steps ==
    IF ~Reduce
    THEN TDeliver \/ \E w \in DOMAIN running : TFinish(w) \/ Local(w)
    ELSE IF Deliverable # {} THEN TDeliver
    ELSE IF \E w \in DOMAIN running : CanFinish(w)
         THEN \E w \in DOMAIN running : TFinish(w)
    ELSE \E w \in DOMAIN running : CanLocal(w) /\ (\A v \in 1..(w - 1) : ~CanLocal(v)) /\ Local(w)

XNext == PickBlock \/ Load \/ (tid > 0 /\ Steps)

Accepting ==
    /\ tid > 0 /\ AllDone
    /\ \A w \in 1..NW : cur[w] = Len(Stream(w))
    /\ \A w \in DOMAIN running : running[w] = 0
    /\ delivered = R.res.val
    /\ (R.forder # <<>> => forder = R.forder)

Explained == Accepting => PrintT(<<"EXPLAINED", ToJson([id |-> R.id])>>)
=============================================================================
