------------------------------- MODULE ProgressHist -------------------------------
(* HISTORIES of the progress wrappers of esutil.pbar: several wrapper objects and    *)
(* several wrapped iterables in one thread of one process.  ProgressIter.tla is one  *)
(* wrapper over one fresh iterable; here                                             *)
(*   - the same iterable is wrapped twice (one after the other or both alive at      *)
(*     once): a list is iterated afresh by every wrapper, a generator / iterator is  *)
(*     SHARED - each of its items goes to exactly one wrapper, an exhausted one      *)
(*     gives nothing more;                                                           *)
(*   - a finished or closed wrapper object is asked again (it must just stop);       *)
(*   - the consumer walks away mid-way (close, or dropping the last reference) and   *)
(*     comes back to the iterable with a new wrapper;                                *)
(*   - the iterable itself raises mid-way (failat).                                  *)
(* The statement "yield exactly the items of the wrapped iterable, in order and      *)
(* evaluated lazily" becomes the step relation HStep on event streams (consumer      *)
(* side request / yield / stop / error / close per wrapper w, source side pull /     *)
(* pullend / pullerr per source s, attributed to the wrapper call during which they  *)
(* happen), naming the clause an illegal event breaks.  The model part closes the    *)
(* system with the most general wrapper the relation admits and lets TLC check what  *)
(* the relation is meant to guarantee (HPrefix, HShared, HLazy); the consumer's      *)
(* scripts are exported and driven against the real wrappers; the recorded streams   *)
(* are judged with HFailing by ProgressHistTrace.tla.                                *)
(* Where the statement is silent the relation is permissive: after the iterable      *)
(* raised, the wrapper may pass the exception on or stop; a pull may run one item    *)
(* ahead of the consumer (the weaker reading of "lazily" used by ProgressIter.tla).  *)
EXTENDS VU, Json

CONSTANTS MaxN,      \* sources of 0..MaxN items
          MaxSrc,    \* 1..MaxSrc sources
          MaxWr,     \* wrapper objects 1..MaxWr
          MaxCmd,    \* consumer commands per script
          Lazy,      \* TRUE: at most one item in flight per wrapper (the statement); FALSE: self-test
          DoExport

Kinds == {"list", "gen", "iter"}
Shared(k) == k # "list"                      \* one cursor for everybody who iterates it

\* ---- the protocol -----------------------------------------------------------------------------
W0 == [st |-> "none", s |-> 0, simple |-> FALSE, total |-> "none", got |-> <<>>, out |-> <<>>, lpos |-> 0,
       sawend |-> FALSE, sawerr |-> FALSE, reqerr |-> FALSE, back |-> "none"]
HState0(cs) == [wr |-> [w \in 1..MaxWr |-> W0], sp |-> [s \in DOMAIN cs.srcs |-> 0], dead |-> [s \in DOMAIN cs.srcs |-> FALSE], bad |-> ""]
HBad(h, clause) == [h EXCEPT !.bad = clause]
Ended == {"stopped", "closed", "failed", "rejected"}

\* the documented requirement: the simple bar needs total= when the iterable has no len()
HMayReject(cs, x) == x.simple /\ cs.srcs[x.s].kind # "list" /\ x.total = "none" /\ x.out = <<>>

Cursor(cs, h, w) == LET x == h.wr[w] IN IF Shared(cs.srcs[x.s].kind) THEN h.sp[x.s] ELSE x.lpos
\* has the cursor wrapper w reads from come to its end (or died)?
AtEnd(cs, h, w) == LET x == h.wr[w]  src == cs.srcs[x.s] IN
    x.sawend \/ x.sawerr \/ (Shared(src.kind) /\ h.dead[x.s])

HStep(cs, h, e) ==
    IF e.op \in {"wrap", "request", "yield", "stop", "error", "close"} /\ e.w \notin 1..MaxWr THEN HBad(h, "unknown_wrapper")
    ELSE
    CASE e.op = "wrap" ->
            IF h.wr[e.w].st # "none" \/ e.s \notin DOMAIN cs.srcs THEN HBad(h, "harness_wrap")
            ELSE [h EXCEPT !.wr[e.w] = [W0 EXCEPT !.st = "idle", !.s = e.s, !.simple = e.simple, !.total = e.total]]
      [] e.op = "request" ->
            LET x == h.wr[e.w] IN
            IF x.st = "idle" THEN [h EXCEPT !.wr[e.w].st = "active", !.wr[e.w].reqerr = FALSE]
            ELSE IF x.st \in Ended THEN [h EXCEPT !.wr[e.w].st = "again", !.wr[e.w].back = x.st]    \* asked again after its end
            ELSE HBad(h, "harness_request")
      [] e.op \in {"pull", "pullend", "pullerr"} ->
            IF e.w \notin 1..MaxWr THEN HBad(h, "pulled_outside_any_wrapper_call")
            ELSE LET x == h.wr[e.w] IN
            IF x.st \notin {"idle", "active"} THEN HBad(h, "pulled_after_end_of_wrapper")
            ELSE IF e.s # x.s THEN HBad(h, "pulled_from_foreign_source")
            ELSE LET src == cs.srcs[x.s]  cur == Cursor(cs, h, e.w)  sh == Shared(src.kind) IN
                 IF e.op = "pull" THEN
                     IF e.v # cur + 1 \/ e.v > src.n \/ e.v = src.failat THEN HBad(h, "source_out_of_order")
                     ELSE IF Lazy /\ x.got # <<>> THEN HBad(h, "not_lazy_pulled_ahead_of_consumer")
                     ELSE [h EXCEPT !.wr[e.w].got = Append(@, e.v),
                                    !.wr[e.w].lpos = IF sh THEN @ ELSE e.v,
                                    !.sp[x.s] = IF sh THEN e.v ELSE @]
                 ELSE IF e.op = "pullend" THEN
                     IF ~((sh /\ h.dead[x.s]) \/ x.sawend \/ x.sawerr \/ (cur = src.n /\ src.failat # src.n + 1)) THEN HBad(h, "source_out_of_order")
                     ELSE [h EXCEPT !.wr[e.w].sawend = TRUE, !.dead[x.s] = IF sh THEN TRUE ELSE @]
                 ELSE \* pullerr: the iterable raised instead of handing out item failat
                     IF cur + 1 # src.failat THEN HBad(h, "source_out_of_order")
                     ELSE [h EXCEPT !.wr[e.w].sawerr = TRUE, !.wr[e.w].reqerr = (x.st = "active"),
                                    !.dead[x.s] = IF sh THEN TRUE ELSE @]
      [] e.op = "yield" ->
            LET x == h.wr[e.w] IN
            IF x.st = "again" THEN HBad(h, "yielded_after_its_end")
            ELSE IF x.st # "active" THEN HBad(h, "yield_without_request")
            ELSE IF e.s # x.s THEN HBad(h, "yielded_item_of_foreign_source")
            ELSE IF x.got = <<>> THEN HBad(h, "yielded_before_pulled")
            ELSE IF e.v # Head(x.got) THEN HBad(h, "yielded_item_not_next_of_source")
            ELSE [h EXCEPT !.wr[e.w].got = Tail(@), !.wr[e.w].out = Append(@, e.v), !.wr[e.w].st = "idle"]
      [] e.op = "stop" ->
            LET x == h.wr[e.w] IN
            IF x.st = "again" THEN [h EXCEPT !.wr[e.w].st = x.back]
            ELSE IF x.st # "active" THEN HBad(h, "stop_without_request")
            ELSE IF x.got # <<>> THEN HBad(h, "stopped_before_all_items")
            ELSE IF ~AtEnd(cs, h, e.w) THEN HBad(h, "stopped_before_source_end")
            ELSE [h EXCEPT !.wr[e.w].st = "stopped"]
      [] e.op = "error" ->
            LET x == h.wr[e.w] IN
            IF x.st = "active" /\ x.reqerr THEN [h EXCEPT !.wr[e.w].st = "failed"]          \* the iterable's exception passed on
            ELSE IF x.st = "active" /\ HMayReject(cs, x) THEN [h EXCEPT !.wr[e.w].st = "rejected"]
            ELSE HBad(h, "unexpected_error")
      [] e.op = "close" ->
            LET x == h.wr[e.w] IN
            IF x.st = "idle" \/ x.st \in Ended THEN [h EXCEPT !.wr[e.w].st = "closed"]
            ELSE HBad(h, "harness_close")
      [] OTHER -> HBad(h, "unknown_event")

RECURSIVE HRun(_, _, _, _)
HRun(cs, h, ev, i) == IF i > Len(ev) \/ h.bad # "" THEN h ELSE HRun(cs, HStep(cs, h, ev[i]), ev, i + 1)
HFailing(cs, ev) ==
    LET h == HRun(cs, HState0(cs), ev, 1) IN
    IF h.bad # "" THEN {h.bad}
    ELSE IF \E w \in 1..MaxWr : h.wr[w].st \in {"active", "again"} THEN {"stream_incomplete"}
    ELSE {}

\* ---- the model: consumer scripts against the most general wrapper ------------------------------
VARIABLES phase, cs, cmds, ncmd, h
vars == <<phase, cs, cmds, ncmd, h>>

HInit == phase = "start" /\ cs = [srcs |-> <<>>] /\ cmds = <<>> /\ ncmd = 0 /\ h = HState0([srcs |-> <<>>])

\* sources are chosen one at a time (keeps the first steps of a simulated behaviour cheap); exported scripts use
\* sources that fail late or never (failing at once is covered by the exhaustive runs)
SrcSet == {x \in [kind : Kinds, n : 0..MaxN, failat : 0..(MaxN + 1)] :
              /\ x.failat <= x.n + 1
              /\ DoExport => (x.failat = 0 \/ x.failat >= x.n)}
ChooseSrcs ==
    /\ phase \in {"start", "src"} /\ Len(cs.srcs) < MaxSrc
    /\ \E x \in SrcSet : LET ss == Append(cs.srcs, x) IN cs' = [srcs |-> ss] /\ h' = HState0([srcs |-> ss])
    /\ phase' = "src" /\ UNCHANGED <<cmds, ncmd>>
SrcsDone == phase = "src" /\ phase' = "run" /\ UNCHANGED <<cs, cmds, ncmd, h>>

Ev(op, w, s, v) == [op |-> op, w |-> w, s |-> s, v |-> v]
Quiet == \A w \in 1..MaxWr : h.wr[w].st \notin {"active", "again"}     \* the consumer's thread is in no wrapper call
Do(e) == LET t == HStep(cs, h, e) IN t.bad = "" /\ h' = t
Cmd(c) == ncmd < MaxCmd /\ ncmd' = ncmd + 1 /\ cmds' = IF DoExport THEN Append(cmds, c) ELSE cmds   \* the script is kept in export runs only

\* consumer commands (total= given or not changes nothing in the relation except that it lifts the documented
\* rejection: the exhaustive runs keep total = "none", the exported scripts vary it)
Wrap == /\ phase = "run" /\ Quiet
        /\ \E w \in 1..MaxWr : \E s \in DOMAIN cs.srcs : \E tot \in (IF DoExport THEN {"none", "exact"} ELSE {"none"}) : \E simple \in BOOLEAN :
              /\ h.wr[w].st = "none" /\ (w > 1 => h.wr[w - 1].st # "none")
              /\ Do([op |-> "wrap", w |-> w, s |-> s, v |-> 0, total |-> tot, simple |-> simple])
              /\ Cmd([cmd |-> "wrap", w |-> w, s |-> s, total |-> tot, simple |-> simple])
        /\ UNCHANGED <<phase, cs>>
NextCmd == /\ phase = "run" /\ Quiet
           /\ \E w \in 1..MaxWr : h.wr[w].st # "none" /\ Do(Ev("request", w, 0, 0))
                                  /\ Cmd([cmd |-> "next", w |-> w, s |-> 1, total |-> "none", simple |-> FALSE])
           /\ UNCHANGED <<phase, cs>>
CloseCmd == /\ phase = "run" /\ Quiet
            /\ \E w \in 1..MaxWr : \E how \in {IF ncmd % 2 = 0 THEN "close" ELSE "drop"} :
                  /\ h.wr[w].st \notin {"none", "closed"} /\ Do(Ev("close", w, 0, 0))
                  /\ Cmd([cmd |-> how, w |-> w, s |-> 0, total |-> "none", simple |-> FALSE])
            /\ UNCHANGED <<phase, cs>>

\* wrapper / source responses, for the wrapper whose call is active (or, one item ahead, for an idle one)
Active(w) == h.wr[w].st = "active"
Pull == /\ phase = "run"
        /\ \E w \in 1..MaxWr : h.wr[w].st \in {"idle", "active"} /\ Do(Ev("pull", w, h.wr[w].s, Cursor(cs, h, w) + 1))
        /\ UNCHANGED <<phase, cs, cmds, ncmd>>
PullEnd == /\ phase = "run"
           /\ \E w \in 1..MaxWr : Active(w) /\ ~h.wr[w].sawend /\ Do(Ev("pullend", w, h.wr[w].s, 0))
           /\ UNCHANGED <<phase, cs, cmds, ncmd>>
PullErr == /\ phase = "run"
           /\ \E w \in 1..MaxWr : Active(w) /\ ~h.wr[w].sawerr /\ Do(Ev("pullerr", w, h.wr[w].s, 0))
           /\ UNCHANGED <<phase, cs, cmds, ncmd>>
Yield == /\ phase = "run"
         /\ \E w \in 1..MaxWr : Active(w) /\ h.wr[w].got # <<>> /\ Do(Ev("yield", w, h.wr[w].s, Head(h.wr[w].got)))
         /\ UNCHANGED <<phase, cs, cmds, ncmd>>
Stop == /\ phase = "run"
        /\ \E w \in 1..MaxWr : h.wr[w].st \in {"active", "again"} /\ Do(Ev("stop", w, 0, 0))
        /\ UNCHANGED <<phase, cs, cmds, ncmd>>
Error == /\ phase = "run"
         /\ \E w \in 1..MaxWr : Active(w) /\ Do(Ev("error", w, 0, 0))
         /\ UNCHANGED <<phase, cs, cmds, ncmd>>

HNext == ChooseSrcs \/ SrcsDone \/ Wrap \/ NextCmd \/ CloseCmd \/ Pull \/ PullEnd \/ PullErr \/ Yield \/ Stop \/ Error

\* the export run enumerates the consumer's scripts only: the same commands with a wrapper that answers every
\* request at once by stopping (enabledness of the commands does not depend on the answers)
XNextCmd == /\ phase = "run"            \* s = 1..3 consecutive calls of next() (one command)
            /\ \E w \in 1..MaxWr : \E rep \in 1..3 :
                  h.wr[w].st # "none" /\ Cmd([cmd |-> "next", w |-> w, s |-> rep, total |-> "none", simple |-> FALSE])
            /\ UNCHANGED <<phase, cs, h>>
HNextExport == ChooseSrcs \/ SrcsDone \/ Wrap \/ XNextCmd \/ CloseCmd

\* ---- what the relation guarantees ---------------------------------------------------------------
Range1(n) == [i \in 1..n |-> i]
Avail(src) == IF src.failat = 0 THEN src.n ELSE src.failat - 1               \* items the iterable can hand out
\* a wrapper over a list yields a prefix of the list
HPrefix == phase = "run" => \A w \in 1..MaxWr : h.wr[w].st # "none" =>
    LET x == h.wr[w]  src == cs.srcs[x.s] IN
    ~Shared(src.kind) => VIsPrefix(x.out \o x.got, Range1(Avail(src)))
\* a shared iterable: every item it handed out is with exactly one wrapper (yielded, or the one item in flight),
\* each wrapper has its items in the iterable's order, nothing is lost, nothing comes twice
HShared == phase = "run" => \A s \in DOMAIN cs.srcs : Shared(cs.srcs[s].kind) =>
    LET ws == {w \in 1..MaxWr : h.wr[w].st # "none" /\ h.wr[w].s = s}
        all(w) == h.wr[w].out \o h.wr[w].got
    IN /\ \A w \in ws : \A i \in 1..(Len(all(w)) - 1) : all(w)[i] < all(w)[i + 1]
       /\ \A w, u \in ws : w # u => VRange(all(w)) \cap VRange(all(u)) = {}
       /\ UNION {VRange(all(w)) : w \in ws} = 1..h.sp[s]
       /\ h.sp[s] <= Avail(cs.srcs[s])
HLazy == phase = "run" => \A w \in 1..MaxWr : Len(h.wr[w].got) <= 1
\* a wrapper that stopped over a list has yielded everything the list could give
HNoLoss == phase = "run" => \A w \in 1..MaxWr :
    (h.wr[w].st = "stopped" /\ ~Shared(cs.srcs[h.wr[w].s].kind)) => h.wr[w].out = Range1(Avail(cs.srcs[h.wr[w].s]))

\* ---- export -----------------------------------------------------------------------------------------
Export == (DoExport /\ phase = "run" /\ ncmd = MaxCmd) => PrintT(<<"SCRIPT", ToJson([srcs |-> cs.srcs, cmds |-> cmds])>>)
=============================================================================
