------------------------------- MODULE ProgressHistTrace -------------------------------
(* Trace validation for histories of the progress wrappers: several wrapper objects *)
(* and wrapped iterables driven by one consumer thread.  One ndjson line per run:    *)
(*   {"id": k, "cs": {"srcs": [{"kind": .., "n": .., "failat": ..}, ..]},            *)
(*    "ev": [{"op": .., "w": .., "s": .., "v": ..}, ..]}                             *)
(* (wrap events also carry "total" and "simple").  The stream must be a run of the  *)
(* relation HStep of ProgressHist.tla; rejected runs are printed with the clause.   *)
(* The model variables of ProgressHist.tla are held constant here (its own initial  *)
(* predicate and next-state relation are HInit / HNext).                            *)
EXTENDS ProgressHist, IOUtils

VARIABLES blk, tid
Traces == ndJsonDeserialize(IOEnv.TRACE_FILE)
NT == Len(Traces)
BlockSize == 256
NBlocks == (NT + BlockSize - 1) \div BlockSize

Init == blk = 0 /\ tid = 0 /\ HInit
PickBlock == blk = 0 /\ tid = 0 /\ \E b \in 1..NBlocks : blk' = b /\ tid' = 0
PickTrace == blk > 0 /\ tid = 0
             /\ \E t \in ((blk - 1) * BlockSize + 1)..VMin2(blk * BlockSize, NT) : tid' = t /\ blk' = blk
Next == (PickBlock \/ PickTrace) /\ UNCHANGED vars

Check == tid > 0 =>
    LET r == Traces[tid]  f == HFailing(r.cs, r.ev)
    IN f = {} \/ PrintT(<<"REJECT", ToJson([id |-> r.id, failing |-> f])>>)
=============================================================================
