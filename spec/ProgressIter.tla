------------------------------- MODULE ProgressIter -------------------------------
(* The progress wrappers of esutil.pbar (pbar / PBar / prange, and sbar behind      *)
(* simple=True) as a consumer / producer protocol between three parties:            *)
(*   consumer  - calls next() on the wrapper (Request), receives an item (Yield),   *)
(*               StopIteration (Exhaust) or an exception (Reject / Fail), or walks  *)
(*               away (Abandon);                                                    *)
(*   wrapper   - the code under test;                                               *)
(*   source    - the wrapped iterable: hands out its next item (Pull) or signals    *)
(*               its end (PullEnd).                                                 *)
(* The statement "yield exactly the items of the wrapped iterable, in order and     *)
(* evaluated lazily, for every option combination and whether or not the iterable   *)
(* has a known length" is the step relation PIStep below: it says which event may   *)
(* follow which, and names the clause an illegal event breaks.  The same relation   *)
(* drives the model (this module: TLC proves PrefixInv, LazyInv, NoLoss and         *)
(* completion for the most general wrapper the protocol admits) and judges the      *)
(* event streams recorded from the real wrappers (ProgressIterTrace.tla).           *)
(*                                                                                  *)
(* A case is a record                                                               *)
(*   [src : Seq(Int)   the items (the adapter identifies objects by position),      *)
(*    haslen, obspull : BOOLEAN   len() defined / pulls observable (not for range), *)
(*    total : {"none","exact","low","high"}, simple : BOOLEAN,                      *)
(*    k : Nat   the consumer makes at most k requests, then abandons]               *)
(* plus, in exported cases, the cosmetic options desc/leave/mininterval/miniters/   *)
(* nbars/entry, which the protocol does not mention: no option may change it.       *)
(* This module is ONE wrapper over ONE fresh iterable; ProgressHist.tla is the      *)
(* history version (several wrappers, shared / exhausted / failing iterables).      *)
EXTENDS VU, Json

CONSTANTS MaxN,        \* sources of length 0..MaxN
          Kinds,       \* subset of {"list", "range", "gen", "iter"}
          Totals,      \* subset of {"none", "exact", "low", "high"}
          Lazy,        \* TRUE: a pull may not run ahead of the consumer (the statement); FALSE: self-test
          FixedMeter,  \* TRUE: the meter accepts total = None (repaired code); FALSE: format_meter's n > None
          DoExport

\* ---- the protocol ---------------------------------------------------------------------
Terminal == {"stopped", "rejected", "closed", "failed"}
PIInit == [status |-> "idle", req |-> 0, pulled |-> 0, out |-> <<>>, srcend |-> FALSE, bad |-> ""]
PIBad(s, clause) == [s EXCEPT !.bad = clause, !.status = "failed"]
Ev(op, v) == [op |-> op, v |-> v]

\* the documented requirement: the simple bar needs total= when the iterable has no len()
MayReject(c) == c.simple /\ ~c.haslen /\ c.total = "none"

PIStep(c, s, e) ==
    LET n  == Len(c.src)
        ny == Len(s.out)
    IN
    IF s.status \in Terminal THEN PIBad(s, "event_after_end")
    ELSE CASE e.op = "request" ->
                IF s.status # "idle" THEN PIBad(s, "request_while_active")
                ELSE [s EXCEPT !.status = "active", !.req = @ + 1]
           [] e.op = "pull" ->                                  \* the wrapper took the next item of the source
                IF s.pulled >= n \/ e.v # c.src[s.pulled + 1] THEN PIBad(s, "source_out_of_order")
                ELSE IF Lazy /\ s.pulled > ny THEN PIBad(s, "not_lazy_pulled_ahead_of_consumer")
                ELSE [s EXCEPT !.pulled = @ + 1]
           [] e.op = "pullend" ->                               \* the source signalled its end to the wrapper
                IF s.pulled # n THEN PIBad(s, "source_out_of_order")
                ELSE [s EXCEPT !.srcend = TRUE]
           [] e.op = "yield" ->                                 \* the consumer received an item
                IF s.status # "active" THEN PIBad(s, "yield_without_request")
                ELSE IF ny + 1 > n THEN PIBad(s, "yielded_more_than_source")
                ELSE IF e.v # c.src[ny + 1] THEN PIBad(s, "yielded_item_not_next_of_source")
                ELSE IF c.obspull /\ ny + 1 > s.pulled THEN PIBad(s, "yielded_before_pulled")
                ELSE [s EXCEPT !.out = Append(@, e.v), !.status = "idle",
                               !.pulled = IF c.obspull THEN @ ELSE ny + 1]
           [] e.op = "stop" ->                                  \* the consumer received StopIteration
                IF s.status # "active" THEN PIBad(s, "stop_without_request")
                ELSE IF ny # n THEN PIBad(s, "stopped_before_all_items")
                ELSE [s EXCEPT !.status = "stopped"]
           [] e.op = "error" ->                                 \* the consumer received another exception
                IF MayReject(c) /\ ny = 0 THEN [s EXCEPT !.status = "rejected"]
                ELSE PIBad(s, "unexpected_error")
           [] e.op = "close" ->                                 \* the consumer walks away
                IF s.status # "idle" THEN PIBad(s, "close_while_active")
                ELSE [s EXCEPT !.status = "closed"]
           [] OTHER -> PIBad(s, "unknown_event")

\* a whole recorded stream
RECURSIVE PIRun(_, _, _, _)
PIRun(c, s, ev, i) == IF i > Len(ev) \/ s.bad # "" THEN s ELSE PIRun(c, PIStep(c, s, ev[i]), ev, i + 1)
PIFailing(c, ev) ==
    LET s == PIRun(c, PIInit, ev, 1) IN
    IF s.bad # "" THEN {s.bad}
    ELSE IF s.status \in {"stopped", "rejected", "closed"} THEN {}
    ELSE {"stream_incomplete"}

\* ---- the model: every case, and the most general wrapper the protocol admits ------------
VARIABLES phase, c, st
vars == <<phase, c, st>>

KindHasLen(k)  == k \in {"list", "range"}
KindObsPull(k) == k # "range"

MInit == phase = "start" /\ c = [kind |-> "none"] /\ st = PIInit

ChooseSrc ==
    /\ phase = "start"
    /\ \E kind \in Kinds : \E n \in 0..MaxN :
          c' = [kind |-> kind, src |-> [i \in 1..n |-> i], haslen |-> KindHasLen(kind), obspull |-> KindObsPull(kind)]
    /\ phase' = "src" /\ UNCHANGED st

TotalOK(n, t) == t \in {"none", "exact", "high"} \/ (t = "low" /\ n >= 2)    \* low = n-1 >= 1
ChooseProto ==
    /\ phase = "src"
    /\ \E t \in Totals : \E simple \in BOOLEAN : \E k \in 0..(Len(c.src) + 1) :
          /\ TotalOK(Len(c.src), t)
          /\ c' = [kind |-> c.kind, src |-> c.src, haslen |-> c.haslen, obspull |-> c.obspull,
                   total |-> t, simple |-> simple, k |-> k]
    /\ phase' = "run" /\ UNCHANGED st

\* cosmetic options: enumerated for the export only, the protocol does not depend on them
ChooseCosmetic ==
    /\ phase = "run" /\ DoExport
    /\ \E desc \in {"", "d"} : \E leave \in BOOLEAN : \E mi \in {0, 1} : \E mit \in {1, 2} : \E nb \in {0, 3, 20} :
          c' = [kind |-> c.kind, src |-> c.src, haslen |-> c.haslen, obspull |-> c.obspull,
                total |-> c.total, simple |-> c.simple, k |-> c.k,
                desc |-> desc, leave |-> leave, mininterval |-> mi, miniters |-> mit, nbars |-> nb]
    /\ phase' = "case" /\ UNCHANGED st

Do(e) == LET t == PIStep(c, st, e) IN t.bad = "" /\ st' = t /\ UNCHANGED <<phase, c>>
Running == phase = "run" /\ st.status \notin Terminal

Request  == Running /\ st.status = "idle" /\ st.req < c.k /\ Do(Ev("request", 0))
Abandon  == Running /\ st.status = "idle" /\ st.req = c.k /\ Do(Ev("close", 0))
Pull(i)  == Running /\ i = st.pulled + 1 /\ c.obspull /\ Do(Ev("pull", c.src[i]))
PullEnd  == Running /\ st.status = "active" /\ st.pulled = Len(c.src) /\ ~st.srcend /\ c.obspull /\ Do(Ev("pullend", 0))
Yield(i) == Running /\ i = Len(st.out) + 1 /\ Do(Ev("yield", c.src[i]))
Exhaust  == Running /\ Do(Ev("stop", 0))
Reject   == Running /\ st.status = "active" /\ MayReject(c) /\ Do(Ev("error", 0))

\* mechanism mirror of pbar._pbar_full: the first request prints the initial meter,
\* format_meter(0, total, 0) evaluates n > total, which raises when total is None
Fail ==
    /\ Running /\ st.status = "active" /\ st.req = 1 /\ st.out = <<>>
    /\ ~FixedMeter /\ ~c.simple /\ ~c.haslen /\ c.total = "none"
    /\ st' = PIStep(c, st, Ev("error", 0)) /\ UNCHANGED <<phase, c>>

PullAny  == phase = "run" /\ \E i \in 1..Len(c.src) : Pull(i)
YieldAny == phase = "run" /\ \E i \in 1..Len(c.src) : Yield(i)

MNext == \/ ChooseSrc \/ ChooseProto \/ Request \/ Abandon \/ PullAny \/ PullEnd \/ YieldAny
        \/ Exhaust \/ Reject \/ Fail
NextExport == ChooseSrc \/ ChooseProto \/ ChooseCosmetic
Spec == MInit /\ [][MNext]_vars /\ WF_vars(MNext)

\* ---- properties ------------------------------------------------------------------------------
PrefixInv   == phase = "run" => VIsPrefix(st.out, c.src)            \* yielded = prefix of the source
LazyInv     == phase = "run" => st.pulled <= Len(st.out) + 1        \* at most the item being delivered
NoLoss      == (phase = "run" /\ st.status = "stopped") => st.out = c.src
MechRefines == st.bad = ""                                          \* no step the protocol forbids
\* a consumer that keeps asking gets everything (or the documented rejection)
Completes   == <>(phase = "run" /\ st.status \in Terminal)
AllYielded  == <>(phase = "run" /\ (c.k = Len(c.src) + 1 => (st.out = c.src /\ st.status = "stopped") \/ st.status = "rejected"))

\* ---- export ---------------------------------------------------------------------------------------
Export == (DoExport /\ phase = "case") => PrintT(<<"CASE", ToJson(c)>>)
=============================================================================
