------------------------------- MODULE ProgressIterTrace -------------------------------
(* Trace validation for the progress wrappers: the event stream recorded around a   *)
(* real pbar / PBar / prange / sbar iterator (consumer side: request, yield, stop,  *)
(* error, close; source side: pull, pullend - all in one process, hence totally     *)
(* ordered) must be a run of the protocol of ProgressIter.tla.  One ndjson line per *)
(* record:  {"id": k, "c": <case>, "ev": [{"op": .., "v": ..}, ...]}                *)
(* The model variables of ProgressIter.tla are not used here (held constant; the   *)
(* model's own initial predicate and next-state relation are MInit / MNext).         *)
EXTENDS ProgressIter, IOUtils

VARIABLES blk, tid
Traces == ndJsonDeserialize(IOEnv.TRACE_FILE)
NT == Len(Traces)
BlockSize == 256
NBlocks == (NT + BlockSize - 1) \div BlockSize

Init == blk = 0 /\ tid = 0 /\ MInit
PickBlock == blk = 0 /\ tid = 0 /\ \E b \in 1..NBlocks : blk' = b /\ tid' = 0
PickTrace == blk > 0 /\ tid = 0
             /\ \E t \in ((blk - 1) * BlockSize + 1)..VMin2(blk * BlockSize, NT) : tid' = t /\ blk' = blk
Next == (PickBlock \/ PickTrace) /\ UNCHANGED vars

Check == tid > 0 =>
    LET r == Traces[tid]  f == PIFailing(r.c, r.ev)
    IN f = {} \/ PrintT(<<"REJECT", ToJson([id |-> r.id, failing |-> f])>>)
=============================================================================
