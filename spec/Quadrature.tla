------------------------------- MODULE Quadrature -------------------------------
(* Property-level specification of Gauss-Legendre quadrature in esutil.integrate   *)
(* (gauleg, QGauss, qgauss, QGauss2) over exact rationals and small integers.       *)
(*                                                                                  *)
(* 1. Exact polynomial moments.  A rule (x_i, w_i), i = 1..n, is the Gauss-Legendre *)
(*    rule on [a,b] iff  sum_i w_i x_i^k = Moment(a,b,k)  for k = 0..2n-1  (with     *)
(*    positive weights for a < b); the Gauss rule is unique, so the moment           *)
(*    conditions are equivalent to agreement with any independently computed rule.   *)
(*    Besides the monomials x^k on integer intervals (as far as 32-bit integers      *)
(*    reach) the spec uses the interval-normalised variable t = (2x-a-b)/(b-a):      *)
(*    t^k and the Chebyshev polynomials T_k(t) are polynomials of degree k in x with *)
(*    max|p| = 1 on [a,b] and exact integrals (b-a)/2 * NMoment(k) / ChebMoment(k).  *)
(* 2. Observed rules.  The real abscissae / weights are irrational floats; the       *)
(*    adapter computes the power sums exactly from the returned binary64 numbers,    *)
(*    compares with the spec's exact value under the property's tolerance            *)
(*    (error < 1e-9 (b-a) max|p|, TolDen) and records the spec's value or QOff.      *)
(*    Ordering facts (ascending, inside, signs) are recorded as computed on floats.  *)
(* 3. QGauss cache machine: state [ctor, cur]; Integrate(arg) uses Rule(eff) with    *)
(*    eff = arg if given, else the object's current point count (weaker reading:     *)
(*    the constructor's count is accepted too).  History independence: the result    *)
(*    equals that of a fresh object built with eff.                                  *)
(* 4. QGauss2: tensor-product rule.                                                  *)
(* 5. Re-entrant and aliasing histories on one QGauss object (NestSucc): calls may   *)
(*    begin while an earlier call on the same object is still in progress (iterated  *)
(*    integrals), integrands may keep, re-read and overwrite the abscissa array they *)
(*    were handed.  Every call, at every level of the nesting, is the weighted sum   *)
(*    of Rule(eff) over the mapped abscissae, and an array handed to an integrand    *)
(*    holds those abscissae until that integrand itself changes it.                  *)
(* 6. What an integrand returns is broadcast against the abscissa grid (RetMap); how *)
(*    end points, tabulated data and returned values are represented (container,     *)
(*    element type, byte order, strides) does not matter (RepMayReject).             *)
(* 7. Scale: the tensor-product sum is additive over any partition of the grid rows   *)
(*    into blocks and, for a separable integrand p(x) q(y), the product of the two    *)
(*    1-d sums (TensorSum laws, checked by TLC on rational rules); a grid of millions *)
(*    of points is judged through the exact product of moments (ScaleFailing).        *)
(* 8. Threads: the module-level functions are pure functions of their arguments, and  *)
(*    objects owned by different threads share nothing: calls from several threads,   *)
(*    interleaved at the calls' atomic steps, each return the sequential answer       *)
(*    (ThrSucc).  One shared QGauss object is covered for read-only use only (no call *)
(*    changes its point count); concurrent calls that change the point count of one   *)
(*    shared object are outside the statement.                                        *)
EXTENDS VU

QNone == 0                      \* Python None for an npts argument
QOff  == <<0, 0>>               \* "not within tolerance of the exact value" (den 0: not a rational)
TolDen == 1000000000            \* the property's tolerance: error < (b-a) max|p| / TolDen

\* ---- exact monomial moments --------------------------------------------------------
RECURSIVE QPow(_, _)
QPow(b, k) == IF k = 0 THEN 1 ELSE b * QPow(b, k - 1)

QCap == 536870912               \* 2^29: powers above this are not formed
RECURSIVE QPowCapped(_, _)      \* |b|^k, or -1 when it would exceed QCap
QPowCapped(b, k) ==
    IF k = 0 THEN 1
    ELSE LET p == QPowCapped(b, k - 1)  m == VAbs(b)
         IN IF p = -1 THEN -1 ELSE IF m = 0 THEN 0 ELSE IF p > QCap \div m THEN -1 ELSE p * m

MomentFits(a, b, k) == QPowCapped(a, k + 1) # -1 /\ QPowCapped(b, k + 1) # -1
\* integral of x^k over [a,b] (signed: a > b gives the negative)
Moment(a, b, k)     == RNorm(QPow(b, k + 1) - QPow(a, k + 1), k + 1)
MaxAbsMono(a, b, k) == QPow(VMax2(VAbs(a), VAbs(b)), k)          \* max |x^k| on the interval

\* the largest K <= cap such that Moment(a,b,k) fits for all k <= K  (-1: none)
RECURSIVE QKMaxFrom(_, _, _, _)
QKMaxFrom(a, b, k, cap) == IF k > cap \/ ~MomentFits(a, b, k) THEN k - 1 ELSE QKMaxFrom(a, b, k + 1, cap)
QKMax(a, b, cap) == QKMaxFrom(a, b, 0, cap)

\* the same two notions computed with running powers (linear instead of quadratic work; used by
\* the trace judge on long moment sequences; QuadratureMC checks they agree with the definitions)
QStepCap(p, m) == IF p = -1 THEN -1 ELSE IF m = 0 THEN 0 ELSE IF p > QCap \div m THEN -1 ELSE p * m
RECURSIVE QKMaxAcc(_, _, _, _, _, _)
QKMaxAcc(a, b, k, cap, pa, pb) ==              \* pa = |a|^k, pb = |b|^k
    LET na == QStepCap(pa, VAbs(a))  nb == QStepCap(pb, VAbs(b))
    IN IF k > cap \/ na = -1 \/ nb = -1 THEN k - 1 ELSE QKMaxAcc(a, b, k + 1, cap, na, nb)
QKMaxFast(a, b, cap) == QKMaxAcc(a, b, 0, cap, 1, 1)
RECURSIVE QMomentSeqAcc(_, _, _, _, _, _)
QMomentSeqAcc(a, b, k, K, pa, pb) ==           \* pa = a^k, pb = b^k ; moments k..K
    IF k > K THEN <<>>
    ELSE <<RNorm(pb * b - pa * a, k + 1)>> \o QMomentSeqAcc(a, b, k + 1, K, pa * a, pb * b)
QMomentSeq(a, b, K) == QMomentSeqAcc(a, b, 0, K, 1, 1)      \* <<Moment(a,b,0), ..., Moment(a,b,K)>>

\* interval-normalised families (max |p| = 1 on the interval)
NMoment(k)    == IF k % 2 = 1 THEN <<0, 1>> ELSE <<2, k + 1>>             \* = Moment(-1,1,k)
ChebMoment(k) == IF k % 2 = 1 THEN <<0, 1>> ELSE IF k = 0 THEN <<2, 1>> ELSE RNorm(-2, k * k - 1)   \* integral of T_k over [-1,1]

\* coefficient sequences: c[j+1] is the coefficient of t^j
PolyMoment(c) == RSum([j \in 1..Len(c) |-> RMul(RInt(c[j]), NMoment(j - 1))])
RECURSIVE ChebCoef(_)
ChebCoef(k) ==
    IF k = 0 THEN <<1>> ELSE IF k = 1 THEN <<0, 1>>
    ELSE LET p == ChebCoef(k - 1)  q == ChebCoef(k - 2)
         IN [j \in 1..(k + 1) |-> (IF j >= 2 THEN 2 * p[j - 1] ELSE 0) - (IF j <= Len(q) THEN q[j] ELSE 0)]

\* ---- rational rules (toy rules, kernel validation, the one rational GL rule) -------
RECURSIVE RPowR(_, _)
RPowR(x, k) == IF k = 0 THEN <<1, 1>> ELSE RMul(x, RPowR(x, k - 1))
RECURSIVE ChebAt(_, _)          \* T_k(x) for rational x
ChebAt(x, k) == IF k = 0 THEN <<1, 1>> ELSE IF k = 1 THEN x
                ELSE RSub(RMul(RMul(<<2, 1>>, x), ChebAt(x, k - 1)), ChebAt(x, k - 2))

\* a rule is a sequence of [x |-> rational, w |-> rational]
PowerSum(rule, k) == RSum([i \in 1..Len(rule) |-> RMul(rule[i].w, RPowR(rule[i].x, k))])
ChebSum(rule, k)  == RSum([i \in 1..Len(rule) |-> RMul(rule[i].w, ChebAt(rule[i].x, k))])
ExactTo(rule, a, b, d) == \A k \in 0..d : PowerSum(rule, k) = Moment(a, b, k)
IsGL(rule, a, b) == /\ ExactTo(rule, a, b, 2 * Len(rule) - 1)
                    /\ \A i \in 1..Len(rule) : IF a < b THEN rule[i].w[1] > 0 ELSE rule[i].w[1] < 0

Midpoint(a, b) == << [x |-> RNorm(a + b, 2), w |-> RInt(b - a)] >>          \* the 1-point GL rule
Simpson(a, b)  == << [x |-> RInt(a), w |-> RNorm(b - a, 6)], [x |-> RNorm(a + b, 2), w |-> RNorm(4 * (b - a), 6)],
                     [x |-> RInt(b), w |-> RNorm(b - a, 6)] >>             \* 3 points, exact to degree 3 only

\* weighted sum of an integrand given by its values at the nodes (the integrators' identity)
WeightedSum(rule, y) == RSum([i \in 1..Len(rule) |-> RMul(rule[i].w, y[i])])

\* ---- linear interpolation of a table (strictly increasing rational abscissae) ------
\* tab: sequence of [x |-> rational, y |-> rational]; q inside [x_1, x_m]
QSeg(tab, q) == CHOOSE s \in 1..(Len(tab) - 1) :
                   /\ RLe(tab[s].x, q)
                   /\ (RLe(q, tab[s + 1].x))
                   /\ \A s2 \in 1..(s - 1) : ~(RLe(tab[s2].x, q) /\ RLe(q, tab[s2 + 1].x))
QInterp(tab, q) ==
    LET s == QSeg(tab, q)
        p0 == tab[s]  p1 == tab[s + 1]
    IN RAdd(p0.y, RMul(RSub(q, p0.x), RDiv(RSub(p1.y, p0.y), RSub(p1.x, p0.x))))
QInGrid(tab, q) == RLe(tab[1].x, q) /\ RLe(q, tab[Len(tab)].x)
\* exact integral of the piecewise-linear interpolant (trapezoid sum)
QTrapz(tab) == RSum([s \in 1..(Len(tab) - 1) |->
                   RMul(RSub(tab[s + 1].x, tab[s].x), RDiv(RAdd(tab[s].y, tab[s + 1].y), <<2, 1>>))])
(* Scale covariance: the interpolant and its integral know no absolute scale.  With sx > 0 and sy any     *)
(* rationals, the table (sx * x_i, sy * y_i) has interpolant sy * QInterp(tab, q) at sx * q and integral  *)
(* sx * sy * QTrapz(tab) (QuadratureMC!TableLaws checks this on every small table).  The tabulated-data   *)
(* integrator inherits it: its nodes are sx * (nodes on the unscaled range), its weights sx * W_i.  The   *)
(* replay therefore transports every table to units 2^ex, 2^ey (|e| up to 60: powers of two keep the      *)
(* binary values exact rationals) and judges the result by the transported sum and the transported exact  *)
(* integral; a record d carries the UNSCALED table d.tab, d.val / d.exact are the projections back.       *)
QScaleTab(tab, sx, sy) == [i \in 1..Len(tab) |-> [x |-> RMul(sx, tab[i].x), y |-> RMul(sy, tab[i].y)]]
QIsLinear(tab) == \A s \in 2..(Len(tab) - 1) : QInterp(<<tab[1], tab[Len(tab)]>>, tab[s].x) = tab[s].y

\* ---- acceptance of an observed rule ---------------------------------------------------
(* r = [src, a, b, n, err, finite, nx, nw : Nat,                                       *)
(*      asc : Seq({-1,0,1}) (sign of x_i - x_{i+1}), lo, hi : Seq (sign of x_i - a,     *)
(*      sign of b - x_i), wsg : Seq (sign of w_i), xsym, wsym : Seq(BOOLEAN) (pair i,   *)
(*      n+1-i symmetric to rounding), mom : Seq(rational|QOff) (x^k, k = 0..),          *)
(*      nmom, cheb : Seq(rational|QOff) (t^k and T_k(t), k = 0..),                     *)
(*      polys : Seq([c : coefficient sequence, v : rational|QOff]),                     *)
(*      lin : Seq(BOOLEAN) (integrator: result = sum of y_i * extracted weight)]        *)
NeedMom(r, KCapX) == QKMaxFast(r.a, r.b, VMin2(2 * r.n - 1, KCapX)) + 1  \* number of x-monomials demanded
NeedN(r, KCapN)   == VMin2(2 * r.n - 1, KCapN) + 1                       \* number of t-monomials / Chebyshev

AllEq(s, v) == \A i \in 1..Len(s) : s[i] = v

RuleFailing(r, KCapX, KCapN, NPoly) ==
    IF r.err # "none" THEN {"unexpected_error"}
    ELSE IF r.nx # r.n \/ r.nw # r.n THEN {"count"}
    ELSE IF ~r.finite THEN {"nonfinite"}
    ELSE
      (IF r.a < r.b
       THEN (IF Len(r.asc) = r.n - 1 /\ AllEq(r.asc, -1) THEN {} ELSE {"ascending"}) \cup
            (IF Len(r.lo) = r.n /\ Len(r.hi) = r.n /\ AllEq(r.lo, 1) /\ AllEq(r.hi, 1) THEN {} ELSE {"inside"}) \cup
            (IF Len(r.wsg) = r.n /\ AllEq(r.wsg, 1) THEN {} ELSE {"w_positive"}) \cup
            (IF Len(r.xsym) = (r.n + 1) \div 2 /\ AllEq(r.xsym, TRUE) THEN {} ELSE {"x_symmetric"}) \cup
            (IF Len(r.wsym) = (r.n + 1) \div 2 /\ AllEq(r.wsym, TRUE) THEN {} ELSE {"w_symmetric"})
       ELSE {}) \cup                                   \* a > b: moments only (sign of b-a; DESIGN section 7)
      (IF Len(r.mom) >= 1 /\ r.mom[1] = Moment(r.a, r.b, 0) THEN {} ELSE {"w_sum"}) \cup
      (IF /\ Len(r.mom) = NeedMom(r, KCapX)
          /\ LET ms == QMomentSeq(r.a, r.b, Len(r.mom) - 1) IN \A k \in 2..Len(r.mom) : r.mom[k] = ms[k]
       THEN {} ELSE {"moments"}) \cup
      (IF /\ Len(r.nmom) = NeedN(r, KCapN) /\ Len(r.cheb) = NeedN(r, KCapN)
          /\ \A k \in 1..Len(r.nmom) : r.nmom[k] = NMoment(k - 1)
          /\ \A k \in 1..Len(r.cheb) : r.cheb[k] = ChebMoment(k - 1)
          /\ Len(r.polys) >= NPoly
          /\ \A p \in 1..Len(r.polys) : /\ Len(r.polys[p].c) <= 2 * r.n
                                        /\ r.polys[p].v = PolyMoment(r.polys[p].c)
       THEN {} ELSE {"poly_exact"}) \cup
      (IF AllEq(r.lin, TRUE) THEN {} ELSE {"weighted_sum"})

\* ---- the QGauss cache machine -----------------------------------------------------------
\* property-level state of one QGauss object
CacheNew(ctor)    == [ctor |-> ctor, cur |-> ctor]
\* point counts a call with argument `arg` may use: the argument when given; otherwise the
\* object's current count - or, under the weaker reading of the ambiguity, the constructor's
EffSet(s, arg)    == IF arg # QNone THEN {arg} ELSE {s.cur, s.ctor} \ {QNone}
CacheAfter(s, e)  == [s EXCEPT !.cur = e]

\* what a recorded call shows: err, and the sequence `same` of point counts e for which the call
\* evaluated the integrand at exactly the abscissae a fresh QGauss(e) evaluates it at and
\* returned the result the fresh object returns (history independence), `nabsc` = number
\* of abscissae the integrand was evaluated at (0 for tabulated data)
CallSucc(s, ev) ==                      \* successor states the specification allows
    IF EffSet(s, ev.arg) = {} THEN {s}                           \* nothing to integrate with: any outcome
    ELSE IF ev.err # "none" THEN {}
    ELSE {CacheAfter(s, e) : e \in {e2 \in EffSet(s, ev.arg) :
                                       e2 \in VRange(ev.same) /\ (ev.kind = "data" \/ ev.nabsc = e2)}}
CallClause(s, ev) ==                    \* name of the violated clause when CallSucc = {}
    IF ev.err # "none" THEN "unexpected_error"
    ELSE IF ev.kind # "data" /\ ev.nabsc \notin EffSet(s, ev.arg) THEN "uses_other_npts"
    ELSE "history_dependent"

\* implementation-shaped model of QGauss.setup: the cached rule is recomputed iff npts changed
MechNew(ctor) == [npts |-> ctor, rulefor |-> ctor]
MechSetup(m, arg, variant) ==
    IF arg = QNone THEN m
    ELSE IF variant = "pinned" THEN (IF m.npts # arg THEN [npts |-> arg, rulefor |-> arg] ELSE m)
    ELSE IF variant = "stale"  THEN (IF m.rulefor = QNone THEN [npts |-> arg, rulefor |-> arg]
                                     ELSE [m EXCEPT !.npts = arg])          \* rule computed once, never refreshed
    ELSE (* "always" *) [npts |-> arg, rulefor |-> arg]

\* ---- re-entrant and aliasing histories on ONE QGauss object ------------------------------
(* A history is a properly nested sequence of events; calls are numbered 1, 2, ... in the order *)
(* they begin (id).                                                                            *)
(*   [op |-> "enter", kind, arg]    call number Len(fr)+1 begins ("func" | "data"); setup()     *)
(*                                   happens here, so the point count is fixed at entry         *)
(*   [op |-> "eval", id, nabsc, nodes]  the integrand of call id is handed an array of nabsc    *)
(*                                   numbers; nodes = the point counts e for which the array    *)
(*                                   holds the nodes of Rule(e) mapped onto the call's interval *)
(*   [op |-> "mutate", id]           the integrand of call id overwrites the array it was given *)
(*   [op |-> "read", id, nodes]      the array handed to call id is read again: by its own      *)
(*                                   integrand just before it returns (after any nested calls), *)
(*                                   or by the caller, who kept it, after later calls           *)
(*   [op |-> "exit", id, err, ok]    call id returns; ok = the point counts e for which the     *)
(*                                   result is sum_i W(e)_i y_i for the values y the integrand  *)
(*                                   returned ("func"), resp. the result of a fresh QGauss(e)   *)
(*                                   on the same table ("data")                                 *)
(* Property-level state: the cache machine, the stack of calls in progress and, per call, the   *)
(* point count it was entered with (QNone: nothing to integrate with - any outcome) and whether *)
(* its integrand has overwritten its array itself.                                              *)
NestNew(ctor) == [cache |-> CacheNew(ctor), stack |-> <<>>, fr |-> <<>>]
NestTop(n)    == IF n.stack = <<>> THEN 0 ELSE n.stack[Len(n.stack)]
NestPush(n, cache, kind, e) ==
    [cache |-> cache, stack |-> Append(n.stack, Len(n.fr) + 1), fr |-> Append(n.fr, [e |-> e, kind |-> kind, dirty |-> FALSE])]
NestPop(n)    == [n EXCEPT !.stack = SubSeq(@, 1, Len(@) - 1)]
NestWellFormed(n, ev) ==
    IF ev.op = "enter" THEN TRUE
    ELSE IF ev.op = "read" THEN ev.id \in 1..Len(n.fr)
    ELSE ev.id = NestTop(n) /\ ev.id > 0
NestSucc(n, ev) ==
    IF ~NestWellFormed(n, ev) THEN {}
    ELSE IF ev.op = "enter" THEN
        LET E == EffSet(n.cache, ev.arg)
        IN IF E = {} THEN {NestPush(n, n.cache, ev.kind, QNone)}
           ELSE {NestPush(n, CacheAfter(n.cache, e), ev.kind, e) : e \in E}
    ELSE LET f == n.fr[ev.id] IN
         IF ev.op = "eval" THEN (IF f.e = QNone \/ (ev.nabsc = f.e /\ f.e \in VRange(ev.nodes)) THEN {n} ELSE {})
         ELSE IF ev.op = "mutate" THEN {[n EXCEPT !.fr[ev.id].dirty = TRUE]}
         ELSE IF ev.op = "read" THEN (IF f.e = QNone \/ f.dirty \/ f.e \in VRange(ev.nodes) THEN {n} ELSE {})
         ELSE (* exit *) IF f.e = QNone THEN {NestPop(n)}
                         ELSE IF ev.err = "none" /\ f.e \in VRange(ev.ok) THEN {NestPop(n)} ELSE {}
NestClause(n, ev) ==                    \* name of the violated clause when NestSucc = {}
    IF ~NestWellFormed(n, ev) THEN "malformed_trace"
    ELSE IF ev.op = "eval" THEN (IF ev.nabsc # n.fr[ev.id].e THEN "uses_other_npts" ELSE "abscissae_not_mapped_nodes")
    ELSE IF ev.op = "read" THEN (IF \E i \in 1..Len(n.stack) : n.stack[i] = ev.id THEN "abscissae_overwritten_during_call"
                                 ELSE "abscissae_overwritten_after_return")
    ELSE IF ev.op = "exit" THEN (IF ev.err # "none" THEN "unexpected_error"
                                 ELSE IF n.fr[ev.id].kind = "data" THEN "history_dependent" ELSE "weighted_sum")
    ELSE "unknown_event"

(* implementation-shaped model of integrate_func / integrate_data under re-entrant use.          *)
(* m = [npts, rulefor : as MechSetup, gen : number of scratch buffers allocated so far,           *)
(*      fr : Seq([xi : array id, w : rule in force at entry]) per call,                            *)
(*      arrs : Seq(content) indexed by array id; content <<k, e>> = "nodes of Rule(e) mapped to   *)
(*             the interval of call k", <<0, 0>> = overwritten by an integrand]                    *)
(* variants: "local"   abscissae in a fresh array per call, rule taken once at entry (correct)     *)
(*           "reread"  fresh array per call, but the weights are read from the object again after  *)
(*                     the integrand returned (self.wii)                                           *)
(*           "scratch" ONE per-object work array for the mapped abscissae, re-allocated only when  *)
(*                     npts changes, filled in place                                               *)
NMechNew(ctor) == [npts |-> ctor, rulefor |-> ctor, gen |-> 0, buf |-> 0, fr |-> <<>>, arrs |-> <<>>]
NMechEnter(m, arg, variant) ==          \* precondition: a point count is available
    LET changed == arg # QNone /\ m.npts # arg
        np      == IF arg # QNone THEN arg ELSE m.npts
        k       == Len(m.fr) + 1
        newarr  == variant # "scratch" \/ changed \/ m.buf = 0          \* a new array object is allocated
        a       == IF newarr THEN Len(m.arrs) + 1 ELSE m.buf
        arrs2   == IF newarr THEN Append(m.arrs, <<k, np>>) ELSE [m.arrs EXCEPT ![a] = <<k, np>>]
    IN [npts |-> np, rulefor |-> np, gen |-> m.gen + (IF newarr THEN 1 ELSE 0),
        buf |-> IF variant = "scratch" THEN a ELSE 0,
        fr |-> Append(m.fr, [xi |-> a, w |-> np]), arrs |-> arrs2]
NMechMutate(m, k)         == [m EXCEPT !.arrs[m.fr[k].xi] = <<0, 0>>]
NMechWeights(m, k, variant) == IF variant = "reread" THEN m.rulefor ELSE m.fr[k].w
NMechArray(m, k)          == m.arrs[m.fr[k].xi]

\* shapes are pairs <<rows, cols>>; <<0,0>> = broadcast error
QBcast(s, t) ==
    LET d(i) == IF s[i] = t[i] THEN s[i] ELSE IF s[i] = 1 THEN t[i] ELSE IF t[i] = 1 THEN s[i] ELSE 0
    IN IF s = <<0, 0>> \/ t = <<0, 0>> \/ d(1) = 0 \/ d(2) = 0 THEN <<0, 0>> ELSE <<d(1), d(2)>>

\* ---- what an integrand may return: numpy broadcasting against the abscissa grid ----------------
\* the grid of a QGauss2(nx,ny) call has shape <<ny, nx>>, that of a 1-d call <<1, n>>; a returned
\* shape sh (<<>> scalar / 0-d, <<m>>, <<r, c>>) is aligned at the trailing axis
QPad2(sh)        == IF Len(sh) = 0 THEN <<1, 1>> ELSE IF Len(sh) = 1 THEN <<1, sh[1]>> ELSE sh
RetFits(sh, grid) == Len(sh) <= 2 /\ QBcast(QPad2(sh), grid) = grid
RetIsFull(sh, grid, dim) == Len(sh) = dim /\ QPad2(sh) = grid
\* 1-based row-major position, in the returned values, of the value that belongs to grid cell (j, i)
RetCell(sh, j, i) == LET p == QPad2(sh) IN ((IF p[1] = 1 THEN 1 ELSE j) - 1) * p[2] + (IF p[2] = 1 THEN 1 ELSE i)
RetMap(sh, grid)  == [q \in 1..(grid[1] * grid[2]) |-> RetCell(sh, ((q - 1) \div grid[2]) + 1, ((q - 1) % grid[2]) + 1)]
RetCount(sh)      == LET p == QPad2(sh) IN p[1] * p[2]

\* representations (container / element type / layout) of end points, tables and returned values:
\* the statement speaks of intervals, data and integrands, not of numpy types, so none may change a
\* result; python sequences where the code documents arrays may be rejected
RepMayReject(rep) == rep \in {"list", "tuple"}

(* r = [dim : 1 | 2, nx, ny (1 for dim 1), sh, rep, err, finite,                                   *)
(*      val : BOOLEAN (result = sum over the grid of W_ji * v[RetMap(sh, grid)[j, i]], to rounding, *)
(*            W = the weights extracted from a fresh object with full-shape indicator integrands), *)
(*      isconst : BOOLEAN, cn, cd : the constant returned = cn/cd, ax, bx, ay, by : integer end     *)
(*      points (ay = 0, by = 1 for dim 1), cexact : rational | QOff (the result projected onto the  *)
(*      exact integral of the constant under the property's tolerance)]                             *)
RetFailing(r) ==
    LET grid == <<r.ny, r.nx>> IN
    IF ~RetFits(r.sh, grid) THEN {}                                      \* not an integrand value: any outcome
    ELSE IF r.err # "none" THEN (IF RetIsFull(r.sh, grid, r.dim) /\ ~RepMayReject(r.rep) THEN {"unexpected_error"} ELSE {})
    ELSE IF ~r.finite THEN {"nonfinite"}
    ELSE (IF r.val THEN {} ELSE {"broadcast_sum"}) \cup
         (IF r.isconst => r.cexact = RMul(RNorm(r.cn, r.cd), RInt((r.bx - r.ax) * (r.by - r.ay))) THEN {} ELSE {"constant_integral"})

\* ---- QGauss2: tensor product ----------------------------------------------------------
\* QGauss2._setup: meshgrid(x, y) has shape (ny, nx); the weight grids start from ones(shape0)
TensorMech(nx, ny, fixed) ==
    LET shape0 == IF fixed THEN <<ny, nx>> ELSE <<nx, ny>>
        wxg == QBcast(shape0, <<1, nx>>)          \* * wx[newaxis, :]
        wyg == QBcast(shape0, <<ny, 1>>)          \* * wy[:, newaxis]
        wg  == QBcast(wxg, wyg)
    IN [grid |-> <<ny, nx>>, wgrid |-> wg, prod |-> QBcast(<<ny, nx>>, wg)]
TensorMechOK(nx, ny, fixed) == TensorMech(nx, ny, fixed).prod = <<ny, nx>>

(* t = [nx, ny, err, finite, npts : number of distinct points evaluated, ndx, ndy : number *)
(*      of distinct x / y among them, full : BOOLEAN (points = X x Y), rank1 : BOOLEAN      *)
(*      (extracted weights W_ij * sum W = rowsum_i * colsum_j, to rounding),                 *)
(*      lin : Seq(BOOLEAN)]  - the marginal rules are judged as rule records                 *)
TensorFailing(t) ==
    IF t.err # "none" THEN {"unexpected_error"}
    ELSE IF ~t.finite THEN {"nonfinite"}
    ELSE (IF t.npts = t.nx * t.ny /\ t.ndx = t.nx /\ t.ndy = t.ny /\ t.full THEN {} ELSE {"tensor_grid"}) \cup
         (IF t.rank1 THEN {} ELSE {"product_weights"}) \cup
         (IF AllEq(t.lin, TRUE) THEN {} ELSE {"weighted_sum"})

\* ---- scale: blockwise evaluation, separable integrands ----------------------------------------
\* tensor-product sum of f over the grid of two rational rules (rows = y nodes)
TensorRows(rx, ry, f(_, _), rows) ==
    RSum([q \in 1..Len(rows) |-> RSum([i \in 1..Len(rx) |-> RMul(RMul(rx[i].w, ry[rows[q]].w), f(rx[i].x, ry[rows[q]].x))])])
TensorSum(rx, ry, f(_, _)) == TensorRows(rx, ry, f, [j \in 1..Len(ry) |-> j])
\* rows (ascending) handed to the integrand in block b of nb by a loop over blocks of rows
\*   "ceil"  nrow = ceil(ny / nb), the last block is shorter       "floor"  nrow = ny \div nb, ny % nb rows are left over
BlockRows(ny, nb, variant, b) ==
    LET nrow == IF variant = "floor" THEN ny \div nb ELSE (ny + nb - 1) \div nb
    IN VSortSet({r \in 1..ny : (b - 1) * nrow < r /\ r <= b * nrow})
BlockCovers(ny, nb, variant) == \A r \in 1..ny : Cardinality({b \in 1..nb : r \in VRange(BlockRows(ny, nb, variant, b))}) = 1

(* r = [nx, ny, dj, dk : the integrand is x^dj y^dk, ax, bx, ay, by : integer end points, err, finite,        *)
(*      npts : number of points the integrand was handed in all its calls, ndx, ndy : number of distinct  *)
(*      x / y among them, exact : rational | QOff (result projected onto the exact integral under the    *)
(*      property's tolerance), prod : BOOLEAN (for separable integrands g(x) h(y), polynomial or not, the *)
(*      result is the product of the two 1-d integrators' results, to rounding)]                          *)
ScaleFailing(r) ==
    IF r.err # "none" THEN {"unexpected_error"}
    ELSE IF ~r.finite THEN {"nonfinite"}
    ELSE (IF r.npts >= r.nx * r.ny /\ r.ndx = r.nx /\ r.ndy = r.ny THEN {} ELSE {"tensor_grid"}) \cup
         (IF (r.dj <= 2 * r.nx - 1 /\ r.dk <= 2 * r.ny - 1) => r.exact = RMul(Moment(r.ax, r.bx, r.dj), Moment(r.ay, r.by, r.dk))
          THEN {} ELSE {"separable_exact"}) \cup
         (IF r.prod THEN {} ELSE {"product_of_marginals"})

\* ---- threads ------------------------------------------------------------------------------------
(* A thread history: events [op |-> "start", t, kind, arg] (thread t begins a call), [op |-> "finish", t,  *)
(* err, ok] (its call returns; ok = the point counts e for which the result is the one a fresh QGauss(e)  *)
(* returns sequentially).  Calls of different threads overlap arbitrarily.  Every call with an explicit   *)
(* npts returns that rule's sum whatever the other threads do.  With npts omitted the count is the        *)
(* constructor's; on a SHARED object also one that a call begun before its return made current (the       *)
(* histories replayed never change the count of a shared object, so this is the constructor's again).     *)
(* shared = FALSE: module-level function, or one object per thread (all built with ctor).                 *)
(* The implementation may make any group of its steps atomic (a lock): an interleaving it refuses is      *)
(* simply not one of its behaviours, and only the behaviours it does show are judged.  A history is the   *)
(* schedule REALISED: [op |-> "blocked", t] records that the open call of thread t could not go on while  *)
(* the open call of another thread stood still (that call is then let run to its end first; its finish    *)
(* appears where it happened) - allowed whenever both calls are open, it changes nothing.                 *)
(* [op |-> "deadlock", t]: the call of thread t did not return although every other call was let run to   *)
(* its end - never allowed (every call returns the sequential result, so it returns).                     *)
ThrIdle == 0 - 1
ThrNew(ctor, shared) == [ctor |-> ctor, shared |-> shared, args |-> {}, open |-> [t \in 1..4 |-> ThrIdle]]
ThrAllowed(s, a) == IF a # QNone THEN {a} ELSE ({s.ctor} \cup s.args) \ {QNone}
ThrSucc(s, ev) ==
    IF ev.op = "deadlock" THEN {}
    ELSE IF ev.op = "blocked" THEN (IF s.open[ev.t] # ThrIdle /\ (\E u \in DOMAIN s.open : u # ev.t /\ s.open[u] # ThrIdle) THEN {s} ELSE {})
    ELSE IF ev.op = "start" THEN (IF s.open[ev.t] # ThrIdle THEN {}
                             ELSE {[s EXCEPT !.open[ev.t] = ev.arg, !.args = IF s.shared THEN @ \cup ({ev.arg} \ {QNone}) ELSE @]})
    ELSE LET a == s.open[ev.t] IN
         IF a = ThrIdle THEN {}
         ELSE IF ThrAllowed(s, a) = {} \/ (ev.err = "none" /\ ThrAllowed(s, a) \cap VRange(ev.ok) # {})
              THEN {[s EXCEPT !.open[ev.t] = ThrIdle]} ELSE {}
ThrClause(s, ev) ==
    IF ev.op = "deadlock" THEN "deadlock"
    ELSE IF ev.op = "start" \/ ev.op = "blocked" \/ s.open[ev.t] = ThrIdle THEN "malformed_trace"
    ELSE IF ev.err # "none" THEN "unexpected_error" ELSE "not_the_sequential_result"

(* implementation-shaped model: m = [npts, rulefor] is the state of an object several calls share; a call  *)
(* is two atomic steps, configure (setup) and use.  variants:                                             *)
(*   "private"  every call / every thread works on its own object (qgauss() as it is; one object per      *)
(*              thread)                                                                                   *)
(*   "snap"     one object behind all calls, setup() hands the rule of the call back in one piece         *)
(*   "late"     one object behind all calls, the rule is read from it again after setup() returned        *)
(*   "locked"   as "late", but configure and use of a call are one atomic group (a lock held from setup   *)
(*              to the last read): the model refuses to start a call while another one is configured      *)
ThrMechStart(m, arg, variant) == IF variant = "private" THEN m ELSE MechSetup(m, arg, "pinned")
ThrMechTaken(m, arg, variant) == IF variant = "private" THEN arg ELSE MechSetup(m, arg, "pinned").rulefor   \* rule in hand after configure
ThrMechUsed(m, taken, variant) == IF variant \in {"late", "locked"} THEN m.rulefor ELSE taken

\* tabulated data: d = [n, err, finite, val : BOOLEAN (result = sum W_i * QInterp(table, x_i), to
\* rounding), tab : rational table, exact : rational|QOff (the result projected onto the exact
\* integral of the table under the property's tolerance; demanded when the table is linear:
\* every GL rule integrates a polynomial of degree 1 exactly)]
\* xrep, yrep: how the table was handed over (RepMayReject)
DataFailing(d) ==
    IF d.err # "none" THEN (IF RepMayReject(d.xrep) \/ RepMayReject(d.yrep) THEN {} ELSE {"unexpected_error"})
    ELSE IF ~d.finite THEN {"nonfinite"}
    ELSE (IF d.val THEN {} ELSE {"interpolated_sum"}) \cup
         (IF QIsLinear(d.tab) => d.exact = QTrapz(d.tab) THEN {} ELSE {"linear_table_integral"})
=============================================================================
