------------------------------- MODULE QuadratureMC -------------------------------
(* Bounded models for C17.  Four sub-models share the variables; a run selects one    *)
(* with INIT/NEXT:                                                                    *)
(*  InitM/NextM  moments: every integer interval and degree that fits 32 bits; the    *)
(*               states are exported (MOM: exact moment + max|p|; NMOM: normalised    *)
(*               and Chebyshev moments) and theorems about the definitions checked;   *)
(*  InitK/NextK  kernel validation cases (KV): exact power/Chebyshev sums of dyadic   *)
(*               toy rules and exact interpolation values the adapter's projection    *)
(*               kernel must reproduce before it is used;                             *)
(*  InitC/NextC  the QGauss object: every constructor argument and every call         *)
(*               sequence up to MaxCalls; the implementation-shaped setup() is        *)
(*               checked against the property-level cache machine (MechRefines) and   *)
(*               every call sequence is exported (SEQ) for replay on a real object;   *)
(*  InitT/NextT  QGauss2 shapes: every (nx,ny), broadcasting model of _setup          *)
(*               (TensorRefines), exported (TENSOR);                                  *)
(*  InitD/NextD  every table with 2..4 nodes on an uneven grid with its exact         *)
(*               trapezoid integral (TAB), laws of the interpolant (TableLaws);       *)
(*  InitN/NextN  re-entrant and aliasing histories on ONE QGauss object: calls begun  *)
(*               inside the integrand of a call in progress (depth <= MaxDepth),       *)
(*               integrands that overwrite the array they were given; three           *)
(*               implementation-shaped variants of integrate_func are checked against *)
(*               the property-level nest machine (NestRefines); every complete        *)
(*               history is exported (NEST) for replay on a real object;              *)
(*  InitR/NextR  what an integrand returns: every shape that broadcasts against the   *)
(*               abscissa grid x every representation (RET, with the cell map the     *)
(*               expected sum is formed with; RetLaws);                               *)
(*  InitP/NextP  representations of tabulated data (DREP) and of interval end points  *)
(*               per entry point (ETYPE);                                             *)
(*  InitB/NextB  scale: laws of the tensor sum on rational rules (BlockLaws: additive *)
(*               over row blocks, product of marginals for separable integrands), the *)
(*               block loop covers every row once (BlockRefines), grids across the    *)
(*               2^20-point boundary with their exact integrals (SCALE);              *)
(*  InitH/NextH  threads: every interleaving of the configure / use steps of NThr     *)
(*               concurrent calls on the module function ("qgauss"), on one object    *)
(*               per thread ("own") or on one shared object used read-only ("shared": *)
(*               no call changes its point count) (ThrRefines), exported (THR) for    *)
(*               replay with real threads.                                            *)
EXTENDS Quadrature, Json

CONSTANTS AMax,        \* interval end points a,b in -AMax..AMax, a # b
          KCapX,       \* x-monomial degrees 0..KCapX (as far as they fit)
          KCapN,       \* normalised / Chebyshev degrees 0..KCapN
          NptsSet,     \* point counts used in call sequences
          MaxCalls,    \* call sequences of length 1..MaxCalls
          Kinds,       \* integrate kinds: "func", "data"
          Variant,     \* "pinned" | "always" (correct) | "stale" (deviating, self-test)
          NMax,        \* QGauss2: nx, ny in 1..NMax
          FixedShapes, \* TRUE: weight grids built with shape (ny,nx); FALSE: pinned (nx,ny)
          NestNpts,    \* point counts used in re-entrant histories
          MaxNestCalls, MaxDepth,   \* calls per history, calls in progress at once
          NestVariant, \* "local" (correct) | "reread" | "scratch" (deviating)
          BlockVariant, \* "ceil" (covers every row) | "floor" (deviating)
          ScaleFull,   \* TRUE: the longer list of big grids
          NThr, ThrNpts, ThrVariant,   \* threads, their point counts, "private" | "snap" | "late" (deviating) | "locked" (late + lock)
          DoExport

VARIABLES phase, c, s, m, last
vars == <<phase, c, s, m, last>>

AVals  == (0 - AMax)..AMax
NoCase == [k |-> "none"]
Idle   == [allowed |-> {}, used |-> QNone, npts |-> QNone]
Blank  == phase = "start" /\ c = NoCase /\ s = CacheNew(QNone) /\ m = MechNew(QNone) /\ last = Idle
Keep   == UNCHANGED <<s, m, last>>

\* ---- moments ------------------------------------------------------------------------
InitM == Blank
ChooseInterval == /\ phase = "start"
                  /\ \E a \in AVals : \E b \in AVals : a # b /\ c' = [k |-> "iv", a |-> a, b |-> b]
                  /\ phase' = "iv" /\ Keep
ChooseDeg == /\ phase = "iv"
             /\ \E k \in 0..KCapX : MomentFits(c.a, c.b, k) /\
                   c' = [k |-> "mom", a |-> c.a, b |-> c.b, deg |-> k, m |-> Moment(c.a, c.b, k),
                         maxp |-> MaxAbsMono(c.a, c.b, k), told |-> TolDen]
             /\ phase' = "mom" /\ Keep
ChooseNDeg == /\ phase = "start"
              /\ \E k \in 0..KCapN : c' = [k |-> "nmom", deg |-> k, nm |-> NMoment(k), cm |-> ChebMoment(k), told |-> TolDen]
              /\ phase' = "nmom" /\ Keep
NextM == ChooseInterval \/ ChooseDeg \/ ChooseNDeg

\* theorems about the definitions (LawFits: the rational sum itself must stay below 2^31)
LawFits(a, b, x, k) == LET p == QPowCapped(VMax2(VMax2(VAbs(a), VAbs(b)), VAbs(x)), k + 1)
                       IN p # -1 /\ p <= 400000000 \div ((k + 1) * (k + 1))
MomentLaws == phase = "mom" =>
    /\ c.m = RNeg(Moment(c.b, c.a, c.deg))                                   \* orientation
    /\ \A x \in AVals : LawFits(c.a, c.b, x, c.deg) =>
          RAdd(Moment(c.a, x, c.deg), Moment(x, c.b, c.deg)) = c.m          \* additivity
    /\ (c.a = -1 /\ c.b = 1) => c.m = NMoment(c.deg)
    /\ (c.a < c.b /\ c.deg % 2 = 0) => c.m[1] > 0
ToyRules == phase = "iv" =>
    /\ IsGL(Midpoint(c.a, c.b), c.a, c.b)                                    \* the rational GL rule
    /\ ~ExactTo(Midpoint(c.a, c.b), c.a, c.b, 2)                             \* and no better than 2n-1
    /\ ExactTo(Simpson(c.a, c.b), c.a, c.b, 3)
    /\ ~ExactTo(Simpson(c.a, c.b), c.a, c.b, 4)                              \* 3 points, not GL: the
    /\ ~IsGL(Simpson(c.a, c.b), c.a, c.b)                                    \* moment conditions discriminate
    \* tensor product of two 1-point rules integrates x^j y^k, j,k <= 1
    /\ \A j, k \in 0..1 :
          RMul(PowerSum(Midpoint(c.a, c.b), j), PowerSum(Midpoint(c.b, c.a), k))
             = RMul(Moment(c.a, c.b, j), Moment(c.b, c.a, k))
FastAgrees == phase = "iv" =>
    LET K == QKMax(c.a, c.b, KCapX) IN
    /\ \A cap \in {0, 1, 3, 11, 12, 28, KCapX} : QKMaxFast(c.a, c.b, cap) = QKMax(c.a, c.b, cap)
    /\ QMomentSeq(c.a, c.b, K) = [k \in 1..(K + 1) |-> Moment(c.a, c.b, k - 1)]
ChebLaws == phase = "nmom" =>
    /\ c.nm = Moment(-1, 1, c.deg)
    /\ (c.deg <= 12) => PolyMoment(ChebCoef(c.deg)) = c.cm                   \* T_k's integral from its coefficients
    /\ (c.deg <= 8)  => \A x \in {<<-1, 1>>, <<-1, 2>>, <<0, 1>>, <<1, 3>>, <<3, 4>>, <<1, 1>>} :
          /\ ChebAt(x, c.deg) = RSum([j \in 1..(c.deg + 1) |-> RMul(RInt(ChebCoef(c.deg)[j]), RPowR(x, j - 1))])
          /\ RLe(ChebAt(x, c.deg), <<1, 1>>) /\ RLe(<<-1, 1>>, ChebAt(x, c.deg))     \* |T_k| <= 1 on [-1,1]

\* ---- kernel validation ----------------------------------------------------------------
KVRules == <<
   << [x |-> <<-3, 4>>, w |-> <<1, 2>>], [x |-> <<1, 4>>, w |-> <<5, 4>>], [x |-> <<1, 1>>, w |-> <<1, 4>>] >>,
   << [x |-> <<-1, 2>>, w |-> <<1, 1>>], [x |-> <<1, 2>>, w |-> <<1, 1>>] >>,
   << [x |-> <<5, 2>>, w |-> <<-3, 8>>], [x |-> <<-7, 4>>, w |-> <<9, 2>>], [x |-> <<0, 1>>, w |-> <<1, 4>>],
      [x |-> <<3, 1>>, w |-> <<1, 2>>] >> >>
KVTabs == <<
   << [x |-> <<0, 1>>, y |-> <<1, 1>>], [x |-> <<1, 2>>, y |-> <<3, 1>>], [x |-> <<2, 1>>, y |-> <<-1, 1>>],
      [x |-> <<5, 2>>, y |-> <<-1, 1>>], [x |-> <<4, 1>>, y |-> <<7, 2>>] >>,
   << [x |-> <<-3, 1>>, y |-> <<2, 1>>], [x |-> <<-1, 4>>, y |-> <<0, 1>>], [x |-> <<1, 8>>, y |-> <<5, 1>>] >> >>
KVQueries == {<<n, 8>> : n \in -24..32}
InitK == Blank
ChooseKVRule == /\ phase = "start"
                /\ \E i \in 1..Len(KVRules) : \E k \in 0..5 :
                     c' = [k |-> "kvrule", rule |-> KVRules[i], deg |-> k,
                           ps |-> PowerSum(KVRules[i], k), cs |-> ChebSum(KVRules[i], k)]
                /\ phase' = "kv" /\ Keep
ChooseKVTab == /\ phase = "start"
               /\ \E i \in 1..Len(KVTabs) : \E q \in KVQueries : QInGrid(KVTabs[i], RNorm(q[1], q[2])) /\
                     c' = [k |-> "kvtab", tab |-> KVTabs[i], q |-> RNorm(q[1], q[2]),
                           v |-> QInterp(KVTabs[i], RNorm(q[1], q[2])), trapz |-> QTrapz(KVTabs[i])]
               /\ phase' = "kv" /\ Keep
NextK == ChooseKVRule \/ ChooseKVTab
InterpLaws == (phase = "kv" /\ c.k = "kvtab") =>
    /\ \A i \in 1..Len(c.tab) : QInterp(c.tab, c.tab[i].x) = c.tab[i].y        \* reproduces the table
    /\ \E i \in 1..(Len(c.tab) - 1) :                                             \* lies between its neighbours
          LET lo == IF RLe(c.tab[i].y, c.tab[i + 1].y) THEN c.tab[i].y ELSE c.tab[i + 1].y
              hi == IF RLe(c.tab[i].y, c.tab[i + 1].y) THEN c.tab[i + 1].y ELSE c.tab[i].y
          IN RLe(c.tab[i].x, c.q) /\ RLe(c.q, c.tab[i + 1].x) /\ RLe(lo, c.v) /\ RLe(c.v, hi)
    /\ ~QIsLinear(c.tab)

\* ---- tabulated data: every table with 2..4 nodes on an uneven grid -------------------------
XVals == {0, 1, 2, 4, 7}
TabScalesX == {<<1, 64>>, <<8, 1>>, <<3, 5>>}             \* positive: the grid stays ascending
TabScalesY == {<<1, 32>>, <<0 - 3, 4>>}
YVals == {-1, 0, 2, 3}
InitD == Blank
ChooseGrid == /\ phase = "start"
              /\ \E G \in SUBSET XVals : Cardinality(G) \in 2..4 /\ c' = [k |-> "grid", xs |-> VSortSet(G)]
              /\ phase' = "grid" /\ Keep
ChooseVals == /\ phase = "grid"
              /\ \E y \in [1..Len(c.xs) -> YVals] :
                    LET tab == [i \in 1..Len(c.xs) |-> [x |-> RInt(c.xs[i]), y |-> RInt(y[i])]]
                    IN c' = [k |-> "tab", tab |-> tab, trapz |-> QTrapz(tab), linear |-> QIsLinear(tab)]
              /\ phase' = "tab" /\ Keep
NextD == ChooseGrid \/ ChooseVals
TableLaws == phase = "tab" =>
    LET n == Len(c.tab) IN
    /\ \A i \in 1..n : QInterp(c.tab, c.tab[i].x) = c.tab[i].y
    /\ c.linear => c.trapz = RMul(RSub(c.tab[n].x, c.tab[1].x), RDiv(RAdd(c.tab[1].y, c.tab[n].y), <<2, 1>>))
    /\ (n = 2) => c.linear
    \* the interpolant is continuous: both neighbouring segments give the node value
    /\ \A i \in 2..(n - 1) : QInterp(<<c.tab[i - 1], c.tab[i]>>, c.tab[i].x) = QInterp(<<c.tab[i], c.tab[i + 1]>>, c.tab[i].x)
    \* scale covariance in x and in y (what the replay relies on when it transports a table to the units 2^-60 .. 2^60):
    \* interpolant at the transported quarter, mid and end point of every segment, integral, linearity
    /\ \A sx \in TabScalesX : \A sy \in TabScalesY :
          LET t2 == QScaleTab(c.tab, sx, sy) IN
          /\ QTrapz(t2) = RMul(RMul(sx, sy), c.trapz)
          /\ QIsLinear(t2) = c.linear
          /\ \A i \in 1..(n - 1) : \A k \in {1, 2, 4} :
                LET q == RAdd(c.tab[i].x, RMul(<<k, 4>>, RSub(c.tab[i + 1].x, c.tab[i].x)))
                IN QInterp(t2, RMul(sx, q)) = RMul(sy, QInterp(c.tab, q))

\* ---- the QGauss object ----------------------------------------------------------------
InitC == Blank
Construct == /\ phase = "start"
             /\ \E n \in NptsSet \cup {QNone} :
                  /\ c' = [k |-> "seq", ctor |-> n, calls |-> <<>>]
                  /\ s' = CacheNew(n) /\ m' = MechNew(n)
             /\ phase' = "obj" /\ last' = Idle
Integrate == /\ phase = "obj" /\ Len(c.calls) < MaxCalls
             /\ \E kind \in Kinds : \E arg \in NptsSet \cup {QNone} :
                  LET m2 == MechSetup(m, arg, Variant) IN
                  /\ c' = [c EXCEPT !.calls = @ \o <<[kind |-> kind, arg |-> arg]>>]
                  /\ m' = m2
                  /\ last' = [allowed |-> EffSet(s, arg), used |-> m2.rulefor, npts |-> m2.npts]
                  /\ s' = IF m2.npts = QNone THEN s ELSE CacheAfter(s, m2.npts)
             /\ phase' = "obj"
NextC == Construct \/ Integrate

\* the mechanism refines the cache machine: the rule a call uses is the rule of a point count
\* the property allows for it, and the cached rule always belongs to the cached point count
MechRefines == /\ m.rulefor = m.npts
               /\ (last.allowed # {}) => (last.used \in last.allowed /\ last.npts = last.used)
               /\ (last.allowed = {}) => last.used = QNone
\* history independence at the model level: the rule used is a function of (ctor, last explicit
\* argument) - it equals what a fresh object constructed with that count would use
HistoryFree == (phase = "obj" /\ last.allowed # {}) => last.used = MechNew(last.used).rulefor

\* ---- QGauss2 --------------------------------------------------------------------------------
InitT == Blank
ChooseShape == /\ phase = "start"
               /\ \E nx \in 1..NMax : \E ny \in 1..NMax : c' = [k |-> "tensor", nx |-> nx, ny |-> ny]
               /\ phase' = "tensor" /\ Keep
NextT == ChooseShape
TensorRefines == phase = "tensor" => TensorMechOK(c.nx, c.ny, FixedShapes)

\* ---- re-entrant and aliasing histories on one QGauss object -----------------------------------
\* s = property-level nest state (the mechanism's point count is followed when the property allows it),
\* m = implementation-shaped state, c.ev = the history so far, last = [ok, why] verdict of the last step
InitN == phase = "start" /\ c = NoCase /\ s = NestNew(QNone) /\ m = NMechNew(QNone) /\ last = [ok |-> TRUE, why |-> "none"]
NEv(op, kind, arg) == [op |-> op, kind |-> kind, arg |-> arg]
\* every array that was handed to an integrand and not overwritten by that integrand still holds
\* the mapped nodes of its call
HeldOK(mm, ss) == \A k \in 1..Len(ss.fr) :
    (ss.fr[k].kind = "func" /\ ss.fr[k].e # QNone /\ ~ss.fr[k].dirty) => NMechArray(mm, k) = <<k, ss.fr[k].e>>
NConstruct == /\ phase = "start"
              /\ \E n \in NestNpts \cup {QNone} :
                    c' = [k |-> "nest", ctor |-> n, ev |-> <<>>] /\ s' = NestNew(n) /\ m' = NMechNew(n)
              /\ phase' = "obj" /\ UNCHANGED last
NEnter == /\ phase = "obj" /\ Len(s.fr) < MaxNestCalls /\ Len(s.stack) < MaxDepth
          /\ \E kind \in Kinds : \E arg \in NestNpts \cup {QNone} :
               LET E == EffSet(s.cache, arg) IN
               IF E = {}
               THEN \* no point count anywhere: the real call raises before the integrand is used
                    /\ c' = [c EXCEPT !.ev = @ \o <<NEv("enter", kind, arg), NEv("exit", kind, arg)>>]
                    /\ s' = NestPop(NestPush(s, s.cache, kind, QNone))
                    /\ m' = [m EXCEPT !.fr = Append(@, [xi |-> 0, w |-> QNone])]
                    /\ last' = [ok |-> TRUE, why |-> "none"]
               ELSE LET m2 == NMechEnter(m, arg, NestVariant)
                        e  == m2.npts
                        s2 == NestPush(s, CacheAfter(s.cache, e), kind, e)
                    IN /\ m' = m2
                       /\ IF kind = "func"
                          THEN /\ c' = [c EXCEPT !.ev = Append(@, NEv("enter", kind, arg))]
                               /\ s' = s2
                               /\ last' = [ok |-> e \in E, why |-> "point count"]
                          ELSE \* tabulated data: no integrand, the call is atomic
                               /\ c' = [c EXCEPT !.ev = @ \o <<NEv("enter", kind, arg), NEv("exit", kind, arg)>>]
                               /\ s' = NestPop(s2)
                               /\ last' = [ok |-> e \in E /\ HeldOK(m2, s2), why |-> "data call"]
          /\ phase' = "obj"
NMutate == /\ phase = "obj" /\ s.stack # <<>> /\ c.ev[Len(c.ev)].op = "enter"
           /\ LET k == NestTop(s) IN
                /\ m' = NMechMutate(m, k)
                /\ s' = [s EXCEPT !.fr[k].dirty = TRUE]
                /\ c' = [c EXCEPT !.ev = Append(@, NEv("mutate", "func", QNone))]
           /\ phase' = "obj" /\ last' = [ok |-> TRUE, why |-> "none"]
NExit == /\ phase = "obj" /\ s.stack # <<>>
         /\ LET k == NestTop(s) IN
              /\ c' = [c EXCEPT !.ev = Append(@, NEv("exit", "func", QNone))]
              /\ s' = NestPop(s) /\ m' = m
              \* the weights the sum is formed with belong to the point count of THIS call, and all
              \* arrays handed out so far (this call's and the outer calls') are intact
              /\ last' = [ok |-> NMechWeights(m, k, NestVariant) = s.fr[k].e /\ HeldOK(m, s), why |-> "exit"]
         /\ phase' = "obj"
NextN == NConstruct \/ NEnter \/ NMutate \/ NExit
NestRefines == last.ok

\* ---- what an integrand returns ----------------------------------------------------------------
ScalarReps == {"pyfloat", "pyint", "np.float64", "np.float32", "np.int16", "0d", "0d-f4"}
ArrayReps  == {"f8", "f4", "i8", "i2", ">f8", "list", "tuple", "F", "strided", "readonly"}
RetShapes(dim, nx, ny) == IF dim = 1 THEN << <<>>, <<1>>, <<nx>> >>
                          ELSE << <<>>, <<1>>, <<nx>>, <<1, 1>>, <<1, nx>>, <<ny, 1>>, <<ny, nx>> >>
InitR == Blank
ChooseGridR == /\ phase = "start"
               /\ \E dim \in 1..2 : \E nx \in 1..NMax : \E ny \in 1..NMax : (dim = 1 => ny = 1) /\
                     c' = [k |-> "rgrid", dim |-> dim, nx |-> nx, ny |-> ny]
               /\ phase' = "rgrid" /\ Keep
ChooseRet == /\ phase = "rgrid"
             /\ LET shs == RetShapes(c.dim, c.nx, c.ny)  grid == <<c.ny, c.nx>> IN
                \E i \in 1..Len(shs) : \E rep \in (IF shs[i] = <<>> THEN ScalarReps ELSE ArrayReps) :
                \E vals \in (IF shs[i] = <<>> THEN {"const"} ELSE {"const", "varied"}) :
                   c' = [k |-> "ret", dim |-> c.dim, nx |-> c.nx, ny |-> c.ny, sh |-> shs[i], rep |-> rep, vals |-> vals,
                         map |-> RetMap(shs[i], grid), count |-> RetCount(shs[i]), full |-> RetIsFull(shs[i], grid, c.dim)]
             /\ phase' = "ret" /\ Keep
NextR == ChooseGridR \/ ChooseRet
RetLaws == phase = "ret" =>
    LET grid == <<c.ny, c.nx>> IN
    /\ RetFits(c.sh, grid)
    /\ Len(c.map) = c.nx * c.ny
    /\ VRange(c.map) = 1..c.count                                          \* every returned value is used
    /\ c.full => c.map = [q \in 1..(c.nx * c.ny) |-> q]
    /\ (c.count = 1) => \A q \in 1..Len(c.map) : c.map[q] = 1              \* a constant goes to every cell
    /\ \A j \in 1..c.ny : \A i \in 1..c.nx :                                \* broadcasting repeats along the axes of length 1
          LET p == QPad2(c.sh) IN
          /\ (p[1] = 1) => c.map[(j - 1) * c.nx + i] = c.map[i]
          /\ (p[2] = 1) => c.map[(j - 1) * c.nx + i] = c.map[(j - 1) * c.nx + 1]

\* ---- representations ----------------------------------------------------------------------------
DataReps  == {"f8", "f4", "i8", "i4", "i2", "i1", "u1", "u2", ">f8", ">i4", "strided", "negstride", "readonly", "list", "tuple"}
EndTypes  == {"float", "int", "np.float64", "np.float32", "np.int8", "np.int16", "np.int64", "np.uint8", "0-d array"}
EndEntries == {"gauleg", "QGauss(n).integrate", "QGauss(n).integrate_func", "qgauss", "QGauss2.integrate_func"}
InitP == Blank
ChooseDRep == /\ phase = "start"
              /\ \E xr \in DataReps : \E yr \in DataReps :
                    c' = [k |-> "drep", xrep |-> xr, yrep |-> yr, mayreject |-> RepMayReject(xr) \/ RepMayReject(yr)]
              /\ phase' = "drep" /\ Keep
ChooseEType == /\ phase = "start"
               /\ \E t \in EndTypes : \E en \in EndEntries : \E cont \in {"list", "tuple", "array"} :
                     (en = "gauleg" => cont = "list") /\
                     c' = [k |-> "etype", etype |-> t, entry |-> en, cont |-> cont]
               /\ phase' = "etype" /\ Keep
NextP == ChooseDRep \/ ChooseEType
NextRP == NextR \/ NextP                 \* both in one run

\* ---- scale --------------------------------------------------------------------------------------
\* grids across the 2^20-point boundary (block sizes in use are powers of two): 2^10 x 2^10 and its neighbours,
\* sizes that do and do not divide into 2..3 blocks, primes, a tall and a wide grid
ScaleGrids(full) == << <<1024, 1024>>, <<1024, 1025>>, <<1025, 1024>>, <<1200, 1501>>, <<1031, 1021>> >> \o
                    (IF full THEN << <<1023, 1025>>, <<1500, 2000>>, <<1501, 1999>>, <<4099, 257>>, <<257, 4099>>, <<2048, 1024>>,
                                     <<2049, 1023>>, <<1536, 1027>>, <<3, 3001>>, <<3001, 3>> >> ELSE <<>>)
ScaleDegs == << <<0, 0>>, <<1, 2>>, <<3, 1>>, <<2, 3>> >>
ScaleIvs  == << <<0, 2, 1, 3>>, <<-1, 1, -1, 1>>, <<-3, 1, 0, 1>>, <<2, 5, -2, 2>> >>
InitB == Blank
ChooseBlock == /\ phase = "start"
               /\ \E ny \in 1..12 : \E nb \in 1..ny : c' = [k |-> "block", ny |-> ny, nb |-> nb]
               /\ phase' = "block" /\ Keep
ChooseScale == /\ phase = "start"
               /\ \E g \in 1..Len(ScaleGrids(ScaleFull)) : \E d \in 1..Len(ScaleDegs) : \E v \in 1..Len(ScaleIvs) :
                    LET G == ScaleGrids(ScaleFull)[g]  D == ScaleDegs[d]  I == ScaleIvs[v] IN
                    c' = [k |-> "scale", nx |-> G[1], ny |-> G[2], dj |-> D[1], dk |-> D[2], ax |-> I[1], bx |-> I[2], ay |-> I[3], by |-> I[4],
                          pts |-> G[1] * G[2], across |-> G[1] * G[2] > 1048576,
                          exact |-> RMul(Moment(I[1], I[2], D[1]), Moment(I[3], I[4], D[2])),
                          maxp |-> MaxAbsMono(I[1], I[2], D[1]) * MaxAbsMono(I[3], I[4], D[2]), told |-> TolDen]
               /\ phase' = "scale" /\ Keep
NextB == ChooseBlock \/ ChooseScale
NextRPB == NextR \/ NextP \/ NextB        \* the three static sub-models in one run
BlockRefines == phase = "block" => BlockCovers(c.ny, c.nb, BlockVariant)
\* laws on rational rules: KVRules[1] (3 nodes) as the x rule, each KV rule as the y rule
BlockLaws == phase = "block" =>
    \A yr \in 1..Len(KVRules) : \A a \in 0..1 : \A b \in 0..2 :
       LET rx == KVRules[1]  ry == KVRules[yr]
           f(x, y) == RMul(RPowR(x, a), RPowR(y, b))
       IN (c.ny = Len(ry)) =>
          \* additive over the blocks of a covering loop
          /\ TensorSum(rx, ry, f) = RSum([bl \in 1..c.nb |-> TensorRows(rx, ry, f, BlockRows(c.ny, c.nb, "ceil", bl))])
          \* separable integrand: product of the two 1-d sums
          /\ TensorSum(rx, ry, f) = RMul(PowerSum(rx, a), PowerSum(ry, b))

\* ---- threads -------------------------------------------------------------------------------------
\* c.sched = the interleaving so far; s = property-level thread state; m = shared object; last = verdict;
\* pc[t] in "idle" | "configured" | "done", taken[t] = rule in hand after the configure step
InitH == phase = "start" /\ c = NoCase /\ s = ThrNew(QNone, FALSE) /\ m = MechNew(QNone) /\ last = [ok |-> TRUE, why |-> "none"]
HConstruct == /\ phase = "start"
              /\ \E target \in {"qgauss", "own", "shared"} : \E n \in ThrNpts \cup {QNone} :
                    (target = "qgauss" => n = QNone) /\ (target = "shared" => n # QNone) /\
                    c' = [k |-> "thr", target |-> target, ctor |-> n, sched |-> <<>>,
                          pc |-> [t \in 1..NThr |-> "idle"], taken |-> [t \in 1..NThr |-> QNone], arg |-> [t \in 1..NThr |-> QNone]]
                    /\ s' = ThrNew(n, target = "shared") /\ m' = MechNew(n)
              /\ phase' = "thr" /\ UNCHANGED last
\* which mechanism a target runs under ThrVariant: "private" = the correct pair (qgauss() builds its own object, a shared
\* object hands the rule back in one piece); "late" = both read the shared rule after configuring
HVar == IF c.target = "qgauss" THEN ThrVariant ELSE IF c.target = "own" THEN "private" ELSE (IF ThrVariant = "private" THEN "snap" ELSE ThrVariant)
\* the rule a call has in hand after its configure step
HTaken(arg) == IF HVar = "private" THEN (IF arg # QNone THEN arg ELSE c.ctor) ELSE MechSetup(m, arg, "pinned").rulefor
HStart == /\ phase = "thr"
          /\ \E t \in 1..NThr : \E kind \in Kinds : \E arg \in ThrNpts \cup {QNone} :
               /\ c.pc[t] = "idle"
               /\ (t > 1 => c.pc[t - 1] # "idle")                            \* threads are interchangeable: start them in order
               /\ (HVar = "locked" => \A u \in 1..NThr : c.pc[u] # "configured")   \* the lock: this interleaving is not a behaviour
               /\ (arg = QNone => (c.target # "qgauss" /\ c.ctor # QNone))   \* a point count is always available
               /\ (c.target = "shared" => arg \in {QNone, c.ctor})            \* read-only use of the shared object
               /\ m' = ThrMechStart(m, arg, HVar)
               /\ c' = [c EXCEPT !.sched = Append(@, [op |-> "start", t |-> t, kind |-> kind, arg |-> arg]),
                                 !.pc[t] = "configured", !.taken[t] = HTaken(arg), !.arg[t] = arg]
               /\ s' = CHOOSE s2 \in ThrSucc(s, [op |-> "start", t |-> t, arg |-> arg]) : TRUE
          /\ phase' = "thr" /\ last' = [ok |-> TRUE, why |-> "none"]
HFinish == /\ phase = "thr"
           /\ \E t \in 1..NThr :
                /\ c.pc[t] = "configured"
                /\ c' = [c EXCEPT !.sched = Append(@, [op |-> "finish", t |-> t, kind |-> "any", arg |-> c.arg[t]]), !.pc[t] = "done"]
                /\ last' = [ok |-> ThrMechUsed(m, c.taken[t], HVar) \in ThrAllowed(s, c.arg[t]), why |-> "finish"]
                /\ s' = [s EXCEPT !.open[t] = ThrIdle]
           /\ phase' = "thr" /\ m' = m
NextH == HConstruct \/ HStart \/ HFinish
ThrRefines == last.ok

\* ---- export -----------------------------------------------------------------------------------
Export == DoExport =>
    /\ (phase = "mom")  => PrintT(<<"MOM", ToJson(c)>>)
    /\ (phase = "nmom") => PrintT(<<"NMOM", ToJson(c)>>)
    /\ (phase = "kv")   => PrintT(<<"KV", ToJson(c)>>)
    /\ (phase = "obj" /\ c.k = "seq" /\ Len(c.calls) >= 1) => PrintT(<<"SEQ", ToJson(c)>>)
    /\ (phase = "tensor") => PrintT(<<"TENSOR", ToJson(c)>>)
    /\ (phase = "tab") => PrintT(<<"TAB", ToJson(c)>>)
    /\ (phase = "obj" /\ c.k = "nest" /\ s.stack = <<>> /\ Len(c.ev) >= 1) => PrintT(<<"NEST", ToJson(c)>>)
    /\ (phase = "ret") => PrintT(<<"RET", ToJson(c)>>)
    /\ (phase = "drep") => PrintT(<<"DREP", ToJson(c)>>)
    /\ (phase = "etype") => PrintT(<<"ETYPE", ToJson(c)>>)
    /\ (phase = "scale") => PrintT(<<"SCALE", ToJson(c)>>)
    /\ (phase = "thr" /\ \A t \in 1..NThr : c.pc[t] = "done") => PrintT(<<"THR", ToJson([target |-> c.target, ctor |-> c.ctor, sched |-> c.sched])>>)
=============================================================================
