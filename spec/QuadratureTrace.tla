------------------------------- MODULE QuadratureTrace -------------------------------
(* Trace validation for C17.  One ndjson line per record, field k selects the kind:    *)
(*   "rule"   a rule returned by gauleg or extracted from an integrator (RuleFailing)  *)
(*   "data"   one tabulated-data integration (DataFailing)                             *)
(*   "tensor" one QGauss2 object (TensorFailing)                                       *)
(*   "seq"    a call sequence on ONE real QGauss object: [ctor, ev : Seq(call)]; the   *)
(*            cache machine of Quadrature.tla is stepped through the recorded calls    *)
(*            (S = set of property-level states the specification allows so far; the   *)
(*            trace is rejected at the first call after which S is empty).             *)
(*   "nest"   a re-entrant / aliasing history on ONE real QGauss object: [ctor, ev :   *)
(*            Seq(event)]; the nest machine (NestSucc) is stepped through the events   *)
(*            the same way                                                             *)
(*   "thr"    calls from several threads on a module function, on one object per       *)
(*            thread or (read-only) on one shared object: [ctor, shared, ev : Seq(start *)
(*            | finish)], stepped with ThrSucc                                         *)
(*   "scale"  one QGauss2 grid across the 2^20-point boundary (ScaleFailing)           *)
(*   "ret"    one call whose integrand returned a given shape / representation         *)
(*            (RetFailing)                                                             *)
(* Rejected records are printed with the names of the failing clauses                  *)
(* (for sequences: clause@step).                                                       *)
EXTENDS Quadrature, Json, IOUtils

CONSTANTS KCapX, KCapN, NPoly

VARIABLES blk, tid, l, S, P
Traces == ndJsonDeserialize(IOEnv.TRACE_FILE)
NT == Len(Traces)
BlockSize == 256
NBlocks == (NT + BlockSize - 1) \div BlockSize

Init == blk = 0 /\ tid = 0 /\ l = 0 /\ S = {} /\ P = {}
PickBlock == blk = 0 /\ tid = 0 /\ \E b \in 1..NBlocks : blk' = b /\ tid' = 0 /\ UNCHANGED <<l, S, P>>
PickTrace == blk > 0 /\ tid = 0
             /\ \E t \in ((blk - 1) * BlockSize + 1)..VMin2(blk * BlockSize, NT) :
                   /\ tid' = t /\ blk' = blk /\ l' = 0 /\ P' = {}
                   /\ S' = IF Traces[t].k = "seq" THEN {CacheNew(Traces[t].ctor)}
                           ELSE IF Traces[t].k = "nest" THEN {NestNew(Traces[t].ctor)}
                           ELSE IF Traces[t].k = "thr" THEN {ThrNew(Traces[t].ctor, Traces[t].shared)} ELSE {}
IsHist(r) == r.k = "seq" \/ r.k = "nest" \/ r.k = "thr"
StepEv == /\ tid > 0 /\ IsHist(Traces[tid]) /\ l < Len(Traces[tid].ev) /\ S # {}
          /\ l' = l + 1 /\ P' = S
          /\ S' = IF Traces[tid].k = "seq" THEN UNION {CallSucc(s, Traces[tid].ev[l + 1]) : s \in S}
                   ELSE IF Traces[tid].k = "nest" THEN UNION {NestSucc(s, Traces[tid].ev[l + 1]) : s \in S}
                   ELSE UNION {ThrSucc(s, Traces[tid].ev[l + 1]) : s \in S}
          /\ UNCHANGED <<blk, tid>>
Next == PickBlock \/ PickTrace \/ StepEv

FailingRec(r) ==
    IF r.k = "rule" THEN RuleFailing(r, KCapX, KCapN, NPoly)
    ELSE IF r.k = "data" THEN DataFailing(r)
    ELSE IF r.k = "tensor" THEN TensorFailing(r)
    ELSE IF r.k = "ret" THEN RetFailing(r)
    ELSE IF r.k = "scale" THEN ScaleFailing(r)
    ELSE {"unknown_record_kind"}

Check == tid > 0 =>
    LET r == Traces[tid] IN
    IF IsHist(r)
    THEN (l > 0 /\ S = {}) =>
            PrintT(<<"REJECT", ToJson([id |-> r.id,
                      failing |-> {(IF r.k = "seq" THEN CallClause(s, r.ev[l]) ELSE IF r.k = "nest" THEN NestClause(s, r.ev[l])
                                    ELSE ThrClause(s, r.ev[l])) \o "@" \o ToString(l) : s \in P}])>>)
    ELSE LET f == FailingRec(r)
         IN f = {} \/ PrintT(<<"REJECT", ToJson([id |-> r.id, failing |-> f])>>)
=============================================================================
