------------------------------- MODULE Quicksort -------------------------------
(* Implementation-shaped model of esutil.algorithm.quicksort /                     *)
(* quicksort_keyvalue: the control flow of _quicksort is an explicit stack of      *)
(* <<start, end, depth>> ranges - after a partition the code RECURSES into the     *)
(* smaller part and LOOPS over the larger one (SmallerFirst = TRUE): the smaller   *)
(* part is finished first, one call deeper, the larger part follows in the same    *)
(* activation.  `depth` is the number of _quicksort activations on the call stack  *)
(* while the range is worked on; DepthInv: size * 2^depth <= len, i.e. the depth   *)
(* stays below log2(len) also for already ordered input.  SmallerFirst = FALSE is  *)
(* the pinned code (left part, then right part, one call deeper each): it sorts    *)
(* just as well but violates DepthInv - ordered input costs one activation per     *)
(* element, the RecursionError the scale cases of SortScale.tla re-find.           *)
(* The labels of the partition follow the loops of                                 *)
(* algorithm.partition / partition_keyvalue (hole-based exchange: the pivot is     *)
(* lifted out, elements are moved into the hole from alternating ends, `fin` puts  *)
(* the pivot back).  Indices are 1-based here (0-based in the code).               *)
(*                                                                                 *)
(* The key-value variant is the same program with a second array moved in step:    *)
(* `vals` starts as the identity 1..n, so "pairs kept together" is                 *)
(* keys[i] = input[vals[i]] for a permutation vals - for the plain variant vals    *)
(* is a ghost.  KVCarry = FALSE drops the `data[bottom] = data[top]` line of       *)
(* partition_keyvalue (self-test: the pair clause must then fail).                 *)
(*                                                                                 *)
(* The first two steps choose the input (every array of length 0..MaxLen over      *)
(* Vals); at pc = "Done" the state carries input, output and - with Log = TRUE -   *)
(* the sequence of writes <<index, key>> to the key array, which the harness       *)
(* compares with the writes the real code performs on a recording list.            *)
EXTENDS Algo, Json

CONSTANTS MaxLen,     \* arrays of length 0..MaxLen
          Vals,       \* over these keys
          KVCarry,    \* TRUE: values move with their keys (the code as written)
          SmallerFirst, \* TRUE: recurse into the smaller part, loop over the larger (the code); FALSE: pinned code
          Log,        \* TRUE: keep the write log (export runs)
          DoExport    \* TRUE: print input/output/write log of every finished run

(*--fair algorithm Quicksort {
  variables len = 0, input = <<>>, keys = <<>>, vals = <<>>,
            stack = <<>>, lo = 0, hi = 0, dep = 0, maxdep = 0,
            pivot = 0, pvval = 0, bottom = 0, top = 0, done = FALSE,
            wlog = <<>>;
  {
    choose_n:  with (n \in 0..MaxLen) { len := n };
    choose_a:  with (a \in [1..len -> Vals]) {
                 input := a; keys := a; vals := [i \in 1..len |-> i]
               };
    qs:        stack := << <<1, len, 1>> >>;                    \* quicksort(): _quicksort(data, 0, len-1)
    enter:     while (stack # <<>>) {                           \* a range is taken up: a new activation, or the next
                                                                \* turn of the loop of the activation that split it off
                 lo := Head(stack)[1]; hi := Head(stack)[2]; dep := Head(stack)[3]; stack := Tail(stack);
                 if (lo < hi) {
                   maxdep := IF dep > maxdep THEN dep ELSE maxdep;
    part:          pivot := keys[hi]; pvval := vals[hi];        \* partition(data, start, end)
                   bottom := lo - 1; top := hi; done := FALSE;
    outer:         while (~done) {
    up:              while (~done) {
                       bottom := bottom + 1;
                       if (bottom = top) { done := TRUE }
                       else if (keys[bottom] > pivot) {
                         keys[top] := keys[bottom]; vals[top] := vals[bottom];
                         wlog := IF Log THEN Append(wlog, <<top, keys[bottom]>>) ELSE wlog;
                         goto dn
                       }
                     };
    dn:              while (~done) {
                       top := top - 1;
                       if (top = bottom) { done := TRUE }
                       else if (keys[top] < pivot) {
                         keys[bottom] := keys[top];
                         vals[bottom] := IF KVCarry THEN vals[top] ELSE vals[bottom];
                         wlog := IF Log THEN Append(wlog, <<bottom, keys[top]>>) ELSE wlog;
                         goto outer
                       }
                     }
                   };
    fin:           keys[top] := pivot; vals[top] := pvval;      \* put the pivot in its place
                   wlog := IF Log THEN Append(wlog, <<top, pivot>>) ELSE wlog;
    recurse:       if (~SmallerFirst) {                          \* pinned code: left, then right, a call each
                     stack := << <<lo, top - 1, dep + 1>>, <<top + 1, hi, dep + 1>> >> \o stack
                   } else if (top - lo < hi - top) {             \* split - start < end - split: call on the left, loop on the right
                     stack := << <<lo, top - 1, dep + 1>>, <<top + 1, hi, dep>> >> \o stack
                   } else {                                      \* call on the right, loop on the left
                     stack := << <<top + 1, hi, dep + 1>>, <<lo, top - 1, dep>> >> \o stack
                   }
                 }
               }
  }
}*)
\* BEGIN TRANSLATION
VARIABLES pc, len, input, keys, vals, stack, lo, hi, dep, maxdep, pivot, 
          pvval, bottom, top, done, wlog

vars == << pc, len, input, keys, vals, stack, lo, hi, dep, maxdep, pivot, 
           pvval, bottom, top, done, wlog >>

Init == (* Global variables *)
        /\ len = 0
        /\ input = <<>>
        /\ keys = <<>>
        /\ vals = <<>>
        /\ stack = <<>>
        /\ lo = 0
        /\ hi = 0
        /\ dep = 0
        /\ maxdep = 0
        /\ pivot = 0
        /\ pvval = 0
        /\ bottom = 0
        /\ top = 0
        /\ done = FALSE
        /\ wlog = <<>>
        /\ pc = "choose_n"

choose_n == /\ pc = "choose_n"
            /\ \E n \in 0..MaxLen:
                 len' = n
            /\ pc' = "choose_a"
            /\ UNCHANGED << input, keys, vals, stack, lo, hi, dep, maxdep, 
                            pivot, pvval, bottom, top, done, wlog >>

choose_a == /\ pc = "choose_a"
            /\ \E a \in [1..len -> Vals]:
                 /\ input' = a
                 /\ keys' = a
                 /\ vals' = [i \in 1..len |-> i]
            /\ pc' = "qs"
            /\ UNCHANGED << len, stack, lo, hi, dep, maxdep, pivot, pvval, 
                            bottom, top, done, wlog >>

qs == /\ pc = "qs"
      /\ stack' = << <<1, len, 1>> >>
      /\ pc' = "enter"
      /\ UNCHANGED << len, input, keys, vals, lo, hi, dep, maxdep, pivot, 
                      pvval, bottom, top, done, wlog >>

enter == /\ pc = "enter"
         /\ IF stack # <<>>
               THEN /\ lo' = Head(stack)[1]
                    /\ hi' = Head(stack)[2]
                    /\ dep' = Head(stack)[3]
                    /\ stack' = Tail(stack)
                    /\ IF lo' < hi'
                          THEN /\ maxdep' = (IF dep' > maxdep THEN dep' ELSE maxdep)
                               /\ pc' = "part"
                          ELSE /\ pc' = "enter"
                               /\ UNCHANGED maxdep
               ELSE /\ pc' = "Done"
                    /\ UNCHANGED << stack, lo, hi, dep, maxdep >>
         /\ UNCHANGED << len, input, keys, vals, pivot, pvval, bottom, top, 
                         done, wlog >>

part == /\ pc = "part"
        /\ pivot' = keys[hi]
        /\ pvval' = vals[hi]
        /\ bottom' = lo - 1
        /\ top' = hi
        /\ done' = FALSE
        /\ pc' = "outer"
        /\ UNCHANGED << len, input, keys, vals, stack, lo, hi, dep, maxdep, 
                        wlog >>

outer == /\ pc = "outer"
         /\ IF ~done
               THEN /\ pc' = "up"
               ELSE /\ pc' = "fin"
         /\ UNCHANGED << len, input, keys, vals, stack, lo, hi, dep, maxdep, 
                         pivot, pvval, bottom, top, done, wlog >>

up == /\ pc = "up"
      /\ IF ~done
            THEN /\ bottom' = bottom + 1
                 /\ IF bottom' = top
                       THEN /\ done' = TRUE
                            /\ pc' = "up"
                            /\ UNCHANGED << keys, vals, wlog >>
                       ELSE /\ IF keys[bottom'] > pivot
                                  THEN /\ keys' = [keys EXCEPT ![top] = keys[bottom']]
                                       /\ vals' = [vals EXCEPT ![top] = vals[bottom']]
                                       /\ wlog' = IF Log THEN Append(wlog, <<top, keys'[bottom']>>) ELSE wlog
                                       /\ pc' = "dn"
                                  ELSE /\ pc' = "up"
                                       /\ UNCHANGED << keys, vals, wlog >>
                            /\ done' = done
            ELSE /\ pc' = "dn"
                 /\ UNCHANGED << keys, vals, bottom, done, wlog >>
      /\ UNCHANGED << len, input, stack, lo, hi, dep, maxdep, pivot, pvval, 
                      top >>

dn == /\ pc = "dn"
      /\ IF ~done
            THEN /\ top' = top - 1
                 /\ IF top' = bottom
                       THEN /\ done' = TRUE
                            /\ pc' = "dn"
                            /\ UNCHANGED << keys, vals, wlog >>
                       ELSE /\ IF keys[top'] < pivot
                                  THEN /\ keys' = [keys EXCEPT ![bottom] = keys[top']]
                                       /\ vals' = [vals EXCEPT ![bottom] = IF KVCarry THEN vals[top'] ELSE vals[bottom]]
                                       /\ wlog' = IF Log THEN Append(wlog, <<bottom, keys'[top']>>) ELSE wlog
                                       /\ pc' = "outer"
                                  ELSE /\ pc' = "dn"
                                       /\ UNCHANGED << keys, vals, wlog >>
                            /\ done' = done
            ELSE /\ pc' = "outer"
                 /\ UNCHANGED << keys, vals, top, done, wlog >>
      /\ UNCHANGED << len, input, stack, lo, hi, dep, maxdep, pivot, pvval, 
                      bottom >>

fin == /\ pc = "fin"
       /\ keys' = [keys EXCEPT ![top] = pivot]
       /\ vals' = [vals EXCEPT ![top] = pvval]
       /\ wlog' = IF Log THEN Append(wlog, <<top, pivot>>) ELSE wlog
       /\ pc' = "recurse"
       /\ UNCHANGED << len, input, stack, lo, hi, dep, maxdep, pivot, pvval, 
                       bottom, top, done >>

recurse == /\ pc = "recurse"
           /\ IF ~SmallerFirst
                 THEN /\ stack' = << <<lo, top - 1, dep + 1>>, <<top + 1, hi, dep + 1>> >> \o stack
                 ELSE /\ IF top - lo < hi - top
                            THEN /\ stack' = << <<lo, top - 1, dep + 1>>, <<top + 1, hi, dep>> >> \o stack
                            ELSE /\ stack' = << <<top + 1, hi, dep + 1>>, <<lo, top - 1, dep>> >> \o stack
           /\ pc' = "enter"
           /\ UNCHANGED << len, input, keys, vals, lo, hi, dep, maxdep, pivot, 
                           pvval, bottom, top, done, wlog >>

(* Allow infinite stuttering to prevent deadlock on termination. *)
Terminating == pc = "Done" /\ UNCHANGED vars

Next == choose_n \/ choose_a \/ qs \/ enter \/ part \/ outer \/ up \/ dn
           \/ fin \/ recurse
           \/ Terminating

Spec == /\ Init /\ [][Next]_vars
        /\ WF_vars(Next)

Termination == <>(pc = "Done")

\* END TRANSLATION

\* ---- properties ----------------------------------------------------------------------
Case == [variant |-> "kv", keys |-> input, vals |-> [i \in 1..len |-> i]]
Obs  == [err |-> "none", keys |-> keys, vals |-> vals]

\* the finished run is accepted by the property-level definition (Algo.tla)
MechRefines == pc = "Done" => SortAccept(Case, Obs)

\* stronger, because vals started as the identity: vals is a permutation of 1..n
\* and every key still sits next to the position it came from
PairsTogether == pc = "Done" =>
    /\ VRange(vals) = 1..len
    /\ \A i \in 1..len : keys[i] = input[vals[i]]

\* hole invariant of the partition: with the pivot put back into the hole the
\* arrays are a permutation of the input (pairs included) at every step
Hole == IF pc = "dn" THEN bottom ELSE top
InPartition == pc \in {"outer", "up", "dn", "fin"}
HoleInv == (InPartition /\ KVCarry) =>
    LET k2 == [keys EXCEPT ![Hole] = pivot]
        v2 == [vals EXCEPT ![Hole] = pvval]
    IN ASameBag(APairs(k2, v2), APairs(input, [i \in 1..len |-> i]))

\* everything below bottom is <= pivot, everything above top is >= pivot
SplitInv == InPartition =>
    /\ lo - 1 <= bottom /\ bottom <= top /\ top <= hi
    /\ \A i \in lo..(bottom - 1) : keys[i] <= pivot
    /\ \A i \in (top + 1)..hi : keys[i] >= pivot

\* pending ranges never leave the array and never overlap
StackInv == \A i \in DOMAIN stack :
    /\ stack[i][1] >= 1 /\ stack[i][2] <= len
    /\ \A j \in DOMAIN stack : i < j =>
          \/ stack[i][2] < stack[j][1] \/ stack[j][2] < stack[i][1]            \* apart (the smaller part comes first, on either side)
          \/ stack[i][1] > stack[i][2] \/ stack[j][1] > stack[j][2]            \* or one of them is empty
\* the call stack stays shallow: a range of m elements worked on at depth d has m * 2^(d-1) <= len
\* (every call halves what it is given; the loop keeps the depth)
RECURSIVE Pow2(_)
Pow2(k) == IF k <= 0 THEN 1 ELSE 2 * Pow2(k - 1)
DepthInv ==
    /\ \A i \in DOMAIN stack : stack[i][1] <= stack[i][2] => (stack[i][2] - stack[i][1] + 1) * Pow2(stack[i][3] - 1) <= len
    /\ (pc \notin {"choose_n", "choose_a", "qs", "Done"} /\ 1 <= lo /\ lo <= hi) => (hi - lo + 1) * Pow2(dep - 1) <= len
\* ---- export ---------------------------------------------------------------------------
Export == (DoExport /\ pc = "Done") =>
    PrintT(<<"CASE", ToJson([keys |-> input, out |-> keys, vals |-> vals, wlog |-> wlog, maxdep |-> maxdep])>>)
=============================================================================
