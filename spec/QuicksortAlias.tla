------------------------------- MODULE QuicksortAlias -------------------------------
(* ALIASING between the two arguments of quicksort_keyvalue(keys, values) as a      *)
(* dimension of the sort cases (C20).  The statement ("a non-decreasing permutation *)
(* of the input with key-value pairs kept together") does not exclude calls whose   *)
(* keys share memory with the values; for these forms the expected result is well   *)
(* defined:                                                                         *)
(*   "none"     two separate arrays;                                                *)
(*   "sibling"  two different columns of one table (one buffer, no element shared); *)
(*   "same"     the very same array twice - quicksort_keyvalue(a, a): every pair is *)
(*              (x, x), the array ends up sorted;                                   *)
(*   "field"    the keys are a column of the table that is passed as the values -   *)
(*              quicksort_keyvalue(rec['id'], rec), quicksort_keyvalue(a[:, 0], a): *)
(*              the value at a position is the whole row, the rows end up ordered   *)
(*              by their key column, every row intact.                              *)
(* (Partially overlapping slices - keys[i] and values[i-1] the same cell - have no  *)
(* reading of "pairs kept together": a write of one pair destroys another; they are *)
(* outside the quantifier.)                                                         *)
(*                                                                                  *)
(* Memory model: `mem` is a sequence of rows <<k, p>>; how the two views read and   *)
(* write it depends on the mode (RdK / RdD / WrK / WrD).  `ref` is the same program *)
(* on two arrays that share nothing (what the statement talks about: positions      *)
(* holding a key and a value).  A sort is ANY program over the steps of the         *)
(* hole-based exchange of algorithm.partition_keyvalue:                             *)
(*   Lift(i)     pivot, pivot_data = keys[i], data[i]          (a copy of the pair) *)
(*   Move(i, j)  keys[i] = keys[j]; data[i] = data[j]                               *)
(*   Drop(i)     keys[i] = pivot; data[i] = pivot_data                              *)
(* AliasLaw: after every step the two views of `mem` show exactly `ref` - so what   *)
(* Quicksort.tla proves about the program on separate arrays (MechRefines,          *)
(* PairsTogether) holds for every aliased form, and the aliased calls of the real   *)
(* code are judged by the same Algo!SortFailing through the views.  No step bound:  *)
(* the reachable states are finite, the law is checked for programs of any length.  *)
(* Deviating mechanisms (self-tests, must violate AliasLaw):                        *)
(*   Mech = "tmpref"    Lift keeps a REFERENCE to row i instead of a copy (what     *)
(*                      indexing a structured / 2-d numpy array returns);           *)
(*   Mech = "twophase"  the pairs are reordered array by array -                    *)
(*                      keys[:] = keys[order]; data[:] = data[order] - right on     *)
(*                      separate arrays, wrong as soon as the keys live inside the  *)
(*                      values: the key column is permuted twice.                   *)
EXTENDS Algo, Json

CONSTANTS MaxLen, Vals, Modes, Mech, DoExport

VARIABLES mode, input, mem, ref, tmp
vars == <<mode, input, mem, ref, tmp>>

N == Len(input)
\* ---- the views ---------------------------------------------------------------------------
RdK(m, i) == m[i][1]
RdD(m, i) == CASE mode = "same"  -> m[i][1]
               [] mode = "field" -> m[i]
               [] OTHER          -> m[i][2]
WrK(m, i, x) == IF mode = "same" THEN [m EXCEPT ![i] = <<x, x>>] ELSE [m EXCEPT ![i][1] = x]
WrD(m, i, y) == CASE mode = "same"  -> [m EXCEPT ![i] = <<y, y>>]
                  [] mode = "field" -> [m EXCEPT ![i] = y]
                  [] OTHER          -> [m EXCEPT ![i][2] = y]
KeysView(m) == [i \in 1..Len(m) |-> RdK(m, i)]
DataView(m) == [i \in 1..Len(m) |-> RdD(m, i)]

Mem0(md, a) == [i \in 1..Len(a) |-> IF md = "same" THEN <<a[i], a[i]>> ELSE <<a[i], i>>]

Init == /\ mode \in Modes
        /\ \E n \in 0..MaxLen : input \in [1..n -> Vals]
        /\ mem = Mem0(mode, input)
        /\ ref = [k |-> KeysView(mem), d |-> DataView(mem)]
        /\ tmp = [set |-> FALSE]

\* ---- the steps of an exchange sort ---------------------------------------------------------
Lift(i) ==
    /\ tmp' = [set |-> TRUE, k |-> RdK(mem, i), d |-> RdD(mem, i), at |-> i, rk |-> ref.k[i], rd |-> ref.d[i]]
    /\ UNCHANGED <<mode, input, mem, ref>>
Move(i, j) ==
    /\ i # j
    /\ LET m1 == WrK(mem, i, RdK(mem, j)) IN mem' = WrD(m1, i, RdD(m1, j))
    /\ ref' = [k |-> [ref.k EXCEPT ![i] = ref.k[j]], d |-> [ref.d EXCEPT ![i] = ref.d[j]]]
    /\ UNCHANGED <<mode, input, tmp>>
TmpD(m) == IF Mech = "tmpref" THEN RdD(m, tmp.at) ELSE tmp.d          \* a reference reads the row as it is NOW
Drop(i) ==
    /\ tmp.set
    /\ LET m1 == WrK(mem, i, tmp.k) IN mem' = WrD(m1, i, TmpD(m1))
    /\ ref' = [k |-> [ref.k EXCEPT ![i] = tmp.rk], d |-> [ref.d EXCEPT ![i] = tmp.rd]]
    /\ tmp' = [set |-> FALSE]
    /\ UNCHANGED <<mode, input>>

\* ---- the deviating whole-array mechanism ---------------------------------------------------
RECURSIVE WrAllK(_, _, _), WrAllD(_, _, _)
WrAllK(m, xs, i) == IF i > Len(xs) THEN m ELSE WrAllK(WrK(m, i, xs[i]), xs, i + 1)
WrAllD(m, ys, i) == IF i > Len(ys) THEN m ELSE WrAllD(WrD(m, i, ys[i]), ys, i + 1)
Perms == {f \in [1..N -> 1..N] : \A i, j \in 1..N : f[i] = f[j] => i = j}
Reorder(order) ==
    /\ LET m1 == WrAllK(mem, [i \in 1..N |-> RdK(mem, order[i])], 1)          \* keys[:] = keys[order]
       IN mem' = WrAllD(m1, [i \in 1..N |-> RdD(m1, order[i])], 1)            \* data[:] = data[order]
    /\ ref' = [k |-> [i \in 1..N |-> ref.k[order[i]]], d |-> [i \in 1..N |-> ref.d[order[i]]]]
    /\ UNCHANGED <<mode, input, tmp>>

Next == IF Mech = "twophase" THEN \E o \in Perms : Reorder(o)
        ELSE \E i \in 1..N : Lift(i) \/ Drop(i) \/ \E j \in 1..N : Move(i, j)
NextNone == FALSE /\ UNCHANGED vars

\* ---- the law ------------------------------------------------------------------------------
AliasLaw == KeysView(mem) = ref.k /\ DataView(mem) = ref.d
\* in the "field" form the row seen through the values IS the pair: its key column is the key
RowsIntact == mode = "field" => \A i \in 1..N : ref.d[i][1] = ref.k[i]
TypeInv == mode \in Modes /\ Len(mem) = N

Export == DoExport => PrintT(<<"CASE", ToJson([alias |-> mode, keys |-> input])>>)
=============================================================================
