------------------------------- MODULE QuicksortTrace -------------------------------
(* Trace validation for esutil.algorithm.quicksort / quicksort_keyvalue: what the   *)
(* real functions left in the arrays is judged by SortFailing of Algo.tla (sorted,  *)
(* permutation, pairs kept together).  One ndjson line per record:                  *)
(*   {"id": k, "c": {"variant": "plain"|"kv", "keys": [..], "vals": [..]},          *)
(*             "obs": [{"err": .., "keys": [..], "vals": [..]}, ...]}               *)
(* keys / vals are the abstract integers of the case; the adapter maps concrete     *)
(* outputs (floats, strings, records, ...) back through the inverse of the monotone *)
(* injection it used for the input, -1 standing for "not a value of the input".     *)
(* Scale cases (SortScale.tla) come run-length encoded instead:                     *)
(*   {"id": k, "c": {"variant": .., "keys": [[a, d, k], ..], "valmode": ..},        *)
(*             "obs": [{"err": .., "pr": [[a, d, b, e, k], ..]}, ...]}              *)
(* and are judged by the same clauses on the encoding (Algo!SortFailingR).          *)
(* Rejected records are printed with <<observation index, clause>> pairs.           *)
EXTENDS Algo, Json, IOUtils

VARIABLES blk, tid
Traces == ndJsonDeserialize(IOEnv.TRACE_FILE)
NT == Len(Traces)
BlockSize == 256
NBlocks == (NT + BlockSize - 1) \div BlockSize

Init == blk = 0 /\ tid = 0
PickBlock == blk = 0 /\ tid = 0 /\ \E b \in 1..NBlocks : blk' = b /\ tid' = 0
PickTrace == blk > 0 /\ tid = 0
             /\ \E t \in ((blk - 1) * BlockSize + 1)..VMin2(blk * BlockSize, NT) : tid' = t /\ blk' = blk
Next == PickBlock \/ PickTrace

\* scale cases carry run-length encoded arrays (c.keys ramps, c.valmode; obs[k].pr pair ramps): Algo!SortFailingR
FailingObs(c, o) == IF "valmode" \in DOMAIN c THEN SortFailingR(c, o) ELSE SortFailing(c, o)
FailingRec(r) == UNION {{<<k, f>> : f \in FailingObs(r.c, r.obs[k])} : k \in DOMAIN r.obs}

Check == tid > 0 =>
    LET r == Traces[tid]  f == FailingRec(r)
    IN f = {} \/ PrintT(<<"REJECT", ToJson([id |-> r.id, failing |-> f])>>)
=============================================================================
