------------------------------- MODULE RecStore -------------------------------
(* Property-level specification of esutil's record files (sfile / recfile / the    *)
(* io front end) as a state machine: the file system of record files plus the      *)
(* write-mode handles open on them.  Decides C03 (appends accumulate) and carries  *)
(* the table/descr/header vocabulary of C01.                                       *)
(*                                                                                *)
(* A table row is an opaque integer token (DESIGN 4.1); the harness maps tokens to *)
(* byte patterns and back, the specification never looks inside.  A chunk is       *)
(*     [descr |-> <<base, order>>, rows |-> Seq(token)]        (Len(rows) >= 1)    *)
(* where `base` names the field structure (names, types, shapes) and `order` the   *)
(* byte order ("na" once stored as text).  Byte order is a property of each FIELD, *)
(* not of the table: the orders are "lt" / "gt" (every field little- / big-endian) *)
(* and the mixed ones "vg" (the sub-array - vector / n-d - fields big-endian, the   *)
(* scalar fields little-endian) and "sg" (the reverse): chunks whose non-native     *)
(* fields are exactly one class of fields.  Two descrs are field-compatible iff     *)
(* their bases are equal; the order never enters a text file (NormDescr): a chunk   *)
(* of ANY order appended to a text file of its base is accepted, value-correct.     *)
(*                                                                                *)
(* files[p]   = [st, delim, hdr, descr, size, rows]                                *)
(*      st    : "missing" | "blank" (exists, nothing written: truncated by an      *)
(*              opening handle) | "ok"                                             *)
(*      delim : "none" (binary) or a delimiter id       hdr : user-header id       *)
(*      size  : the stored row count (the SIZE line)    rows: the stored rows      *)
(* handles[h] = [open, path, mode, fresh, delim]   one handle *object* per id: it   *)
(*              can be opened again (Open on an open or closed object) on any path  *)
(*              in any mode, and nothing of its earlier use may matter;             *)
(*      fresh : nothing written through it yet and it is creating (the first write *)
(*              writes the header).                                                *)
(* res        = outcome of the last action (what the call returned / raised).      *)
(*                                                                                *)
(* files[p] is the *logical* content.  While a write-mode handle is open on p the  *)
(* bytes on disk are not constrained (stdio buffering): only reads through that    *)
(* handle, and every reader after HClose, are.  Two writers on one path at the     *)
(* same time are outside the property's quantifier (guards ~WriterOn).             *)
(*                                                                                *)
(* Freedom the statement leaves is nondeterminism here (DESIGN 4.3):               *)
(*   - an append that differs from the file only in byte order: rejected with the  *)
(*     file unchanged, or accepted with value-correct rows;                        *)
(*   - a header passed with a write that is not the first one: ignored, or the     *)
(*     write rejected (never stored);                                              *)
(*   - opening 'r+' a path that does not exist: opens as creating (the handle is   *)
(*     then a write-only one: "change the mode to write"), or rejected;            *)
(*   - opening 'w+': the statement names no mode that must be openable for reading *)
(*     and writing at once: opens as creating, or rejected (the path may have been *)
(*     truncated by the attempt);                                                  *)
(*   - append to a blank file: creates, or rejected;                               *)
(*   - reading a missing/blank file, reading through a write-only handle, reading  *)
(*     a path a writer has open: unconstrained (res.err = "any");                  *)
(*   - reading through a handle opened for reading *and* writing: the statement    *)
(*     does not say such a handle must be able to read (res.err = "mayreject": a   *)
(*     rejection is accepted), but a table it returns is "reading the file" and    *)
(*     must be the concatenation, with its header and count.                       *)
EXTENDS VU

CONSTANTS Paths,        \* finite set of path ids (1..NP)
          Handles       \* finite set of handle ids (1..NH)

VARIABLES files, handles, res
rsvars == <<files, handles, res>>

WriteModes == {"w", "w+", "r+"}          \* the modes the library documents for writing
AllModes   == WriteModes \cup {"r"}      \* a handle object can also be (re-)opened for reading only
NoDescr    == <<"none", "na">>
Orders     == {"lt", "gt", "vg", "sg"}   \* byte orders a chunk can come in (per field class, see above)
MixedOrders == {"vg", "sg"}

Missing == [st |-> "missing", delim |-> "none", hdr |-> "none", descr |-> NoDescr, size |-> 0, rows |-> <<>>]
Blank   == [Missing EXCEPT !.st = "blank"]
Closed  == [open |-> FALSE, path |-> 0, mode |-> "none", fresh |-> FALSE, delim |-> "none"]

\* ---- scale: a row token >= BigTok stands for a *block* of BigW rows (a table far larger than any I/O buffer; the
\* harness instantiates it with millions of rows in a counter pattern and identifies it as a whole).  The law that
\* makes such cases decidable from the small ones - rows concatenate, counts add - is the same law: every count in
\* this module is RowCount, the number of rows a token sequence stands for.
BigTok == 900
BigW   == 1000
TokW(t) == IF t >= BigTok THEN BigW ELSE 1
RECURSIVE RowCount(_)
RowCount(rows) == IF rows = <<>> THEN 0 ELSE TokW(Head(rows)) + RowCount(Tail(rows))
HasBigAmong(rows, n) == \E i \in 1..(IF Len(rows) < n THEN Len(rows) ELSE n) : rows[i] >= BigTok

\* a text file stores no byte order
NormDescr(dl, d) == IF dl = "none" THEN d ELSE <<d[1], "na">>

NewFile(c, hd, dl) == [st |-> "ok", delim |-> dl, hdr |-> hd, descr |-> NormDescr(dl, c.descr),
                       size |-> RowCount(c.rows), rows |-> c.rows]

\* "yes" | "no" | "either"
Compat(f, c) ==
    IF f.descr[1] # c.descr[1] THEN "no"
    ELSE IF f.delim # "none" THEN "yes"                  \* text: byte order is not stored
    ELSE IF f.descr[2] = c.descr[2] THEN "yes" ELSE "either"

\* ---- results ----------------------------------------------------------------------
NoRes(o)      == [op |-> o, err |-> "none", descr |-> NoDescr, rows |-> <<>>, hdr |-> "none", size |-> -1, delim |-> "none"]
RejRes(o)     == [NoRes(o) EXCEPT !.err = "rejected"]
AnyRes(o)     == [NoRes(o) EXCEPT !.err = "any"]
MayRejRes(r)  == [r EXCEPT !.err = "mayreject"]         \* r, or a rejection
Returned(r)   == r.err \in {"none", "mayreject"}         \* the outcome carries data the caller may have got
CountRes(o, n) == [NoRes(o) EXCEPT !.size = n]
DataRes(o, f) == [op |-> o, err |-> "none", descr |-> f.descr, rows |-> f.rows, hdr |-> f.hdr, size |-> f.size, delim |-> f.delim]
HdrRes(o, f)  == [DataRes(o, f) EXCEPT !.rows = <<>>]

\* some handle (of any mode) is open on p / some handle other than h is
WriterOn(p)  == \E h \in Handles : handles[h].open /\ handles[h].path = p
OtherOn(h, p) == \E g \in Handles \ {h} : handles[g].open /\ handles[g].path = p

\* ---- what a read through a handle may ask for (the statement's subject is the whole table; the partial reads
\* matter because of what they do to the handle before the next write) ------------------------------------------
ReadSels == {"all", "first", "head", "cols"}   \* everything | rows=[0] | the slice [0:2] | two columns of row 0
SelRows(sel, rows) ==
    CASE sel = "all"  -> rows
      [] sel = "head" -> SubSeq(rows, 1, IF Len(rows) < 2 THEN Len(rows) ELSE 2)
      [] OTHER        -> SubSeq(rows, 1, 1)
ColsDescr == <<"cols", "na">>                   \* the fields of a column-subset result are not the file's
SelRes(o, f, sel) == [op |-> o, err |-> "none", descr |-> IF sel = "cols" THEN ColsDescr ELSE f.descr,
                      rows |-> SelRows(sel, f.rows), hdr |-> f.hdr, size |-> f.size, delim |-> f.delim]

\* ---- the outcomes of appending chunk c (optionally with a header argument) to an existing file
Appended(f, c) == [f EXCEPT !.rows = @ \o c.rows, !.size = @ + RowCount(c.rows)]
AppendOutcomes(f, c, hd) ==
    LET k == Compat(f, c) IN
      (IF k \in {"yes", "either"} THEN {[file |-> Appended(f, c), err |-> "none"]} ELSE {})
      \cup (IF k \in {"no", "either"} \/ hd # "none" THEN {[file |-> f, err |-> "rejected"]} ELSE {})

\* ---- initial state ------------------------------------------------------------------
RSInit == /\ files = [p \in Paths |-> Missing]
          /\ handles = [h \in Handles |-> Closed]
          /\ res = NoRes("init")

\* ---- handle actions -----------------------------------------------------------------
\* SFile(path, mode=m, delim=dl) on a new object, or sf.open(path, mode=m, delim=dl) on an existing one - closed or
\* still open on another (or the same) path: the object closes what it has open first.  Whatever the object was used
\* for before has no influence (no handle field survives).  After a rejected (re-)open the object is closed.
Open(h, p, m, dl) ==
    /\ ~OtherOn(h, p) /\ m \in AllModes
    /\ LET creating(em) == [open |-> TRUE, path |-> p, mode |-> em, fresh |-> TRUE, delim |-> dl]
           Creates(em) == /\ files' = [files EXCEPT ![p] = Blank]
                          /\ handles' = [handles EXCEPT ![h] = creating(em)]
                          /\ res' = NoRes("open")
           Rejects     == /\ files' \in {files, [files EXCEPT ![p] = Blank]}   \* the attempt may have truncated / created p
                          /\ res' = RejRes("open")
                          /\ handles' = [handles EXCEPT ![h] = Closed]
           Attaches    == /\ handles' = [handles EXCEPT ![h] = [open |-> TRUE, path |-> p, mode |-> m, fresh |-> FALSE,
                                                                delim |-> files[p].delim]]
                          /\ res' = CountRes("open", files[p].size)
                          /\ UNCHANGED files
       IN
       CASE m = "w"  -> Creates("w")
         [] m = "w+" -> Creates("w+") \/ Rejects
         [] m = "r+" -> IF files[p].st = "ok" THEN Attaches
                        ELSE Creates("w") \/ Rejects               \* "changed to write mode": a write-only handle
         [] m = "r"  -> IF files[p].st = "ok" THEN Attaches
                        ELSE /\ res' = AnyRes("open")              \* opening something that is not a record file for reading
                             /\ handles' = [handles EXCEPT ![h] = Closed]
                             /\ UNCHANGED files

\* sf.write(chunk, header=hd) through an open handle
HWrite(h, c, hd) ==
    /\ handles[h].open /\ handles[h].mode # "r"
    /\ LET p == handles[h].path IN
       IF handles[h].fresh
       THEN /\ files' = [files EXCEPT ![p] = NewFile(c, hd, handles[h].delim)]
            /\ handles' = [handles EXCEPT ![h].fresh = FALSE]
            /\ res' = CountRes("create", RowCount(c.rows))
       ELSE /\ \E o \in AppendOutcomes(files[p], c, hd) :
                 /\ files' = [files EXCEPT ![p] = o.file]
                 /\ res' = IF o.err = "none" THEN CountRes("append", o.file.size) ELSE RejRes("append")
            /\ UNCHANGED handles

\* sf.read(...) / sf[...] through an open handle: a reader ('r') must return what was asked of the file; a handle
\* opened for reading and writing may reject, but what it returns must be right; a write-only handle is unconstrained
HReadSel(h, sel) ==
    /\ handles[h].open /\ sel \in ReadSels
    /\ res' = IF handles[h].mode = "w" \/ handles[h].fresh THEN AnyRes("read")
              ELSE IF sel # "all" /\ HasBigAmong(files[handles[h].path].rows, 2) THEN AnyRes("read")   \* (rows of a block)
              ELSE IF handles[h].mode = "r" THEN SelRes("read", files[handles[h].path], sel)
              ELSE MayRejRes(SelRes("read", files[handles[h].path], sel))
    /\ UNCHANGED <<files, handles>>
HRead(h) == HReadSel(h, "all")

HClose(h) ==
    /\ handles[h].open
    /\ handles' = [handles EXCEPT ![h] = Closed]
    /\ res' = NoRes("close")
    /\ UNCHANGED files

\* the handle object is released without close() (del sf; it goes out of scope): for the file exactly a close - "after
\* any sequence of writes ... reading the file returns the concatenation ... the stored row count equals the total"
HDrop(h) == HClose(h)

\* ---- path-level (open-write-close) operations ---------------------------------------
\* sfile.write(p, chunk, header=hd, delim=dl) / io.write: a non-append write
WriteFile(p, c, hd, dl) ==
    /\ ~WriterOn(p)
    /\ files' = [files EXCEPT ![p] = NewFile(c, hd, dl)]
    /\ res' = NoRes(IF files[p].st = "missing" THEN "create" ELSE "overwrite")
    /\ UNCHANGED handles
Create(p, c, hd, dl)    == files[p].st = "missing" /\ WriteFile(p, c, hd, dl)
Overwrite(p, c, hd, dl) == files[p].st # "missing" /\ WriteFile(p, c, hd, dl)

\* sfile.write(p, chunk, append=True, header=hd, delim=dl)
AppendReopen(p, c, hd, dl) ==
    /\ ~WriterOn(p)
    /\ UNCHANGED handles
    /\ CASE files[p].st = "ok" ->
              \E o \in AppendOutcomes(files[p], c, hd) :
                 /\ files' = [files EXCEPT ![p] = o.file]
                 /\ res' = IF o.err = "none" THEN NoRes("append") ELSE RejRes("append")
         [] files[p].st = "missing" ->                       \* "an append to a file that does not exist yet creates it"
              /\ files' = [files EXCEPT ![p] = NewFile(c, hd, dl)]
              /\ res' = NoRes("create")
         [] files[p].st = "blank" ->
              \/ /\ files' = [files EXCEPT ![p] = NewFile(c, hd, dl)] /\ res' = NoRes("create")
              \/ /\ UNCHANGED files /\ res' = RejRes("append")
AppendCompatible(p, c, hd, dl)   == files[p].st = "ok" /\ Compat(files[p], c) # "no" /\ AppendReopen(p, c, hd, dl)
AppendIncompatible(p, c, hd, dl) == files[p].st = "ok" /\ Compat(files[p], c) = "no" /\ AppendReopen(p, c, hd, dl)
AppendMissing(p, c, hd, dl)      == files[p].st # "ok" /\ AppendReopen(p, c, hd, dl)

\* a fresh reader (sfile.read / SFile(p).read / io.read)
ReadBack(p) ==
    /\ res' = IF WriterOn(p) \/ files[p].st # "ok" THEN AnyRes("read") ELSE DataRes("read", files[p])
    /\ UNCHANGED <<files, handles>>

\* sfile.read_header(p)
ReadHeader(p) ==
    /\ res' = IF WriterOn(p) \/ files[p].st # "ok" THEN AnyRes("readhdr") ELSE HdrRes("readhdr", files[p])
    /\ UNCHANGED <<files, handles>>

\* ---- invariants of the specification itself ---------------------------------------------
FileOK(f) == /\ f.st \in {"missing", "blank", "ok"}
             /\ f.st = "ok" => (f.size = RowCount(f.rows) /\ Len(f.rows) >= 1 /\ f.descr # NoDescr)
             /\ f.st # "ok" => f = [Missing EXCEPT !.st = f.st]
             /\ (f.delim # "none") => f.descr[2] = "na"
             /\ (f.st = "ok" /\ f.delim = "none") => f.descr[2] \in Orders

\* the stored row count equals the number of stored rows, in every state
SizeInv == \A p \in Paths : FileOK(files[p])

HandleInv == \A h \in Handles :
    /\ handles[h].open => handles[h].path \in Paths /\ handles[h].mode \in AllModes
    /\ ~handles[h].open => handles[h] = Closed
    /\ (handles[h].open /\ handles[h].fresh) => files[handles[h].path].st = "blank"
    /\ (handles[h].open /\ ~handles[h].fresh) => files[handles[h].path].st = "ok"
    /\ \A g \in Handles : (g # h /\ handles[h].open /\ handles[g].open) => handles[h].path # handles[g].path

\* a read that is constrained returns exactly the stored table, header and count
ReadInv == (res.op \in {"read", "readhdr"} /\ Returned(res)) =>
              \E p \in Paths : /\ files[p].st = "ok" /\ res.descr \in {files[p].descr, ColsDescr} /\ res.hdr = files[p].hdr
                               /\ res.size = files[p].size /\ res.delim = files[p].delim
                               /\ (res.op = "read" => \E sel \in ReadSels : res.rows = SelRows(sel, files[p].rows))

\* ---- action properties ---------------------------------------------------------------------
\* what one step may do to one file
Kept(f, g)      == g = f
Grown(f, g)     == /\ f.st = "ok" /\ g.st = "ok" /\ VIsPrefix(f.rows, g.rows) /\ Len(g.rows) > Len(f.rows)
                   /\ g.hdr = f.hdr /\ g.descr = f.descr /\ g.delim = f.delim /\ g.size = f.size + (RowCount(g.rows) - RowCount(f.rows))
Replaced(f, g)  == g.st \in {"ok", "blank"}

\* appends accumulate and keep the header; only a non-append write (or a truncating open) replaces;
\* a rejected call leaves every file as it was (a rejected open may have created an empty file)
StepProp ==
    \A p \in Paths :
       LET f == files[p]  g == files'[p] IN
       CASE res'.op = "append" /\ res'.err = "none"     -> Kept(f, g) \/ Grown(f, g)
         [] res'.op = "append" /\ res'.err = "rejected" -> Kept(f, g)
         [] res'.op \in {"read", "readhdr", "close"}    -> Kept(f, g)
         [] res'.op = "create"                          -> Kept(f, g) \/ (f.st # "ok" /\ g.st = "ok")
         [] res'.op = "overwrite"                       -> Kept(f, g) \/ (f.st # "missing" /\ g.st = "ok")
         [] res'.op = "open"                            -> Kept(f, g) \/ g = Blank
         [] OTHER                                       -> FALSE
AppendsAccumulate == [][StepProp]_rsvars

\* exactly one file changes per step, and never one that another writer has open
FrameProp == [][\A p, q \in Paths : (files'[p] # files[p] /\ files'[q] # files[q]) => p = q]_rsvars
=============================================================================
