------------------------------- MODULE RecStoreMC -------------------------------
(* Bounded model of RecStore.tla for C03:                                           *)
(*  - every history of file operations up to MaxDepth over a small catalogue of      *)
(*    chunks / headers / delimiters / modes is explored and the invariants and       *)
(*    action properties of RecStore are checked on it;                               *)
(*  - with KeepHist = TRUE every step appends the event it took to `hist` (in the    *)
(*    JSON shape the harness replays and RecStoreTrace.tla reads), and `Export`      *)
(*    prints it:  all behaviours up to a length (no VIEW), a transition tour of the  *)
(*    state graph (VIEW View: states merge, every generated edge is printed with the *)
(*    breadth-first history of its source), or -simulate behaviours (ExportAt).      *)
EXTENDS RecStore, Json

CONSTANTS ChunkIds,     \* subset of {"a","b","n","t","o","s","f","r"}
          Hdrs,         \* subset of {"none","h1","h2"}
          Delims,       \* subset of {"none","c","t","s"}
          Modes,        \* subset of AllModes
          Sels,         \* subset of ReadSels: what reads through a handle ask for
          MaxDepth,     \* histories of at most this many actions
          MaxRows,      \* no file grows beyond this many rows
          KeepHist,     \* record the history (export runs)
          ExportAt,     \* 0: print every history;  k > 0: only histories of exactly k events
          Acts          \* the action kinds enabled: subset of {"open","hwrite","hread","hclose","create","overwrite",
                        \*   "append","appendbad","appendmissing","read","readhdr"}

VARIABLES hist,        \* the events taken so far (KeepHist), else one 0 per event
          cat          \* cat[p]: the concatenation of the chunks of all accepted writes to p, in order, since the
                       \* last event that replaced it - computed from the *calls* and their outcomes only
          ,obj         \* obj[h]: what the *implementation's* handle object may still carry from its past, abstracted:
                       \*   held - the (delim, descr) of the last file it held a header of (wrote the first chunk of, or
                       \*          attached to with 'r' / 'r+'), surviving close and re-open;
                       \*   pos  - where its stream was left since the last open: "start" | "mid" (after a partial read) |
                       \*          "end" (after a full read or a write).
                       \* The property-level actions never read it (nothing of a handle's past may matter); it only keeps
                       \* apart, for the transition tour, histories the implementation could tell apart.
vars == <<files, handles, res, hist, cat, obj>>
View == <<rsvars, obj>>

\* ---- the chunk catalogue: base "D" is the file's structure in most histories ------
\*   a, b : compatible (1 and 3 rows)          n : a field renamed        t : a field's type changed
\*   o    : same fields, opposite byte order   s : a sub-array shape changed
\*   f    : the last field missing             r : two fields swapped
\*   v, w : same fields, byte order differing per field class (RecStore!MixedOrders)
ChunkOf(id) ==
    CASE id = "a" -> [descr |-> <<"D", "lt">>, rows |-> <<11>>]
      [] id = "b" -> [descr |-> <<"D", "lt">>, rows |-> <<21, 22, 23>>]
      [] id = "n" -> [descr |-> <<"N", "lt">>, rows |-> <<31>>]
      [] id = "t" -> [descr |-> <<"T", "lt">>, rows |-> <<41, 42>>]
      [] id = "o" -> [descr |-> <<"D", "gt">>, rows |-> <<51>>]
      [] id = "s" -> [descr |-> <<"S", "lt">>, rows |-> <<61>>]
      [] id = "f" -> [descr |-> <<"F", "lt">>, rows |-> <<71, 72>>]
      [] id = "r" -> [descr |-> <<"R", "lt">>, rows |-> <<81>>]
      [] id = "g" -> [descr |-> <<"D", "lt">>, rows |-> <<901>>]        \* compatible, BIG: one block token
      [] id = "v" -> [descr |-> <<"D", "vg">>, rows |-> <<55, 56>>]     \* same fields, only the sub-array fields big-endian
      [] id = "w" -> [descr |-> <<"D", "sg">>, rows |-> <<58>>]         \* same fields, only the scalar fields big-endian
NoChunk == [descr |-> NoDescr, rows |-> <<>>]

\* `err` is the outcome the specification chose (the harness ignores it: it records the real one)
Ev(o, h, p, m, dl, c, hd) == [op |-> o, h |-> h, p |-> p, mode |-> m, delim |-> dl, chunk |-> c, hdr |-> hd, sel |-> "all", err |-> "none"]
\* The depth bound is part of the state (Len(hist); without KeepHist the events are forgotten, their number is kept):
\* a bound on TLCGet("level") would make the explored set depend on the workers' schedule once states merge.  The step
\* is disabled at MaxDepth, here and not in Next, so that Next stays a plain disjunction of named actions, which is what
\* TLC's per-action coverage - the vacuity guard - needs.
\* a rejected open may have truncated the path (RecStore!Open): the history says so, for Fold
Outcome == IF res'.err = "rejected" /\ files' # files THEN "rejected_truncated" ELSE res'.err
\* what an event with outcome `out` does to the concatenation `prev` of its path
CatStep(prev, e, out) ==
    IF out \notin {"none", "rejected_truncated"} THEN prev
    ELSE CASE out = "rejected_truncated"                   -> <<>>
           [] e.op = "write"                              -> e.chunk.rows        \* a non-append write replaces
           [] e.op = "open" /\ e.mode \in {"w", "w+"}     -> <<>>                \* a truncating open
           [] e.op \in {"hwrite", "append"}               -> prev \o e.chunk.rows
           [] OTHER                                       -> prev
NoObj == [held |-> <<"none", NoDescr>>, pos |-> "start"]
ObjStep(o, e) ==
    CASE e.op = "open"   -> [held |-> IF handles'[e.h].open /\ ~handles'[e.h].fresh
                                      THEN <<files[e.p].delim, files[e.p].descr>> ELSE o.held,
                             pos  |-> "start"]
      [] e.op = "hwrite" -> IF res'.err # "none" THEN o
                            ELSE [held |-> IF handles[e.h].fresh THEN <<files'[e.p].delim, files'[e.p].descr>> ELSE o.held,
                                  pos  |-> "end"]
      [] e.op = "hread"  -> [o EXCEPT !.pos = IF e.sel = "all" THEN "end" ELSE "mid"]
      [] e.op = "hdrop"  -> NoObj                          \* the object is gone: the next open makes a new one
      [] OTHER           -> o
Log(e) == /\ Len(hist) < MaxDepth
          /\ hist' = IF KeepHist THEN Append(hist, [e EXCEPT !.err = Outcome]) ELSE Append(hist, 0)
          /\ cat' = [cat EXCEPT ![e.p] = CatStep(@, e, Outcome)]
          /\ obj' = IF e.h = 0 THEN obj ELSE [obj EXCEPT ![e.h] = ObjStep(@, e)]

Init == RSInit /\ hist = <<>> /\ cat = [p \in Paths |-> <<>>] /\ obj = [h \in Handles |-> NoObj]

\* arguments that cannot matter are not enumerated (delimiter / header of a write that is not the first)
\* (re-)open: on a closed object, or on one that is still open (it closes what it has open first)
MOpen == "open" \in Acts /\ \E h \in Handles, p \in Paths, m \in Modes :
            \E dl \in (IF m \in {"r", "r+"} /\ files[p].st = "ok" THEN {"none"} ELSE Delims) :
               Open(h, p, m, dl) /\ Log(Ev("open", h, p, m, dl, NoChunk, "none"))
MHWrite == "hwrite" \in Acts /\ \E h \in Handles, id \in ChunkIds :
            \E hd \in (IF handles[h].fresh THEN Hdrs ELSE {"none"}) :
               HWrite(h, ChunkOf(id), hd) /\ Log(Ev("hwrite", h, handles[h].path, "none", "none", ChunkOf(id), hd))
MHRead == "hread" \in Acts /\ \E h \in Handles, sel \in Sels :
            HReadSel(h, sel) /\ Log([Ev("hread", h, handles[h].path, "none", "none", NoChunk, "none") EXCEPT !.sel = sel])
MHClose == "hclose" \in Acts /\ \E h \in Handles : HClose(h) /\ Log(Ev("hclose", h, handles[h].path, "none", "none", NoChunk, "none"))
MHDrop == "hdrop" \in Acts /\ \E h \in Handles : HDrop(h) /\ Log(Ev("hdrop", h, handles[h].path, "none", "none", NoChunk, "none"))
MCreate == "create" \in Acts /\ \E p \in Paths, id \in ChunkIds, hd \in Hdrs, dl \in Delims :
               Create(p, ChunkOf(id), hd, dl) /\ Log(Ev("write", 0, p, "none", dl, ChunkOf(id), hd))
MOverwrite == "overwrite" \in Acts /\ \E p \in Paths, id \in ChunkIds, hd \in Hdrs, dl \in Delims :
               Overwrite(p, ChunkOf(id), hd, dl) /\ Log(Ev("write", 0, p, "none", dl, ChunkOf(id), hd))
MAppendCompatible == "append" \in Acts /\ \E p \in Paths, id \in ChunkIds :
               AppendCompatible(p, ChunkOf(id), "none", "none") /\ Log(Ev("append", 0, p, "none", "none", ChunkOf(id), "none"))
MAppendIncompatible == "appendbad" \in Acts /\ \E p \in Paths, id \in ChunkIds :
               AppendIncompatible(p, ChunkOf(id), "none", "none") /\ Log(Ev("append", 0, p, "none", "none", ChunkOf(id), "none"))
MAppendMissing == "appendmissing" \in Acts /\ \E p \in Paths, id \in ChunkIds, hd \in Hdrs, dl \in Delims :
               AppendMissing(p, ChunkOf(id), hd, dl) /\ Log(Ev("append", 0, p, "none", dl, ChunkOf(id), hd))
MReadBack == "read" \in Acts /\ \E p \in Paths : ReadBack(p) /\ Log(Ev("read", 0, p, "none", "none", NoChunk, "none"))
MReadHeader == "readhdr" \in Acts /\ \E p \in Paths : ReadHeader(p) /\ Log(Ev("readhdr", 0, p, "none", "none", NoChunk, "none"))

Next == \/ MOpen \/ MHWrite \/ MHRead \/ MHClose \/ MHDrop
        \/ MCreate \/ MOverwrite \/ MAppendCompatible \/ MAppendIncompatible \/ MAppendMissing
        \/ MReadBack \/ MReadHeader

Spec == Init /\ [][Next]_vars

\* ---- bounds ----------------------------------------------------------------------------
Bounded == /\ Len(hist) <= MaxDepth
           /\ \A p \in Paths : Len(files[p].rows) <= MaxRows
BoundedHist == /\ Len(hist) <= MaxDepth
               /\ \A p \in Paths : Len(files[p].rows) <= MaxRows

\* ---- theorems checked by TLC ----------------------------------------------------------
\* "the file equals the concatenation of all writes and the stored row count equals the total number of rows":
\* the rows of p are the chunks of all accepted writes to p, in order, since the last event that replaced it
\* (a non-append write or a truncating open) - on the running concatenation ...
ConcatInv == \A p \in Paths : files[p].rows = cat[p] /\ files[p].size = RowCount(cat[p])
\* ... and stated directly on the recorded history (needs KeepHist)
RECURSIVE Fold(_, _)
Fold(p, k) ==
    IF k = 0 THEN <<>>
    ELSE LET e == hist[k]  prev == Fold(p, k - 1) IN
         IF e.p # p \/ e.err \notin {"none", "rejected_truncated"} THEN prev
         ELSE CASE e.err = "rejected_truncated"            -> <<>>
                [] e.op = "write"                          -> e.chunk.rows
                [] e.op = "open" /\ e.mode \in {"w", "w+"} -> <<>>
                [] e.op = "open"                          -> prev
                [] e.op \in {"hwrite", "append"}           -> prev \o e.chunk.rows
                [] OTHER                                   -> prev
ConcatHistInv == KeepHist => \A p \in Paths : files[p].rows = Fold(p, Len(hist)) /\ cat[p] = Fold(p, Len(hist))

\* byte order never decides the fate of an append to a text file: whatever the order of the chunk (uniform or mixed per
\* field class), Compat says "yes" - the only outcome is the value-correct append (a theorem on the catalogue)
TextOrderFree == \A p \in Paths : (files[p].st = "ok" /\ files[p].delim # "none") =>
                    \A id \in ChunkIds : LET c == ChunkOf(id) IN
                       c.descr[1] = files[p].descr[1] =>
                          /\ c.descr[2] \in Orders /\ Compat(files[p], c) = "yes"
                          /\ AppendOutcomes(files[p], c, "none") = {[file |-> Appended(files[p], c), err |-> "none"]}

\* ---- export ------------------------------------------------------------------------------
Export == (KeepHist /\ hist # <<>> /\ (ExportAt = 0 \/ Len(hist) = ExportAt)) => PrintT(<<"BEH", ToJson(hist)>>)
=============================================================================
