------------------------------- MODULE RecStoreMech -------------------------------
(* Implementation-shaped model of the append mechanism of esutil's record files (C03,  *)
(* DESIGN 4.5): one path, one SFile handle, the three layers the code has               *)
(*   disk : the file as cells - the 28-character "SIZE = %20d\n" line, one cell for the  *)
(*          dict text + END + blank line, one cell per stored row (with the field         *)
(*          structure and byte order it was physically written in);                       *)
(*   sf   : the Python SFile object (sfile.py): _mode, _hdr present?, _size, _dtype,       *)
(*          _delim, and Recfile.nrows of its Recfile (Util.py);                            *)
(*   cpp  : the C++ Records object (records.cpp): mNrows and whether it may read.          *)
(* Every operator below is named after the function it transcribes.  One action = one      *)
(* API call (the calls are sequential; crash points between the SIZE rewrite and the row   *)
(* write are outside C03).  The path-level calls sfile.write(..., append=) are the         *)
(* compositions open ; write ; close the code performs.                                    *)
(*                                                                                        *)
(* Known deviations of the code are constants (TRUE = repaired behaviour):                 *)
(*   FixedCompat  : _ensure_compatible_dtype raises for a binary mismatch (the `if bad:    *)
(*                  raise` sits inside the text branch in the unrepaired code)             *)
(*   FixedCount   : Records::Write keeps mNrows = rows in the file (unrepaired: = rows of   *)
(*                  the last chunk, which is what a later read through the handle uses)    *)
(*   FixedMissing : SFile.open stores the mode it fell back to for 'r+' on a missing path  *)
(*   FixedClose   : SFile.close forgets header / size / dtype, so that an object opened     *)
(*                  again for writing starts from nothing (FALSE: they survive and the       *)
(*                  first write to the new file takes the append path)                       *)
(*   FixedSizeNow : an appending write rewrites the SIZE line at once (FALSE: only close()  *)
(*                  does - a handle dropped without close leaves a stale count)              *)
(*   FixedSeek    : every row write and every SIZE rewrite ends with the stream at the end   *)
(*                  of the file (FALSE: rows are written where a partial read left it)       *)
(*   FixedNative  : Recfile.write brings EVERY chunk for a text file to native byte order   *)
(*                  before the ascii writer formats it (FALSE: only when some column       *)
(*                  "is not native" by a per-column test that sees the scalar fields only - *)
(*                  a sub-array field reports native whatever its elements are: a chunk     *)
(*                  whose only non-native fields are sub-array fields is formatted from     *)
(*                  byte-swapped memory)                                                    *)
(*                                                                                        *)
(* What TLC checks here: the mechanism's own invariants (the SIZE rewrite touches only     *)
(* the SIZE line and keeps the data offset; the three row counts agree; SIZE = number of   *)
(* stored rows).  Refinement of the property-level RecStore.tla is checked by trace         *)
(* inclusion: every behaviour is exported in the trace format (call, result, the file       *)
(* parsed back, bytes-unchanged flag) and judged by RecStoreTrace.tla exactly like a trace  *)
(* of the real code.                                                                        *)
EXTENDS VU, Json

CONSTANTS FixedCompat, FixedCount, FixedMissing, FixedClose, FixedSeek, FixedSizeNow, FixedNative,
          ChunkIds, Hdrs, Delims, Modes,
          MaxDepth,      \* behaviours of at most this many calls
          KeepHist,      \* record the behaviour (export runs); FALSE: states merge (invariant runs)
          ExportAt,      \* 0: print every behaviour; k > 0: only those of exactly k calls; 99: none
          Sels,          \* what reads through the handle ask for: subset of {"all", "first", "head", "cols"}
          PathOps        \* also the path-level calls sfile.write(path, ..., append=)

VARIABLES disk, sf, cpp, mres, hist
mvars == <<disk, sf, cpp, mres, hist>>

\* the constant-level vocabulary of RecStore.tla (records, NormDescr, result shapes); its variables are not used
RSC == INSTANCE RecStore WITH Paths <- {1}, Handles <- {1}, files <- 0, handles <- 0, res <- 0

\* ---- chunk catalogue (as RecStoreMC) ---------------------------------------------------------
ChunkOf(id) ==
    CASE id = "a" -> [descr |-> <<"D", "lt">>, rows |-> <<11>>]
      [] id = "b" -> [descr |-> <<"D", "lt">>, rows |-> <<21, 22, 23>>]
      [] id = "n" -> [descr |-> <<"N", "lt">>, rows |-> <<31>>]
      [] id = "t" -> [descr |-> <<"T", "lt">>, rows |-> <<41, 42>>]
      [] id = "o" -> [descr |-> <<"D", "gt">>, rows |-> <<51>>]
      [] id = "v" -> [descr |-> <<"D", "vg">>, rows |-> <<55, 56>>]
      [] id = "w" -> [descr |-> <<"D", "sg">>, rows |-> <<58>>]
NoChunk == [descr |-> RSC!NoDescr, rows |-> <<>>]

\* ---- the file as cells ---------------------------------------------------------------------------
Ch(c) == [k |-> "ch", c |-> c]
RECURSIVE MDigits(_)
MDigits(n) == IF n < 10 THEN <<Ch(ToString(n))>> ELSE MDigits(n \div 10) \o <<Ch(ToString(n % 10))>>
\* "SIZE = %20d\n"
SizeLine(n) == <<Ch("S"), Ch("I"), Ch("Z"), Ch("E"), Ch(" "), Ch("="), Ch(" ")>>
               \o [i \in 1..(20 - Len(MDigits(n))) |-> Ch(" ")] \o MDigits(n) \o <<Ch("\n")>>
SizeLineLen == 28
Meta(hd, d, dl) == [k |-> "meta", hdr |-> hd, descr |-> d, delim |-> dl]      \* pprint(dict) "\nEND\n\n"
HdrLen == SizeLineLen + 1                                                     \* the data offset, in cells
\* Recfile.write, text branch: the chunk is converted to native order (the machine is little-endian here) - always, or
\* (unrepaired) only when the per-column test fires, and that test sees the scalar fields' order only
LooksNative(o) == o \in {"lt", "vg"}
TextOrder(o)   == IF o = "lt" \/ FixedNative \/ ~LooksNative(o) THEN "na" ELSE o     \* else: formatted from swapped memory
RowCell(t, d, text) == [k |-> "row", tok |-> t, base |-> d[1], order |-> IF text THEN TextOrder(d[2]) ELSE d[2]]

NoDisk == [exists |-> FALSE, cells |-> <<>>]

\* stdio: fprintf / fwrite of `s` at cell offset `pos` (0-based)
WriteAt(cells, pos, s) ==
    [i \in 1..VMax2(Len(cells), pos + Len(s)) |-> IF i > pos /\ i <= pos + Len(s) THEN s[i - pos] ELSE cells[i]]

\* SFile.read_header: first line "SIZE = <number>", then the dict, END, blank line
DigitVal(c) == CHOOSE d \in 0..9 : ToString(d) = c
RECURSIVE ParseNum(_, _)
ParseNum(s, acc) == IF s = <<>> THEN acc
                    ELSE ParseNum(Tail(s), IF Head(s).c = " " THEN acc ELSE 10 * acc + DigitVal(Head(s).c))
HasHeader(cells) == Len(cells) >= HdrLen /\ cells[HdrLen].k = "meta"
SizeOf(cells) == ParseNum(SubSeq(cells, 8, SizeLineLen - 1), 0)
MetaOf(cells) == cells[HdrLen]
\* a row physically written with other fields or another byte order reads back as garbage (token 0)
RowTok(cell, d) == IF cell.base = d[1] /\ cell.order = d[2] THEN cell.tok ELSE 0
DataRows(cells, d) == IF Len(cells) <= HdrLen THEN <<>> ELSE [i \in 1..(Len(cells) - HdrLen) |-> RowTok(cells[HdrLen + i], d)]

\* what a fresh reader finds: the property-level file (refinement mapping)
AbsFile(dk) ==
    IF ~dk.exists THEN RSC!Missing
    ELSE IF ~HasHeader(dk.cells) THEN RSC!Blank
    ELSE LET m == MetaOf(dk.cells) IN
         [st |-> "ok", delim |-> m.delim, hdr |-> m.hdr, descr |-> m.descr, size |-> SizeOf(dk.cells),
          rows |-> DataRows(dk.cells, m.descr)]

\* ---- the objects ----------------------------------------------------------------------------------
NoSf  == [open |-> FALSE, mode |-> "none", hashdr |-> FALSE, size |-> 0, descr |-> RSC!NoDescr, delim |-> "none", rfn |-> 0,
          pend |-> FALSE]                       \* pend: the SIZE line is behind _size (unrepaired variant only)
NoCpp == [open |-> FALSE, nrows |-> 0, rd |-> FALSE, pos |-> 0]          \* pos: the stream position, in cells
Bundle == [disk |-> disk, sf |-> sf, cpp |-> cpp]
Out(s, r) == [s |-> s, res |-> r]

\* ---- SFile.close: the Recfile is closed and dropped; what the object knows about the file is forgotten ------------
\* (the unrepaired size variant brings the SIZE line up to date here - and only here)
Flushed(s) == IF s.sf.open /\ s.sf.pend THEN [s EXCEPT !.disk.cells = WriteAt(@, 0, SizeLine(s.sf.size)), !.sf.pend = FALSE] ELSE s
SfClose(s0) == LET s == Flushed(s0) IN
               Out([s EXCEPT !.sf = IF FixedClose THEN NoSf ELSE [@ EXCEPT !.open = FALSE], !.cpp = NoCpp], RSC!NoRes("close"))
\* the object is released without close(): Records::~Records closes the stream (the rows are flushed), nothing else runs
SfDrop(s) == Out([s EXCEPT !.sf = NoSf, !.cpp = NoCpp], RSC!NoRes("close"))

\* ---- SFile.open (on a new object, or again on one that was used before: "self.close()" comes first) --------------
SfOpen(s0, m, dl) ==
    LET s  == SfClose(s0).s
        em == IF m = "r+" /\ ~s.disk.exists /\ FixedMissing THEN "w" ELSE m      \* "change the mode to write"
    IN
    IF em \in {"r", "r+"}
    THEN \* self.read_header(); Recfile(mode=em, nrows=_SIZE, offset=data_start): every field is set from the file
         IF ~s.disk.exists \/ ~HasHeader(s.disk.cells)
         THEN Out(s, RSC!RejRes("open"))                     \* FileNotFoundError / "EOF reached before reading header end"
         ELSE LET n == SizeOf(s.disk.cells)  mt == MetaOf(s.disk.cells) IN
              IF n < 1 THEN Out(s, RSC!RejRes("open"))       \* Records::process_nrows: "Input nrows must be >= 1"
              ELSE Out([s EXCEPT !.sf = [open |-> TRUE, mode |-> em, hashdr |-> TRUE, size |-> n, descr |-> mt.descr,
                                         delim |-> mt.delim, rfn |-> n, pend |-> FALSE],
                                 \* Records::Records: goto_offset() - the stream is at the first row
                                 !.cpp = [open |-> TRUE, nrows |-> n, rd |-> TRUE,
                                          pos |-> IF FixedSeek \/ em = "r" THEN HdrLen ELSE Len(s.disk.cells)]],
                       RSC!CountRes("open", n))
    ELSE \* Recfile(mode=em): Records::Records does fopen(em) - the file is created / truncated - and for "w+"
         \* then demands a dtype and nrows the caller did not give.  This branch sets _delim only.
         LET trunc == [s EXCEPT !.disk = [exists |-> TRUE, cells |-> <<>>]] IN
         IF em = "w+" THEN Out(trunc, RSC!RejRes("open"))
         ELSE Out([trunc EXCEPT !.sf = [@ EXCEPT !.open = TRUE, !.mode = "w", !.delim = dl, !.rfn = 0, !.pend = FALSE],
                                !.cpp = [open |-> TRUE, nrows |-> 0, rd |-> FALSE, pos |-> 0]],
                  RSC!NoRes("open"))

\* ---- SFile.write ------------------------------------------------------------------------------------
\* _ensure_compatible_dtype
CompatRaises(s, c) ==
    LET text == s.sf.delim # "none" IN
    /\ s.sf.descr # RSC!NoDescr                                      \* "if self._dtype is not None"
    /\ IF text THEN s.sf.descr[1] # c.descr[1]                        \* names / types / shapes, byte order skipped
               ELSE s.sf.descr # c.descr /\ FixedCompat               \* exact match demanded ... and raised only when repaired

\* stdio, with the stream position: [cells, pos]
\* Records::update_row_count: rewind; fprintf("SIZE = %20ld\n"); fseek(end)   (unrepaired: back to where it was)
UpdateRowCount(cells, n) == WriteAt(cells, 0, SizeLine(n))
AfterUpdate(cells, pos) == IF FixedSeek THEN Len(cells) ELSE pos
\* Records::write_header_and_update_offset: rewind; fprintf(header) - the stream is after the header
WriteHeader(cells, n, hd, d, dl) == WriteAt(cells, 0, SizeLine(n) \o <<Meta(hd, d, dl)>>)
\* Records::Write: fseek(end) (unrepaired: no seek); fwrite / WriteRows at the stream position
RowCells(c, text) == [i \in 1..Len(c.rows) |-> RowCell(c.rows[i], c.descr, text)]
WritePos(cells, pos) == IF FixedSeek THEN Len(cells) ELSE pos
CppWrite(cells, pos, c, text) == WriteAt(cells, WritePos(cells, pos), RowCells(c, text))

SfWrite(s, c, hd) ==
    LET text  == s.sf.delim # "none"
        n     == Len(c.rows)
        first == ~s.sf.hashdr
        op    == IF first THEN "create" ELSE "append"
    IN
    IF CompatRaises(s, c) THEN Out(s, RSC!RejRes(op))
    ELSE LET total == IF first THEN n ELSE s.sf.size + n
             d     == IF first THEN RSC!NormDescr(s.sf.delim, c.descr) ELSE s.sf.descr
             \* _write_header: the header the first time (header= is used only then), else _update_size
             c1    == IF first THEN WriteHeader(s.disk.cells, n, hd, d, s.sf.delim)
                      ELSE IF FixedSizeNow THEN UpdateRowCount(s.disk.cells, total) ELSE s.disk.cells
             p1    == IF first THEN HdrLen ELSE AfterUpdate(c1, s.cpp.pos)
             c2    == CppWrite(c1, p1, c, text)
         IN Out([s EXCEPT !.disk = [exists |-> TRUE, cells |-> c2],
                          !.sf = [@ EXCEPT !.hashdr = TRUE, !.size = total, !.descr = d, !.rfn = @ + n,
                                           !.pend = @ \/ (~first /\ ~FixedSizeNow)],
                          !.cpp = [@ EXCEPT !.nrows = IF FixedCount THEN @ + n ELSE n, !.pos = WritePos(c1, p1) + n]],
                RSC!CountRes(op, total))

\* ---- SFile.read(...) / sf[...] through the handle -------------------------------------------------------------------
\* how many rows a selection reads from the start of the data (where it leaves the stream)
SelCount(sel, total) == CASE sel = "all" -> total [] sel = "head" -> (IF total < 2 THEN total ELSE 2) [] OTHER -> (IF total < 1 THEN total ELSE 1)
SfRead(s, sel) ==
    IF s.sf.mode = "w" THEN Out(s, RSC!RejRes("read"))              \* _ensure_open_for_reading
    ELSE LET text  == s.sf.delim # "none"
             total == s.sf.rfn                                       \* Recfile.nrows: numpy.zeros(self.nrows)
             stored == DataRows(s.disk.cells, s.sf.descr)
             mt    == MetaOf(s.disk.cells)
             k     == SelCount(sel, total)
             after == [s EXCEPT !.cpp.pos = HdrLen + k]              \* goto_offset(); the rows read; the stream stays there
             got(rows) == [op |-> "read", err |-> "none", descr |-> IF sel = "cols" THEN RSC!ColsDescr ELSE s.sf.descr,
                           rows |-> RSC!SelRows(sel, rows), hdr |-> mt.hdr, size |-> s.sf.size, delim |-> s.sf.delim]
         IN IF total > Len(stored) THEN Out(s, RSC!RejRes("read"))   \* (only when rows were lost: a short read fails)
            ELSE IF sel # "all"
            THEN \* rows=[0] / [0:2] / rows=[0], columns=: explicit rows, checked against Recfile.nrows
                 Out(after, got(stored))
            ELSE IF text
            THEN \* read_text_columns(rows=None): mNrows rows are scanned into the zeroed result
                 Out(after, got(IF total = 0 THEN <<>> ELSE [i \in 1..total |-> IF i <= s.cpp.nrows THEN stored[i] ELSE 0]))
            ELSE \* read_binary_slice(0, nrows, 1): "Requested slice beyond declared size"
                 IF total > s.cpp.nrows THEN Out(s, RSC!RejRes("read"))
                 ELSE Out(after, got(IF total = 0 THEN <<>> ELSE [i \in 1..total |-> stored[i]]))

\* ---- sfile.write(path, data, header=, delim=, append=): with SFile(path, mode) as sf: sf.write(data, header=) ----
PathWrite(s0, c, hd, dl, append) ==
    LET s  == [s0 EXCEPT !.sf = NoSf, !.cpp = NoCpp]                  \* a new SFile object
        o  == SfOpen(s, IF append THEN "r+" ELSE "w", dl)
        op == IF append THEN "append" ELSE "write"
        back(t) == [t EXCEPT !.sf = s0.sf, !.cpp = s0.cpp]           \* (the caller's own object is not involved)
    IN IF o.res.err # "none" THEN Out(back(o.s), RSC!RejRes(op))
       ELSE LET w == SfWrite(o.s, c, hd) IN
            Out(back(SfClose(w.s).s), IF w.res.err = "none" THEN RSC!NoRes(op) ELSE RSC!RejRes(op))

\* ---- behaviours -------------------------------------------------------------------------------------------------
\* the event in the format of RecStoreTrace.tla
Ev(o, m, dl, c, hd, out) ==
    [op |-> o, h |-> IF o \in {"write", "append", "read"} THEN 0 ELSE 1, p |-> 1, mode |-> m, delim |-> dl, chunk |-> c, hdr |-> hd,
     sel |-> "all",
     res |-> [err |-> out.res.err, descr |-> out.res.descr, rows |-> out.res.rows, hdr |-> out.res.hdr,
              size |-> out.res.size, delim |-> out.res.delim],
     obs |-> <<AbsFile(out.s.disk)>>,
     rawsame |-> <<out.s.disk = disk>>]

\* without KeepHist only the last call is kept - and the number of calls, so that the depth bound is part of the
\* state (a bound on TLCGet("level") would depend on the workers' schedule once states merge)
Forget(h) == [i \in 1..Len(h) |-> [op |-> "-"]]
Do(out, e) == /\ Len(hist) < MaxDepth
              /\ disk' = out.s.disk /\ sf' = out.s.sf /\ cpp' = out.s.cpp /\ mres' = out.res
              /\ hist' = IF KeepHist THEN Append(hist, e) ELSE Append(Forget(hist), e)

Init == disk = NoDisk /\ sf = NoSf /\ cpp = NoCpp /\ mres = RSC!NoRes("init") /\ hist = <<>>

\* on a new object, a closed one, or one that is still open (sf.open(...) again)
MOpen  == Modes # {} /\ \E m \in Modes : \E dl \in (IF m \in {"r", "r+"} /\ AbsFile(disk).st = "ok" THEN {"none"} ELSE Delims) :
             \E out \in {SfOpen(Bundle, m, dl)} : Do(out, Ev("open", m, dl, NoChunk, "none", out))
MWrite == sf.open /\ sf.mode # "r" /\ \E id \in ChunkIds : \E hd \in (IF sf.hashdr THEN {"none"} ELSE Hdrs) :
             \E out \in {SfWrite(Bundle, ChunkOf(id), hd)} : Do(out, Ev("hwrite", "none", "none", ChunkOf(id), hd, out))
MRead  == sf.open /\ \E sel \in Sels : \E out \in {SfRead(Bundle, sel)} :
             Do(out, [Ev("hread", "none", "none", NoChunk, "none", out) EXCEPT !.sel = sel])
MClose == sf.open /\ \E out \in {SfClose(Bundle)} : Do(out, Ev("hclose", "none", "none", NoChunk, "none", out))
MDrop  == sf.open /\ \E out \in {SfDrop(Bundle)} : Do(out, Ev("hdrop", "none", "none", NoChunk, "none", out))
MPathWrite  == PathOps /\ ~sf.open /\ \E id \in ChunkIds, hd \in Hdrs, dl \in Delims :
             \E out \in {PathWrite(Bundle, ChunkOf(id), hd, dl, FALSE)} : Do(out, Ev("write", "none", dl, ChunkOf(id), hd, out))
MPathAppend == PathOps /\ ~sf.open /\ \E id \in ChunkIds :
             \E hd \in (IF AbsFile(disk).st = "ok" THEN {"none"} ELSE Hdrs), dl \in (IF AbsFile(disk).st = "ok" THEN {"none"} ELSE Delims) :
             \E out \in {PathWrite(Bundle, ChunkOf(id), hd, dl, TRUE)} : Do(out, Ev("append", "none", dl, ChunkOf(id), hd, out))

Next == MOpen \/ MWrite \/ MRead \/ MClose \/ MDrop \/ MPathWrite \/ MPathAppend
Spec == Init /\ [][Next]_mvars

\* ---- the mechanism's own invariants ------------------------------------------------------------------------------
\* the stored row count is the number of stored rows (between calls)
SizeLineInv == (disk.exists /\ HasHeader(disk.cells)) => SizeOf(disk.cells) = Len(disk.cells) - HdrLen
\* ... in particular once no handle is open any more, however the last one went (close or drop)
SizeAfterInv == (~sf.open /\ disk.exists /\ HasHeader(disk.cells)) => SizeOf(disk.cells) = Len(disk.cells) - HdrLen

\* the three row counts of an open handle agree with the file: SFile._size, Recfile.nrows, Records::mNrows
CacheInv == (sf.open /\ sf.hashdr) => /\ HasHeader(disk.cells)
                                      /\ sf.size = SizeOf(disk.cells)
                                      /\ sf.rfn = sf.size
                                      /\ sf.descr = MetaOf(disk.cells).descr /\ sf.delim = MetaOf(disk.cells).delim
CppCountInv == (sf.open /\ sf.hashdr /\ cpp.rd) => cpp.nrows = Len(disk.cells) - HdrLen
\* an object that is not open knows nothing of the file it had (so that opening it again starts from nothing)
ClosedInv == ~sf.open => sf = NoSf
\* after a write through it the handle's stream is at the end of the file
StreamInv == (sf.open /\ hist # <<>> /\ hist[Len(hist)].op = "hwrite" /\ mres.err = "none") => cpp.pos = Len(disk.cells)

\* every stored row was written with the file's fields and byte order
RowsInv == (disk.exists /\ HasHeader(disk.cells)) =>
              \A i \in 1..(Len(disk.cells) - HdrLen) : RowTok(disk.cells[HdrLen + i], MetaOf(disk.cells).descr) # 0

\* the in-place rewrite of the row count changes no cell outside the SIZE line, keeps the length of the file and the
\* data offset, for every count that can be written (stated on the operator, for every reachable file)
RewriteInv == (disk.exists /\ HasHeader(disk.cells)) =>
    \A n \in {0, 1, 9, 10, 11, 99, 100, 12345} :
       LET c2 == UpdateRowCount(disk.cells, n) IN
       /\ Len(c2) = Len(disk.cells)
       /\ \A i \in (SizeLineLen + 1)..Len(c2) : c2[i] = disk.cells[i]
       /\ HasHeader(c2) /\ SizeOf(c2) = n

\* a step that is not a truncating open / non-append write never changes a cell outside the SIZE line and only appends
AppendOnly ==
    [][(disk.exists /\ HasHeader(disk.cells) /\ disk'.cells # <<>> /\ hist'[Len(hist')].op \notin {"write"})
          => /\ Len(disk'.cells) >= Len(disk.cells)
             /\ \A i \in (SizeLineLen + 1)..Len(disk.cells) : disk'.cells[i] = disk.cells[i]]_mvars

\* ---- export --------------------------------------------------------------------------------------------------------
Bounded == Len(hist) <= MaxDepth
\* transition tour: with VIEW MView the states merge and every generated edge is printed with the breadth-first
\* behaviour of its source
MView == <<disk, sf, cpp, mres>>
Export == (KeepHist /\ hist # <<>> /\ (ExportAt = 0 \/ Len(hist) = ExportAt)) => PrintT(<<"BEH", ToJson(hist)>>)
=============================================================================
