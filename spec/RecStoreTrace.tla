------------------------------- MODULE RecStoreTrace -------------------------------
(* Trace validation for record files (C03): every recorded history of calls on the   *)
(* real esutil is stepped through the actions of RecStore.tla.  One ndjson line per   *)
(* trace:  {"id": k, "ev": [event, ...]}, an event being                               *)
(*   [op, h, p, mode, delim, chunk |-> [descr, rows], hdr,      -- the call             *)
(*    res |-> [err, descr, rows, hdr, size, delim],              -- what it returned     *)
(*    obs |-> <<one [st, delim, hdr, descr, size, rows] per path>>,  -- every file read  *)
(*                                   back through a fresh reader after the call         *)
(*    rawsame |-> <<BOOLEAN per path>>]   -- file bytes identical before/after the call *)
(* The idiom: event l of the trace must be a step of the named RecStore action whose    *)
(* primed variables agree with what was observed (clause by clause, so that a rejected   *)
(* step names the clauses no allowed outcome satisfies).                                  *)
EXTENDS RecStore, Json, IOUtils

VARIABLES blk, tid, l, bad
tvars == <<blk, tid, l, bad>>

Traces == ndJsonDeserialize(IOEnv.TRACE_FILE)
NT == Len(Traces)
BlockSize == 256
NBlocks == (NT + BlockSize - 1) \div BlockSize

Init == blk = 0 /\ tid = 0 /\ l = 0 /\ bad = {} /\ RSInit
PickBlock == blk = 0 /\ tid = 0 /\ \E b \in 1..NBlocks : blk' = b /\ tid' = 0 /\ UNCHANGED <<l, bad, rsvars>>
PickTrace == blk > 0 /\ tid = 0
             /\ \E t \in ((blk - 1) * BlockSize + 1)..VMin2(blk * BlockSize, NT) : tid' = t /\ blk' = blk
             /\ l' = 1 /\ UNCHANGED <<bad, rsvars>>

\* ---- the event as an action of RecStore ---------------------------------------------------
HandleOps == {"hwrite", "hread", "hclose", "hdrop"}
PathOf(e) == IF e.op \in HandleOps THEN handles[e.h].path ELSE e.p

\* the call is one the specification speaks about (its guards hold)
InScope(e) ==
    CASE e.op = "open"      -> e.h \in Handles /\ e.p \in Paths /\ ~OtherOn(e.h, e.p) /\ e.mode \in AllModes
      [] e.op = "hwrite"    -> e.h \in Handles /\ handles[e.h].open /\ handles[e.h].mode # "r"
      [] e.op = "hread"     -> e.h \in Handles /\ handles[e.h].open /\ e.sel \in ReadSels
      [] e.op \in HandleOps -> e.h \in Handles /\ handles[e.h].open
      [] e.op \in {"write", "append"} -> e.p \in Paths /\ ~WriterOn(e.p) /\ Len(e.chunk.rows) >= 1
      [] e.op \in {"read", "readhdr"} -> e.p \in Paths
      [] OTHER -> FALSE

Act(e) ==
    \/ e.op = "open"    /\ Open(e.h, e.p, e.mode, e.delim)
    \/ e.op = "hwrite"  /\ HWrite(e.h, e.chunk, e.hdr)
    \/ e.op = "hread"   /\ HReadSel(e.h, e.sel)
    \/ e.op = "hclose"  /\ HClose(e.h)
    \/ e.op = "hdrop"   /\ HDrop(e.h)
    \/ e.op = "write"   /\ WriteFile(e.p, e.chunk, e.hdr, e.delim)
    \/ e.op = "append"  /\ AppendReopen(e.p, e.chunk, e.hdr, e.delim)
    \/ e.op = "read"    /\ ReadBack(e.p)
    \/ e.op = "readhdr" /\ ReadHeader(e.p)

\* ---- observed = primed variables, clause by clause --------------------------------------
WriterOnNext(q) == \E h \in Handles : handles'[h].open /\ handles'[h].path = q
\* the fresh read-back of path q is constrained: nobody has it open for writing, and it was observed
Seen(e, q)   == ~WriterOnNext(q) /\ e.obs[q].st # "unobserved"
SeenOK(e, q) == Seen(e, q) /\ e.obs[q].st = "ok" /\ files'[q].st = "ok"
\* the call returned data the specification constrains
GotData(e)   == res'.op \in {"read", "readhdr"} /\ Returned(res') /\ e.res.err = "none"

\* the field structure only: the statement is silent on the byte order a reader hands the rows back in (the row
\* tokens are identified by value), C01 decides bit-for-bit fidelity
SameFields(d1, d2) == d1[1] = d2[1]

Clauses == {"unexpected_error", "not_rejected", "read_rows", "read_descr", "read_header", "read_count", "read_delim",
            "file_state", "rows", "stored_count", "header", "descr", "delim", "rejected_bytes_changed"}

Clause(c, e) ==
    CASE c = "unexpected_error" -> res'.err \in {"any", "rejected", "mayreject"} \/ e.res.err = "none"
      [] c = "not_rejected"     -> res'.err \in {"any", "none", "mayreject"} \/ e.res.err # "none"
      [] c = "read_rows"        -> (GotData(e) /\ res'.op = "read") => e.res.rows = res'.rows
      [] c = "read_descr"       -> GotData(e) => SameFields(e.res.descr, res'.descr)      \* ("cols": a column subset)
      [] c = "read_header"      -> GotData(e) => e.res.hdr = res'.hdr
      [] c = "read_count"       -> GotData(e) => e.res.size = res'.size
      [] c = "read_delim"       -> GotData(e) => e.res.delim = res'.delim
      \* a file the statement requires to exist is a readable record file; one nothing was written to is absent.
      \* (What a path looks like after a handle was opened on it and nothing written - "blank" - is not constrained.)
      [] c = "file_state"       -> \A q \in Paths : Seen(e, q) =>
                                      CASE files'[q].st = "ok"      -> e.obs[q].st = "ok"
                                        [] files'[q].st = "missing" -> e.obs[q].st = "missing"
                                        [] OTHER                    -> TRUE
      [] c = "rows"             -> \A q \in Paths : SeenOK(e, q) => e.obs[q].rows = files'[q].rows
      [] c = "stored_count"     -> \A q \in Paths : SeenOK(e, q) => e.obs[q].size = files'[q].size
      [] c = "header"           -> \A q \in Paths : SeenOK(e, q) => e.obs[q].hdr = files'[q].hdr
      [] c = "descr"            -> \A q \in Paths : SeenOK(e, q) => SameFields(e.obs[q].descr, files'[q].descr)
      [] c = "delim"            -> \A q \in Paths : SeenOK(e, q) => e.obs[q].delim = files'[q].delim
      \* "an append whose fields are incompatible ... leaves the file's bytes unchanged"
      [] c = "rejected_bytes_changed" -> (e.op = "append" /\ res'.err = "rejected" /\ files[e.p].st = "ok"
                                            /\ Compat(files[e.p], e.chunk) # "yes") => e.rawsame[e.p]

Matched(e) == Act(e) /\ \A c \in Clauses : Clause(c, e)

\* the clauses no allowed outcome of the action satisfies
Diagnose(e) ==
    LET f == {c \in Clauses : ~ENABLED (Act(e) /\ Clause(c, e))}
    IN {<<"clause", c>> : c \in (IF f = {} THEN {"combination"} ELSE f)}

\* structural class of the failing step (for the signature): state of the file before the call, storage
\* kind, field compatibility of the chunk, mode of the handle
Class(e) ==
    LET p  == PathOf(e)
        f  == files[p]
        dl == IF f.st = "ok" THEN f.delim ELSE IF e.op \in HandleOps THEN handles[e.h].delim ELSE e.delim
    IN {<<"pre", f.st>>, <<"kind", IF dl = "none" THEN "bin" ELSE "txt">>,
        <<"compat", IF f.st = "ok" /\ Len(e.chunk.rows) > 0
                    THEN (IF Compat(f, e.chunk) = "either" THEN "byteorder" ELSE
                          IF Compat(f, e.chunk) = "yes" THEN "same" ELSE "fields_differ")
                    ELSE "na">>,
        <<"mode", IF e.op = "open" THEN e.mode ELSE IF e.op \in HandleOps THEN handles[e.h].mode ELSE "none">>,
        <<"fresh", IF e.op \in HandleOps /\ handles[e.h].fresh THEN "yes" ELSE "no">>}

Step ==
    /\ tid > 0 /\ bad = {} /\ l <= Len(Traces[tid].ev)
    /\ UNCHANGED <<blk, tid>>
    /\ LET e == Traces[tid].ev[l] IN
       IF ~InScope(e)
       THEN /\ bad' = {<<"clause", "out_of_scope">>, <<"step", ToString(l)>>}
            /\ UNCHANGED <<l, rsvars>>
       ELSE \/ /\ Matched(e)
               /\ l' = l + 1 /\ UNCHANGED bad
            \/ /\ ~ENABLED Matched(e)
               /\ bad' = Diagnose(e) \cup Class(e) \cup {<<"step", ToString(l)>>}
               /\ UNCHANGED <<l, rsvars>>

Next == PickBlock \/ PickTrace \/ Step

\* every invariant of RecStore is evaluated at every step of every trace
TraceInv == SizeInv /\ HandleInv /\ ReadInv

Check == /\ TraceInv \/ PrintT(<<"REJECT", ToJson([id |-> Traces[tid].id, failing |-> {<<"clause", "spec_invariant">>}])>>)
         /\ bad # {} => PrintT(<<"REJECT", ToJson([id |-> Traces[tid].id, failing |-> bad])>>)
=============================================================================
