------------------------------- MODULE SFileFormat -------------------------------
(* Character-level model of the self-describing header of esutil's .rec files      *)
(* (C01; the mechanism of DESIGN 4.5), writer and reader side:                       *)
(*                                                                                  *)
(*   writer  sfile.SFile._write_header:                                             *)
(*             "SIZE = %20d" \n pprint.pformat(dict) \n END \n \n   then raw rows   *)
(*   reader  records.cpp read_sfile_header : scan for the terminator, count bytes,  *)
(*             fread that many, data offset = ftell                                 *)
(*           sfile.SFile.read_header : split on \n, SIZE line split on '=',          *)
(*             the dict lines joined by ' ' and eval()ed                            *)
(*                                                                                  *)
(* The reader is written the way the code works (a window scanner, a lexer for       *)
(* Python string literals, a recursive-descent evaluator), NOT as the inverse of the *)
(* writer; SFileFormatMC.tla lets TLC check the refinement obligations                *)
(*     DataStart(Write(h)) = Len(HeaderBytes(h))      ParseDict(lines) = h           *)
(* over header texts built from a token alphabet (END, SIZE, quotes, newline, '=',   *)
(* backslash ...).  Scanner = "END3" is the pinned code (first E,N,D anywhere),      *)
(* "LINE5" the repaired one (a line holding only END).                               *)
(*                                                                                  *)
(* A text is a sequence of one-character strings.  A header value is                 *)
(*     [t |-> "str", s |-> text, items |-> <<>>]                                     *)
(*   | [t |-> "list" | "tuple", s |-> <<>>, items |-> Seq(value)]                    *)
(* and a header a sequence of entries [k |-> text, v |-> value] with distinct keys.  *)
EXTENDS VU

CONSTANTS Scanner,      \* "LINE5" | "END3"
          Width         \* pprint line width (80)

NL == "\n"
SQ == "'"
DQ == "\""
BS == "\\"
SP == " "
T_END  == <<"E", "N", "D">>
T_SIZE == <<"S", "I", "Z", "E">>

\* ---- header words are sequences of tokens; a token stands for these characters -----
TokChars(t) ==
    CASE t = "END"  -> T_END
      [] t = "SIZE" -> T_SIZE
      [] t = "sq"   -> <<SQ>>
      [] t = "dq"   -> <<DQ>>
      [] t = "nl"   -> <<NL>>
      [] t = "eq"   -> <<"=">>
      [] t = "bs"   -> <<BS>>
      [] t = "sp"   -> <<SP>>
      [] OTHER      -> <<t>>            \* a one-character token stands for itself

RECURSIVE WordChars(_)
WordChars(w) == IF w = <<>> THEN <<>> ELSE TokChars(Head(w)) \o WordChars(Tail(w))

\* code points (pprint sorts the dict keys)
Code(ch) ==
    CASE ch = NL -> 10  [] ch = SP -> 32  [] ch = DQ -> 34  [] ch = SQ -> 39  [] ch = "(" -> 40  [] ch = ")" -> 41
      [] ch = "," -> 44 [] ch = "." -> 46 [] ch = "0" -> 48 [] ch = "1" -> 49 [] ch = "2" -> 50 [] ch = "4" -> 52
      [] ch = "8" -> 56 [] ch = ":" -> 58 [] ch = "<" -> 60 [] ch = "=" -> 61 [] ch = ">" -> 62
      [] ch = "D" -> 68 [] ch = "E" -> 69 [] ch = "I" -> 73 [] ch = "N" -> 78 [] ch = "O" -> 79 [] ch = "P" -> 80
      [] ch = "R" -> 82 [] ch = "S" -> 83 [] ch = "T" -> 84 [] ch = "V" -> 86 [] ch = "Y" -> 89 [] ch = "Z" -> 90
      [] ch = "[" -> 91 [] ch = BS -> 92  [] ch = "]" -> 93 [] ch = "_" -> 95 [] ch = "a" -> 97 [] ch = "f" -> 102
      [] ch = "i" -> 105 [] ch = "x" -> 120 [] ch = "{" -> 123 [] ch = "|" -> 124 [] ch = "}" -> 125

RECURSIVE TextLt(_, _)
TextLt(a, b) == IF b = <<>> THEN FALSE
                ELSE IF a = <<>> THEN TRUE
                ELSE IF Code(Head(a)) # Code(Head(b)) THEN Code(Head(a)) < Code(Head(b))
                ELSE TextLt(Tail(a), Tail(b))

StrV(s)   == [t |-> "str",   s |-> s,    items |-> <<>>]
ListV(it) == [t |-> "list",  s |-> <<>>, items |-> it]
TupV(it)  == [t |-> "tuple", s |-> <<>>, items |-> it]

\* ================================ writer =============================================
\* repr() of a str: double quotes iff it holds ' and no ", backslash / newline / the quote escaped
HasCh(s, c) == \E i \in DOMAIN s : s[i] = c
PyQuote(s)  == IF HasCh(s, SQ) /\ ~HasCh(s, DQ) THEN DQ ELSE SQ

RECURSIVE EscBody(_, _)
EscBody(s, q) ==
    IF s = <<>> THEN <<>>
    ELSE LET c == Head(s)
             e == IF c = BS THEN <<BS, BS>> ELSE IF c = NL THEN <<BS, "n">> ELSE IF c = q THEN <<BS, c>> ELSE <<c>>
         IN e \o EscBody(Tail(s), q)

ReprStr(s) == LET q == PyQuote(s) IN <<q>> \o EscBody(s, q) \o <<q>>

RECURSIVE Repr(_), ReprItems(_)
Repr(v) ==
    CASE v.t = "str"   -> ReprStr(v.s)
      [] v.t = "list"  -> <<"[">> \o ReprItems(v.items) \o <<"]">>
      [] v.t = "tuple" -> <<"(">> \o ReprItems(v.items) \o (IF Len(v.items) = 1 THEN <<",">> ELSE <<>>) \o <<")">>
ReprItems(it) ==
    IF it = <<>> THEN <<>>
    ELSE Repr(it[1]) \o (IF Len(it) > 1 THEN <<",", SP>> \o ReprItems(Tail(it)) ELSE <<>>)

\* entries in the order pprint writes them (sorted by key)
RECURSIVE SortEntries(_)
SortEntries(S) ==          \* S: a set of entries with distinct keys
    IF S = {} THEN <<>>
    ELSE LET m == CHOOSE e \in S : \A f \in S \ {e} : TextLt(e.k, f.k)
         IN <<m>> \o SortEntries(S \ {m})

EntryText(e) == ReprStr(e.k) \o <<":", SP>> \o Repr(e.v)

RECURSIVE JoinTexts(_, _)
JoinTexts(ts, sep) == IF ts = <<>> THEN <<>>
                      ELSE IF Len(ts) = 1 THEN ts[1]
                      ELSE ts[1] \o sep \o JoinTexts(Tail(ts), sep)

\* pprint.pformat of the dict: one line when it fits, else one entry per line (indent 1).
\* (Only texts whose single entries fit on a line are modelled - see EntriesFit.)
DictText(es) ==
    LET ets == [i \in DOMAIN es |-> EntryText(es[i])]
        one == <<"{">> \o JoinTexts(ets, <<",", SP>>) \o <<"}">>
    IN IF Len(one) <= Width THEN one
       ELSE <<"{">> \o JoinTexts(ets, <<",", NL, SP>>) \o <<"}">>
EntriesFit(es) == \A i \in DOMAIN es : Len(EntryText(es[i])) + 2 <= Width

DigitCh(d) == CASE d = 0 -> "0" [] d = 1 -> "1" [] d = 2 -> "2" [] d = 3 -> "3" [] d = 4 -> "4"
                [] d = 5 -> "5" [] d = 6 -> "6" [] d = 7 -> "7" [] d = 8 -> "8" [] d = 9 -> "9"
RECURSIVE Digits(_)
Digits(n) == IF n < 10 THEN <<DigitCh(n)>> ELSE Digits(n \div 10) \o <<DigitCh(n % 10)>>
Spaces(k) == [i \in 1..k |-> SP]

\* "SIZE = %20d"
SizeLine(n) == T_SIZE \o <<SP, "=", SP>> \o Spaces(20 - Len(Digits(n))) \o Digits(n)

\* the dict that is written: the user's entries plus _DTYPE and _VERSION
DtypeV(fields) == ListV([i \in DOMAIN fields |-> TupV(<<StrV(fields[i].name), StrV(fields[i].code)>>)])
FullEntries(user, fields) ==
    SortEntries({user[i] : i \in DOMAIN user}
                \cup {[k |-> <<"_", "D", "T", "Y", "P", "E">>, v |-> DtypeV(fields)],
                      [k |-> <<"_", "V", "E", "R", "S", "I", "O", "N">>, v |-> StrV(<<"1", ".", "0">>)]})

\* "\n".join([size_string, hdr_dict_string, "END", "", ""])
HeaderBytes(n, es) == SizeLine(n) \o <<NL>> \o DictText(es) \o <<NL>> \o T_END \o <<NL, NL>>

\* ================================ reader =============================================
\* ---- records.cpp read_sfile_header: a sliding window over fgetc ------------------------
WinLen(sc)  == IF sc = "END3" THEN 3 ELSE 5
Pattern(sc) == IF sc = "END3" THEN T_END ELSE <<NL>> \o T_END \o <<NL>>
AfterMatch(sc) == IF sc = "END3" THEN 2 ELSE 1      \* "count += 2" (newline + blank line) / "count += 1"

RECURSIVE ScanFrom(_, _, _, _)
ScanFrom(file, pos, win, sc) ==                \* pos characters consumed so far
    IF pos = Len(file) THEN [err |-> "eof_before_header_end", count |-> pos]
    ELSE LET w == Tail(win) \o <<file[pos + 1]>>
         IN IF w = Pattern(sc) THEN [err |-> "none", count |-> pos + 1] ELSE ScanFrom(file, pos + 1, w, sc)

\* returns [err, text (the header string), offset (ftell after the fread)]
CppReadSfileHeaderS(file, sc) ==
    LET s == ScanFrom(file, 0, [i \in 1..WinLen(sc) |-> "nul"], sc)
        count == s.count + AfterMatch(sc)
    IN IF s.err # "none" THEN [err |-> s.err, text |-> <<>>, offset |-> 0]
       ELSE IF count > Len(file) THEN [err |-> "short_read", text |-> <<>>, offset |-> 0]
       ELSE [err |-> "none", text |-> SubSeq(file, 1, count), offset |-> count]
CppReadSfileHeader(file) == CppReadSfileHeaderS(file, Scanner)

\* ---- str.split(sep) for a one-character separator -----------------------------------------
FirstIdx(s, c) == IF HasCh(s, c) THEN CHOOSE i \in DOMAIN s : s[i] = c /\ \A j \in 1..(i - 1) : s[j] # c ELSE 0
RECURSIVE SplitOn(_, _)
SplitOn(s, c) == LET i == FirstIdx(s, c)
                 IN IF i = 0 THEN <<s>> ELSE <<SubSeq(s, 1, i - 1)>> \o SplitOn(SubSeq(s, i + 1, Len(s)), c)

RECURSIVE LStrip(_)
LStrip(s) == IF s # <<>> /\ Head(s) \in {SP, NL} THEN LStrip(Tail(s)) ELSE s
RECURSIVE RStrip(_)
RStrip(s) == IF s # <<>> /\ s[Len(s)] \in {SP, NL} THEN RStrip(SubSeq(s, 1, Len(s) - 1)) ELSE s
Strip(s) == RStrip(LStrip(s))

DigitVal(c) == CASE c = "0" -> 0 [] c = "1" -> 1 [] c = "2" -> 2 [] c = "3" -> 3 [] c = "4" -> 4 [] c = "5" -> 5
                 [] c = "6" -> 6 [] c = "7" -> 7 [] c = "8" -> 8 [] c = "9" -> 9 [] OTHER -> -1
RECURSIVE IntOf(_, _)
IntOf(s, acc) == IF s = <<>> THEN acc
                 ELSE IF DigitVal(Head(s)) < 0 THEN -1 ELSE IntOf(Tail(s), 10 * acc + DigitVal(Head(s)))

\* SFile._extract_size_from_string
ExtractSize(line) ==
    LET parts == SplitOn(line, "=")
    IN IF Len(parts) # 2 THEN [err |-> "size_line", size |-> -1]
       ELSE IF Strip(parts[1]) # T_SIZE THEN [err |-> "size_line", size |-> -1]
       ELSE LET d == Strip(parts[2])  n == IF d = <<>> THEN -1 ELSE IntOf(d, 0)
            IN IF n < 0 THEN [err |-> "size_value", size |-> -1] ELSE [err |-> "none", size |-> n]

\* ---- eval(): lexer for the dict text ---------------------------------------------------------
Punct == {"{", "}", "[", "]", "(", ")", ":", ","}
ErrTok == [t |-> "err", s |-> <<>>]

\* body of a string literal opened with quote q; [ok, val, rest]
RECURSIVE LexStr(_, _, _)
LexStr(s, q, acc) ==
    IF s = <<>> THEN [ok |-> FALSE, val |-> <<>>, rest |-> <<>>]                      \* unterminated
    ELSE LET c == Head(s) IN
         IF c = q THEN [ok |-> TRUE, val |-> acc, rest |-> Tail(s)]
         ELSE IF c = NL THEN [ok |-> FALSE, val |-> <<>>, rest |-> <<>>]              \* EOL inside a literal
         ELSE IF c = BS
              THEN IF Len(s) < 2 THEN [ok |-> FALSE, val |-> <<>>, rest |-> <<>>]
                   ELSE LET d == s[2]
                            dec == IF d = "n" THEN <<NL>> ELSE IF d \in {BS, SQ, DQ} THEN <<d>> ELSE <<BS, d>>
                        IN LexStr(SubSeq(s, 3, Len(s)), q, acc \o dec)
              ELSE LexStr(Tail(s), q, acc \o <<c>>)

RECURSIVE Lex(_)
Lex(s) ==
    IF s = <<>> THEN <<>>
    ELSE LET c == Head(s) IN
         IF c = SP THEN Lex(Tail(s))
         ELSE IF c \in Punct THEN <<[t |-> "p", s |-> <<c>>]>> \o Lex(Tail(s))
         ELSE IF c \in {SQ, DQ}
              THEN LET r == LexStr(Tail(s), c, <<>>)
                   IN IF r.ok THEN <<[t |-> "s", s |-> r.val]>> \o Lex(r.rest) ELSE <<ErrTok>>
              ELSE <<ErrTok>>          \* a bare name / number / newline: nothing the writer produces here

IsP(tok, c) == tok.t = "p" /\ tok.s = <<c>>
PFail == [ok |-> FALSE, v |-> StrV(<<>>), items |-> <<>>, rest |-> <<>>, commas |-> 0]

\* adjacent string literals are concatenated
RECURSIVE TakeStrs(_, _)
TakeStrs(ts, acc) == IF ts # <<>> /\ Head(ts).t = "s" THEN TakeStrs(Tail(ts), acc \o Head(ts).s)
                     ELSE [s |-> acc, rest |-> ts]

RECURSIVE PVal(_), PItems(_, _, _, _)
PVal(ts) ==
    IF ts = <<>> THEN PFail
    ELSE LET tk == Head(ts) IN
         IF tk.t = "s" THEN LET r == TakeStrs(ts, <<>>) IN [PFail EXCEPT !.ok = TRUE, !.v = StrV(r.s), !.rest = r.rest]
         ELSE IF IsP(tk, "[")
              THEN LET r == PItems(Tail(ts), "]", <<>>, 0)
                   IN IF r.ok THEN [PFail EXCEPT !.ok = TRUE, !.v = ListV(r.items), !.rest = r.rest] ELSE PFail
         ELSE IF IsP(tk, "(")
              THEN LET r == PItems(Tail(ts), ")", <<>>, 0)
                   IN IF ~r.ok THEN PFail
                      ELSE IF Len(r.items) = 1 /\ r.commas = 0         \* a parenthesised expression, not a tuple
                           THEN [PFail EXCEPT !.ok = TRUE, !.v = r.items[1], !.rest = r.rest]
                           ELSE [PFail EXCEPT !.ok = TRUE, !.v = TupV(r.items), !.rest = r.rest]
         ELSE PFail
PItems(ts, close, acc, nc) ==
    IF ts = <<>> THEN PFail
    ELSE IF IsP(Head(ts), close) THEN [PFail EXCEPT !.ok = TRUE, !.items = acc, !.rest = Tail(ts), !.commas = nc]
    ELSE LET r == PVal(ts) IN
         IF ~r.ok \/ r.rest = <<>> THEN PFail
         ELSE IF IsP(Head(r.rest), ",") THEN PItems(Tail(r.rest), close, acc \o <<r.v>>, nc + 1)
         ELSE IF IsP(Head(r.rest), close)
              THEN [PFail EXCEPT !.ok = TRUE, !.items = acc \o <<r.v>>, !.rest = Tail(r.rest), !.commas = nc]
              ELSE PFail

\* the top-level dict display: { key : value , ... }   -> [ok, ents]
RECURSIVE PEntries(_, _)
PEntries(ts, acc) ==
    IF ts = <<>> THEN [ok |-> FALSE, ents |-> <<>>, rest |-> <<>>]
    ELSE IF IsP(Head(ts), "}") THEN [ok |-> TRUE, ents |-> acc, rest |-> Tail(ts)]
    ELSE LET k == PVal(ts) IN
         IF ~k.ok \/ k.v.t # "str" \/ k.rest = <<>> \/ ~IsP(Head(k.rest), ":") THEN [ok |-> FALSE, ents |-> <<>>, rest |-> <<>>]
         ELSE LET v == PVal(Tail(k.rest)) IN
              IF ~v.ok \/ v.rest = <<>> THEN [ok |-> FALSE, ents |-> <<>>, rest |-> <<>>]
              ELSE LET e == [k |-> k.v.s, v |-> v.v] IN
                   IF IsP(Head(v.rest), ",") THEN PEntries(Tail(v.rest), acc \o <<e>>)
                   ELSE IF IsP(Head(v.rest), "}") THEN [ok |-> TRUE, ents |-> acc \o <<e>>, rest |-> Tail(v.rest)]
                   ELSE [ok |-> FALSE, ents |-> <<>>, rest |-> <<>>]

EvalDict(text) ==
    LET ts == Lex(text) IN
    IF ts = <<>> \/ (\E i \in DOMAIN ts : ts[i] = ErrTok) \/ ~IsP(Head(ts), "{") THEN [err |-> "syntax", ents |-> <<>>]
    ELSE LET r == PEntries(Tail(ts), <<>>)
         IN IF r.ok /\ r.rest = <<>> THEN [err |-> "none", ents |-> r.ents] ELSE [err |-> "syntax", ents |-> <<>>]

\* SFile.read_header on the string the C++ layer returned: [err, size, ents]
ParseHeader(text) ==
    LET lines == SplitOn(text, NL)
        sz == ExtractSize(lines[1])
        dl == IF Len(lines) - 3 >= 2 THEN SubSeq(lines, 2, Len(lines) - 3) ELSE <<>>
        d  == EvalDict(JoinTexts(dl, <<SP>>))
    IN IF sz.err # "none" THEN [err |-> sz.err, size |-> -1, ents |-> <<>>]
       ELSE IF d.err # "none" THEN [err |-> d.err, size |-> sz.size, ents |-> <<>>]
       ELSE [err |-> "none", size |-> sz.size, ents |-> d.ents]

\* ================================ refinement mapping ===================================
AsDict(es) == {<<es[i].k, es[i].v>> : i \in DOMAIN es}
=============================================================================
