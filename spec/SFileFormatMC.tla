------------------------------- MODULE SFileFormatMC -------------------------------
(* Bounded model of the header mechanism of SFileFormat.tla:                          *)
(*  - ChooseKey / ChooseValue / ChooseSecond enumerate every header of the bounded     *)
(*    space: user dicts with one or two keys whose keys and values are words over the  *)
(*    token alphabet (END SIZE ' " \n = \ a), values also as one- and two-level        *)
(*    lists / tuples, x a field name out of {x, END, TREND, SIZE_1} x a row count;     *)
(*    these cases are exported as JSON and executed against the real sfile;            *)
(*  - WriteHeader, ReadSfileHeader, ReadHeader follow the code's steps;                *)
(*  - DataStartRefines / ParseRefines are the refinement obligations of DESIGN C01.    *)
EXTENDS SFileFormat, Json

CONSTANTS Toks,         \* the token alphabet of header words
          KeyLen,       \* keys are words of 0..KeyLen tokens
          ValLen,       \* string values are words of 0..ValLen tokens
          TwoKeys,      \* also dicts with two one-token keys / values
          SecondToks,   \* ... the second value being one of these tokens
          NRows,        \* row counts written into the SIZE line
          DoExport

VARIABLES phase, hc, file, wr, rd
vars == <<phase, hc, file, wr, rd>>

Words(n) == UNION {[1..k -> Toks] : k \in 0..n}

\* a value *specification* (token level; what is exported): same shape as a value, words instead of texts
SStr(w)   == [t |-> "str",   w |-> w,    items |-> <<>>]
SList(it) == [t |-> "list",  w |-> <<>>, items |-> it]
STup(it)  == [t |-> "tuple", w |-> <<>>, items |-> it]
RECURSIVE ToV(_)
ToV(sp) == IF sp.t = "str" THEN StrV(WordChars(sp.w))
           ELSE [t |-> sp.t, s |-> <<>>, items |-> [i \in DOMAIN sp.items |-> ToV(sp.items[i])]]

\* nested forms over one-token words
Nested ==
    LET W1 == {<<t>> : t \in Toks} IN
    {SList(<<>>), STup(<<>>)}
    \cup {STup(<<SStr(a)>>) : a \in W1}
    \cup {SList(<<SStr(a), SStr(b)>>) : a \in W1, b \in {<<"END">>, <<"sq">>, <<"nl">>}}
    \cup {SList(<<STup(<<SStr(a), SStr(<<"dq">>)>>)>>) : a \in W1}

FieldNames == {<<"x">>, <<"END">>, <<"T", "R", "END">>, <<"SIZE", "_", "1">>}
F8 == <<"<", "f", "8">>
I4 == <<">", "i", "4">>

NoCase == [n |-> 0, name |-> <<>>, ents |-> <<>>]
NoRd   == [err |-> "none", offset |-> 0, size |-> -1, ents |-> <<>>, text |-> <<>>]
NoWr   == [hdr |-> <<>>, ents |-> <<>>]          \* what the writer produced: header text, the dict it wrote

Init == phase = "start" /\ hc = NoCase /\ file = <<>> /\ wr = NoWr /\ rd = NoRd

ChooseKey ==
    /\ phase = "start"
    /\ \E k \in Words(KeyLen), nm \in FieldNames, n \in NRows :
          hc' = [n |-> n, name |-> nm, ents |-> <<[k |-> k, v |-> SStr(<<>>)]>>]
    /\ phase' = "key" /\ UNCHANGED <<file, wr, rd>>

ChooseValue ==
    /\ phase = "key"
    /\ \E v \in {SStr(w) : w \in Words(ValLen)} \cup Nested :
          hc' = [hc EXCEPT !.ents[1].v = v]
    /\ phase' = "case" /\ UNCHANGED <<file, wr, rd>>

\* a second entry: one-token or empty key (different from the first), one-token string value
ChooseSecond ==
    /\ TwoKeys /\ phase = "case" /\ Len(hc.ents) = 1 /\ Len(hc.ents[1].k) <= 1 /\ hc.name = <<"x">>
    /\ hc.ents[1].v.t = "str" /\ Len(hc.ents[1].v.w) <= 1
    /\ \E k \in Words(1), w \in {<<t>> : t \in SecondToks} :
          /\ WordChars(k) # WordChars(hc.ents[1].k)
          /\ hc' = [hc EXCEPT !.ents = @ \o <<[k |-> k, v |-> SStr(w)]>>]
    /\ UNCHANGED <<phase, file, wr, rd>>

\* ---- the texts of the case ---------------------------------------------------------------
UserEntries == [i \in DOMAIN hc.ents |-> [k |-> WordChars(hc.ents[i].k), v |-> ToV(hc.ents[i].v)]]
Fields      == <<[name |-> WordChars(hc.name), code |-> F8], [name |-> <<"i">>, code |-> I4]>>
Entries     == FullEntries(UserEntries, Fields)
Header      == HeaderBytes(hc.n, Entries)
\* the rows: opaque bytes that happen to look like the end of a header
Data        == <<NL>> \o T_END \o <<NL, NL, "d", "E", "N", "D">>

Modelled == EntriesFit(Entries)           \* pprint wraps between entries only

\* SFile._write_header + Recfile.write
WriteHeader ==
    /\ phase = "case"
    /\ LET es == Entries IN
         /\ EntriesFit(es)
         /\ LET h == HeaderBytes(hc.n, es) IN file' = h \o Data /\ wr' = [hdr |-> h, ents |-> es]
    /\ phase' = "written" /\ UNCHANGED <<hc, rd>>

\* records.cpp read_sfile_header
ReadSfileHeader ==
    /\ phase = "written"
    /\ LET r == CppReadSfileHeader(file) IN rd' = [NoRd EXCEPT !.err = r.err, !.offset = r.offset, !.text = r.text]
    /\ phase' = "scanned" /\ UNCHANGED <<hc, file, wr>>

\* SFile.read_header (split, SIZE line, eval)
ReadHeader ==
    /\ phase = "scanned"
    /\ IF rd.err # "none" THEN rd' = rd
       ELSE LET p == ParseHeader(rd.text) IN rd' = [rd EXCEPT !.err = p.err, !.size = p.size, !.ents = p.ents]
    /\ phase' = "done" /\ UNCHANGED <<hc, file, wr>>

Next == ChooseKey \/ ChooseValue \/ ChooseSecond \/ WriteHeader \/ ReadSfileHeader \/ ReadHeader
NextExport == ChooseKey \/ ChooseValue \/ ChooseSecond

Spec == Init /\ [][Next]_vars

\* ---- refinement obligations -------------------------------------------------------------------
\* DataStart(Write(h)) = Len(HeaderBytes(h)): the rows are read from where they were written
DataStartRefines == phase \in {"scanned", "done"} => (rd.offset = Len(wr.hdr) /\ rd.text = wr.hdr)

\* ParseDict(lines) = h, the stored count is the count written
ParseRefines == phase = "done" =>
    /\ rd.err = "none"
    /\ rd.size = hc.n
    /\ AsDict(rd.ents) = AsDict(wr.ents)

\* theorems about the writer: the terminator line occurs exactly once in the header, at its end
RECURSIVE CountAt(_, _, _)
CountAt(s, pat, i) == IF i + Len(pat) - 1 > Len(s) THEN 0
                      ELSE (IF SubSeq(s, i, i + Len(pat) - 1) = pat THEN 1 ELSE 0) + CountAt(s, pat, i + 1)
TerminatorUnique == phase = "written" =>
    /\ CountAt(wr.hdr, <<NL>> \o T_END \o <<NL>>, 1) = 1
    /\ SubSeq(wr.hdr, Len(wr.hdr) - 5, Len(wr.hdr)) = <<NL>> \o T_END \o <<NL, NL>>

\* vacuity: the space really contains headers with END inside (checked by the harness through coverage of
\* WriteHeader and by the END3 self-test, which must violate the obligations)

\* ---- export -----------------------------------------------------------------------------------------
\* hlen: the data offset the writer model predicts (compared with the real file by the harness);
\* pinned_fails: the pinned scanner (first E,N,D anywhere) would not find the rows of this file
Export == (DoExport /\ phase = "case") =>
              LET es == Entries IN
              EntriesFit(es) =>
                 LET h == HeaderBytes(hc.n, es) IN
                 PrintT(<<"HCASE", ToJson([n |-> hc.n, name |-> hc.name, ents |-> hc.ents, hlen |-> Len(h),
                                           pinned_fails |-> CppReadSfileHeaderS(h \o Data, "END3").offset # Len(h)])>>)
=============================================================================
