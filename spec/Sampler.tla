------------------------------- MODULE Sampler -------------------------------
(* Property-level specification of the esutil samplers (property C19) and the     *)
(* implementation-shaped mechanisms behind them.                                  *)
(*                                                                                *)
(*  1. inverse-CDF sampling of a tabulated / functional density                   *)
(*     (esutil.random.Generator, method 'accum'): exact rationals over an integer *)
(*     lattice of abscissae and densities;                                        *)
(*  2. Cholesky sampling (CholeskySampler / cholesky_sample) over integer lower-  *)
(*     triangular factors L0 (Sigma = L0 L0^T, DESIGN 4.1) and recorded deviates; *)
(*  3. random index selection (random_indices);                                   *)
(*  4. longitude/latitude boxes (coords.randsphere) and                           *)
(*  5. spherical caps (coords.randcap) on the great-circle lattice of Sphere.tla: *)
(*     eps-angles <<a,b>> = a + b*eps degrees, exact separations SepGC.           *)
(*                                                                                *)
(* The module is definitional.  SamplerMC.tla enumerates the bounded spaces,      *)
(* checks the theorems and runs the mechanisms as actions; SamplerTrace.tla       *)
(* judges what the real code returned.  Every acceptance operator returns the     *)
(* set of names of the clauses an observation violates ({} = accepted).  Names    *)
(* that start with "lead_" are mechanism-level expectations the property          *)
(* statement does not demand (reported as leads, never as violations).            *)
(*                                                                                *)
(* Observed reals are projected by the adapter (DESIGN 4.2):                      *)
(*   rational lattice : [k |-> "rat", n, d] | [k |-> "off"|"nan", ...]            *)
(*   eps-angle lattice: [on |-> BOOLEAN, a, blo, bhi]  (a + b*eps, blo<=b<=bhi    *)
(*                       are the lattice values within tolerance of the number)   *)
EXTENDS Sphere

\* ==================================================================================
\* 0. helpers
\* ==================================================================================
QObsEq(r, e)  == r.k = "rat" /\ r.n = e[1] /\ r.d = e[2]            \* e normalised <<n,d>>
QObsIn(r, E)  == \E e \in E : QObsEq(r, e)
QObsRat(r)    == <<r.n, r.d>>
QProjHas(pr, e) == pr.on /\ pr.a = e[1] /\ pr.blo <= e[2] /\ e[2] <= pr.bhi
QProjLe(pr, e)  == pr.on /\ ELe(<<pr.a, pr.blo>>, e)                \* some projected value <= e
QProjMeet(p1, p2) == p1.on /\ p2.on /\ p1.a = p2.a /\ p1.blo <= p2.bhi /\ p2.blo <= p1.bhi
QCount(s, v)  == Cardinality({i \in DOMAIN s : s[i] = v})
QSameBag(s, t) == Len(s) = Len(t) /\ \A v \in VRange(s) \cup VRange(t) : QCount(s, v) = QCount(t, v)
QFlatten(ss)  == LET RECURSIVE go(_)
                     go(k) == IF k > Len(ss) THEN <<>> ELSE ss[k] \o go(k + 1)
                 IN go(1)

\* ==================================================================================
\* 1. inverse-CDF sampler
\*    case  c = [kind : "density" | "cumulative", x : Seq(Int) strictly increasing,
\*               p : Seq(Nat), us : Seq(<<n,d>>)]
\*    kind "density"   : p are NON-NEGATIVE density values, not all zero (zeros make flat
\*                       stretches of the cumulative distribution).  The tabulated
\*                       cumulative distribution has one value per grid node 2..m (the
\*                       trapezoid rule has no integral at the first node).
\*    kind "cumulative": p is the accumulated distribution itself (cumulative=True), non-
\*                       decreasing with p[m] > 0; every node 1..m is tabulated.
\*    Either way the sampler interpolates a TABLE  t = [xs, cs]: abscissae xs (strictly
\*    increasing) against normalised cumulative values cs (NON-strictly increasing,
\*    cs[last] = 1).  The "first tabulated cumulative value" of the statement is cs[1].
\*
\*    What the statement demands where the table is flat (cs[k1] = ... = cs[k2] = f):
\*      u = f  : "grid points are returned exactly where u equals their cumulative
\*               value" - several grid points share f, any of xs[k1..k2] is acceptable;
\*      u > f  : (strictly) the linear interpolation runs from the RIGHT end xs[k2] of the
\*               flat stretch to the next node; u < f: it ends at the LEFT end xs[k1].
\*    The nondeterminism is confined to the tie (SmpThmWellDefined, SmpThmBracket).
\* ==================================================================================
RECURSIVE SmpArea2(_, _, _)                     \* twice the trapezoid area up to node k
SmpArea2(x, p, k) == IF k <= 1 THEN 0 ELSE SmpArea2(x, p, k - 1) + (x[k] - x[k - 1]) * (p[k] + p[k - 1])
SmpCum(x, p, k)   == RNorm(SmpArea2(x, p, k), SmpArea2(x, p, Len(x)))       \* k \in 2..Len(x)
SmpValid(c) == /\ Len(c.x) = Len(c.p) /\ Len(c.x) >= 2
               /\ \A k \in 1..(Len(c.x) - 1) : c.x[k] < c.x[k + 1]
               /\ \A k \in DOMAIN c.p : c.p[k] >= 0
               /\ IF c.kind = "density" THEN \E k \in DOMAIN c.p : c.p[k] > 0
                  ELSE c.p[Len(c.p)] > 0 /\ \A k \in 1..(Len(c.p) - 1) : c.p[k] <= c.p[k + 1]
\* the table; sh = 0 always at the property level (sh = 1: off-by-one abscissae of a mechanism variant)
SmpTable(c, sh) ==
    LET m == Len(c.x) IN
    IF c.kind = "density"
    THEN [xs |-> [k \in 1..(m - 1) |-> c.x[k + 1 - sh]], cs |-> [k \in 1..(m - 1) |-> SmpCum(c.x, c.p, k + 1)]]
    ELSE [xs |-> c.x, cs |-> [k \in 1..m |-> RNorm(c.p[k], c.p[m])]]
SmpTN(t) == Len(t.xs)
\* fewer than two distinct tabulated values: nothing to interpolate, the statement is silent
SmpDegenerate(t) == SmpTN(t) < 2 \/ t.cs[1] = t.cs[SmpTN(t)]

\* the straight line through the tabulated nodes k, k+1 (cs[k] < cs[k+1]) evaluated at u
SmpLine(t, k, u) ==
    RAdd(RInt(t.xs[k]), RDiv(RMul(RSub(u, t.cs[k]), RInt(t.xs[k + 1] - t.xs[k])), RSub(t.cs[k + 1], t.cs[k])))
\* non-flat segments of the table that contain u
SmpSegs(t, u) == {k \in 1..(SmpTN(t) - 1) : RLt(t.cs[k], t.cs[k + 1]) /\ RLe(t.cs[k], u) /\ RLe(u, t.cs[k + 1])}
\* grid nodes whose cumulative value is u
SmpTies(t, u) == {k \in 1..SmpTN(t) : t.cs[k] = u}
\* the values the statement allows at u
SmpVals(t, u) == {SmpLine(t, k, u) : k \in SmpSegs(t, u)} \cup {RInt(t.xs[k]) : k \in SmpTies(t, u)}
\* the statement constrains the value for u at or above the first tabulated value (and <= 1)
SmpConstrained(t, u) == ~SmpDegenerate(t) /\ RLe(t.cs[1], u) /\ RLe(u, RInt(1))

\* theorems about the definition (checked on every enumerated table in SamplerMC)
SmpThmTable(t) == /\ \A k \in 1..(SmpTN(t) - 1) : RLe(t.cs[k], t.cs[k + 1]) /\ t.xs[k] < t.xs[k + 1]
                  /\ RLe(RInt(0), t.cs[1]) /\ t.cs[SmpTN(t)] = RInt(1)
\* a single value, except at a tie of two or more grid nodes where exactly those nodes are allowed
SmpThmWellDefined(t, u) == SmpConstrained(t, u) =>
    \/ Cardinality(SmpVals(t, u)) = 1
    \/ Cardinality(SmpTies(t, u)) >= 2 /\ SmpVals(t, u) = {RInt(t.xs[k]) : k \in SmpTies(t, u)}
SmpThmGridPoint(t) == ~SmpDegenerate(t) => \A k \in 1..SmpTN(t) : RInt(t.xs[k]) \in SmpVals(t, t.cs[k])
SmpThmInGrid(t, u) == SmpConstrained(t, u) =>
    \A v \in SmpVals(t, u) : RLe(RInt(t.xs[1]), v) /\ RLe(v, RInt(t.xs[SmpTN(t)]))
\* every node at or below u bounds the value from below, every node at or above u from above,
\* strictly off the tie: just above a flat stretch the value starts at its RIGHT end
SmpThmBracket(t, u) == SmpConstrained(t, u) => \A v \in SmpVals(t, u) : \A k \in 1..SmpTN(t) :
    /\ RLt(t.cs[k], u) => RLe(RInt(t.xs[k]), v)
    /\ RLt(u, t.cs[k]) => RLe(v, RInt(t.xs[k]))
SmpThmMonotone(t, u1, u2) == (SmpConstrained(t, u1) /\ SmpConstrained(t, u2) /\ RLt(u1, u2)) =>
    \A v1 \in SmpVals(t, u1), v2 \in SmpVals(t, u2) : RLe(v1, v2)

\* mechanism (Generator.initialize_* + stat.interplin on the arrays xvals, pcum):
\*   xm = searchsorted(pcum, u, side='left') - 1 clamped to [0, size-2]; value = line through
\*   nodes xm, xm+1.  A zero-width segment divides by zero: nan (0/0) or +-inf.
\*   Dedup = "none"         : the arrays as tabulated (the code)
\*           "unique_first" : numpy.unique(pcum, return_index=True) - keeps the LEFT end of every
\*                            flat stretch (a deviating variant: interpolates across the gap)
\*           "lead_last"    : drop the leading nodes that share the first value except the last
\*                            (the repair of the 0/0 at a leading flat stretch)
SmpKeep(t, Dedup) ==
    LET n == SmpTN(t) IN
    IF Dedup = "unique_first" THEN {k \in 1..n : k = 1 \/ t.cs[k] # t.cs[k - 1]}
    ELSE IF Dedup = "lead_last" THEN {k \in 1..n : k = n \/ t.cs[k + 1] # t.cs[1] \/ t.cs[k] # t.cs[1]}
    ELSE 1..n
SmpDedup(t, Dedup) == LET idx == VSortSet(SmpKeep(t, Dedup))
                      IN [xs |-> [k \in DOMAIN idx |-> t.xs[idx[k]]], cs |-> [k \in DOMAIN idx |-> t.cs[idx[k]]]]
SmpSearch(t, u) == Cardinality({j \in 1..SmpTN(t) : RLt(t.cs[j], u)})          \* side='left'
SmpClamp(t, xm0) == LET n == SmpTN(t)
                        a == IF xm0 >= n - 1 THEN n - 2 ELSE xm0
                    IN IF a < 0 THEN 0 ELSE a
SmpMechEval(t, u, xm) ==
    LET k == xm + 1 IN
    IF SmpTN(t) < 2 THEN Err("IndexError")
    ELSE IF t.cs[k] = t.cs[k + 1] THEN (IF u = t.cs[k] THEN Err("nan") ELSE Err("inf"))
    ELSE Ok(RAdd(RMul(RSub(u, t.cs[k]), RDiv(RInt(t.xs[k + 1] - t.xs[k]), RSub(t.cs[k + 1], t.cs[k]))), RInt(t.xs[k])))
\* the one place where the code as it stands leaves the statement: u equal to the first
\* tabulated value when that value is shared by the first two nodes (0/0 -> nan)
SmpLeadingTie(t, u) == SmpTN(t) >= 2 /\ u = t.cs[1] /\ t.cs[1] = t.cs[2]
\* the right end of the leading stretch of nodes that share the first tabulated value: below
\* that value the statement only asks for a non-decreasing map, i.e. a value <= xs[SmpLeadRight]
SmpLeadRight(t) == VSetMax({k \in 1..SmpTN(t) : t.cs[k] = t.cs[1]})

\* acceptance --------------------------------------------------------------------------
\* o = [err, cnt : Int, v : Seq(obs), ing : Seq(BOOLEAN), nb : Seq(Int), mono : Seq(BOOLEAN)]
\*   ing[q]  : the returned value lies within the tabulated grid [xs[1], xs[last]] (to rounding)
\*   nb[q]   : how many tabulated abscissae lie below the returned value (beyond rounding); -1 = nan
\*   mono[q] : value q <= value q+1 (to rounding); us is sorted ascending
SmpFailingAt(c, o, q) ==
    LET u == c.us[q]  t == SmpTable(c, 0) IN
    IF SmpConstrained(t, u)
    THEN (IF QObsIn(o.v[q], SmpVals(t, u)) THEN {}
          ELSE IF SmpTies(t, u) # {} THEN {"grid_point"} ELSE {"interp_value"})
         \cup (IF o.ing[q] THEN {} ELSE {"in_grid"})
    ELSE IF ~SmpDegenerate(t) /\ RLt(u, t.cs[1]) THEN (IF o.nb[q] >= 0 /\ o.nb[q] < SmpLeadRight(t) THEN {} ELSE {"monotone_below_first"})
    ELSE {}
SmpFailing(c, o) ==
    IF ~SmpValid(c) THEN {"malformed_case"}
    ELSE IF o.err # "none" THEN (IF SmpDegenerate(SmpTable(c, 0)) THEN {} ELSE {"unexpected_error"})
    ELSE IF o.cnt # Len(c.us) \/ Len(o.v) # Len(c.us) THEN {"count"}
    ELSE UNION {SmpFailingAt(c, o, q) : q \in DOMAIN c.us}
         \cup (IF SmpDegenerate(SmpTable(c, 0)) \/ \A q \in DOMAIN o.mono : o.mono[q] THEN {} ELSE {"monotone"})

\* seeded real generators: the deviates are generic doubles, classified by the adapter
\* against the exported first cumulative value: uc = "tab" (above it), "below", "edge"
\* o = [err, cnt, n, pts : Seq([uc, ing, nb]), mono, repro : BOOLEAN]
SmpRealFailing(c, o) ==
    IF ~SmpValid(c) THEN {"malformed_case"}
    ELSE IF SmpDegenerate(SmpTable(c, 0)) THEN {}
    ELSE IF o.err # "none" THEN {"unexpected_error"}
    ELSE (IF o.cnt = c.n /\ Len(o.pts) = c.n THEN {} ELSE {"count"})
         \cup (IF \A q \in DOMAIN o.pts : o.pts[q].uc = "tab" => o.pts[q].ing THEN {} ELSE {"in_grid"})
         \cup (IF \A q \in DOMAIN o.pts : o.pts[q].uc = "below" => (o.pts[q].nb >= 0 /\ o.pts[q].nb < SmpLeadRight(SmpTable(c, 0))) THEN {} ELSE {"monotone_below_first"})
         \cup (IF o.mono THEN {} ELSE {"monotone"})
         \cup (IF o.repro THEN {} ELSE {"reproducible"})

\* ==================================================================================
\* 2. Cholesky sampler
\*    case c = [mean : Seq(Int), L : Seq(Seq(Int)), sigma : Seq(Seq(Int)), n : Int]
\*    entry point of an observation: "class" | "class_scalar" (sample() without a count:
\*    one sample, 1-d) | "func" | "func_nomean" (cholesky_sample without means: zero mean)
\* ==================================================================================
CholN(L)       == Len(L)
CholLowerOK(L) == /\ \A i \in DOMAIN L : Len(L[i]) = Len(L) /\ L[i][i] > 0
                  /\ \A i, j \in DOMAIN L : j > i => L[i][j] = 0
CholSigma(L)   == [i \in DOMAIN L |-> [j \in DOMAIN L |-> VSumF(LAMBDA k : L[i][k] * L[j][k], DOMAIN L)]]
CholApply(mean, L, zv) == [i \in DOMAIN L |-> mean[i] + VSumF(LAMBDA k : L[i][k] * zv[k], 1..i)]
CholMeanOf(c, entry) == IF entry = "func_nomean" THEN [i \in DOMAIN c.L |-> 0] ELSE c.mean

\* forward substitution: the unique rational vector zv with mean + L zv = s
CholSolve(mean, L, s) ==
    LET n == Len(L)
        RECURSIVE go(_, _)
        go(i, acc) == IF i > n THEN acc
                      ELSE LET r == RSub(RSub(s[i], RInt(mean[i])),
                                         RSum([k \in 1..(i - 1) |-> RMul(RInt(L[i][k]), acc[k])]))
                           IN go(i + 1, acc \o <<RDiv(r, RInt(L[i][i]))>>)
    IN go(1, <<>>)

\* integer Cholesky factorisation, one column per step (numpy.linalg.cholesky on the
\* lattice): state = matrix of finished columns; -1 marks "not a perfect square"
CholIsqrt(v) == IF v < 0 THEN -1 ELSE
                LET S == {r \in 0..v : r * r = v} IN IF S = {} THEN -1 ELSE CHOOSE r \in S : TRUE
CholFactorStep(sig, F, j) ==       \* fill column j of F (columns < j finished)
    LET n   == Len(sig)
        djj == CholIsqrt(sig[j][j] - VSumF(LAMBDA k : F[j][k] * F[j][k], 1..(j - 1)))
    IN [i \in 1..n |-> [m \in 1..n |->
          IF m # j THEN F[i][m]
          ELSE IF i < j THEN 0
          ELSE IF i = j THEN djj
          ELSE IF djj <= 0 THEN 0
          ELSE (sig[i][j] - VSumF(LAMBDA k : F[i][k] * F[j][k], 1..(j - 1))) \div djj]]
CholZeroMat(n) == [i \in 1..n |-> [m \in 1..n |-> 0]]

\* mechanism (CholeskySampler.sample): r = dist(npar*n).reshape(npar, n); V = M r; V[i] += mean[i]; V.T
\*   Transposed = TRUE multiplies by M^T instead (self-test of the refinement check)
CholMech(mean, L, z, n, Transposed) ==
    [j \in 1..n |-> [i \in DOMAIN L |->
        mean[i] + VSumF(LAMBDA k : (IF Transposed THEN L[k][i] ELSE L[i][k]) * z[(k - 1) * n + j], DOMAIN L)]]

\* SCALE COVARIANCE (class M: thresholds in the middle of the value range).  The statement is
\* homogeneous: the factor of k^2 Sigma is k L and, with the mean scaled alike,
\*     samples(k^2 Sigma, k mean, z) - k mean = k (samples(Sigma, mean, z) - mean)
\* for every scale k, so a lattice case transported to ANY scale 2^-40 .. 2^40 is judged by the same
\* exact lattice value (the adapter divides by the scale, a power of two: exact).  TLC checks the law
\* on the integer-Cholesky scope for integer k; a factorisation with a shortcut under an ABSOLUTE
\* tolerance (DiagTol > 0: 'diagonal fast path' when every off-diagonal |Sigma[i][j]| <= DiagTol)
\* violates it - the faithful one (DiagTol = 0: the shortcut only for exactly diagonal matrices) does not.
CholScaleL(L, k) == [i \in DOMAIN L |-> [j \in DOMAIN L |-> k * L[i][j]]]
CholScaleV(v, k) == [i \in DOMAIN v |-> k * v[i]]
CholAbs(v) == IF v < 0 THEN -v ELSE v
CholFactorFull(sig) ==
    LET RECURSIVE go(_, _)
        go(F, j) == IF j > Len(sig) THEN F ELSE go(CholFactorStep(sig, F, j), j + 1)
    IN go(CholZeroMat(Len(sig)), 1)
CholFactorMech(sig, DiagTol) ==
    IF \A i, j \in DOMAIN sig : i # j => CholAbs(sig[i][j]) <= DiagTol
    THEN [i \in DOMAIN sig |-> [j \in DOMAIN sig |-> IF i = j THEN CholIsqrt(sig[i][i]) ELSE 0]]
    ELSE CholFactorFull(sig)
CholThmScale(c, k, DiagTol) ==
    LET F1 == CholFactorMech(c.sigma, DiagTol)
        Fk == CholFactorMech(CholSigma(CholScaleL(c.L, k)), DiagTol)
        z  == SubSeq(c.pool, 1, CholN(c.L) * c.n)
        s1 == CholMech(c.mean, F1, z, c.n, FALSE)
        sk == CholMech(CholScaleV(c.mean, k), Fk, z, c.n, FALSE)
    IN /\ Fk = CholScaleL(F1, k)
       /\ \A j \in DOMAIN s1 : \A i \in DOMAIN s1[j] : sk[j][i] - k * c.mean[i] = k * (s1[j][i] - c.mean[i])

\* The documented layout is one sample per row, (n, npar); the statement does not fix the
\* orientation, so the transposed layout is accepted as well (and a 1 x npar array for the
\* call without a count).
CholShapes(c, entry) == LET np == CholN(c.L) IN
    IF entry = "class_scalar" THEN {<<np>>, <<1, np>>, <<np, 1>>} ELSE {<<c.n, np>>, <<np, c.n>>}
CholTranspose(s) == [i \in 1..Len(s[1]) |-> [j \in 1..Len(s) |-> s[j][i]]]
\* o = [entry, err, shape : Seq(Int), s : Seq(Seq(obs)) (the array as returned, 1-d = one row), drawn : Seq(Int)]
\* "returns mean plus lower-triangular factor times the standard deviates it drew": every
\* returned sample is mean + L zv and the zv together are exactly the deviates drawn (the
\* statement does not say which deviate goes to which sample: any arrangement is accepted)
CholRowsFailing(c, o, rows) ==
    IF \E j \in DOMAIN rows : \E i \in DOMAIN rows[j] : rows[j][i].k # "rat" THEN {"value_off_lattice"}
    ELSE LET mean   == CholMeanOf(c, o.entry)
             solved == QFlatten([j \in DOMAIN rows |->
                                   CholSolve(mean, c.L, [i \in DOMAIN rows[j] |-> QObsRat(rows[j][i])])])
             drawn  == [k \in DOMAIN o.drawn |-> RInt(o.drawn[k])]
         IN IF QSameBag(solved, drawn) THEN {} ELSE {"mean_plus_factor_times_deviates"}
CholFailing(c, o) ==
    IF c.sigma # CholSigma(c.L) \/ ~CholLowerOK(c.L) THEN {"malformed_case"}
    ELSE IF o.err # "none" THEN {"unexpected_error"}
    ELSE IF o.shape \notin CholShapes(c, o.entry) \/ o.s = <<>> THEN {"shape"}
    ELSE LET cands == {rows \in {o.s, CholTranspose(o.s)} : \A j \in DOMAIN rows : Len(rows[j]) = CholN(c.L)}
         IN IF cands = {} THEN {"shape"}
            ELSE IF \E rows \in cands : CholRowsFailing(c, o, rows) = {} THEN {}
            ELSE UNION {CholRowsFailing(c, o, rows) : rows \in cands}

\* ==================================================================================
\* 3. random index selection:  c = [imax, n : Nat, unique : BOOLEAN]
\*    o = [err, vals, again : Seq(Int)]   (again: a second call with an equal seed)
\* ==================================================================================
IdxValsOK(c, vals) == /\ Len(vals) = c.n
                      /\ \A k \in DOMAIN vals : 0 <= vals[k] /\ vals[k] < c.imax
                      /\ c.unique => Cardinality(VRange(vals)) = Len(vals)
IdxFeasible(c)     == (c.n = 0) \/ (c.imax > 0 /\ (c.unique => c.n <= c.imax))
IdxFailing(c, o) ==
    IF o.err # "none" THEN (IF IdxFeasible(c) /\ c.imax > 0 /\ c.n > 0 THEN {"unexpected_error"} ELSE {})
    ELSE (IF Len(o.vals) = c.n THEN {} ELSE {"count"})
         \cup (IF \A k \in DOMAIN o.vals : 0 <= o.vals[k] /\ o.vals[k] < c.imax THEN {} ELSE {"range"})
         \cup (IF c.unique /\ Cardinality(VRange(o.vals)) # Len(o.vals) THEN {"unique"} ELSE {})
         \cup (IF o.vals = o.again THEN {} ELSE {"reproducible"})

\* ==================================================================================
\* 4. longitude/latitude box:  c = [ra0, ra1, dec0, dec1 : eps-angle, n : Nat]
\*    o = [err, cnt : Seq(Int), pts : Seq([lonb, latb, lon360, lat90 : class,
\*          lonv, latv : eps projection]), unit, repro : BOOLEAN]
\*    class = "in" | "lo" | "hi" | "nan"   (box classes to 1e-12 degree, DESIGN section 7)
\* ==================================================================================
BoxValid(c) == /\ ELe(EZero, c.ra0) /\ ELe(c.ra0, c.ra1) /\ ELe(c.ra1, EDeg(360))
               /\ ELe(EDeg(-90), c.dec0) /\ ELe(c.dec0, c.dec1) /\ ELe(c.dec1, EDeg(90))
BoxHas(c, lon, lat) == ELe(c.ra0, lon) /\ ELe(lon, c.ra1) /\ ELe(c.dec0, lat) /\ ELe(lat, c.dec1)
\* a projected coordinate: if it sits on the lattice the exact comparison decides as well
BoxCoordOK(pr, lo, hi) == pr.on => (ELe(lo, <<pr.a, pr.bhi>>) /\ ELe(<<pr.a, pr.blo>>, hi))
BoxFailing(c, o) ==
    IF ~BoxValid(c) THEN {"malformed_case"}
    ELSE IF o.err # "none" THEN {"unexpected_error"}
    ELSE (IF \A k \in DOMAIN o.cnt : o.cnt[k] = c.n THEN {} ELSE {"count"})
         \cup (IF \A q \in DOMAIN o.pts : o.pts[q].lonb = "in" /\ BoxCoordOK(o.pts[q].lonv, c.ra0, c.ra1)
               THEN {} ELSE {"lon_in_box"})
         \cup (IF \A q \in DOMAIN o.pts : o.pts[q].latb = "in" /\ BoxCoordOK(o.pts[q].latv, c.dec0, c.dec1)
               THEN {} ELSE {"lat_in_box"})
         \cup (IF \A q \in DOMAIN o.pts : o.pts[q].lon360 = "in" THEN {} ELSE {"lon_range"})
         \cup (IF \A q \in DOMAIN o.pts : o.pts[q].lat90 = "in" THEN {} ELSE {"lat_range"})
         \cup (IF o.unit THEN {} ELSE {"xyz_not_unit"})
         \cup (IF o.repro THEN {} ELSE {"reproducible"})

\* ==================================================================================
\* 5. spherical cap on the great-circle lattice
\*    centre = GPt(lon, lat);  r : eps-angle with EVEN components (so r/2 is a lattice
\*    value);  radial deviate index ui: 0 -> u1 = 0, 1 -> u1 = 1/4, 2 -> u1 = 1 (the
\*    harness feeds the largest double below 1);  position angle index pi: psi = pi*90 deg
\* ==================================================================================
CapRho(r, ui) == IF ui = 0 THEN EZero ELSE IF ui = 1 THEN <<r[1] \div 2, r[2] \div 2>> ELSE r
CapRadOK(r)   == r[1] % 2 = 0 /\ r[2] % 2 = 0 /\ ELt(EZero, r) /\ ELe(r, EDeg(180))
\* the point at position t along the meridian circle whose front half has longitude lon
CapMer(lon, t) ==
    LET u == ENorm180(t)
    IN IF ELe(EDeg(-90), u) /\ ELe(u, EDeg(90)) THEN GPt(ENorm360(lon), u)
       ELSE IF ELt(EDeg(90), u) THEN GPt(ENorm360(EAdd(lon, EDeg(180))), ESub(EDeg(180), u))
       ELSE GPt(ENorm360(EAdd(lon, EDeg(180))), ESub(EDeg(-180), u))
\* direct path: psi = 0 / 180 move along the centre's meridian (south / north, through the
\* pole when they must); psi = 90 / 270 move along the equator for an equatorial centre
CapDirectDefined(ctr, pi) == pi \in {0, 2} \/ GOnEquator(ctr)
CapDirect(ctr, rho, pi) ==
    CASE pi = 0 -> CapMer(ctr.lon, ESub(ctr.lat, rho))
      [] pi = 2 -> CapMer(ctr.lon, EAdd(ctr.lat, rho))
      [] pi = 1 -> GPt(ENorm360(ESub(ctr.lon, rho)), EZero)
      [] pi = 3 -> GPt(ENorm360(EAdd(ctr.lon, rho)), EZero)
\* rotated path (dorot / polar): draw about (90, 0), turn about the x axis by the centre's
\* latitude, then about the polar axis by lon - 90
CapRotDefined(ctr, pi) == pi \in {0, 2} \/ ctr.lat \in {EZero, EDeg(90), EDeg(-90)}
CapRotTheta(q, th) ==
    IF GIsPole(q) \/ GSameMeridian(q, GPt(EDeg(90), EZero))
    THEN CapMer(EDeg(90), EAdd(GMerPos(q, EDeg(90)), th))             \* slides along the 90/270 circle
    ELSE IF th = EZero THEN q                                           \* (equatorial point)
    ELSE IF th = EDeg(90)  THEN CapMer(EZero, ENorm180(q.lon))
    ELSE CapMer(EZero, ENeg(ENorm180(q.lon)))                           \* th = -90
CapRotPhi(q, dl) == GPt(ENorm360(EAdd(q.lon, dl)), q.lat)
CapRotated(ctr, rho, pi) ==
    CapRotPhi(CapRotTheta(CapDirect(GPt(EDeg(90), EZero), rho, pi), ctr.lat), ESub(ctr.lon, EDeg(90)))
\* which path the code takes: forced, or centre within 0.1 degree of a pole (lattice
\* latitudes are a + b*eps with integer a and |b|*eps < 0.1, so |lat| >= 89.9 iff |a| >= 90)
CapTakesRot(ctr, dorot) == dorot \/ ctr.lat[1] >= 90 \/ ctr.lat[1] <= -90

CapWithin(ctr, q, r) == GDefined(ctr, q) /\ ELe(SepGC(ctr, q), r)

\* theorems (SamplerMC): the drawn point is a lattice point at separation rho <= r from the
\* centre with valid coordinates, and both paths give the same point
CapThmPoint(ctr, r, ui, pi, q) ==
    /\ GValid(q) /\ ELe(EZero, q.lon) /\ ELe(q.lon, EDeg(360))
    /\ GDefined(ctr, q) /\ SepGC(ctr, q) = CapRho(r, ui) /\ CapWithin(ctr, q, r)

\* acceptance -----------------------------------------------------------------------------
\* c = [lon, lat, r : eps-angle, dorot, getrad : BOOLEAN, n : Nat, draws : Seq([ui, pi]) | <<>>]
\* o = [err, cnt : Seq(Int), nret : Int, pts : Seq([lon360, lat90 : class, w : "in"|"edge"|"out"|"nan",
\*       sv : eps projection of the point's separation from the centre,
\*       rq : "eq"|"ne"|"nan"|"none", rv : eps projection of the returned radius]), repro : BOOLEAN]
\*   w  : separation <= r - 1e-9 ("in"), > r + 1e-9 ("out"), else "edge" (unconstrained margin)
\*   rq : |returned radius - separation| <= 1e-9 degree
CapValid(c) == GValid(GPt(c.lon, c.lat)) /\ ELt(EZero, c.r) /\ ELe(c.r, EDeg(180))
CapPtFailing(c, pt) ==
    (IF pt.lon360 = "in" THEN {} ELSE {"lon_range"})
    \cup (IF pt.lat90 = "in" THEN {} ELSE {"lat_range"})
    \cup (IF pt.w \in {"in", "edge"} /\ (pt.sv.on => QProjLe(pt.sv, c.r)) THEN {} ELSE {"within"})
    \cup (IF ~c.getrad THEN {}
          ELSE IF pt.rq = "eq" /\ ((pt.sv.on /\ pt.rv.on) => QProjMeet(pt.sv, pt.rv)) THEN {} ELSE {"radius_eq_sep"})
CapLeads(c, o) ==
    IF c.draws = <<>> \/ Len(o.pts) # Len(c.draws) THEN {}
    ELSE IF \A q \in DOMAIN o.pts : QProjHas(o.pts[q].sv, CapRho(c.r, c.draws[q].ui)) THEN {} ELSE {"lead_sep_is_r_sqrt_u"}
CapFailing(c, o) ==
    IF ~CapValid(c) THEN {"malformed_case"}
    ELSE IF o.err # "none" THEN {"unexpected_error"}
    ELSE (IF o.nret = (IF c.getrad THEN 3 ELSE 2) /\ \A k \in DOMAIN o.cnt : o.cnt[k] = c.n /\ Len(o.pts) = c.n
          THEN {} ELSE {"count"})
         \cup UNION {CapPtFailing(c, o.pts[q]) : q \in DOMAIN o.pts}
         \cup (IF o.repro THEN {} ELSE {"reproducible"})
         \cup CapLeads(c, o)

\* ==================================================================================
\* 6. reproducibility: a generator is (seed, position); a draw of k deviates returns the
\*    next k values of the seed's stream and advances only that generator
\* ==================================================================================
GenNew(seed)     == [seed |-> seed, pos |-> 0]
GenDraw(g, k)    == [out |-> [i \in 1..k |-> <<g.seed, g.pos + i>>], g |-> [g EXCEPT !.pos = @ + k]]

\* ==================================================================================
\* 7. SCALE.  Draws of 10^5 .. 2*10^6 values cannot be enumerated, but every clause about
\*    them is an O(n) predicate that is decided by a small summary, and TLC checks on the
\*    small scope (SamplerMC, family "law") the LAW that makes the summary sufficient:
\*      - index selection: count / range / uniqueness are functions of
\*        (count, min, max, number of distinct values)                    IdxThmSummary
\*      - sky points: every clause is pointwise, so the clauses failing on a sequence are
\*        the union of those failing on the blocks of ANY partition, and a block is
\*        summarised by how many of its points fail each clause            CapThmBlocks
\*      - a map is non-decreasing on the deviates drawn iff, after sorting the (deviate,
\*        value) pairs, consecutive values do not decrease                 SmpThmSorted
\*    The adapter records the summaries (blocks of 2^18 points, aligned with 2^20) of
\*    draws whose sizes sit across and at 2^20 and 2^21; the clauses below judge them.
\* ==================================================================================
IdxSummary(vals) == [cnt |-> Len(vals), min |-> IF vals = <<>> THEN 0 ELSE VSeqMin(vals),
                     max |-> IF vals = <<>> THEN 0 ELSE VSeqMax(vals), nd |-> Cardinality(VRange(vals))]
IdxSumOK(c, s)   == /\ s.cnt = c.n
                    /\ s.cnt > 0 => (0 <= s.min /\ s.max < c.imax)
                    /\ c.unique => s.nd = s.cnt
IdxThmSummary(c, vals) == IdxValsOK(c, vals) <=> IdxSumOK(c, IdxSummary(vals))
\* o = [err, cnt, min, max, nd : Int, repro : BOOLEAN]
IdxScaleFailing(c, o) ==
    IF o.err # "none" THEN (IF IdxFeasible(c) /\ c.imax > 0 /\ c.n > 0 THEN {"unexpected_error"} ELSE {})
    ELSE (IF o.cnt = c.n THEN {} ELSE {"count"})
         \cup (IF o.cnt > 0 /\ ~(0 <= o.min /\ o.max < c.imax) THEN {"range"} ELSE {})
         \cup (IF c.unique /\ o.nd # o.cnt THEN {"unique"} ELSE {})
         \cup (IF o.repro THEN {} ELSE {"reproducible"})

\* blocks of cap points: summary = how many points of the block fail each pointwise clause
CapClauses == {"lon_range", "lat_range", "within", "radius_eq_sep"}
BlkCount(c, pts, cl) == Cardinality({q \in DOMAIN pts : cl \in CapPtFailing(c, pts[q])})
BlkSummary(c, pts) == [n |-> Len(pts), lon_range |-> BlkCount(c, pts, "lon_range"), lat_range |-> BlkCount(c, pts, "lat_range"),
                       within |-> BlkCount(c, pts, "within"), radius_eq_sep |-> BlkCount(c, pts, "radius_eq_sep")]
BlkAdd(a, b) == [n |-> a.n + b.n, lon_range |-> a.lon_range + b.lon_range, lat_range |-> a.lat_range + b.lat_range,
                 within |-> a.within + b.within, radius_eq_sep |-> a.radius_eq_sep + b.radius_eq_sep]
BlkFailing(b) == (IF b.lon_range > 0 THEN {"lon_range"} ELSE {}) \cup (IF b.lat_range > 0 THEN {"lat_range"} ELSE {})
                 \cup (IF b.within > 0 THEN {"within"} ELSE {}) \cup (IF b.radius_eq_sep > 0 THEN {"radius_eq_sep"} ELSE {})
CapThmBlocks(c, pts, k) ==        \* k \in 0..Len(pts): the split point
    LET L == SubSeq(pts, 1, k)  R == SubSeq(pts, k + 1, Len(pts)) IN
    /\ BlkAdd(BlkSummary(c, L), BlkSummary(c, R)) = BlkSummary(c, pts)
    /\ BlkFailing(BlkSummary(c, L)) \cup BlkFailing(BlkSummary(c, R)) = UNION {CapPtFailing(c, pts[q]) : q \in DOMAIN pts}
\* c = [n, getrad], o = [err, nret, cnt : Seq(Int), blocks : Seq(block summary)]
CapScaleFailing(c, o) ==
    IF o.err # "none" THEN {"unexpected_error"}
    ELSE (IF o.nret = (IF c.getrad THEN 3 ELSE 2) /\ (\A k \in DOMAIN o.cnt : o.cnt[k] = c.n)
             /\ VSum([k \in DOMAIN o.blocks |-> o.blocks[k].n]) = c.n THEN {} ELSE {"count"})
         \cup UNION {BlkFailing(o.blocks[k]) : k \in DOMAIN o.blocks}
\* boxes: blocks [n, lon_in_box, lat_in_box, lon_range, lat_range : counts of points failing]
BoxBlkFailing(b) == (IF b.lon_in_box > 0 THEN {"lon_in_box"} ELSE {}) \cup (IF b.lat_in_box > 0 THEN {"lat_in_box"} ELSE {})
                    \cup (IF b.lon_range > 0 THEN {"lon_range"} ELSE {}) \cup (IF b.lat_range > 0 THEN {"lat_range"} ELSE {})
BoxScaleFailing(c, o) ==
    IF o.err # "none" THEN {"unexpected_error"}
    ELSE (IF (\A k \in DOMAIN o.cnt : o.cnt[k] = c.n) /\ VSum([k \in DOMAIN o.blocks |-> o.blocks[k].n]) = c.n
          THEN {} ELSE {"count"})
         \cup UNION {BoxBlkFailing(o.blocks[k]) : k \in DOMAIN o.blocks}
         \cup (IF o.unit THEN {} ELSE {"xyz_not_unit"})
\* monotone map from sorted pairs
SmpPairMonotone(us, vs) == \A i, j \in DOMAIN us : us[i] < us[j] => vs[i] <= vs[j]
SmpSortedMonotone(us, vs) ==
    LET Before(i, j) == us[i] < us[j] \/ (us[i] = us[j] /\ (vs[i] < vs[j] \/ (vs[i] = vs[j] /\ i < j)))
        RECURSIVE go(_)
        go(P) == IF P = {} THEN <<>>
                 ELSE LET mm == CHOOSE i \in P : \A j \in P \ {i} : Before(i, j) IN <<mm>> \o go(P \ {mm})
        perm == go(DOMAIN us)
    IN \A k \in 1..(Len(perm) - 1) : vs[perm[k]] <= vs[perm[k + 1]]
SmpThmSorted(us, vs) == SmpPairMonotone(us, vs) <=> SmpSortedMonotone(us, vs)
\* c = [kind, x, p, n], o = [err, cnt, ingbad, belowbad : Int, mono : BOOLEAN]
\*   ingbad   : deviates above the first tabulated value whose value left the grid
\*   belowbad : deviates below it whose value exceeds the right end of the leading stretch
SmpScaleFailing(c, o) ==
    IF ~SmpValid(c) \/ SmpDegenerate(SmpTable(c, 0)) THEN {"malformed_case"}
    ELSE IF o.err # "none" THEN {"unexpected_error"}
    ELSE (IF o.cnt = c.n THEN {} ELSE {"count"})
         \cup (IF o.ingbad = 0 THEN {} ELSE {"in_grid"})
         \cup (IF o.belowbad = 0 THEN {} ELSE {"monotone_below_first"})
         \cup (IF o.mono THEN {} ELSE {"monotone"})

\* ==================================================================================
\* 8. WORLD / PROCESS STATE (class W).  The outcome of a call depends on its arguments and on
\*    the history of ITS object only - never on what other Generator objects were built or
\*    sampled earlier in the process, nor on what the caller did to the arrays it was handed.
\*    A session over two objects:  sched : Seq of "B1" | "B2" (build the generator of density
\*    pa / pb on the common grid x), "S1" | "S2" (sample it at the deviates us), "X1" | "X2"
\*    (the caller overwrites the array the object's last sample call returned).
\*    case c = [kind, x, pa, pb, us, form, sched]; form = how the density is handed over
\*    ("bound": the same method of two instances, "bound_call": __call__ of two callable objects,
\*    "lambda" / "closure": one code object closing over different parameters, "table": arrays).
\*    Every sample call is judged by the inverse-CDF clauses of section 1 for ITS density:
\*    outcome = outcome in a fresh world (WldFreshWorld in SamplerMC).
\*    Mechanism with a memo of cumulative tables (SamplerMC): MemoKey = "none" (the code: no
\*    memo), "full" (keyed by function AND parameters: faithful), "func_only" (the key drops the
\*    instance / closure parameters: deviating - the second object samples the first one's table).
\* ==================================================================================
WldDens(c, k)  == IF k = 1 THEN c.pa ELSE c.pb
WldCase(c, k)  == [kind |-> c.kind, x |-> c.x, p |-> WldDens(c, k), us |-> c.us]
WldObjOf(st)   == IF st \in {"B1", "S1", "X1"} THEN 1 ELSE 2
WldIsSample(st) == st \in {"S1", "S2"}
WldSamples(sched) == SelectSeq(sched, WldIsSample)
\* a legal session: build before use, scribble only over a result that exists, build once
WldLegal(sched) == \A i \in DOMAIN sched :
    LET k == WldObjOf(sched[i])
        built == \E j \in 1..(i - 1) : sched[j] = (IF k = 1 THEN "B1" ELSE "B2")
        sampled == \E j \in 1..(i - 1) : sched[j] = (IF k = 1 THEN "S1" ELSE "S2")
    IN IF sched[i] \in {"B1", "B2"} THEN ~built ELSE IF WldIsSample(sched[i]) THEN built ELSE sampled
WldKey(form, kind, x, d, MemoKey) == IF MemoKey = "full" THEN <<form, kind, x, d>> ELSE <<form, kind, x>>
\* o = [err, calls : Seq(sampler observation as in section 1)], one per sample step, in order
WldFailing(c, o) ==
    IF ~WldLegal(c.sched) \/ ~SmpValid(WldCase(c, 1)) \/ ~SmpValid(WldCase(c, 2)) THEN {"malformed_case"}
    ELSE IF o.err # "none" THEN {"unexpected_error"}
    ELSE LET ss == WldSamples(c.sched) IN
         IF Len(o.calls) # Len(ss) THEN {"count"}
         ELSE UNION {SmpFailing(WldCase(c, WldObjOf(ss[i])), o.calls[i]) : i \in DOMAIN ss}

\* ==================================================================================
QFailing(op, c, o) ==
    CASE op = "smp"  -> SmpFailing(c, o)
      [] op = "smpr" -> SmpRealFailing(c, o)
      [] op = "chol" -> CholFailing(c, o)
      [] op = "idx"  -> IdxFailing(c, o)
      [] op = "box"  -> BoxFailing(c, o)
      [] op = "cap"  -> CapFailing(c, o)
      [] op = "idxs" -> IdxScaleFailing(c, o)
      [] op = "caps" -> CapScaleFailing(c, o)
      [] op = "boxs" -> BoxScaleFailing(c, o)
      [] op = "smps" -> SmpScaleFailing(c, o)
      [] op = "wld"  -> WldFailing(c, o)
      [] OTHER       -> {"unknown_op"}
=============================================================================
