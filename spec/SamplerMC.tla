------------------------------- MODULE SamplerMC -------------------------------
(* Bounded model for property C19 (Sampler.tla).  Six families, each a little      *)
(* behaviour: a Choose... prefix that enumerates the bounded case space (these     *)
(* states are exported as JSON and replayed into the real code) followed by the    *)
(* implementation-shaped mechanism run as actions; invariants state the theorems   *)
(* of the property-level definitions and that the mechanism refines them.          *)
(*                                                                                *)
(*  smp  : inverse-CDF table (grid x density); MechSearch / MechEval = searchsorted *)
(*         + clamp + line of stat.interplin on xvals = x[1:], pcum                  *)
(*  chol : integer lower-triangular L0; FactorCol (Cholesky column by column) must  *)
(*         return L0 from Sigma = L0 L0^T; Draw / Multiply = reshape(npar,n), M r    *)
(*  idx  : (imax, n, unique); DrawOne builds every outcome of choice(); Reject      *)
(*  cap  : centre x radius x dorot on the great-circle lattice; (u1, psi) deviates; *)
(*         direct path one step, rotated path Inner / TurnTheta / TurnPhi / Finish  *)
(*  box  : corner deviates of a lon/lat box                                         *)
(*  gen  : two seeded generators drawing in any interleaving                        *)
(*  wld  : world machine - two Generator objects of twin densities on one grid built and     *)
(*         sampled in any interleaving, caller scribbling over results; a memo of tables       *)
(*  law  : the summary / block / sorting laws that decide large draws, checked on   *)
(*         every small sequence;  scale : the large cases themselves (export only)  *)
EXTENDS Sampler, Json, SequencesExt

CONSTANTS XVals, MaxNodes, PVals, UDen,     \* smp: abscissae, node count 2..MaxNodes, densities, u = j/UDen
          XShift,                           \* smp mechanism: 0 = code (xvals = x[1:]), 1 = off-by-one variant
          Dedup,                            \* smp mechanism: "none" (code) | "unique_first" | "lead_last" (Sampler.tla)
          SmpKinds,                         \* {"density", "cumulative"}
          LDiag, LOffP, LOffShift, CholMaxN, CholNs, ZSels,   \* chol: diagonal, off-diagonal (+shift), npar, n
          Transposed,                       \* chol mechanism: FALSE = code (M r), TRUE = M^T r variant
          DiagTol, CholScaleKs,             \* chol scale law: absolute tolerance of a 'diagonal fast path' (0 = code), integer scales
          WldGrids, WldPVals, WldForms, WldMaxCalls,   \* wld: common grids (bit masks of abscissae 0..7), density values, hand-over forms, sample calls per session
          MemoKey,                          \* wld mechanism: "none" (code) | "full" | "func_only" (Sampler.tla section 8)
          IdxMax,                           \* idx: imax 0..IdxMax, n 0..IdxMax+1
          CapLonCodes, CapLatCodes, CapRadCodes,   \* cap: eps-angles coded a*16+(b+8), latitude a shifted by 90
          FixedRadius,                      \* cap mechanism: TRUE = radii converted once (repaired code)
          BoxLonCodes, BoxLatCodes,
          GenSeeds, GenMax,
          LawMax, LawLen,                   \* law: index values -1..LawMax, sequences up to LawLen
          ScaleNs, IdxScaleImax, SmpScaleNs, \* scale: numbers of points / index ranges / sampler draws
          Families,                         \* which families to explore
          DoExport

VARIABLES fam, ph, c, m
vars == <<fam, ph, c, m>>

None == [none |-> TRUE]
Init == fam = "start" /\ ph = "start" /\ c = None /\ m = None

EDec(code, shift) == <<(code \div 16) - shift, (code % 16) - 8>>

\* =================================================================================== smp
\* deviates tried: j/UDen, every tabulated value, and a point strictly above every flat stretch
\* (half way to the next larger tabulated value)
SmpUs(t) == SetToSortSeq({RNorm(j, UDen) : j \in 0..UDen} \cup {t.cs[k] : k \in 1..SmpTN(t)}
                         \cup {RDiv(RAdd(t.cs[k], t.cs[k + 1]), RInt(2)) :
                                 k \in {j \in 2..(SmpTN(t) - 1) : t.cs[j - 1] = t.cs[j] /\ RLt(t.cs[j], t.cs[j + 1])}},
                         LAMBDA a, b : RLt(a, b))
RECURSIVE SmpRunSum(_, _)
SmpRunSum(p, k) == IF k = 0 THEN 0 ELSE SmpRunSum(p, k - 1) + p[k]
SmpChooseGrid ==
    /\ fam = "start" /\ "smp" \in Families
    /\ \E S \in SUBSET XVals : Cardinality(S) >= 2 /\ Cardinality(S) <= MaxNodes
          /\ c' = [x |-> VSortSet(S)]
    /\ fam' = "smp" /\ ph' = "grid" /\ UNCHANGED m
\* densities over PVals (0 included: flat stretches); for kind "cumulative" the chosen vector is
\* the sequence of increments of the accumulated distribution
SmpChooseDens ==
    /\ fam = "smp" /\ ph = "grid"
    /\ \E kind \in SmpKinds : \E p \in [1..Len(c.x) -> PVals] :
          LET pp == IF kind = "density" THEN p ELSE [k \in DOMAIN p |-> SmpRunSum(p, k)]
              cc == [kind |-> kind, x |-> c.x, p |-> pp]
          IN IF SmpValid(cc)       \* (a condition, not a conjunct: TLC must not branch on its inner quantifier)
             THEN c' = [kind |-> kind, x |-> c.x, p |-> pp, us |-> SmpUs(SmpTable(cc, 0)), cum |-> SmpTable(cc, 0).cs]
             ELSE FALSE
    /\ ph' = "case" /\ UNCHANGED <<fam, m>>
SmpMechTable == SmpDedup(SmpTable(c, XShift), Dedup)
SmpMechSearch ==
    /\ fam = "smp" /\ ph = "case"
    /\ \E q \in DOMAIN c.us : m' = [u |-> c.us[q], xm |-> SmpSearch(SmpMechTable, c.us[q]) - 1]
    /\ ph' = "searched" /\ UNCHANGED <<fam, c>>
SmpMechEvalStep ==
    /\ fam = "smp" /\ ph = "searched"
    /\ m' = [u |-> m.u, r |-> SmpMechEval(SmpMechTable, m.u, SmpClamp(SmpMechTable, m.xm))]
    /\ ph' = "done" /\ UNCHANGED <<fam, c>>

SmpTheorems == (fam = "smp" /\ ph = "case") =>
    LET t == SmpTable(c, 0) IN
    /\ SmpValid(c) /\ SmpThmTable(t) /\ SmpThmGridPoint(t)
    /\ \A q \in DOMAIN c.us : SmpThmWellDefined(t, c.us[q]) /\ SmpThmInGrid(t, c.us[q]) /\ SmpThmBracket(t, c.us[q])
    /\ \A q \in 1..(Len(c.us) - 1) : SmpThmMonotone(t, c.us[q], c.us[q + 1])
    /\ c.us[1] = RInt(0) /\ c.us[Len(c.us)] = RInt(1)
\* the mechanism returns an allowed value wherever the statement constrains it; the code as it
\* stands (Dedup = "none") is known to produce 0/0 at u = first tabulated value shared by the
\* first two nodes - nowhere else
SmpMechRefines == (fam = "smp" /\ ph = "done") =>
    LET t == SmpTable(c, 0) IN
    /\ SmpConstrained(t, m.u) =>
          \/ (IsOk(m.r) /\ m.r.val \in SmpVals(t, m.u))
          \/ (Dedup = "none" /\ m.r.err = "nan" /\ SmpLeadingTie(t, m.u))
    /\ (~SmpDegenerate(t) /\ RLt(m.u, t.cs[1]) /\ IsOk(m.r)) => RLe(m.r.val, RInt(t.xs[SmpLeadRight(t)]))

\* =================================================================================== chol
CholMeanPat == <<3, -2, 0, 5, -1>>
CholPool(sel, len) == [k \in 1..len |-> IF sel = 1 THEN (IF k % 2 = 0 THEN -k ELSE k)      \* all distinct
                                        ELSE ((k * k + sel) % 4) - 1]                       \* small, repeated
OffCount(n) == (n * (n - 1)) \div 2
\* row-major position of the strictly-lower entry (i, j), j < i
OffIdx(i, j) == ((i - 1) * (i - 2)) \div 2 + j
CholChooseN ==
    /\ fam = "start" /\ "chol" \in Families
    /\ \E n \in 1..CholMaxN : c' = [npar |-> n]
    /\ fam' = "chol" /\ ph' = "n" /\ UNCHANGED m
CholChooseL ==
    /\ fam = "chol" /\ ph = "n"
    /\ \E d \in [1..c.npar -> LDiag] : \E o \in [1..OffCount(c.npar) -> LOffP] : \E n \in CholNs : \E zs \in ZSels :
          LET L == [i \in 1..c.npar |-> [j \in 1..c.npar |->
                       IF j > i THEN 0 ELSE IF j = i THEN d[i] ELSE o[OffIdx(i, j)] - LOffShift]]
          IN c' = [mean |-> SubSeq(CholMeanPat, 1, c.npar), L |-> L, sigma |-> CholSigma(L), n |-> n,
                   pool |-> CholPool(zs, c.npar * n + 4), entry |-> "class"]
    /\ ph' = "case" /\ UNCHANGED <<fam, m>>
CholFactorStart ==
    /\ fam = "chol" /\ ph = "case"
    /\ m' = [F |-> CholZeroMat(CholN(c.L)), j |-> 1]
    /\ ph' = "factor" /\ UNCHANGED <<fam, c>>
CholFactorCol ==
    /\ fam = "chol" /\ ph = "factor" /\ m.j <= CholN(c.L)
    /\ m' = [F |-> CholFactorStep(c.sigma, m.F, m.j), j |-> m.j + 1]
    /\ UNCHANGED <<fam, ph, c>>
CholDraw ==
    /\ fam = "chol" /\ ph = "factor" /\ m.j > CholN(c.L)
    /\ m' = [F |-> m.F, z |-> SubSeq(c.pool, 1, CholN(c.L) * c.n)]
    /\ ph' = "drawn" /\ UNCHANGED <<fam, c>>
CholMultiply ==
    /\ fam = "chol" /\ ph = "drawn"
    /\ m' = [F |-> m.F, z |-> m.z, s |-> CholMech(c.mean, m.F, m.z, c.n, Transposed)]
    /\ ph' = "done" /\ UNCHANGED <<fam, c>>

CholFactorIsL0 == (fam = "chol" /\ ph \in {"drawn", "done"}) => m.F = c.L
CholTheorems == (fam = "chol" /\ ph = "case") =>
    /\ CholLowerOK(c.L)
    /\ \A i, j \in DOMAIN c.L : c.sigma[i][j] = c.sigma[j][i]
    \* solving undoes applying
    /\ LET zv == SubSeq(c.pool, 1, CholN(c.L))
           s  == CholApply(c.mean, c.L, zv)
       IN CholSolve(c.mean, c.L, [i \in DOMAIN s |-> RInt(s[i])]) = [i \in DOMAIN zv |-> RInt(zv[i])]
\* scale covariance of factor and samples (Sampler.tla 2: class M), for every enumerated factor
CholScaleLaw == (fam = "chol" /\ ph = "case") => \A k \in CholScaleKs : CholThmScale(c, k, DiagTol)
CholObs(s, z) == [entry |-> "class", err |-> "none", shape |-> <<Len(s), Len(s[1])>>, drawn |-> z,
                  s |-> [j \in DOMAIN s |-> [i \in DOMAIN s[j] |-> [k |-> "rat", n |-> s[j][i], d |-> 1]]]]
CholMechRefines == (fam = "chol" /\ ph = "done") => CholFailing(c, CholObs(m.s, m.z)) = {}

\* =================================================================================== idx
IdxChoose ==
    /\ fam = "start" /\ "idx" \in Families
    /\ \E im \in 0..IdxMax : \E n \in 0..(IdxMax + 1) : \E u \in BOOLEAN :
          c' = [imax |-> im, n |-> n, unique |-> u]
    /\ fam' = "idx" /\ ph' = "case" /\ m' = [vals |-> <<>>]
IdxAvail == (0..(c.imax - 1)) \ (IF c.unique THEN VRange(m.vals) ELSE {})
IdxDrawOne ==
    /\ fam = "idx" /\ ph = "case" /\ Len(m.vals) < c.n
    /\ \E v \in IdxAvail : m' = [vals |-> m.vals \o <<v>>]
    /\ UNCHANGED <<fam, ph, c>>
IdxReturn ==
    /\ fam = "idx" /\ ph = "case" /\ Len(m.vals) = c.n
    /\ ph' = "done" /\ UNCHANGED <<fam, c, m>>
IdxReject ==
    /\ fam = "idx" /\ ph = "case" /\ Len(m.vals) < c.n /\ IdxAvail = {}
    /\ ph' = "rejected" /\ UNCHANGED <<fam, c, m>>
IdxMechRefines ==
    /\ (fam = "idx" /\ ph = "done") => IdxValsOK(c, m.vals) /\ IdxFeasible(c)
    /\ (fam = "idx" /\ ph = "rejected") => ~IdxFeasible(c)
IdxTheorem == (fam = "idx" /\ ph = "case" /\ m.vals = <<>>) =>
    (IdxFeasible(c) <=> \E v \in [1..c.n -> 0..(c.imax - 1)] : IdxValsOK(c, v))

\* =================================================================================== cap
CapCentres == {GPt(EDec(a, 0), EDec(b, 90)) : a \in CapLonCodes, b \in CapLatCodes}
CapChooseCentre ==
    /\ fam = "start" /\ "cap" \in Families
    /\ \E p \in CapCentres : c' = [lon |-> p.lon, lat |-> p.lat]
    /\ fam' = "cap" /\ ph' = "centre" /\ UNCHANGED m
CapCtr == GPt(c.lon, c.lat)
CapExpected(ctr, r, dorot) ==      \* lattice expectation per (ui, pi) where the mechanism is defined
    LET rot == CapTakesRot(ctr, dorot)
        D   == {d \in (0..2) \X (0..3) : IF rot THEN CapRotDefined(ctr, d[2]) ELSE CapDirectDefined(ctr, d[2])}
    IN SetToSortSeq({[ui |-> d[1], pi |-> d[2], rho |-> CapRho(r, d[1]),
                      q |-> IF rot THEN CapRotated(ctr, CapRho(r, d[1]), d[2]) ELSE CapDirect(ctr, CapRho(r, d[1]), d[2])]
                     : d \in D}, LAMBDA a, b : a.ui * 4 + a.pi < b.ui * 4 + b.pi)
CapChooseRad ==
    /\ fam = "cap" /\ ph = "centre"
    /\ \E rc \in CapRadCodes : \E dr \in BOOLEAN :
          c' = [lon |-> c.lon, lat |-> c.lat, r |-> EDec(rc, 0), dorot |-> dr,
                rot |-> CapTakesRot(CapCtr, dr), exp |-> CapExpected(CapCtr, EDec(rc, 0), dr)]
    /\ ph' = "case" /\ UNCHANGED <<fam, m>>
CapChooseDraw ==
    /\ fam = "cap" /\ ph = "case"
    /\ \E ui \in 0..2 : \E pi \in 0..3 : m' = [ui |-> ui, pi |-> pi, rho |-> CapRho(c.r, ui)]
    /\ ph' = "draw" /\ UNCHANGED <<fam, c>>
CapDirectStep ==
    /\ fam = "cap" /\ ph = "draw" /\ ~c.rot /\ CapDirectDefined(CapCtr, m.pi)
    /\ m' = [ui |-> m.ui, pi |-> m.pi, rho |-> m.rho, q |-> CapDirect(CapCtr, m.rho, m.pi), rad |-> m.rho, conv |-> 1]
    /\ ph' = "done" /\ UNCHANGED <<fam, c>>
CapInner ==           \* the inner call about (90, 0): its radii are already in degrees
    /\ fam = "cap" /\ ph = "draw" /\ c.rot /\ CapRotDefined(CapCtr, m.pi)
    /\ m' = [ui |-> m.ui, pi |-> m.pi, rho |-> m.rho, q |-> CapDirect(GPt(EDeg(90), EZero), m.rho, m.pi),
             rad |-> m.rho, conv |-> 1]
    /\ ph' = "inner" /\ UNCHANGED <<fam, c>>
CapTurnTheta ==
    /\ fam = "cap" /\ ph = "inner"
    /\ m' = [m EXCEPT !.q = CapRotTheta(m.q, c.lat)]
    /\ ph' = "theta" /\ UNCHANGED <<fam, c>>
CapTurnPhi ==
    /\ fam = "cap" /\ ph = "theta"
    /\ m' = [m EXCEPT !.q = CapRotPhi(m.q, ESub(c.lon, EDeg(90)))]
    /\ ph' = "phi" /\ UNCHANGED <<fam, c>>
CapFinish ==          \* pinned code: rad2deg applied once more to the inner call's degrees
    /\ fam = "cap" /\ ph = "phi"
    /\ m' = [m EXCEPT !.conv = IF FixedRadius THEN @ ELSE @ + 1]
    /\ ph' = "done" /\ UNCHANGED <<fam, c>>

CapTheorems == (fam = "cap" /\ ph = "case") =>
    /\ CapValid(c) /\ CapRadOK(c.r) /\ Len(c.exp) >= 6
    /\ \A k \in DOMAIN c.exp : CapThmPoint(CapCtr, c.r, c.exp[k].ui, c.exp[k].pi, c.exp[k].q)
\* the returned radius is the separation of the returned point, in degrees (= one conversion)
CapMechRefines == (fam = "cap" /\ ph = "done") =>
    /\ CapThmPoint(CapCtr, c.r, m.ui, m.pi, m.q)
    /\ m.rad = SepGC(CapCtr, m.q) /\ m.conv = 1
CapPathsAgree == (fam = "cap" /\ ph = "done" /\ c.rot /\ CapDirectDefined(CapCtr, m.pi)) =>
    GSamePoint(m.q, CapDirect(CapCtr, m.rho, m.pi))

\* =================================================================================== box
BoxLons == {EDec(a, 0) : a \in BoxLonCodes}
BoxLats == {EDec(b, 90) : b \in BoxLatCodes}
BoxChooseLon ==
    /\ fam = "start" /\ "box" \in Families
    /\ \E a, b \in BoxLons : ELe(a, b) /\ c' = [ra0 |-> a, ra1 |-> b]
    /\ fam' = "box" /\ ph' = "lon" /\ UNCHANGED m
BoxChooseLat ==
    /\ fam = "box" /\ ph = "lon"
    /\ \E a, b \in BoxLats : ELe(a, b) /\ c' = [ra0 |-> c.ra0, ra1 |-> c.ra1, dec0 |-> a, dec1 |-> b]
    /\ ph' = "case" /\ UNCHANGED <<fam, m>>
BoxDrawCorner ==      \* deviate at the low / high end of each uniform draw (v low <-> dec1)
    /\ fam = "box" /\ ph = "case"
    /\ \E tr, td \in {0, 1} : m' = [lon |-> IF tr = 0 THEN c.ra0 ELSE c.ra1, lat |-> IF td = 0 THEN c.dec1 ELSE c.dec0]
    /\ ph' = "done" /\ UNCHANGED <<fam, c>>
BoxTheorems == (fam = "box" /\ ph = "case") => BoxValid(c)
BoxMechRefines == (fam = "box" /\ ph = "done") =>
    BoxHas(c, m.lon, m.lat) /\ GValid(GPt(m.lon, m.lat)) /\ ELe(EZero, m.lon) /\ ELe(m.lon, EDeg(360))

\* =================================================================================== gen
GenStart ==
    /\ fam = "start" /\ "gen" \in Families
    /\ \E s1, s2 \in GenSeeds : m' = [g1 |-> GenNew(s1), g2 |-> GenNew(s2), o1 |-> <<>>, o2 |-> <<>>]
    /\ fam' = "gen" /\ ph' = "run" /\ UNCHANGED c
GenCall1 ==
    /\ fam = "gen" /\ \E k \in 1..2 : Len(m.o1) + k <= GenMax /\
          LET d == GenDraw(m.g1, k) IN m' = [m EXCEPT !.g1 = d.g, !.o1 = @ \o d.out]
    /\ UNCHANGED <<fam, ph, c>>
GenCall2 ==
    /\ fam = "gen" /\ \E k \in 1..2 : Len(m.o2) + k <= GenMax /\
          LET d == GenDraw(m.g2, k) IN m' = [m EXCEPT !.g2 = d.g, !.o2 = @ \o d.out]
    /\ UNCHANGED <<fam, ph, c>>
\* equal seeds => equal outputs, whatever the interleaving of the two runs and however the
\* draws are split into calls; different seeds => different streams
GenReproducible == fam = "gen" =>
    LET n == VMin2(Len(m.o1), Len(m.o2))
    IN \A i \in 1..n : (m.o1[i] = m.o2[i]) <=> (m.g1.seed = m.g2.seed)

\* =================================================================================== wld
\* world machine (Sampler.tla section 8): two objects of twin densities pa # pb on one grid
WldLess(pa, pb) == \E i \in DOMAIN pa : pa[i] < pb[i] /\ \A j \in 1..(i - 1) : pa[j] = pb[j]
WldUs(ta, tb) == SetToSortSeq({RNorm(j, 4) : j \in 0..4} \cup {ta.cs[k] : k \in 1..SmpTN(ta)} \cup {tb.cs[k] : k \in 1..SmpTN(tb)},
                              LAMBDA a, b : RLt(a, b))
\* the sessions replayed into the real code (designed to collide: the twin is built right after / before
\* its sibling, each object is sampled again after the other one was built and after the caller
\* scribbled over the arrays it got back); the machine below explores every interleaving
WldScheds == {<<"B1", "S1", "B2", "S2", "S1", "X2", "S2", "X1", "S1">>,
              <<"B2", "B1", "S1", "X1", "S2", "S1", "X2", "S2">>}
WldGridOf(code) == VSortSet({i \in 0..7 : (code \div (2 ^ i)) % 2 = 1})      \* the grid as a bit mask of abscissae
WldChoose ==
    /\ fam = "start" /\ "wld" \in Families
    /\ \E x \in {WldGridOf(g) : g \in WldGrids} : \E kind \in SmpKinds : \E pa, pb \in [1..Len(x) -> WldPVals] :
          LET qa == IF kind = "density" THEN pa ELSE [k \in DOMAIN pa |-> SmpRunSum(pa, k)]
              qb == IF kind = "density" THEN pb ELSE [k \in DOMAIN pb |-> SmpRunSum(pb, k)]
              ca == [kind |-> kind, x |-> x, p |-> qa]
              cb == [kind |-> kind, x |-> x, p |-> qb]
          IN IF WldLess(pa, pb) /\ SmpValid(ca) /\ SmpValid(cb)
             THEN c' = [kind |-> kind, x |-> x, pa |-> qa, pb |-> qb, us |-> WldUs(SmpTable(ca, 0), SmpTable(cb, 0))]
             ELSE FALSE
    /\ fam' = "wld" /\ ph' = "pair"
    /\ m' = [memo |-> <<>>, built |-> <<FALSE, FALSE>>, tab |-> <<None, None>>, log |-> <<>>, res |-> <<"none", "none">>]
WldChooseForm ==       \* how the densities are handed over + the session (export)
    /\ fam = "wld" /\ ph = "pair"
    /\ \E f \in WldForms : \E sc \in WldScheds :
          c' = [kind |-> c.kind, x |-> c.x, pa |-> c.pa, pb |-> c.pb, us |-> c.us, form |-> f, sched |-> sc]
    /\ ph' = "case" /\ UNCHANGED <<fam, m>>
WldFresh(k) == SmpDedup(SmpTable([kind |-> c.kind, x |-> c.x, p |-> WldDens(c, k)], 0), "lead_last")
WldMemoHits(key) == {i \in DOMAIN m.memo : m.memo[i].key = key}
WldBuild(k) ==
    /\ fam = "wld" /\ ph \in {"pair", "run"} /\ ~m.built[k]
    /\ LET key  == WldKey("f", c.kind, c.x, WldDens(c, k), MemoKey)
           hits == IF MemoKey = "none" THEN {} ELSE WldMemoHits(key)
           t    == IF hits = {} THEN WldFresh(k) ELSE m.memo[CHOOSE i \in hits : TRUE].t
       IN m' = [m EXCEPT !.built[k] = TRUE, !.tab[k] = t,
                         !.memo = IF MemoKey = "none" \/ hits # {} THEN @ ELSE Append(@, [key |-> key, t |-> t])]
    /\ ph' = "run" /\ UNCHANGED <<fam, c>>
WldBuild1 == WldBuild(1)
WldBuild2 == WldBuild(2)
WldSample(k) ==
    /\ fam = "wld" /\ ph = "run" /\ m.built[k] /\ Len(m.log) < WldMaxCalls
    /\ LET t == m.tab[k] IN
       m' = [m EXCEPT !.log = Append(@, [k |-> k, r |-> [q \in DOMAIN c.us |->
                                            SmpMechEval(t, c.us[q], SmpClamp(t, SmpSearch(t, c.us[q]) - 1))]]),
                      !.res[k] = "fresh"]
    /\ UNCHANGED <<fam, ph, c>>
WldSample1 == WldSample(1)
WldSample2 == WldSample(2)
WldScribble ==         \* the caller overwrites an array it was handed: a stutter step of the objects
    /\ fam = "wld" /\ ph = "run"
    /\ \E k \in 1..2 : m.res[k] = "fresh" /\ m' = [m EXCEPT !.res[k] = "scribbled"]
    /\ UNCHANGED <<fam, ph, c>>
\* every call's outcome = the outcome in a fresh world
WldFreshWorld == (fam = "wld" /\ ph = "run" /\ m.log # <<>>) =>
    LET e == m.log[Len(m.log)]
        t == SmpTable([kind |-> c.kind, x |-> c.x, p |-> WldDens(c, e.k)], 0)
    IN \A q \in DOMAIN c.us : SmpConstrained(t, c.us[q]) => (IsOk(e.r[q]) /\ e.r[q].val \in SmpVals(t, c.us[q]))
WldTheorems == (fam = "wld" /\ ph = "case") =>
    /\ WldLegal(c.sched) /\ c.pa # c.pb
    /\ SmpValid(WldCase(c, 1)) /\ SmpValid(WldCase(c, 2))
    /\ Cardinality({i \in DOMAIN c.sched : WldIsSample(c.sched[i])}) >= 4

\* =================================================================================== law
\* the laws that let summaries of large draws be judged (Sampler.tla section 7), on the small scope
LawIdx ==
    /\ fam = "start" /\ "law" \in Families
    /\ \E im \in 0..LawMax : \E n \in 0..LawLen : \E u \in BOOLEAN : c' = [imax |-> im, n |-> n, unique |-> u]
    /\ fam' = "law" /\ ph' = "idx" /\ UNCHANGED m
LawIdxSummary == (fam = "law" /\ ph = "idx") =>
    \A k \in 0..LawLen : \A v \in [1..k -> (-1)..LawMax] : IdxThmSummary(c, v)
LawPtClasses == {[lon360 |-> a, lat90 |-> b, w |-> w, rq |-> q, sv |-> [on |-> FALSE, a |-> 0, blo |-> 0, bhi |-> 0],
                  rv |-> [on |-> FALSE, a |-> 0, blo |-> 0, bhi |-> 0]]
                 : a \in {"in", "hi"}, b \in {"in", "lo"}, w \in {"in", "edge", "out"}, q \in {"eq", "ne"}}
LawPtsLen ==
    /\ fam = "start" /\ "law" \in Families
    /\ \E k \in 1..LawLen : \E g \in BOOLEAN : c' = [getrad |-> g, r |-> EDeg(10), k |-> k]
    /\ fam' = "law" /\ ph' = "ptslen" /\ UNCHANGED m
LawPts ==
    /\ fam = "law" /\ ph = "ptslen"
    /\ \E pts \in [1..c.k -> LawPtClasses] : m' = [pts |-> pts]
    /\ ph' = "pts" /\ UNCHANGED <<fam, c>>
LawBlocks == (fam = "law" /\ ph = "pts") => \A k \in 0..Len(m.pts) : CapThmBlocks(c, m.pts, k)
LawMonoLen ==
    /\ fam = "start" /\ "law" \in Families
    /\ \E k \in 1..LawLen : c' = [k |-> k]
    /\ fam' = "law" /\ ph' = "monolen" /\ UNCHANGED m
LawMono ==
    /\ fam = "law" /\ ph = "monolen"
    /\ \E us \in [1..c.k -> 0..2] : \E vs \in [1..c.k -> 0..2] : m' = [us |-> us, vs |-> vs]
    /\ ph' = "mono" /\ UNCHANGED <<fam, c>>
LawSorted == (fam = "law" /\ ph = "mono") => SmpThmSorted(m.us, m.vs)

\* =================================================================================== scale
\* the scale cases (exported; sizes across and at the block boundaries come from the constants)
ScaleTables == {[kind |-> "density", x |-> <<0, 1, 2, 4, 5, 7>>, p |-> <<1, 2, 0, 0, 3, 1>>],
                [kind |-> "cumulative", x |-> <<0, 1, 2, 4, 5, 7>>, p |-> <<0, 0, 1, 1, 3, 4>>],
                [kind |-> "density", x |-> <<0, 2, 3, 4>>, p |-> <<2, 1, 3, 1>>]}
ScaleCases ==
    {[op |-> "idxs", imax |-> im, n |-> im \div 10, unique |-> u, src |-> s]
        : im \in IdxScaleImax, u \in BOOLEAN, s \in {"legacy", "generator"}}
    \cup {[op |-> "caps", n |-> n, rot |-> r, getrad |-> g, src |-> s]
        : n \in ScaleNs, r \in BOOLEAN, g \in BOOLEAN, s \in {"legacy", "generator"}}
    \cup {[op |-> "boxs", n |-> n, system |-> y, src |-> s] : n \in ScaleNs, y \in {"eq", "xyz"}, s \in {"legacy", "generator"}}
    \cup {[op |-> "smps", n |-> n, kind |-> t.kind, x |-> t.x, p |-> t.p, src |-> s,
           first |-> SmpTable(t, 0).cs[1], lr |-> SmpLeadRight(SmpTable(t, 0))]
        : n \in SmpScaleNs, t \in ScaleTables, s \in {"legacy", "generator"}}
ScaleChoose ==
    /\ fam = "start" /\ "scale" \in Families
    /\ \E sc \in ScaleCases : c' = sc
    /\ fam' = "scale" /\ ph' = "case" /\ UNCHANGED m
ScaleTheorems == (fam = "scale" /\ ph = "case" /\ c.op = "smps") =>
    SmpValid(c) /\ ~SmpDegenerate(SmpTable(c, 0))

\* =================================================================================== all
Next == \/ SmpChooseGrid \/ SmpChooseDens \/ SmpMechSearch \/ SmpMechEvalStep
        \/ CholChooseN \/ CholChooseL \/ CholFactorStart \/ CholFactorCol \/ CholDraw \/ CholMultiply
        \/ IdxChoose \/ IdxDrawOne \/ IdxReturn \/ IdxReject
        \/ CapChooseCentre \/ CapChooseRad \/ CapChooseDraw \/ CapDirectStep \/ CapInner \/ CapTurnTheta
        \/ CapTurnPhi \/ CapFinish
        \/ BoxChooseLon \/ BoxChooseLat \/ BoxDrawCorner
        \/ GenStart \/ GenCall1 \/ GenCall2
        \/ WldChoose \/ WldChooseForm \/ WldBuild1 \/ WldBuild2 \/ WldSample1 \/ WldSample2 \/ WldScribble
        \/ LawIdx \/ LawPtsLen \/ LawPts \/ LawMonoLen \/ LawMono \/ ScaleChoose
NextExport == \/ SmpChooseGrid \/ SmpChooseDens \/ CholChooseN \/ CholChooseL \/ IdxChoose
              \/ CapChooseCentre \/ CapChooseRad \/ BoxChooseLon \/ BoxChooseLat \/ ScaleChoose
              \/ WldChoose \/ WldChooseForm
Spec == Init /\ [][Next]_vars

Export == (DoExport /\ ph = "case") =>
    CASE fam = "smp"  -> PrintT(<<"SMP", ToJson(c)>>)
      [] fam = "chol" -> PrintT(<<"CHOL", ToJson(c)>>)
      [] fam = "idx"  -> PrintT(<<"IDX", ToJson(c)>>)
      [] fam = "cap"  -> PrintT(<<"CAP", ToJson(c)>>)
      [] fam = "box"  -> PrintT(<<"BOX", ToJson(c)>>)
      [] fam = "scale" -> PrintT(<<"SCALE", ToJson(c)>>)
      [] fam = "wld"  -> PrintT(<<"WLD", ToJson(c)>>)
      [] OTHER -> TRUE
=============================================================================
