------------------------------- MODULE SamplerTrace -------------------------------
(* Trace validation for property C19: every recorded call of the real code          *)
(* (esutil.random.Generator.sample, CholeskySampler / cholesky_sample,              *)
(* random_indices, coords.randsphere, coords.randcap) is judged by the              *)
(* property-level clauses of Sampler.tla.  One ndjson line per record:              *)
(*   {"id": k, "op": "smp"|"smpr"|"chol"|"idx"|"box"|"cap", "c": <case>,            *)
(*    "obs": [<observation>, ...]}                                                  *)
(* (several observations = the same abstract case executed through several entry    *)
(* points / generator kinds; each carries its index "k").  Rejected records are     *)
(* printed with the names of the failing clauses and the observation index.         *)
EXTENDS Sampler, Json, IOUtils

VARIABLES blk, tid
Traces == ndJsonDeserialize(IOEnv.TRACE_FILE)
NT == Len(Traces)
BlockSize == 256
NBlocks == (NT + BlockSize - 1) \div BlockSize

Init == blk = 0 /\ tid = 0
PickBlock == blk = 0 /\ tid = 0 /\ \E b \in 1..NBlocks : blk' = b /\ tid' = 0
PickTrace == blk > 0 /\ tid = 0
             /\ \E t \in ((blk - 1) * BlockSize + 1)..VMin2(blk * BlockSize, NT) : tid' = t /\ blk' = blk
Next == PickBlock \/ PickTrace

FailingRec(r) ==
    UNION {{<<cl, r.obs[n].k>> : cl \in QFailing(r.op, r.c, r.obs[n])} : n \in DOMAIN r.obs}

Check == tid > 0 =>
    LET r == Traces[tid]  f == FailingRec(r)
    IN f = {} \/ PrintT(<<"REJECT", ToJson([id |-> r.id, failing |-> f])>>)
=============================================================================
