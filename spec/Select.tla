------------------------------- MODULE Select -------------------------------
(* Row / column selection on a stored record table (esutil sfile / recfile).      *)
(*                                                                                *)
(* Property level.  A stored table has n rows (numbered 0..n-1 as in Python) and  *)
(* NCols = 3 columns (numbered 1..3 in FILE ORDER; the harness gives them names    *)
(* whose alphabetical order differs from file order).  Cells are opaque unique     *)
(* tokens, so a returned array is fully described by WHICH columns and WHICH       *)
(* original row indices it contains and in what order - the observation           *)
(*    o = [err   : "none" | "rejected" | "malformed",                               *)
(*         shape : "struct" | "plain" | "split" | "none",                           *)
(*         cols  : Seq(1..3),  rows : Seq(Int)]       (-1 = not a row of the table) *)
(* A read request is q = [rq, cq, opt]:                                            *)
(*    rq = [k : "all"|"scalar"|"list"|"slice", r, rs, s, e, st]   (None = 9999)     *)
(*    cq = [k : "all"|"name"|"list", cs : Seq(1..3)]                                *)
(*    opt \in {"none", "split", "reduce"}                                          *)
(* Failing(n, q, o) is the set of clauses of the statement that o contradicts.     *)
(*                                                                                *)
(* A handle is a state machine [n, nc, open, nreads]; HRead never looks at anything *)
(* but n and nc: a read returns Index(table, selection) regardless of history - of   *)
(* any length, and whether or not earlier calls were rejected (a rejected call is a  *)
(* stutter step on everything a later read can see).  Tables of other widths than    *)
(* NCols (long histories need dozens of distinct column selections) are described    *)
(* by nc; the operators without the suffix N / T are the nc = NCols instances.       *)
(*                                                                                *)
(* Scale.  A table too long to be written out row by row is handled in RUN-LENGTH    *)
(* form: a run <<a, st, c>> denotes the c rows a, a+st, .., a+(c-1)st.  A row request *)
(* of kind "runs" carries its row list as runs (rs = sequence of runs), an           *)
(* observation may carry `runs` instead of `rows`; ExpRuns is the closed form of      *)
(* ExpRows and RunsSame decides equality of denotations in O(number of runs).        *)
(* The law that makes the long case decidable from the short ones: a selection from   *)
(* a table that is a concatenation of blocks is the concatenation of the selections   *)
(* from the blocks, shifted (SliceConcat / ListConcat / SliceBlock below; checked by   *)
(* TLC on the small scope in SelectMC: ConcatLaw, RunsLaw, RunsSameSound, ScaleLaw).   *)
(*                                                                                *)
(* Mechanism level (SliceNorm, RowsNorm, PostProcess, cursor): the code's own      *)
(* normalisation steps transcribed from recfile/Util.py and records.cpp, with the  *)
(* known deviations switchable by the set Dev (Dev = {} is the repaired design).   *)
EXTENDS VU

None  == 9999                 \* Python None in a slice bound / step
NCols == 3
AllCols == <<1, 2, 3>>

\* ---- requests -----------------------------------------------------------------
RAll           == [k |-> "all",    r |-> 0, rs |-> <<>>, s |-> None, e |-> None, st |-> None]
RScalar(r)     == [k |-> "scalar", r |-> r, rs |-> <<>>, s |-> None, e |-> None, st |-> None]
RList(rs)      == [k |-> "list",   r |-> 0, rs |-> rs,   s |-> None, e |-> None, st |-> None]
RSlice(s,e,st) == [k |-> "slice",  r |-> 0, rs |-> <<>>, s |-> s,    e |-> e,    st |-> st]
RRuns(rr)      == [k |-> "runs",   r |-> 0, rs |-> rr,   s |-> None, e |-> None, st |-> None]   \* a row list given as runs

CAll      == [k |-> "all",  cs |-> <<>>]
CName(c)  == [k |-> "name", cs |-> <<c>>]
CList(cs) == [k |-> "list", cs |-> cs]

Req(rq, cq, opt) == [rq |-> rq, cq |-> cq, opt |-> opt]

\* ---- Python slice semantics, positive steps (slice.indices written out) -------------
PyStep(st)  == IF st = None THEN 1 ELSE st
PyBound(n, x, dflt) == IF x = None THEN dflt
                       ELSE IF x < 0 THEN VClamp(x + n, 0, n) ELSE VClamp(x, 0, n)
PySlice(n, s, e, st) == VArange(PyBound(n, s, 0), PyBound(n, e, n), PyStep(st))

\* ---- run-length form ----------------------------------------------------------------
\* a run r = <<a, st, c>>, c >= 1, denotes a, a+st, .., a+(c-1)st (st is irrelevant when c = 1)
RunLast(r)   == r[1] + (r[3] - 1) * r[2]
RunExpand(r) == [i \in 1..r[3] |-> r[1] + (i - 1) * r[2]]
RECURSIVE RunsExpand(_)
RunsExpand(R) == IF Len(R) = 0 THEN <<>> ELSE RunExpand(R[1]) \o RunsExpand(Tail(R))
RunsWF(R)     == \A i \in DOMAIN R : Len(R[i]) = 3 /\ R[i][3] >= 1
\* drop the first m elements of the first run (1 <= m <= its count)
RunsDrop(R, m) == IF R[1][3] = m THEN Tail(R)
                  ELSE <<<<R[1][1] + m * R[1][2], R[1][2], R[1][3] - m>>>> \o Tail(R)
\* two well-formed run lists denote the same sequence (decided without expanding them)
RECURSIVE RunsSame(_, _)
RunsSame(A, B) ==
    IF Len(A) = 0 \/ Len(B) = 0 THEN Len(A) = 0 /\ Len(B) = 0
    ELSE LET a == A[1]  b == B[1] IN
         /\ a[1] = b[1]
         /\ IF a[3] = 1 \/ b[3] = 1 THEN RunsSame(RunsDrop(A, 1), RunsDrop(B, 1))
            ELSE /\ a[2] = b[2]
                 /\ LET m == VMin2(a[3], b[3]) IN RunsSame(RunsDrop(A, m), RunsDrop(B, m))
\* a run of a REQUEST as an ascending run of distinct rows (a descending run reversed, a
\* repeated row once)
RunNorm(r) == IF r[3] = 1 \/ r[2] = 0 THEN <<r[1], 1, 1>>
              ELSE IF r[2] < 0 THEN <<RunLast(r), -r[2], r[3]>> ELSE r
RunSet(rr) == {RunNorm(rr[i]) : i \in DOMAIN rr}
\* the class the closed form covers: pairwise separated runs (in any order, each possibly
\* listed more than once) - their sorted distinct union is the runs sorted by first row
RunsSeparated(U) == \A x, y \in U : x # y => (RunLast(x) < y[1] \/ RunLast(y) < x[1])
RECURSIVE RunsSorted(_)
RunsSorted(U) == IF U = {} THEN <<>>
                 ELSE LET m == CHOOSE x \in U : \A y \in U : x[1] <= y[1] IN <<m>> \o RunsSorted(U \ {m})

\* ---- rows -----------------------------------------------------------------------
InRange(n, r) == -n <= r /\ r < n
Wrap(n, r)    == IF r < 0 THEN r + n ELSE r

\* "det"    : the statement fixes the result
\* "reject" : out-of-range row list - must be rejected
\* "either" : statement silent/ambiguous (negative entries inside a list: wrap as numpy
\*            would, or reject; the empty list: empty table, or reject)
\* "free"   : outside the quantifier (scalar row outside [-n, n)) - anything goes; also a
\*            run-length row list outside the class the closed form covers (negative
\*            rows, interleaved runs)
RunsMode(n, rr) ==
    IF Len(rr) = 0 THEN "either"
    ELSE LET U == RunSet(rr) IN
         IF \E x \in U : RunLast(x) >= n \/ x[1] < -n THEN "reject"
         ELSE IF (\E x \in U : x[1] < 0) \/ ~RunsSeparated(U) THEN "free"
         ELSE "det"
RowMode(n, rq) ==
    CASE rq.k = "all"    -> "det"
      [] rq.k = "runs"   -> RunsMode(n, rq.rs)
      [] rq.k = "slice"  -> "det"
      [] rq.k = "scalar" -> IF InRange(n, rq.r) THEN "det" ELSE "free"
      [] rq.k = "list"   -> IF \E i \in DOMAIN rq.rs : ~InRange(n, rq.rs[i]) THEN "reject"
                            ELSE IF rq.rs = <<>> \/ \E i \in DOMAIN rq.rs : rq.rs[i] < 0 THEN "either"
                            ELSE "det"

\* a row list yields its distinct rows in ascending order
ExpRows(n, rq) ==
    CASE rq.k = "all"    -> VArange(0, n, 1)
      [] rq.k = "slice"  -> PySlice(n, rq.s, rq.e, rq.st)
      [] rq.k = "scalar" -> <<Wrap(n, rq.r)>>
      [] rq.k = "list"   -> VSortSet({Wrap(n, rq.rs[i]) : i \in DOMAIN rq.rs})
      [] rq.k = "runs"   -> VSortSet({Wrap(n, x) : x \in VRange(RunsExpand(rq.rs))})

\* the same in closed form, as runs (RunsLaw, ScaleLaw: RunsExpand(ExpRuns) = ExpRows)
SliceCount(a, b, st) == IF b > a THEN (b - a + st - 1) \div st ELSE 0
ExpRuns(n, rq) ==
    CASE rq.k = "all"    -> IF n = 0 THEN <<>> ELSE <<<<0, 1, n>>>>
      [] rq.k = "slice"  -> LET a  == PyBound(n, rq.s, 0)
                                c  == SliceCount(a, PyBound(n, rq.e, n), PyStep(rq.st))
                            IN IF c = 0 THEN <<>> ELSE <<<<a, PyStep(rq.st), c>>>>
      [] rq.k = "scalar" -> <<<<Wrap(n, rq.r), 1, 1>>>>
      [] rq.k = "list"   -> LET x == VSortSet({Wrap(n, rq.rs[i]) : i \in DOMAIN rq.rs})
                            IN [i \in DOMAIN x |-> <<x[i], 1, 1>>]
      [] rq.k = "runs"   -> RunsSorted(RunSet(rq.rs))

\* ---- the concatenation law -------------------------------------------------------------
\* first row at or above p of the progression a, a+st, a+2st, ..   (the stride PHASE is
\* carried across the cut: it does not restart at p)
PhaseFrom(a, st, p) == IF a >= p THEN a ELSE a + ((p - a + st - 1) \div st) * st
ShiftSeq(x, d)      == [i \in DOMAIN x |-> x[i] + d]
\* what a slice selects from the block [p, p + len) of the table, as a slice of the table
SliceBlock(n, rq, p, len) ==
    LET st == PyStep(rq.st) IN
    RSlice(PhaseFrom(PyBound(n, rq.s, 0), st, p), VMin2(PyBound(n, rq.e, n), p + len), st)
\* the blocks of len rows (the last one shorter) a table of n rows consists of
SliceBlocks(n, rq, len) == [k \in 1..((n + len - 1) \div len) |-> SliceBlock(n, rq, (k - 1) * len, len)]
\* table = its first p rows followed by the other n - p: the slice of the whole is the slice
\* of the first part followed by the (shifted) slice of the second part
SliceConcat(n, rq, p) ==
    LET a == PyBound(n, rq.s, 0)  b == PyBound(n, rq.e, n)  st == PyStep(rq.st) IN
    VArange(a, VMin2(b, p), st) \o ShiftSeq(VArange(PhaseFrom(a, st, p) - p, VMax2(b - p, 0), st), p)
\* ... and a row list (all rows inside the table) selects from the first part the rows
\* below p and from the second part the others, shifted
ListConcat(n, rs, p) ==
    ExpRows(p, RList(SelectSeq(rs, LAMBDA r : r < p)))
    \o ShiftSeq(ExpRows(n - p, RList(ShiftSeq(SelectSeq(rs, LAMBDA r : r >= p), -p))), p)

\* ---- columns ----------------------------------------------------------------------
\* a column list yields those columns in file order; a scalar name that column
AllColsN(nc)    == [i \in 1..nc |-> i]
ExpColsN(nc, cq) == IF cq.k = "all" THEN AllColsN(nc) ELSE VSortSet(VRange(cq.cs))
ExpCols(cq)      == ExpColsN(NCols, cq)
\* a name that is not a column of the table: the statement is silent ("free")
ColMode(nc, cq)  == IF cq.k # "all" /\ \E i \in DOMAIN cq.cs : cq.cs[i] \notin 1..nc THEN "free" ELSE "det"

\* a single column name yields a plain array; split gives one plain array per column;
\* reduce turns a one-column selection into a plain array and leaves any other
\* selection as it is.  (a scalar name together with split: a plain array or a
\* 1-tuple - the statement does not say.)
ExpShapesN(nc, cq, opt) ==
    IF cq.k = "name" THEN (IF opt = "split" THEN {"plain", "split"} ELSE {"plain"})
    ELSE IF opt = "split" THEN {"split"}
    ELSE IF opt = "reduce" /\ Len(ExpColsN(nc, cq)) = 1 THEN {"plain"}
    ELSE {"struct"}
ExpShapes(cq, opt) == ExpShapesN(NCols, cq, opt)

\* ---- acceptance --------------------------------------------------------------------
Rejected  == [err |-> "rejected", shape |-> "none", cols |-> <<>>, rows |-> <<>>]
Result(shape, cols, rows) == [err |-> "none", shape |-> shape, cols |-> cols, rows |-> rows]

\* the clause of the statement a wrong row set / a wrong result form contradicts
RowClause(rq) == CASE rq.k = "slice"  -> "slice_rule"        \* a slice follows Python slice semantics
                   [] rq.k \in {"list", "runs"} -> "row_list"  \* distinct rows in ascending order
                   [] rq.k = "scalar" -> "scalar_row"
                   [] OTHER           -> "all_rows"
ShapeClause(cq, opt) == IF opt = "reduce" THEN "reduce"
                        ELSE IF cq.k = "name" THEN "plain_column"  \* a single name yields a plain array
                        ELSE IF opt = "split" THEN "split"
                        ELSE "structured"

\* the rows of an observation, written out (rows) or in run-length form (runs)
RowsOK(n, rq, o) == IF "runs" \in DOMAIN o THEN RunsWF(o.runs) /\ RunsSame(o.runs, ExpRuns(n, rq))
                    ELSE o.rows = ExpRows(n, rq)

FailingT(n, nc, q, o) ==
    LET m == RowMode(n, q.rq) IN
    IF m = "free" \/ ColMode(nc, q.cq) = "free" THEN {}
    ELSE IF o.err = "malformed" THEN {ShapeClause(q.cq, q.opt)}        \* not a table of the allowed form
    ELSE IF o.err = "rejected"
         THEN (IF m \in {"reject", "either"} THEN {}
               ELSE IF q.rq.k = "all" THEN {ShapeClause(q.cq, q.opt)} ELSE {RowClause(q.rq)})
    ELSE IF m = "reject" THEN {"out_of_range_not_rejected"}             \* out-of-range row lists are rejected
    ELSE (IF RowsOK(n, q.rq, o) THEN {} ELSE {RowClause(q.rq)})
         \cup (IF o.cols  = ExpColsN(nc, q.cq) THEN {} ELSE {"column_order"})   \* those columns in file order
         \cup (IF o.shape \in ExpShapesN(nc, q.cq, q.opt) THEN {} ELSE {ShapeClause(q.cq, q.opt)})
Failing(n, q, o) == FailingT(n, NCols, q, o)

Accept(n, q, o) == Failing(n, q, o) = {}

\* the canonical result of a request whose result the statement fixes
Index(n, q) == Result(CHOOSE sh \in ExpShapes(q.cq, q.opt) : sh # "split" \/ q.cq.k # "name",
                      ExpCols(q.cq), ExpRows(n, q.rq))

\* ---- the handle as a state machine ---------------------------------------------------
HOpenT(n, nc) == [n |-> n, nc |-> nc, open |-> TRUE, nreads |-> 0]
HOpen(n)    == HOpenT(n, NCols)
HRead(h, q) == [h EXCEPT !.nreads = @ + 1]              \* nothing a later read could see - whether the
                                                        \* call was served or rejected, after any history
HClose(h)   == [h EXCEPT !.open = FALSE]
\* Object lifetime.  A selection object (h[columns]) the caller keeps stands for the stored table as the
\* handle does: what the caller does with its NAMES of the handle - it was a temporary, a local of a helper
\* that returned the selection, deleted, collected by the garbage collector ("derive", "drop", "collect") -
\* is a stutter step on everything a later read through a held object can see.  Only close() ends it.
HLife(h, a) == IF a = "close" THEN HClose(h) ELSE h
HFailing(h, q, o) == IF h.open THEN FailingT(h.n, h.nc, q, o) ELSE {"closed"}

\* =====================================================================================
\* Mechanism level.  Results are [err, rows] with err "none" or the exception class.
\* Dev is the set of known deviations switched ON:
\*   "start_lt_minus_n"  _process_slice raises IndexError for start < -n
\*   "start_gt_n"        process_slice (C++) raises for start > n (stop := start > nrows)
\*   "neg_off_by_one"    _fix_range(isslice): negative bound x -> n + (1 + x)
\*   "stop_lt_start"     _slice2rows raises ValueError when tstop < tstart
\*   "empty_rows"        _get_rows2read indexes rows2read[0] of an empty array
\*   "single_clamp"      _get_rows2read clamps a one-element row array into range
\*   "fields_scalar"     Recfile.read indexes the result with `columns` when the scalar
\*                       name came in through `fields`
\*   "reduce_falls"      sfile.reduce_array returns None unless it reduces
MOk(rows) == [err |-> "none", rows |-> rows]
MErr(e)   == [err |-> e, rows |-> <<>>]

AllDev == {"start_lt_minus_n", "start_gt_n", "neg_off_by_one", "stop_lt_start", "empty_rows",
           "single_clamp", "fields_scalar", "reduce_falls"}

\* recfile/Util.py:_process_slice + _read_binary_slice + records.cpp:process_slice
\* (binary file, all columns)
ProcSlice(Dev, n, s0, e0, st0) ==
    LET st == IF st0 = None THEN 1 ELSE st0
        s1 == IF s0 = None THEN 0 ELSE s0
        e1 == IF e0 = None THEN n ELSE IF e0 > n THEN n ELSE e0
        s2 == IF s1 < 0 THEN n + s1 ELSE s1
    IN IF s1 < 0 /\ s2 < 0 /\ "start_lt_minus_n" \in Dev THEN MErr("IndexError")
       ELSE LET s3 == IF s2 < 0 THEN 0                                   \* repaired: clamp
                      ELSE IF s2 > n /\ "start_gt_n" \notin Dev THEN n   \* repaired: clamp
                      ELSE s2
                e2 == IF e1 < 0 THEN n + e1 ELSE e1
                e3 == IF e2 < s3 THEN s3 ELSE e2
            IN IF e3 > n THEN MErr("RuntimeError")        \* "Requested slice beyond declared size"
               ELSE MOk(VArange(s3, e3, st))

\* recfile/Util.py:_fix_range
FixRangeSlice(Dev, n, x) ==
    IF x < 0 THEN (IF "neg_off_by_one" \in Dev THEN n + (1 + x) ELSE VMax2(n + x, 0))
    ELSE IF x > n THEN n ELSE x
FixRangeEl(n, x) == IF x < 0 THEN n + x ELSE IF x > n - 1 THEN n - 1 ELSE x

\* recfile/Util.py:_get_rows2read on an integer sequence (atleast_1d, one-element fix-up,
\* numpy.unique, range check)
RowsNorm(Dev, n, rs) ==
    LET r1 == IF Len(rs) = 1
              THEN (IF "single_clamp" \in Dev THEN <<FixRangeEl(n, rs[1])>>
                    ELSE <<IF rs[1] < 0 THEN n + rs[1] ELSE rs[1]>>)         \* repaired: wrap only
              ELSE rs
        u  == VSortSet(VRange(r1))
    IN IF u = <<>> THEN (IF "empty_rows" \in Dev THEN MErr("IndexError") ELSE MOk(<<>>))
       ELSE IF u[1] < 0 \/ u[Len(u)] >= n THEN MErr("ValueError")
       ELSE MOk(u)

\* recfile/Util.py:_slice2rows followed by read(rows=...) -> _get_rows2read
\* (text files, and any column subset)
Slice2Rows(Dev, n, s0, e0, st0) ==
    LET s1 == IF s0 = None THEN 0 ELSE s0
        e1 == IF e0 = None THEN n ELSE e0
        st == IF st0 = None THEN 1 ELSE st0
        ts == FixRangeSlice(Dev, n, s1)
        te == FixRangeSlice(Dev, n, e1)
    IN IF te < ts THEN (IF "stop_lt_start" \in Dev THEN MErr("ValueError") ELSE MOk(<<>>))
       ELSE RowsNorm(Dev, n, VArange(ts, te, st))

\* a scalar row goes through _get_rows2read as a one-element array
ScalarNorm(Dev, n, r) == RowsNorm(Dev, n, <<r>>)

\* what the mechanism does for a row request on the two code paths
MechRows(Dev, path, n, rq) ==
    CASE rq.k = "all"    -> MOk(VArange(0, n, 1))
      [] rq.k = "scalar" -> ScalarNorm(Dev, n, rq.r)
      [] rq.k = "list"   -> RowsNorm(Dev, n, rq.rs)
      [] rq.k = "slice"  -> IF path = "binary" THEN ProcSlice(Dev, n, rq.s, rq.e, rq.st)
                            ELSE Slice2Rows(Dev, n, rq.s, rq.e, rq.st)

\* mechanism outcome as an observation (all columns, structured)
MechObs(m) == IF m.err = "none" THEN Result("struct", AllCols, m.rows) ELSE Rejected
RowsRefine(Dev, path, n, rq) == Accept(n, Req(rq, CAll, "none"), MechObs(MechRows(Dev, path, n, rq)))

\* ---- column numbers and post-processing ------------------------------------------------
\* Recfile.get_colnums: numpy.unique of the column numbers = file order
MechCols(cq) == IF cq.k = "all" THEN AllCols ELSE VSortSet(VRange(cq.cs))

\* Recfile.read tail: `if isscalar: result = result[columns]  elif split: split_fields`
\* key = the keyword the selection came in through ("columns" | "fields")
RecfilePost(Dev, cq, key, split) ==
    IF cq.k = "name"
    THEN (IF key = "fields" /\ "fields_scalar" \in Dev THEN "extra_axis" ELSE "plain")   \* result[None]
    ELSE IF split THEN "split" ELSE "struct"

\* SFile.read tail: `if split: split_fields(result) elif reduce: reduce_array(result)`
\* applied to what Recfile.read(columns=...) returned (SFile always passes columns=)
SFilePost(Dev, cq, opt) ==
    LET sh == RecfilePost(Dev, cq, "columns", FALSE) IN
    IF opt = "split" THEN "split"
    ELSE IF opt = "reduce"
         THEN (IF sh = "struct" /\ Len(MechCols(cq)) = 1 THEN "plain"
               ELSE IF "reduce_falls" \in Dev THEN "None" ELSE sh)
    ELSE sh

PostRefine(Dev, cq, key, opt) ==
    /\ opt \in {"none", "split"} => RecfilePost(Dev, cq, key, opt = "split") \in ExpShapes(cq, opt)
    /\ SFilePost(Dev, cq, opt) \in ExpShapes(cq, opt)
    /\ MechCols(cq) = ExpCols(cq)
=============================================================================
