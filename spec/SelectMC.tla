------------------------------- MODULE SelectMC -------------------------------
(* Bounded models around Select.tla.  Three sub-machines share the variables and   *)
(* are selected by the NEXT operator of the configuration:                         *)
(*                                                                                *)
(* NextCases   enumerates every row request (ChooseN, ChooseRows) and every        *)
(*             column request x option (ChooseCols) of the bounded space.  On each  *)
(*             the implementation-shaped normalisation of Select.tla (SliceNorm,    *)
(*             RowsNorm, post-processing; deviations Dev) is compared with the     *)
(*             property level: BinRefines, TxtRefines, PostRefines.  The states are *)
(*             exported as JSON (ROWCASE / COLCASE) with the mechanism's prediction *)
(*             and replayed into the real code.                                    *)
(* NextSeq     the handle as a state machine at property level: Open, then up to    *)
(*             MaxReads reads drawn from a small alphabet of requests; each         *)
(*             behaviour (hist) is exported (BEH) and replayed on ONE open handle.  *)
(* NextCursor  the file cursor protocol of records.cpp (read_text_columns /         *)
(*             read_binary_columns / read_binary_slice), one action per code step,  *)
(*             over sequences of reads on one handle: whatever was read before, a   *)
(*             read delivers exactly the requested cells (CursorRefines).           *)
EXTENDS Select, Json

CONSTANTS MaxN,        \* tables of 1..MaxN rows
          MaxListLen,  \* row lists of length 0..MaxListLen (plus all permutations of 0..n-1)
          Steps,       \* slice steps tried (None = 9999 is always added)
          Dev,         \* deviations switched on in the mechanism model (see Select.tla)
          MaxReads,    \* reads per handle in NextSeq / NextCursor
          SeqN,        \* table sizes used by NextSeq / NextCursor
          DoExport

VARIABLES phase, n, rq, cq, opt,      \* NextCases
          h, hist,                    \* NextSeq (and NextCursor: h)
          pos, cur, job, out          \* NextCursor
vars == <<phase, n, rq, cq, opt, h, hist, pos, cur, job, out>>

NoJob == [kind |-> "none", rows |-> <<>>, cols |-> <<>>, i |-> 0, j |-> 0, s |-> 0, e |-> 0, st |-> 0]

Init == /\ phase = "start" /\ n = 0 /\ rq = RAll /\ cq = CAll /\ opt = "none"
        /\ h = HClose(HOpen(0)) /\ hist = <<>>
        /\ pos = 0 /\ cur = <<0, 0>> /\ job = NoJob /\ out = <<>>

\* ---- the bounded request space -----------------------------------------------------
Bounds(k)  == ((-k - 2)..(k + 2)) \cup {None}
StepSet    == Steps \cup {None}
Perms(k)   == {f \in [1..k -> 0..(k - 1)] : \A i, j \in 1..k : i # j => f[i] # f[j]}
ListDom(k) == (-k - 1)..(k + 1)
RowLists(k) == (UNION {[1..len -> ListDom(k)] : len \in 0..MaxListLen}) \cup Perms(k)

RowReqs(k) == {RAll}
              \cup {RScalar(r) : r \in (-k - 1)..k}
              \cup {RList(rs) : rs \in RowLists(k)}
              \cup {RSlice(s, e, st) : s \in Bounds(k), e \in Bounds(k), st \in StepSet}

\* every non-empty ordered subset of the columns, every scalar name, and "all"
ColSeqs == UNION {{f \in [1..len -> 1..NCols] : \A i, j \in 1..len : i # j => f[i] # f[j]} : len \in 1..NCols}
ColReqs == {CAll} \cup {CName(c) : c \in 1..NCols} \cup {CList(cs) : cs \in ColSeqs}
Opts    == {"none", "split", "reduce"}

\* ---- NextCases ------------------------------------------------------------------------
ChooseN == /\ phase = "start"
           /\ \E k \in 1..MaxN : n' = k
           /\ phase' = "n" /\ UNCHANGED <<rq, cq, opt, h, hist, pos, cur, job, out>>

ChooseRows == /\ phase = "n"
              /\ \E r \in RowReqs(n) : rq' = r
              /\ phase' = "rows" /\ UNCHANGED <<n, cq, opt, h, hist, pos, cur, job, out>>

ChooseCols == /\ phase = "start"
              /\ \E c \in ColReqs : \E o \in Opts : cq' = c /\ opt' = o
              /\ phase' = "cols" /\ UNCHANGED <<n, rq, h, hist, pos, cur, job, out>>

NextCases == ChooseN \/ ChooseRows \/ ChooseCols

\* the mechanism refines the property on both code paths (a lead when violated)
BinRefines  == phase = "rows" => RowsRefine(Dev, "binary", n, rq)
TxtRefines  == phase = "rows" => RowsRefine(Dev, "rows", n, rq)
PostRefines == phase = "cols" => \A key \in {"columns", "fields"} : PostRefine(Dev, cq, key, opt)

\* theorems about the property-level spec itself: where the statement fixes the result
\* the canonical result is accepted and a rejection is not; an out-of-range list
\* accepts nothing but a rejection
SpecSane == phase = "rows" =>
    LET q == Req(rq, CAll, "none")  m == RowMode(n, rq) IN
    /\ m \in {"det", "either"} => Accept(n, q, Index(n, q))
    /\ m = "det"    => ~Accept(n, q, Rejected)
    /\ m = "reject" => Accept(n, q, Rejected) /\ ~Accept(n, q, Index(n, q))
    /\ m \in {"det", "either"} =>       \* ascending, distinct, inside the table
          LET x == ExpRows(n, rq) IN \A i \in DOMAIN x : x[i] \in 0..(n - 1) /\ (i > 1 => x[i - 1] < x[i])
    /\ rq.k = "slice" =>                \* PySlice is numpy's answer on arange(n): membership form
          LET x == ExpRows(n, rq) IN
          \A r \in 0..(n - 1) :
              (\E i \in DOMAIN x : x[i] = r) <=>
              (/\ r >= PyBound(n, rq.s, 0) /\ r < PyBound(n, rq.e, n)
               /\ (r - PyBound(n, rq.s, 0)) % PyStep(rq.st) = 0)

\* all access styles and both file forms return Index(n, q): they agree by construction;
\* what can be stated is that column selection is order-insensitive and file-ordered
ColsSane == phase = "cols" =>
    LET x == ExpCols(cq) IN
    /\ \A i \in DOMAIN x : i > 1 => x[i - 1] < x[i]
    /\ cq.k # "all" => VRange(x) = VRange(cq.cs)
    /\ ExpShapes(cq, opt) # {}

MechView(path) == LET m == MechRows(Dev, path, n, rq) IN [err |-> m.err, rows |-> m.rows]
ExportCases ==
    /\ (DoExport /\ phase = "rows") =>
          PrintT(<<"ROWCASE", ToJson([n |-> n, rq |-> rq,
                                      devb |-> ~RowsRefine(Dev, "binary", n, rq),
                                      devt |-> ~RowsRefine(Dev, "rows", n, rq),
                                      mode |-> RowMode(n, rq)])>>)
    /\ (DoExport /\ phase = "cols") =>
          PrintT(<<"COLCASE", ToJson([cq |-> cq, opt |-> opt,
                                      devr |-> ~(opt \in {"none", "split"} =>
                                                   RecfilePost(Dev, cq, "fields", opt = "split") \in ExpShapes(cq, opt)),
                                      devs |-> ~(SFilePost(Dev, cq, opt) \in ExpShapes(cq, opt))])>>)

\* ---- NextSeq: behaviours of one handle at property level ---------------------------------
SeqRows(k) == {RAll, RScalar(0), RScalar(-1), RList(<<k - 1>>), RList(<<k - 1, 0>>), RList(<<k>>),
               RSlice(1, None, None), RSlice(None, -1, None), RSlice(None, None, 2), RSlice(k, None, None)}
SeqReqs(k) == {Req(r, c, "none") : r \in SeqRows(k), c \in {CAll, CList(<<3, 1>>)}}
              \cup {Req(RAll, CName(2), "none"), Req(RList(<<0>>), CName(3), "none"),
                    Req(RAll, CList(<<2>>), "split")}

Open == /\ phase = "start"
        /\ \E k \in SeqN : h' = HOpen(k)
        /\ phase' = "idle" /\ UNCHANGED <<n, rq, cq, opt, hist, pos, cur, job, out>>

Read == /\ phase = "idle" /\ h.open /\ h.nreads < MaxReads
        /\ \E q \in SeqReqs(h.n) : h' = HRead(h, q) /\ hist' = hist \o <<q>>
        /\ UNCHANGED <<phase, n, rq, cq, opt, pos, cur, job, out>>

NextSeq == Open \/ Read

\* a read never changes what a later read returns: the handle's n is constant and open
HandleStable == phase = "idle" => h.open /\ h.nreads = Len(hist)
HandleStep   == [][phase = "idle" => h'.n = h.n /\ h'.open]_vars

ExportSeq == (DoExport /\ phase = "idle" /\ hist # <<>>) => PrintT(<<"BEH", ToJson([n |-> h.n, reqs |-> hist])>>)

\* ---- NextCursor: the file cursor protocol, one action per code step ------------------------
\* pos = where the FILE pointer really is, as a linear cell offset row * NCols + (columns
\* consumed in that row); cur = <<row, col>> where the reader believes it is (current_row /
\* current_col of records.cpp); out = the cells <<row, column>> delivered.
\* Dev: "no_goto" (goto_offset() omitted), "no_skip_rest" (rest of a row not skipped)
CellAt(p)  == <<p \div NCols, (p % NCols) + 1>>
RowSets(k) == {VSortSet(S) : S \in (SUBSET (0..(k - 1))) \ {{}}}
ColSets    == {VSortSet(S) : S \in (SUBSET (1..NCols)) \ {{}}}

COpen == /\ phase = "start"
         /\ \E k \in SeqN : h' = HOpen(k)
         /\ phase' = "idle" /\ UNCHANGED <<n, rq, cq, opt, hist, pos, cur, job, out>>

\* read_columns(data, colnums, rows)
BeginColumns ==
    /\ phase = "idle" /\ h.nreads < MaxReads
    /\ \E R \in RowSets(h.n) : \E C \in ColSets :
          job' = [NoJob EXCEPT !.kind = "columns", !.rows = R, !.cols = C, !.i = 1, !.j = 1]
    /\ phase' = "goto" /\ out' = <<>> /\ UNCHANGED <<n, rq, cq, opt, h, hist, pos, cur>>

\* read_binary_slice(data, start, stop, step) after _process_slice (0 <= s <= e <= n)
BeginSlice ==
    /\ phase = "idle" /\ h.nreads < MaxReads
    /\ \E s \in 0..h.n : \E e \in s..h.n : \E st \in 1..2 :
          job' = [NoJob EXCEPT !.kind = "slice", !.s = s, !.e = e, !.st = st, !.i = s]
    /\ phase' = "goto" /\ out' = <<>> /\ UNCHANGED <<n, rq, cq, opt, h, hist, pos, cur>>

GotoOffset ==
    /\ phase = "goto"
    /\ pos' = IF "no_goto" \in Dev THEN pos ELSE 0
    /\ cur' = <<0, 0>>
    /\ phase' = IF job.kind = "columns" THEN "row" ELSE "first"
    /\ UNCHANGED <<n, rq, cq, opt, h, hist, job, out>>

\* columns reader ------------------------------------------------------------------------
SkipRows ==       \* if (row2read > current_row) skip_rows(current_row, row2read)
    /\ phase = "row" /\ job.i <= Len(job.rows)
    /\ LET r == job.rows[job.i]  d == IF r > cur[1] THEN r - cur[1] ELSE 0 IN
       /\ pos' = pos + d * NCols
       /\ cur' = <<cur[1] + d, 0>>
    /\ phase' = "col" /\ job' = [job EXCEPT !.j = 1]
    /\ UNCHANGED <<n, rq, cq, opt, h, hist, out>>

ReadCell ==       \* skip to the column (skip_ascii_col_range / do_seek), read it
    /\ phase = "col" /\ job.j <= Len(job.cols)
    /\ LET c == job.cols[job.j] - 1   d == IF c > cur[2] THEN c - cur[2] ELSE 0 IN
       /\ out' = out \o <<CellAt(pos + d)>>
       /\ pos' = pos + d + 1
       /\ cur' = <<cur[1], cur[2] + d + 1>>
    /\ job' = [job EXCEPT !.j = @ + 1]
    /\ UNCHANGED <<phase, n, rq, cq, opt, h, hist>>

SkipRest ==       \* skip the rest of the row if needed; current_row++
    /\ phase = "col" /\ job.j > Len(job.cols)
    /\ LET d == IF cur[2] < NCols /\ "no_skip_rest" \notin Dev THEN NCols - cur[2] ELSE 0 IN
       /\ pos' = pos + d
       /\ cur' = <<cur[1] + 1, 0>>
    /\ job' = [job EXCEPT !.i = @ + 1]
    /\ phase' = "row"
    /\ UNCHANGED <<n, rq, cq, opt, h, hist, out>>

\* slice reader --------------------------------------------------------------------------
SkipFirst ==      \* if (row1 > 0) skip_binary_rows(row1)
    /\ phase = "first"
    /\ pos' = pos + job.s * NCols
    /\ phase' = "srow" /\ UNCHANGED <<n, rq, cq, opt, h, hist, cur, job, out>>

ReadRow ==        \* fread one row, skip_binary_rows(step - 1)
    /\ phase = "srow" /\ job.i < job.e
    /\ out' = out \o <<CellAt(pos), CellAt(pos + 1), CellAt(pos + 2)>>
    /\ pos' = pos + job.st * NCols
    /\ job' = [job EXCEPT !.i = @ + job.st]
    /\ UNCHANGED <<phase, n, rq, cq, opt, h, hist, cur>>

EndRead ==
    /\ \/ phase = "row" /\ job.i > Len(job.rows)
       \/ phase = "srow" /\ job.i >= job.e
    /\ phase' = "idle" /\ h' = HRead(h, job)
    /\ UNCHANGED <<n, rq, cq, opt, hist, pos, cur, job, out>>

NextCursor == COpen \/ BeginColumns \/ BeginSlice \/ GotoOffset \/ SkipRows \/ ReadCell \/ SkipRest
              \/ SkipFirst \/ ReadRow \/ EndRead

\* what the finished read must have delivered: exactly the requested cells, in order
Wanted(j) == IF j.kind = "columns"
             THEN [k \in 1..(Len(j.rows) * Len(j.cols)) |->
                      <<j.rows[((k - 1) \div Len(j.cols)) + 1], j.cols[((k - 1) % Len(j.cols)) + 1]>>]
             ELSE LET rr == VArange(j.s, j.e, j.st) IN
                  [k \in 1..(Len(rr) * NCols) |-> <<rr[((k - 1) \div NCols) + 1], ((k - 1) % NCols) + 1>>]

CursorRefines == (phase = "idle" /\ job.kind # "none") => out = Wanted(job)
\* every delivered cell lies inside the file
CursorInFile  == \A k \in DOMAIN out : out[k][1] \in 0..(h.n - 1) /\ out[k][2] \in 1..NCols
=============================================================================
