------------------------------- MODULE SelectMC -------------------------------
(* Bounded models around Select.tla.  Three sub-machines share the variables and   *)
(* are selected by the NEXT operator of the configuration:                         *)
(*                                                                                *)
(* NextCases   enumerates every row request (ChooseN, ChooseRows) and every        *)
(*             column request x option (ChooseCols) of the bounded space.  On each  *)
(*             the implementation-shaped normalisation of Select.tla (SliceNorm,    *)
(*             RowsNorm, post-processing; deviations Dev) is compared with the     *)
(*             property level: BinRefines, TxtRefines, PostRefines.  The states are *)
(*             exported as JSON (ROWCASE / COLCASE) with the mechanism's prediction *)
(*             and replayed into the real code.                                    *)
(* NextSeq     the handle as a state machine at property level: Open, then up to    *)
(*             MaxReads reads drawn from a small alphabet of requests; each         *)
(*             behaviour (hist) is exported (BEH) and replayed on ONE open handle.  *)
(* NextHist    LONG histories on one handle over a WIDE table (HistCols columns, so    *)
(*             that dozens of distinct ordered column selections exist): a read is     *)
(*             two steps (HistPickCols, HistPickRows); the column selection is a NEW    *)
(*             one, one requested AGAIN, or one of the EARLIEST of the history (a       *)
(*             lookup cache of k slots needs k+1 distinct selections and then a return   *)
(*             to an evicted one); rejected calls (out-of-range row lists, unknown       *)
(*             column names) are interleaved and are stutter steps on the handle.        *)
(*             Explored with `tlc -simulate` (depth 2 * HistLen + 1), exported (HIST).   *)
(* NextScale   scale cases: tables of ScaleNs rows (row sizes 12 / 16 / 20 bytes) with    *)
(*             strided slices and run-length row lists across and at the 2^16 / 2^17 /   *)
(*             (1 MiB / row size) row boundaries, plus the same generator on SmallNs      *)
(*             rows where everything can be written out: ScaleLaw ties the closed form    *)
(*             (ExpRuns, block decomposition) to the exact oracle (ExpRows).             *)
(* NextRuns    RunsSameSound: the run-length comparison decides equality of the           *)
(*             denoted sequences, for every pair of encodings of short sequences.         *)
(* NextLife    object lifetime: the caller derives a selection object from a handle and lets   *)
(*             go of the handle (temporary, local of a helper, del, cycle + collector); the     *)
(*             heap (outer handle -> inner reader <- selection object) with collection as an     *)
(*             action; LifeRefines: every read through a held name is the read of a fresh        *)
(*             handle.  Behaviours exported (LIFE) and replayed with real garbage collection.    *)
(* NextCursor  the file cursor protocol of records.cpp (read_text_columns /         *)
(*             read_binary_columns / read_binary_slice), one action per code step,  *)
(*             over sequences of reads on one handle: whatever was read before, a   *)
(*             read delivers exactly the requested cells (CursorRefines).           *)
EXTENDS Select, Json

CONSTANTS MaxN,        \* tables of 1..MaxN rows
          MaxListLen,  \* row lists of length 0..MaxListLen (plus all permutations of 0..n-1)
          Steps,       \* slice steps tried (None = 9999 is always added)
          Dev,         \* deviations switched on in the mechanism model (see Select.tla)
          MaxReads,    \* reads per handle in NextSeq / NextCursor
          SeqN,        \* table sizes used by NextSeq / NextCursor
          HistCols,    \* widths of the tables of NextHist
          HistN,       \* their numbers of rows
          HistLen,     \* reads per long history
          ScaleNs,     \* numbers of rows of the scale tables (NextScale)
          SmallNs,     \* the same generator on tables small enough to be written out
          ScaleSteps,  \* strides of the scale slices
          ScaleThin,   \* 1 in ScaleThin of the scale cases of a large table is exported
          RunsMaxLen,  \* NextRuns: sequences over 0..2 of length <= RunsMaxLen
          LifeN,       \* NextLife: table sizes
          LifeLen,     \* NextLife: steps per behaviour (open, derive, reads, drop, collect)
          DoExport

VARIABLES phase, n, rq, cq, opt,      \* NextCases
          h, hist,                    \* NextSeq (and NextCursor: h)
          pos, cur, job, out,         \* NextCursor
          hmode,                      \* NextHist: how the next column selection is drawn
          sc,                         \* NextScale: the scale case
          xa, xb,                     \* NextRuns: two short sequences
          life                        \* NextLife: who holds / keeps alive what
ext  == <<hmode, sc, xa, xb, life>>
vars == <<phase, n, rq, cq, opt, h, hist, pos, cur, job, out, hmode, sc, xa, xb, life>>

NoScale == [n |-> 0, rs |-> 0, nc |-> 0, rq |-> RAll, cq |-> CAll, parts |-> <<>>]
NoLife == [hk |-> "none", n |-> 0, held |-> {}, alive |-> {}, iopen |-> FALSE, cq |-> CAll, steps |-> <<>>,
           q |-> Req(RAll, CAll, "none"), o |-> Rejected]
NoJob == [kind |-> "none", rows |-> <<>>, cols |-> <<>>, i |-> 0, j |-> 0, s |-> 0, e |-> 0, st |-> 0]

Init == /\ phase = "start" /\ n = 0 /\ rq = RAll /\ cq = CAll /\ opt = "none"
        /\ h = HClose(HOpen(0)) /\ hist = <<>>
        /\ pos = 0 /\ cur = <<0, 0>> /\ job = NoJob /\ out = <<>>
        /\ hmode = 1 /\ sc = NoScale /\ xa = <<>> /\ xb = <<>> /\ life = NoLife

\* ---- the bounded request space -----------------------------------------------------
Bounds(k)  == ((-k - 2)..(k + 2)) \cup {None}
StepSet    == Steps \cup {None}
Perms(k)   == {f \in [1..k -> 0..(k - 1)] : \A i, j \in 1..k : i # j => f[i] # f[j]}
ListDom(k) == (-k - 1)..(k + 1)
RowLists(k) == (UNION {[1..len -> ListDom(k)] : len \in 0..MaxListLen}) \cup Perms(k)

RowReqs(k) == {RAll}
              \cup {RScalar(r) : r \in (-k - 1)..k}
              \cup {RList(rs) : rs \in RowLists(k)}
              \cup {RSlice(s, e, st) : s \in Bounds(k), e \in Bounds(k), st \in StepSet}

\* every non-empty ordered subset of the columns, every scalar name, and "all"
ColSeqs == UNION {{f \in [1..len -> 1..NCols] : \A i, j \in 1..len : i # j => f[i] # f[j]} : len \in 1..NCols}
ColReqs == {CAll} \cup {CName(c) : c \in 1..NCols} \cup {CList(cs) : cs \in ColSeqs}
Opts    == {"none", "split", "reduce"}

\* ---- NextCases ------------------------------------------------------------------------
ChooseN == /\ phase = "start"
           /\ \E k \in 1..MaxN : n' = k
           /\ phase' = "n" /\ UNCHANGED <<rq, cq, opt, h, hist, pos, cur, job, out, ext>>

ChooseRows == /\ phase = "n"
              /\ \E r \in RowReqs(n) : rq' = r
              /\ phase' = "rows" /\ UNCHANGED <<n, cq, opt, h, hist, pos, cur, job, out, ext>>

ChooseCols == /\ phase = "start"
              /\ \E c \in ColReqs : \E o \in Opts : cq' = c /\ opt' = o
              /\ phase' = "cols" /\ UNCHANGED <<n, rq, h, hist, pos, cur, job, out, ext>>

NextCases == ChooseN \/ ChooseRows \/ ChooseCols

\* the mechanism refines the property on both code paths (a lead when violated)
BinRefines  == phase = "rows" => RowsRefine(Dev, "binary", n, rq)
TxtRefines  == phase = "rows" => RowsRefine(Dev, "rows", n, rq)
PostRefines == phase = "cols" => \A key \in {"columns", "fields"} : PostRefine(Dev, cq, key, opt)

\* theorems about the property-level spec itself: where the statement fixes the result
\* the canonical result is accepted and a rejection is not; an out-of-range list
\* accepts nothing but a rejection
SpecSane == phase = "rows" =>
    LET q == Req(rq, CAll, "none")  m == RowMode(n, rq) IN
    /\ m \in {"det", "either"} => Accept(n, q, Index(n, q))
    /\ m = "det"    => ~Accept(n, q, Rejected)
    /\ m = "reject" => Accept(n, q, Rejected) /\ ~Accept(n, q, Index(n, q))
    /\ m \in {"det", "either"} =>       \* ascending, distinct, inside the table
          LET x == ExpRows(n, rq) IN \A i \in DOMAIN x : x[i] \in 0..(n - 1) /\ (i > 1 => x[i - 1] < x[i])
    /\ rq.k = "slice" =>                \* PySlice is numpy's answer on arange(n): membership form
          LET x == ExpRows(n, rq) IN
          \A r \in 0..(n - 1) :
              (\E i \in DOMAIN x : x[i] = r) <=>
              (/\ r >= PyBound(n, rq.s, 0) /\ r < PyBound(n, rq.e, n)
               /\ (r - PyBound(n, rq.s, 0)) % PyStep(rq.st) = 0)

\* all access styles and both file forms return Index(n, q): they agree by construction;
\* what can be stated is that column selection is order-insensitive and file-ordered
ColsSane == phase = "cols" =>
    LET x == ExpCols(cq) IN
    /\ \A i \in DOMAIN x : i > 1 => x[i - 1] < x[i]
    /\ cq.k # "all" => VRange(x) = VRange(cq.cs)
    /\ ExpShapes(cq, opt) # {}

MechView(path) == LET m == MechRows(Dev, path, n, rq) IN [err |-> m.err, rows |-> m.rows]
ExportCases ==
    /\ (DoExport /\ phase = "rows") =>
          PrintT(<<"ROWCASE", ToJson([n |-> n, rq |-> rq,
                                      devb |-> ~RowsRefine(Dev, "binary", n, rq),
                                      devt |-> ~RowsRefine(Dev, "rows", n, rq),
                                      mode |-> RowMode(n, rq)])>>)
    /\ (DoExport /\ phase = "cols") =>
          PrintT(<<"COLCASE", ToJson([cq |-> cq, opt |-> opt,
                                      devr |-> ~(opt \in {"none", "split"} =>
                                                   RecfilePost(Dev, cq, "fields", opt = "split") \in ExpShapes(cq, opt)),
                                      devs |-> ~(SFilePost(Dev, cq, opt) \in ExpShapes(cq, opt))])>>)

\* ---- theorems behind the scale cases, on the small scope (NextCases, phase "rows") ---------
\* the closed form in runs is the written-out selection
RunsLaw == phase = "rows" =>
    /\ RowMode(n, rq) \in {"det", "either"} => RunsExpand(ExpRuns(n, rq)) = ExpRows(n, rq)
    /\ RunsWF(ExpRuns(n, rq))
\* cut the table anywhere: the selection is the concatenation of the selections from the two
\* parts (second part shifted); and, on the table itself, of the block sub-slices
ConcatLaw == phase = "rows" =>
    /\ rq.k = "slice" =>
          \A p \in 0..n :
             /\ ExpRows(n, rq) = SliceConcat(n, rq, p)
             /\ ExpRows(n, rq) = ExpRows(n, SliceBlock(n, rq, 0, p)) \o ExpRows(n, SliceBlock(n, rq, p, n - p))
             /\ \A x \in VRange(ExpRows(n, SliceBlock(n, rq, p, n - p))) : x >= p
    /\ rq.k = "slice" =>
          \A len \in 1..n :
             LET bl == SliceBlocks(n, rq, len)
                 RECURSIVE Cat(_)
                 Cat(k) == IF k > Len(bl) THEN <<>> ELSE ExpRows(n, bl[k]) \o Cat(k + 1)
             IN Cat(1) = ExpRows(n, rq)
    /\ (rq.k = "list" /\ RowMode(n, rq) = "det") =>
          \A p \in 0..n : ExpRows(n, rq) = ListConcat(n, rq.rs, p)

\* ---- a block-buffered strided reader (mechanism level; a lead, like the cursor protocol) -----------
\* the covered file region is pulled through a buffer of len rows and every st-th row is copied out
\* of it.  The index of the next wanted row inside a block is the stride phase carried over from the
\* block before; a reader that restarts it at the block start (Dev: "phase_restart") delivers wrong
\* rows after the first block whenever st does not divide len.
BlockStart(a, st, p) == IF "phase_restart" \in Dev THEN (IF a >= p THEN a ELSE p) ELSE PhaseFrom(a, st, p)
RECURSIVE BlockRead(_, _, _, _, _)
BlockRead(a, b, st, p, len) ==
    IF p >= b THEN <<>>
    ELSE VArange(BlockStart(a, st, p), VMin2(b, p + len), st) \o BlockRead(a, b, st, p + len, len)
BlockRefines == (phase = "rows" /\ rq.k = "slice") =>
    \A len \in 1..(n + 1) :
        LET a == PyBound(n, rq.s, 0)  b == PyBound(n, rq.e, n)
        IN BlockRead(a, b, PyStep(rq.st), a, len) = ExpRows(n, rq)

\* ---- NextRuns: RunsSame is sound and complete ---------------------------------------------------
ShortSeqs == UNION {[1..len -> 0..2] : len \in 0..RunsMaxLen}
IsArith(x, k) == \A i \in 2..k : x[i] - x[i - 1] = x[2] - x[1]
\* every run-length encoding of x; d = the (irrelevant) step written into one-element runs
RECURSIVE Enc(_, _)
Enc(x, d) == IF Len(x) = 0 THEN {<<>>}
             ELSE UNION {{<<<<x[1], IF k = 1 THEN d ELSE x[2] - x[1], k>>>> \o R : R \in Enc(SubSeq(x, k + 1, Len(x)), d)}
                         : k \in {kk \in 1..Len(x) : IsArith(x, kk)}}
ChooseXa == /\ phase = "start" /\ \E x \in ShortSeqs : xa' = x
            /\ phase' = "xa" /\ UNCHANGED <<n, rq, cq, opt, h, hist, pos, cur, job, out, hmode, sc, xb, life>>
ChooseXb == /\ phase = "xa" /\ \E x \in ShortSeqs : xb' = x
            /\ phase' = "xab" /\ UNCHANGED <<n, rq, cq, opt, h, hist, pos, cur, job, out, hmode, sc, xa, life>>
NextRuns == ChooseXa \/ ChooseXb
NextLaws == NextCases \/ NextRuns          \* the theorems of the spec in one run
RunsSameSound == phase = "xab" =>
    \A A \in Enc(xa, 0) : \A B \in Enc(xb, 7) :
        /\ RunsExpand(A) = xa /\ RunsWF(A) /\ RunsWF(B)
        /\ RunsSame(A, B) <=> (xa = xb)

\* ---- NextHist: long histories on one handle over a wide table ---------------------------------------
HistRowsBasic(k) == {RAll, RScalar(-1), RList(<<k - 1, 0>>), RList(<<k>>), RSlice(1, None, None), RSlice(None, None, 2)}
HistRows(k) == HistRowsBasic(k) \cup {RScalar(r) : r \in (-k)..(k - 1)}
               \cup {RList(<<a, b>>) : a, b \in 0..(k - 1)}
               \cup {RSlice(a, None, None) : a \in 0..k} \cup {RSlice(None, a, None) : a \in (-k)..(-1)}
Nxt(c, w)   == (c % w) + 1
HistColReqs(w) == {CAll, CList(<<w + 1>>), CList(<<1, w + 1>>)}                \* w + 1: not a column
                  \cup {CName(c) : c \in 1..w} \cup {CList(<<c>>) : c \in 1..w}
                  \cup ({CList(<<c, d>>) : c, d \in 1..w} \ {CList(<<c, c>>) : c \in 1..w})
                  \cup {CList(<<c, Nxt(c, w), Nxt(Nxt(c, w), w)>>) : c \in 1..w}
                  \cup {CList(<<Nxt(Nxt(c, w), w), c, Nxt(c, w)>>) : c \in 1..w}
Seen == {hist[i].cq : i \in DOMAIN hist}
\* hmode 1..3: a column selection not yet requested on this handle, any row request;
\* 4: the columns of any earlier read again; 5: those of one of the first three reads again
\* (4, 5: with the rows of that read, or with one of the basic row requests)
HistOpen == /\ phase = "start"
            /\ \E k \in HistN : \E w \in HistCols : h' = HOpenT(k, w)
            /\ phase' = "hist" /\ UNCHANGED <<n, rq, cq, opt, hist, pos, cur, job, out, ext>>

HistPickCols ==
    /\ phase = "hist" /\ Len(hist) < HistLen
    /\ IF hist = <<>> \/ hmode <= 3
       THEN \E c \in HistColReqs(h.nc) \ Seen : cq' = c /\ rq' = RAll /\ opt' = "new"
       ELSE \E i \in (IF hmode = 4 THEN DOMAIN hist ELSE 1..VMin2(3, Len(hist))) :
               cq' = hist[i].cq /\ rq' = hist[i].rq /\ opt' = "again"
    /\ \E m \in 1..5 : hmode' = m
    /\ phase' = "histrows" /\ UNCHANGED <<n, h, hist, pos, cur, job, out, sc, xa, xb, life>>

HistPickRows ==
    /\ phase = "histrows"
    /\ \E r \in (IF opt = "again" THEN HistRowsBasic(h.n) \cup {rq} ELSE HistRows(h.n)) : \E o \in Opts :
          /\ r.k = "slice" => o = "none"
          /\ hist' = hist \o <<Req(r, cq, o)>>
          /\ h' = HRead(h, Req(r, cq, o))
    /\ phase' = "hist" /\ UNCHANGED <<n, rq, cq, opt, pos, cur, job, out, ext>>

NextHist == HistOpen \/ HistPickCols \/ HistPickRows

\* the handle is what it was when opened, whatever was requested (served or rejected)
HistStable == phase \in {"hist", "histrows"} => h.open /\ h.nreads = Len(hist) /\ h.n \in HistN /\ h.nc \in HistCols
ExportHist == (DoExport /\ phase = "hist" /\ Len(hist) = HistLen) =>
                  PrintT(<<"HIST", ToJson([n |-> h.n, nc |-> h.nc, reqs |-> hist])>>)

\* ---- NextScale ------------------------------------------------------------------------------------------
\* a scale table: n rows of rs bytes (rs = 0: a small table, 3 columns, blocks of 3 rows);
\* boundaries: the rows at which a 2^16- / 2^17-row or a 1 MiB block ends
IsSmall(k)      == k \in SmallNs
BlockRows(k, b) == IF IsSmall(k) THEN 3 ELSE 1048576 \div b
ScaleNc(b)      == IF b = 12 THEN 2 ELSE 3
ScaleBounds(k, b) == IF IsSmall(k) THEN {3, 4}
                     ELSE {x \in {65536, 131072, BlockRows(k, b), 2 * BlockRows(k, b)} : x + 8 < k}
ScaleSlices(k, Bd) ==
    {RSlice(s, e, st) : s \in {None, 0, 1, 5, -(k - 1)} \cup {b - 1 : b \in Bd} \cup {b + 1 : b \in Bd},
                        e \in {None, k + 7, -3} \cup {b + 1 : b \in Bd},
                        st \in ScaleSteps \cup {None}}
\* (three sets: TLC cannot hold run lists and plain lists in one set)
ScaleRuns(k, Bd) ==
    {RRuns(<<<<b - 3, 1, 7>>>>) : b \in Bd} \cup {RRuns(<<<<b - 4, 3, 4>>>>) : b \in Bd}
    \cup {RRuns(<<<<b + 1, 1, 3>>, <<0, 2, 2>>>>) : b \in Bd}                   \* runs out of order
    \cup {RRuns(<<<<b + 2, -1, 5>>>>) : b \in Bd}                                \* descending
    \cup {RRuns(<<<<b - 1, 1, 3>>, <<b - 1, 1, 3>>>>) : b \in Bd}                \* every row twice
    \cup {RRuns(<<<<b, 0, 3>>, <<b - 2, 1, 2>>>>) : b \in Bd}                    \* one row three times
    \cup {RRuns(<<<<b - 1, 2, 3>>, <<b, 2, 2>>>>) : b \in Bd}                    \* interleaved: outside the closed form
    \cup {RRuns(<<<<0, st, ((k - 1) \div st) + 1>>>>) : st \in {2, 3}}           \* every st-th row of the table
    \cup {RRuns(<<<<1, 1, k - 1>>>>), RRuns(<<<<k - 2, 1, 3>>>>), RRuns(<<<<k - 1, 1, 1>>, <<0, 5, ((k - 1) \div 5) + 1>>>>)}
ScaleLists(k, Bd) == {RList(<<b, 0, b - 1, b>>) : b \in Bd} \cup {RList(<<k>>), RList(<<k - 1, 0>>)}
ScaleCols(w) == {CAll, CName(1), CList(<<w, 1>>), CList(<<2>>)}
ReqHash(r) == (IF r.s = None THEN 1 ELSE VAbs(r.s) + 2) + 3 * (IF r.e = None THEN 1 ELSE VAbs(r.e) + 2) + 7 * (IF r.st = None THEN 0 ELSE r.st)
              + 11 * Len(r.rs) + (IF Len(r.rs) > 0 /\ r.k = "runs" THEN 13 * VAbs(r.rs[1][1]) + 5 * VAbs(r.rs[1][2]) ELSE 0)
ColHash(c) == IF c.k = "all" THEN 0 ELSE IF c.k = "name" THEN 1 ELSE 1 + Len(c.cs)
ScaleKeep(k, b, r, c) == IsSmall(k) \/ ((ReqHash(r) + 17 * ColHash(c) + (k % 7) + b) % ScaleThin = 0)

ChooseScaleOf(Reqs(_, _)) ==
    /\ phase = "start"
    /\ \E k \in ScaleNs \cup SmallNs : \E b \in (IF IsSmall(k) THEN {0} ELSE {12, 16, 20}) :
       \E r \in Reqs(k, ScaleBounds(k, b)) :
       \E c \in ScaleCols(IF IsSmall(k) THEN NCols ELSE ScaleNc(b)) :
          /\ ScaleKeep(k, b, r, c)
          /\ sc' = [n |-> k, rs |-> b, nc |-> IF IsSmall(k) THEN NCols ELSE ScaleNc(b), rq |-> r, cq |-> c,
                    parts |-> IF r.k = "slice" THEN SliceBlocks(k, r, BlockRows(k, b)) ELSE <<>>]
    /\ phase' = "scale" /\ UNCHANGED <<n, rq, cq, opt, h, hist, pos, cur, job, out, hmode, xa, xb, life>>
ChooseScale == ChooseScaleOf(ScaleSlices) \/ ChooseScaleOf(ScaleRuns) \/ ChooseScaleOf(ScaleLists)
NextScale == ChooseScale

\* the law in closed form, for every scale case however large: the block sub-slices, in runs,
\* concatenate to the runs of the whole slice; every part lies inside its block
RECURSIVE PartsRuns(_, _, _)
PartsRuns(k, parts, i) == IF i > Len(parts) THEN <<>> ELSE ExpRuns(k, parts[i]) \o PartsRuns(k, parts, i + 1)
ScaleBlocks == phase = "scale" =>
    /\ RunsWF(ExpRuns(sc.n, sc.rq))
    /\ sc.rq.k = "slice" =>
          /\ RunsSame(PartsRuns(sc.n, sc.parts, 1), ExpRuns(sc.n, sc.rq))
          /\ \A i \in DOMAIN sc.parts :
                LET L == BlockRows(sc.n, sc.rs)  x == ExpRuns(sc.n, sc.parts[i]) IN
                x # <<>> => x[1][1] >= (i - 1) * L /\ RunLast(x[1]) < i * L
\* ... and on the small tables the closed form IS the written-out oracle: what the trace module
\* demands of a run-length observation is what it demands of the written-out one
ScaleLaw == (phase = "scale" /\ IsSmall(sc.n)) =>
    LET k == sc.n  r == sc.rq  m == RowMode(k, r)
        q == Req(r, sc.cq, "none")
        sh == CHOOSE x \in ExpShapesN(sc.nc, sc.cq, "none") : TRUE
        long(rows)  == Result(sh, ExpColsN(sc.nc, sc.cq), rows)
        short(runs) == [err |-> "none", shape |-> sh, cols |-> ExpColsN(sc.nc, sc.cq), runs |-> runs]
    IN /\ m \in {"det", "either"} => RunsExpand(ExpRuns(k, r)) = ExpRows(k, r)
       /\ r.k = "runs" =>
             LET lst == RList(RunsExpand(r.rs)) IN
             /\ m = "reject" <=> RowMode(k, lst) = "reject"
             /\ m = "det" => RowMode(k, lst) = "det" /\ ExpRows(k, lst) = ExpRows(k, r)
       /\ m = "det" =>
             /\ FailingT(k, sc.nc, q, short(ExpRuns(k, r))) = {} /\ FailingT(k, sc.nc, q, long(ExpRows(k, r))) = {}
             /\ FailingT(k, sc.nc, q, Rejected) # {}
             /\ \A d \in {1, 2} :          \* a run whose phase slipped by d is rejected
                   ExpRuns(k, r) # <<>> =>
                      LET x == ExpRuns(k, r)
                          bad == [x EXCEPT ![Len(x)] = <<@[1] + d, @[2], @[3]>>]
                      IN FailingT(k, sc.nc, q, short(bad)) = {RowClause(r)}
       /\ m = "reject" => FailingT(k, sc.nc, q, Rejected) = {} /\ FailingT(k, sc.nc, q, short(<<>>)) # {}
ExportScale == (DoExport /\ phase = "scale") =>
                  PrintT(<<"SCALE", ToJson([n |-> sc.n, rs |-> sc.rs, nc |-> sc.nc, rq |-> sc.rq, cq |-> sc.cq,
                                            parts |-> IF RowMode(sc.n, sc.rq) = "det" THEN sc.parts ELSE <<>>,
                                            mode |-> RowMode(sc.n, sc.rq)])>>)

\* ---- NextLife: object lifetime (mechanism level) --------------------------------------------------------
\* The caller opens a handle (name "h"), derives a selection object from it (name "v": h[columns]) and lets go
\* of "h" while keeping "v": the handle was a temporary (`SFile(f)[cols][rows]`: "temp"), a local of a helper
\* that returns the selection ("scope"), deleted ("del"), or deleted while part of a reference cycle ("cycle":
\* it lives on until the collector runs - LCollect).  Property level (Select.tla: HLife): none of these steps
\* is visible to a read through a selection object the caller still holds.
\* Mechanism: the heap holds "outer" (an SFile) which owns "inner" (the Recfile that owns the file); a Recfile
\* handle is "inner" alone.  A selection object keeps "inner" alive (RecfileColumnSubset.recfile).  An object
\* nobody reaches is collected.  Dev: "finalizer_closes" (the outer object closes the inner reader when it is
\* collected), "view_weak" (the selection object does not keep the reader alive).
LifeRows(k) == {RAll, RScalar(-1), RList(<<k - 1, 0>>), RSlice(1, None, None), RSlice(None, None, 2)}
\* while the handle is held a read is the ordinary case (NextSeq, NextHist): one request stands for all
LifeRowsOf(l) == IF "h" \in l.held THEN {RList(<<l.n - 1, 0>>)} ELSE LifeRows(l.n)
LifeCols    == {CName(2), CList(<<3, 1>>), CList(<<2>>)}
LObjs(hk)   == IF hk = "SFile" THEN {"outer", "inner"} ELSE {"inner"}
LReach(l, held) == (IF "h" \in held \/ "cyc" \in held THEN LObjs(l.hk) ELSE {})
                   \cup (IF "v" \in held /\ "view_weak" \notin Dev THEN {"inner"} ELSE {})
\* the caller's names become held; what nobody reaches is collected (and finalised)
LSweep(l, held) ==
    LET keep == l.alive \cap LReach(l, held)  gone == l.alive \ keep IN
    [l EXCEPT !.held = held, !.alive = keep,
              !.iopen = @ /\ "inner" \in keep /\ ~("outer" \in gone /\ "finalizer_closes" \in Dev)]
LStep(l, st) == [l EXCEPT !.steps = Append(@, st)]
LA(a)        == [a |-> a, via |-> "-", mode |-> "-", rq |-> RAll, cq |-> CAll]

LOpen == /\ phase = "start"
         /\ \E hk \in {"SFile", "Recfile"} : \E k \in LifeN :
               life' = [NoLife EXCEPT !.hk = hk, !.n = k, !.held = {"h"}, !.alive = LObjs(hk), !.iopen = TRUE,
                                      !.steps = <<LA("open")>>]
         /\ phase' = "life" /\ UNCHANGED <<n, rq, cq, opt, h, hist, pos, cur, job, out, hmode, sc, xa, xb>>
LDerive == /\ phase = "life" /\ Len(life.steps) < LifeLen /\ "h" \in life.held /\ "v" \notin life.held
           /\ \E c \in LifeCols : life' = LStep([life EXCEPT !.held = @ \cup {"v"}, !.cq = c], [LA("derive") EXCEPT !.cq = c])
           /\ UNCHANGED <<phase, n, rq, cq, opt, h, hist, pos, cur, job, out, hmode, sc, xa, xb>>
LDrop == /\ phase = "life" /\ Len(life.steps) < LifeLen /\ {"h", "v"} \subseteq life.held
         /\ \E m \in {"del", "scope", "temp", "cycle"} :
               /\ m = "temp" => Len(life.steps) = 2                     \* open, derive: one expression
               /\ life' = LStep(LSweep(life, (life.held \ {"h"}) \cup (IF m = "cycle" THEN {"cyc"} ELSE {})),
                                [LA("drop") EXCEPT !.mode = m])
         /\ UNCHANGED <<phase, n, rq, cq, opt, h, hist, pos, cur, job, out, hmode, sc, xa, xb>>
LCollect == /\ phase = "life" /\ Len(life.steps) < LifeLen /\ "v" \in life.held
            /\ life.steps[Len(life.steps)].a # "collect"
            /\ life' = LStep(LSweep(life, life.held \ {"cyc"}), LA("collect"))
            /\ UNCHANGED <<phase, n, rq, cq, opt, h, hist, pos, cur, job, out, hmode, sc, xa, xb>>
LRead == /\ phase = "life" /\ Len(life.steps) < LifeLen
         /\ \E via \in life.held \cap {"h", "v"} : \E r \in LifeRowsOf(life) :
               LET q == Req(r, IF via = "v" THEN life.cq ELSE CAll, "none")
                   o == IF "inner" \in life.alive /\ life.iopen THEN Index(life.n, q) ELSE Rejected
               IN life' = LStep([life EXCEPT !.q = q, !.o = o], [LA("read") EXCEPT !.via = via, !.rq = r])
         /\ UNCHANGED <<phase, n, rq, cq, opt, h, hist, pos, cur, job, out, hmode, sc, xa, xb>>
NextLife == LOpen \/ LDerive \/ LDrop \/ LCollect \/ LRead

LastIsRead == phase = "life" /\ life.steps[Len(life.steps)].a = "read"
\* whoever else let go of what: a read through a name the caller holds is the read of a fresh handle
LifeRefines == LastIsRead => Accept(life.n, life.q, life.o)
LifeSane    == phase = "life" => life.held \cap {"h", "v"} # {} /\ life.alive \subseteq LObjs(life.hk)
Dropped     == \E i \in DOMAIN life.steps : life.steps[i].a = "drop"
ExportLife  == (DoExport /\ LastIsRead /\ Len(life.steps) = LifeLen /\ life.steps[LifeLen].via = "v" /\ Dropped) =>
                  PrintT(<<"LIFE", ToJson([n |-> life.n, hk |-> life.hk, steps |-> life.steps])>>)

\* ---- NextSeq: behaviours of one handle at property level ---------------------------------
SeqRows(k) == {RAll, RScalar(0), RScalar(-1), RList(<<k - 1>>), RList(<<k - 1, 0>>), RList(<<k>>),
               RSlice(1, None, None), RSlice(None, -1, None), RSlice(None, None, 2), RSlice(k, None, None)}
SeqReqs(k) == {Req(r, c, "none") : r \in SeqRows(k), c \in {CAll, CList(<<3, 1>>)}}
              \cup {Req(RAll, CName(2), "none"), Req(RList(<<0>>), CName(3), "none"),
                    Req(RAll, CList(<<2>>), "split")}

Open == /\ phase = "start"
        /\ \E k \in SeqN : h' = HOpen(k)
        /\ phase' = "idle" /\ UNCHANGED <<n, rq, cq, opt, hist, pos, cur, job, out, ext>>

Read == /\ phase = "idle" /\ h.open /\ h.nreads < MaxReads
        /\ \E q \in SeqReqs(h.n) : h' = HRead(h, q) /\ hist' = hist \o <<q>>
        /\ UNCHANGED <<phase, n, rq, cq, opt, pos, cur, job, out, ext>>

NextSeq == Open \/ Read

\* a read never changes what a later read returns: the handle's n is constant and open
HandleStable == phase = "idle" => h.open /\ h.nreads = Len(hist)
HandleStep   == [][(phase \in {"idle", "hist", "histrows"}) => h'.n = h.n /\ h'.nc = h.nc /\ h'.open]_vars

ExportSeq == (DoExport /\ phase = "idle" /\ hist # <<>>) => PrintT(<<"BEH", ToJson([n |-> h.n, reqs |-> hist])>>)

\* ---- NextCursor: the file cursor protocol, one action per code step ------------------------
\* pos = where the FILE pointer really is, as a linear cell offset row * NCols + (columns
\* consumed in that row); cur = <<row, col>> where the reader believes it is (current_row /
\* current_col of records.cpp); out = the cells <<row, column>> delivered.
\* Dev: "no_goto" (goto_offset() omitted), "no_skip_rest" (rest of a row not skipped)
CellAt(p)  == <<p \div NCols, (p % NCols) + 1>>
RowSets(k) == {VSortSet(S) : S \in (SUBSET (0..(k - 1))) \ {{}}}
ColSets    == {VSortSet(S) : S \in (SUBSET (1..NCols)) \ {{}}}

COpen == /\ phase = "start"
         /\ \E k \in SeqN : h' = HOpen(k)
         /\ phase' = "idle" /\ UNCHANGED <<n, rq, cq, opt, hist, pos, cur, job, out, ext>>

\* read_columns(data, colnums, rows)
BeginColumns ==
    /\ phase = "idle" /\ h.nreads < MaxReads
    /\ \E R \in RowSets(h.n) : \E C \in ColSets :
          job' = [NoJob EXCEPT !.kind = "columns", !.rows = R, !.cols = C, !.i = 1, !.j = 1]
    /\ phase' = "goto" /\ out' = <<>> /\ UNCHANGED <<n, rq, cq, opt, h, hist, pos, cur, ext>>

\* read_binary_slice(data, start, stop, step) after _process_slice (0 <= s <= e <= n)
BeginSlice ==
    /\ phase = "idle" /\ h.nreads < MaxReads
    /\ \E s \in 0..h.n : \E e \in s..h.n : \E st \in 1..2 :
          job' = [NoJob EXCEPT !.kind = "slice", !.s = s, !.e = e, !.st = st, !.i = s]
    /\ phase' = "goto" /\ out' = <<>> /\ UNCHANGED <<n, rq, cq, opt, h, hist, pos, cur, ext>>

GotoOffset ==
    /\ phase = "goto"
    /\ pos' = IF "no_goto" \in Dev THEN pos ELSE 0
    /\ cur' = <<0, 0>>
    /\ phase' = IF job.kind = "columns" THEN "row" ELSE "first"
    /\ UNCHANGED <<n, rq, cq, opt, h, hist, job, out, ext>>

\* columns reader ------------------------------------------------------------------------
SkipRows ==       \* if (row2read > current_row) skip_rows(current_row, row2read)
    /\ phase = "row" /\ job.i <= Len(job.rows)
    /\ LET r == job.rows[job.i]  d == IF r > cur[1] THEN r - cur[1] ELSE 0 IN
       /\ pos' = pos + d * NCols
       /\ cur' = <<cur[1] + d, 0>>
    /\ phase' = "col" /\ job' = [job EXCEPT !.j = 1]
    /\ UNCHANGED <<n, rq, cq, opt, h, hist, out, ext>>

ReadCell ==       \* skip to the column (skip_ascii_col_range / do_seek), read it
    /\ phase = "col" /\ job.j <= Len(job.cols)
    /\ LET c == job.cols[job.j] - 1   d == IF c > cur[2] THEN c - cur[2] ELSE 0 IN
       /\ out' = out \o <<CellAt(pos + d)>>
       /\ pos' = pos + d + 1
       /\ cur' = <<cur[1], cur[2] + d + 1>>
    /\ job' = [job EXCEPT !.j = @ + 1]
    /\ UNCHANGED <<phase, n, rq, cq, opt, h, hist, ext>>

SkipRest ==       \* skip the rest of the row if needed; current_row++
    /\ phase = "col" /\ job.j > Len(job.cols)
    /\ LET d == IF cur[2] < NCols /\ "no_skip_rest" \notin Dev THEN NCols - cur[2] ELSE 0 IN
       /\ pos' = pos + d
       /\ cur' = <<cur[1] + 1, 0>>
    /\ job' = [job EXCEPT !.i = @ + 1]
    /\ phase' = "row"
    /\ UNCHANGED <<n, rq, cq, opt, h, hist, out, ext>>

\* slice reader --------------------------------------------------------------------------
SkipFirst ==      \* if (row1 > 0) skip_binary_rows(row1)
    /\ phase = "first"
    /\ pos' = pos + job.s * NCols
    /\ phase' = "srow" /\ UNCHANGED <<n, rq, cq, opt, h, hist, cur, job, out, ext>>

ReadRow ==        \* fread one row, skip_binary_rows(step - 1)
    /\ phase = "srow" /\ job.i < job.e
    /\ out' = out \o <<CellAt(pos), CellAt(pos + 1), CellAt(pos + 2)>>
    /\ pos' = pos + job.st * NCols
    /\ job' = [job EXCEPT !.i = @ + job.st]
    /\ UNCHANGED <<phase, n, rq, cq, opt, h, hist, cur, ext>>

EndRead ==
    /\ \/ phase = "row" /\ job.i > Len(job.rows)
       \/ phase = "srow" /\ job.i >= job.e
    /\ phase' = "idle" /\ h' = HRead(h, job)
    /\ UNCHANGED <<n, rq, cq, opt, hist, pos, cur, job, out, ext>>

NextCursor == COpen \/ BeginColumns \/ BeginSlice \/ GotoOffset \/ SkipRows \/ ReadCell \/ SkipRest
              \/ SkipFirst \/ ReadRow \/ EndRead

\* what the finished read must have delivered: exactly the requested cells, in order
Wanted(j) == IF j.kind = "columns"
             THEN [k \in 1..(Len(j.rows) * Len(j.cols)) |->
                      <<j.rows[((k - 1) \div Len(j.cols)) + 1], j.cols[((k - 1) % Len(j.cols)) + 1]>>]
             ELSE LET rr == VArange(j.s, j.e, j.st) IN
                  [k \in 1..(Len(rr) * NCols) |-> <<rr[((k - 1) \div NCols) + 1], ((k - 1) % NCols) + 1>>]

CursorRefines == (phase = "idle" /\ job.kind # "none") => out = Wanted(job)
\* every delivered cell lies inside the file
CursorInFile  == \A k \in DOMAIN out : out[k][1] \in 0..(h.n - 1) /\ out[k][2] \in 1..NCols
=============================================================================
