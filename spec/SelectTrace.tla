------------------------------- MODULE SelectTrace -------------------------------
(* Trace validation for row / column selection.  One ndjson line per open handle:   *)
(*   {"id": k, "n": rows in the stored table, "nc": its number of columns,          *)
(*    "ev": [{"q": <request>, "o": <observation>}, ...]}   in the order executed    *)
(* An observation carries the original row numbers written out ("rows") or, for a    *)
(* long table, in run-length form ("runs": [[first, step, count], ...]).             *)
(* An event {"a": "derive" | "drop" | "collect"} is a lifetime step of the caller    *)
(* (Select.tla: HLife) between reads.                                                  *)
(* The handle state machine of Select.tla is stepped through the events: Open,       *)
(* then one HRead per event; every observation must be accepted by the property      *)
(* level spec in the state the handle is in (which - this is the point - depends on  *)
(* nothing but n).  Rejected records are printed with <<event number, clause>>.      *)
EXTENDS Select, Json, IOUtils

VARIABLES blk, tid
Traces == ndJsonDeserialize(IOEnv.TRACE_FILE)
NT == Len(Traces)
BlockSize == 256
NBlocks == (NT + BlockSize - 1) \div BlockSize

Init == blk = 0 /\ tid = 0
PickBlock == blk = 0 /\ tid = 0 /\ \E b \in 1..NBlocks : blk' = b /\ tid' = 0
PickTrace == blk > 0 /\ tid = 0
             /\ \E t \in ((blk - 1) * BlockSize + 1)..VMin2(blk * BlockSize, NT) : tid' = t /\ blk' = blk
Next == PickBlock \/ PickTrace

\* step the handle through the recorded events, collecting the failing clauses
RECURSIVE RunFrom(_, _, _)
RunFrom(hd, ev, k) ==
    IF k > Len(ev) THEN {}
    ELSE IF "a" \in DOMAIN ev[k] THEN RunFrom(HLife(hd, ev[k].a), ev, k + 1)     \* a lifetime step of the caller
    ELSE {<<k, cl>> : cl \in HFailing(hd, ev[k].q, ev[k].o)} \cup RunFrom(HRead(hd, ev[k].q), ev, k + 1)

FailingRec(r) == RunFrom(HOpenT(r.n, r.nc), r.ev, 1)

Check == tid > 0 =>
    LET r == Traces[tid]  f == FailingRec(r)
    IN f = {} \/ PrintT(<<"REJECT", ToJson([id |-> r.id, failing |-> f])>>)
=============================================================================
