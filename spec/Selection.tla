------------------------------- MODULE Selection -------------------------------
(* Extension X01: array selection, scaling and assembly helpers of               *)
(* esutil.numpy_util (between, outside, where1, select_percentile, arrscl,        *)
(* replicate, combine_arrlist, dict2array, dictlist2array, strmatch,              *)
(* make_xy_grid) and esutil.misc (dict_select, collect_keyby).                    *)
(*                                                                                *)
(* THE CONTRACT (documented behaviour taken as the statement; source lines are    *)
(* the docstrings of /repo/esutil/numpy_util.py and /repo/esutil/misc.py):         *)
(*  B1 between: "bool array with True for values in the range and False           *)
(*     otherwise"; "Interval type, one of [] () [) (]"; "default [) mimicking      *)
(*     slices for integers".  A bracket is closed ([ ]) or open (( )) at that end. *)
(*  B2 outside: "bool array with True for values outside the range and False      *)
(*     otherwise"; "Interval type, one of )(  ][  ](  )["; "default is )( meaning   *)
(*     total exclusion"; example "outside 10 and 100, inclusive ... ']['".          *)
(*     lowval / highval are documented as scalars: array bounds are exercised      *)
(*     element-wise but do not gate.  An undocumented type string: unconstrained.  *)
(*  W1 where1: "A wrapper for np.where() for 1-d arrays.  It is the equivalent of  *)
(*     w, = where(logical expression)": the ascending indices of the true          *)
(*     (non-zero) elements.                                                         *)
(*  P1 select_percentile: "A list containing indices for data that falls in each   *)
(*     percentile ... [x < x25, x25 < x < x50, x50 < x < x75, x > x75] where x25     *)
(*     x value at the 25th percentile" (strict comparisons; np.percentile with the  *)
(*     given **keys defines the cut - its documented default is linear             *)
(*     interpolation); "percentile: scalar or sequence".                            *)
(*  P2 "If get_ranges==True the return is a tuple (index_list, range_list) ...      *)
(*     [ [x.min(),x25], [x25,x50], [x50,x75], [x75,x.max()] ]".                      *)
(*     Percentiles that are not ascending, empty and non-1-d data: unconstrained.  *)
(*  S1 arrscl: "Rescale the range of an array to be between minval and maxval";    *)
(*     "arrmin=None: An number to use for the min range of the input array. By      *)
(*     default it is taken from the input array" (arrmax alike): the affine map     *)
(*     taking [arrmin, arrmax] onto [minval, maxval].  "dtype: Default is double";  *)
(*     "OUTPUTS: The new array".  arrmin = arrmax (no range): unconstrained.        *)
(*  R1 replicate: "A new numerical python array with every element set to the      *)
(*     input value"; "shape: Scalar or sequence.  The shape of the resulting        *)
(*     array"; "dtype: The data type of the result. If None, the value is           *)
(*     determined from the input value".                                            *)
(*  C1 combine_arrlist: "Combined the list of arrays into one big array.  The       *)
(*     arrays must all be the same data type" (different types: precondition        *)
(*     broken, unconstrained - the code does not promise a rejection).              *)
(*  C2 "keep: By default the elements are deleted as they are added to the big      *)
(*     array.  Turn this off with keep=True".  The empty list gives an empty array  *)
(*     (type unconstrained); a one-element list gives that array's rows (the same   *)
(*     object or a copy, list consumed or not: unconstrained).                      *)
(*  D1 dict2array: "Convert a dictionary to an array with fields ... simple types   *)
(*     e.g. strings, integers, floating points"; "keys: provide a sequence of keys  *)
(*     to copy.  This can be used to order the fields ... or copy only a subset of   *)
(*     keys"; "sort: Sort the keys".  Neither given: any order ("standard           *)
(*     dictionary keys are unordered").  A requested key that is absent: rejected   *)
(*     or skipped.                                                                  *)
(*  D2 dictlist2array: "Convert a list of dictionaries to an array"; "All dicts      *)
(*     should have the same entries" (else unconstrained); keys / sort as D1.       *)
(*     Mixed value types in one field: unconstrained.                               *)
(*  M1 strmatch: "Match the string array to the input regular expression.  Returns  *)
(*     a boolean array."  Whether the match is anchored at the start (re.match),    *)
(*     at both ends or nowhere is not said: a value is constrained only where the   *)
(*     three readings agree.                                                        *)
(*  G1 make_xy_grid: "Create a grid of x-y points, returning x and y as numpy       *)
(*     arrays" for (npoints, xrange, yrange): the npoints x npoints products of     *)
(*     npoints equally spaced abscissae over each range, in any order.              *)
(*  K1 misc.dict_select: "Select a subset of keys from the input dict"; "keep: A    *)
(*     list of keys to keep. If the input is None or [] all keys are returned that  *)
(*     are not in the remove list"; "remove: A list of keys to ignore"; the result  *)
(*     is a "newdict".  A kept key that is absent: skipped or rejected.             *)
(*  K2 misc.collect_keyby: "Create a new dictionary from the input collection,      *)
(*     keyed by the values specified by the input key name": every element is in    *)
(*     the list of its key value and nowhere else (order in a list unconstrained).  *)
(*                                                                                *)
(* Numbers live on an integer lattice (the harness scales by a power of two and     *)
(* adds an offset, so comparisons and the interpolated percentiles - eighths of     *)
(* 100 only - are exact in binary64); real-valued results are exact rationals       *)
(* <<n, d>> here and projected records [k |-> "rat", n, d] in an observation.       *)
(* Structured rows are opaque integer tokens; dtypes are small integer ids.         *)
(*                                                                                *)
(* SLFailing(c, o): the clauses of the contract that observation o of case c        *)
(* contradicts.  SLRef(c): the reference observation where the contract fixes it.   *)
(* SLPipe*: the pipeline state machine (a list of arrays of [t, v] rows stepped by  *)
(* selection, percentile splitting and list combination).                           *)
EXTENDS VU

\* ---- helpers ------------------------------------------------------------------
RECURSIVE SLProd(_)
SLProd(s) == IF s = <<>> THEN 1 ELSE Head(s) * SLProd(Tail(s))

RECURSIVE SLConcat(_)
SLConcat(ss) == IF ss = <<>> THEN <<>> ELSE Head(ss) \o SLConcat(Tail(ss))

SLHasDup(s) == \E i, j \in DOMAIN s : i < j /\ s[i] = s[j]
SLIsRat(r, e) == r.k = "rat" /\ r.n = e[1] /\ r.d = e[2]
SLRatRec(e) == [k |-> "rat", n |-> e[1], d |-> e[2]]
SLAscending(s) == \A i \in 1..(Len(s) - 1) : s[i] < s[i + 1]
\* the 0-based positions j-1 with P(j), ascending
SLIndices(n, P(_)) == [k \in 1..Cardinality({j \in 1..n : P(j)}) |->
                          VSortSet({j \in 1..n : P(j)})[k] - 1]

SLNameOrder == <<"a", "b", "c", "d", "e", "zz">>           \* the alphabet of key names, sorted
SLSortNames(S) == SelectSeq(SLNameOrder, LAMBDA n : n \in S)

\* ---------------------------------------------------------------------------------
\* B1 / B2   between, outside
\*   c = [fn, x : Seq(Int), shape, lo, hi : Seq(Int), loarr, hiarr : BOOLEAN, ty]
\*   o = [err, shape, val : Seq(BOOLEAN), kind]
\* ---------------------------------------------------------------------------------
SLBetweenTypes == {"[]", "[)", "(]", "()"}
SLOutsideTypes == {")(", "][", "](", ")["}
SLInside(ty, x, lo, hi) ==
    CASE ty = "[]" -> lo <= x /\ x <= hi
      [] ty = "[)" -> lo <= x /\ x < hi
      [] ty = "(]" -> lo < x /\ x <= hi
      [] ty = "()" -> lo < x /\ x < hi
SLOutsideOf(ty, x, lo, hi) ==
    CASE ty = ")(" -> x < lo \/ x > hi
      [] ty = "][" -> x <= lo \/ x >= hi
      [] ty = "](" -> x <= lo \/ x > hi
      [] ty = ")[" -> x < lo \/ x >= hi
\* the outside type selecting exactly what a between type leaves out
SLComplement(ty) == CASE ty = "[]" -> ")(" [] ty = "[)" -> ")[" [] ty = "(]" -> "](" [] ty = "()" -> "]["

SLKnownType(c) == IF c.fn = "between" THEN c.ty \in SLBetweenTypes ELSE c.ty \in SLOutsideTypes
SLLoAt(c, j) == IF c.loarr THEN c.lo[j] ELSE c.lo[1]
SLHiAt(c, j) == IF c.hiarr THEN c.hi[j] ELSE c.hi[1]
SLMember(c, j) == IF c.fn = "between" THEN SLInside(c.ty, c.x[j], SLLoAt(c, j), SLHiAt(c, j))
                  ELSE SLOutsideOf(c.ty, c.x[j], SLLoAt(c, j), SLHiAt(c, j))
SLBoundaryClass(x, lo, hi) ==
    IF lo > hi THEN "inverted_bounds"
    ELSE IF x = lo /\ x = hi THEN "on_both_bounds" ELSE IF x = lo THEN "on_low_bound"
    ELSE IF x = hi THEN "on_high_bound" ELSE IF x < lo THEN "below" ELSE IF x > hi THEN "above" ELSE "interior"

SLIntervalFailing(c, o) ==
    IF ~SLKnownType(c) THEN {}
    ELSE IF o.err # "none" THEN {"unexpected_error"}
    ELSE IF o.shape # c.shape \/ Len(o.val) # Len(c.x) THEN {"shape"}
    ELSE (IF o.kind = "b1" THEN {} ELSE {"dtype_not_bool"}) \cup
         {"value:" \o SLBoundaryClass(c.x[j], SLLoAt(c, j), SLHiAt(c, j)) :
             j \in {i \in DOMAIN c.x : o.val[i] # SLMember(c, i)}}
SLIntervalRef(c) == [err |-> "none", shape |-> c.shape, val |-> [j \in DOMAIN c.x |-> SLMember(c, j)], kind |-> "b1"]

\* ---------------------------------------------------------------------------------
\* W1   where1      c = [fn, x : Seq(Int) (0 = false), form]   o = [err, val : Seq(Int), kind]
\* ---------------------------------------------------------------------------------
SLWhere(x) == SLIndices(Len(x), LAMBDA j : x[j] # 0)
SLWhereFailing(c, o) ==
    IF o.err # "none" THEN {"unexpected_error"}
    ELSE (IF o.val = SLWhere(c.x) THEN {}
          ELSE IF VRange(o.val) = VRange(SLWhere(c.x)) /\ Len(o.val) = Len(SLWhere(c.x)) THEN {"index_order"} ELSE {"indices"})
         \cup (IF o.kind \in {"i8", "i4"} THEN {} ELSE {"index_dtype"})
SLWhereRef(c) == [err |-> "none", val |-> SLWhere(c.x), kind |-> "i8"]

\* ---------------------------------------------------------------------------------
\* P1 / P2   select_percentile
\*   c = [fn, x : Seq(Int), q8 : Seq(0..8) (percentiles in eighths of 100), scalar, ranges : BOOLEAN, method]
\*   o = [err, idx : Seq(Seq(Int)), hasranges : BOOLEAN, ranges : Seq(<<rat, rat>>)]
\* ---------------------------------------------------------------------------------
SLSorted(x) == LET a == VStableArgsort(x) IN [k \in DOMAIN x |-> x[a[k]]]
\* np.percentile: virtual index h = (n-1) q, between the order statistics below and above it
SLQuantile(x, q8, method) ==
    LET n == Len(x)  s == SLSorted(x)
        h == RNorm((n - 1) * q8, 8)
        f == RFloor(h)
        a == s[f + 1]   b == s[VMin2(f + 2, n)]
    IN CASE method \in {"default", "linear"} -> RAdd(RInt(a), RMul(RSub(h, RInt(f)), RInt(b - a)))
         [] method = "lower"    -> RInt(a)
         [] method = "higher"   -> IF RIsInt(h) THEN RInt(a) ELSE RInt(b)
         [] method = "midpoint" -> IF RIsInt(h) THEN RInt(a) ELSE RNorm(a + b, 2)
SLCuts(c) == [k \in DOMAIN c.q8 |-> SLQuantile(c.x, c.q8[k], c.method)]
SLPercDefined(c) == Len(c.x) >= 1 /\ Len(c.q8) >= 1 /\ \A k \in 1..(Len(c.q8) - 1) : c.q8[k] <= c.q8[k + 1]
\* piece i = 0..m of the data positions (1-based) for cuts p
SLPieceSet(x, p, i) ==
    LET m == Len(p) IN
    {j \in DOMAIN x : /\ (i > 0 => RLt(p[i], RInt(x[j])))
                      /\ (i < m => RLt(RInt(x[j]), p[i + 1]))}
SLPiece(x, p, i) == LET S == SLPieceSet(x, p, i) IN [k \in 1..Cardinality(S) |-> VSortSet(S)[k] - 1]
SLPieces(c) == LET p == SLCuts(c) IN [k \in 1..(Len(p) + 1) |-> SLPiece(c.x, p, k - 1)]
SLRanges(c) == LET p == SLCuts(c)  m == Len(p) IN
    [k \in 1..(m + 1) |-> << IF k = 1 THEN RInt(VSeqMin(c.x)) ELSE p[k - 1],
                             IF k = m + 1 THEN RInt(VSeqMax(c.x)) ELSE p[k] >>]
SLPieceName(m, k) == IF k = 1 THEN "piece_below_first_cut" ELSE IF k = m + 1 THEN "piece_above_last_cut" ELSE "piece_between_cuts"

SLPercFailing(c, o) ==
    IF ~SLPercDefined(c) THEN {}
    ELSE IF o.err # "none" THEN {"unexpected_error"}
    ELSE LET m == Len(c.q8)  e == SLPieces(c)  r == SLRanges(c) IN
         IF Len(o.idx) # m + 1 THEN {"number_of_pieces"}
         ELSE {SLPieceName(m, k) : k \in {i \in 1..(m + 1) : o.idx[i] # e[i]}} \cup
              (IF o.hasranges # c.ranges THEN {"ranges_returned_iff_asked"}
               ELSE IF ~c.ranges THEN {}
               ELSE IF Len(o.ranges) # m + 1 \/ \E k \in DOMAIN o.ranges : Len(o.ranges[k]) # 2 THEN {"number_of_ranges"}
               ELSE {(IF k = 1 THEN "range_min" ELSE "range_cut") : k \in {i \in 1..(m + 1) : ~SLIsRat(o.ranges[i][1], r[i][1])}} \cup
                    {(IF k = m + 1 THEN "range_max" ELSE "range_cut") : k \in {i \in 1..(m + 1) : ~SLIsRat(o.ranges[i][2], r[i][2])}})
SLPercRef(c) == [err |-> "none", idx |-> SLPieces(c), hasranges |-> c.ranges,
                 ranges |-> IF c.ranges THEN [k \in DOMAIN SLRanges(c) |-> <<SLRatRec(SLRanges(c)[k][1]), SLRatRec(SLRanges(c)[k][2])>>] ELSE <<>>]

\* ---------------------------------------------------------------------------------
\* S1   arrscl
\*   c = [fn, x : Seq(Int), shape, minv, maxv : Int, hasmin, hasmax : BOOLEAN, amin, amax : Int, dt]
\*   o = [err, shape, val : Seq(rat), kind, frame, fresh : BOOLEAN]
\* ---------------------------------------------------------------------------------
SLSclLo(c) == IF c.hasmin THEN c.amin ELSE VSeqMin(c.x)
SLSclHi(c) == IF c.hasmax THEN c.amax ELSE VSeqMax(c.x)
SLSclDefined(c) == Len(c.x) >= 1 /\ SLSclLo(c) # SLSclHi(c)
SLRat(n, d) == IF d < 0 THEN RNorm(-n, -d) ELSE RNorm(n, d)           \* RNorm wants a positive denominator
SLSclValue(c, j) == RAdd(RInt(c.minv), SLRat((c.x[j] - SLSclLo(c)) * (c.maxv - c.minv), SLSclHi(c) - SLSclLo(c)))
SLSclKind(c) == IF c.dt = "default" THEN "f8" ELSE c.dt
SLSclFailing(c, o) ==
    IF ~SLSclDefined(c) THEN {}
    ELSE IF o.err # "none" THEN {"unexpected_error"}
    ELSE IF o.shape # c.shape \/ Len(o.val) # Len(c.x) THEN {"shape"}
    ELSE (IF \A j \in DOMAIN c.x : SLIsRat(o.val[j], SLSclValue(c, j)) THEN {} ELSE {"value"}) \cup
         (IF o.kind = SLSclKind(c) THEN {} ELSE {"dtype"}) \cup
         (IF o.frame THEN {} ELSE {"input_modified"}) \cup
         (IF o.fresh THEN {} ELSE {"not_a_new_array"})
SLSclRef(c) == [err |-> "none", shape |-> c.shape, val |-> [j \in DOMAIN c.x |-> SLRatRec(SLSclValue(c, j))],
                kind |-> SLSclKind(c), frame |-> TRUE, fresh |-> TRUE]

\* ---------------------------------------------------------------------------------
\* R1   replicate
\*   c = [fn, vk : "int"|"float"|"str", v : Int, vlen : STRING, shape : Seq(Nat), shform, dt]
\*   o = [err, shape, val : Seq(Int), kind]
\* ---------------------------------------------------------------------------------
SLRepKinds(c) == IF c.dt # "none" THEN {c.dt}
                 ELSE CASE c.vk = "int" -> {"i8", "i4"} [] c.vk = "float" -> {"f8"} [] c.vk = "str" -> {"U" \o c.vlen, "S" \o c.vlen}
SLRepFailing(c, o) ==
    IF o.err # "none" THEN {"unexpected_error"}
    ELSE (IF o.shape = c.shape THEN {} ELSE {"shape"}) \cup
         (IF Len(o.val) = SLProd(c.shape) /\ \A j \in DOMAIN o.val : o.val[j] = c.v THEN {} ELSE {"value"}) \cup
         (IF o.kind \in SLRepKinds(c) THEN {} ELSE {"dtype"})
SLRepRef(c) == [err |-> "none", shape |-> c.shape, val |-> [j \in 1..SLProd(c.shape) |-> c.v],
                kind |-> CHOOSE k \in SLRepKinds(c) : TRUE]

\* ---------------------------------------------------------------------------------
\* C1 / C2   combine_arrlist
\*   c = [fn, arrs : Seq([dt : Int, rows : Seq(Int), rec : BOOLEAN]), keep : BOOLEAN, form : "list"|"tuple"]
\*   o = [err, dt : Int, rows : Seq(Int), rec : BOOLEAN, listlen : Int, frame : BOOLEAN]
\* ---------------------------------------------------------------------------------
SLCombRows(arrs) == SLConcat([k \in DOMAIN arrs |-> arrs[k].rows])
SLCombMixed(arrs) == \E i, j \in DOMAIN arrs : arrs[i].dt # arrs[j].dt
SLCombFailing(c, o) ==
    LET n == Len(c.arrs) IN
    IF SLCombMixed(c.arrs) THEN {}
    ELSE IF c.form # "list" /\ o.err # "none" THEN {}                   \* "Input must be a list": a rejection is fine
    ELSE IF o.err # "none" THEN {"unexpected_error"}
    ELSE IF n = 0 THEN (IF o.rows = <<>> THEN {} ELSE {"empty_list_not_empty_array"})
    ELSE (IF o.rows = SLCombRows(c.arrs) THEN {}
          ELSE IF Len(o.rows) # Len(SLCombRows(c.arrs)) THEN {"row_count"} ELSE {"rows"}) \cup
         (IF o.dt = c.arrs[1].dt THEN {} ELSE {"dtype"}) \cup
         (IF c.keep /\ (o.listlen # n \/ ~o.frame) THEN {"list_modified_with_keep"} ELSE {}) \cup
         (IF ~c.keep /\ n >= 2 /\ c.form = "list" /\ o.listlen # 0 THEN {"list_not_consumed"} ELSE {}) \cup
         (IF ~c.keep /\ ~o.frame THEN {"array_data_modified"} ELSE {})
SLCombDetermined(c) == ~SLCombMixed(c.arrs) /\ c.form = "list" /\ Len(c.arrs) >= 1
SLCombRef(c) == [err |-> "none", dt |-> c.arrs[1].dt, rows |-> SLCombRows(c.arrs), rec |-> c.arrs[1].rec,
                 listlen |-> IF c.keep THEN Len(c.arrs) ELSE 0, frame |-> TRUE]

\* ---------------------------------------------------------------------------------
\* Implementation-shaped model of combine_arrlist's consuming loop (keep=False):
\*     while len(arrlist) > 0: data = arrlist.pop(0); output[beg:beg+num] = data; ...
\* one SLMStep per iteration.  The assignment raises when the row types cannot be cast
\* (here: a different number of fields; the harness's row types 1, 3 have two fields,
\* type 2 three) - AFTER the array has been popped: the exception point of the loop.
\* ---------------------------------------------------------------------------------
SLNFields(dt) == IF dt = 2 THEN 3 ELSE 2
SLMInit(arrs) == [lst |-> arrs, out |-> <<>>, first |-> arrs[1].dt, st |-> "run"]
SLMStep(m) ==
    LET d == Head(m.lst) IN
    IF SLNFields(d.dt) # SLNFields(m.first) THEN [m EXCEPT !.lst = Tail(@), !.st = "raised"]
    ELSE [m EXCEPT !.lst = Tail(@), !.out = @ \o (IF d.dt = m.first THEN d.rows ELSE [i \in DOMAIN d.rows |-> -1])]
RECURSIVE SLMRun(_)
SLMRun(m) == IF m.st # "run" \/ m.lst = <<>> THEN m ELSE SLMRun(SLMStep(m))
SLMObs(c, m) == [err |-> IF m.st = "raised" THEN "TypeError" ELSE "none", dt |-> m.first, rows |-> m.out,
                 rec |-> c.arrs[1].rec, listlen |-> Len(m.lst), frame |-> TRUE]
SLMApplies(c) == c.fn = "combine" /\ ~c.keep /\ c.form = "list" /\ Len(c.arrs) >= 2
\* does the real call agree with the mechanism about raising and about what is left in the caller's list?
SLMDisagrees(c, o) ==
    IF ~SLMApplies(c) THEN {}
    ELSE LET m == SLMRun(SLMInit(c.arrs)) IN
         (IF (o.err = "none") = (m.st = "run") THEN {} ELSE {"mechanism_raises"}) \cup
         (IF o.listlen = Len(m.lst) THEN {} ELSE {"mechanism_list_left"})

\* ---------------------------------------------------------------------------------
\* D1 / D2   dict2array, dictlist2array
\*   c = [fn, dicts : Seq(Seq([k : STRING, t : "i"|"f"|"s", v : Int, l : Int])), sort, haskeys : BOOLEAN, keys : Seq(STRING)]
\*   o = [err, n : Int, fields : Seq([name, kind : "i"|"f"|"S"|... (base type), len : Int (strings), vals : Seq(Int)])]
\* ---------------------------------------------------------------------------------
SLDKeys(d) == {d[i].k : i \in DOMAIN d}
SLDItem(d, k) == d[CHOOSE i \in DOMAIN d : d[i].k = k]
SLDictDefined(c) ==
    /\ \A i \in DOMAIN c.dicts : ~SLHasDup([m \in DOMAIN c.dicts[i] |-> c.dicts[i][m].k])
    /\ \A i, j \in DOMAIN c.dicts : SLDKeys(c.dicts[i]) = SLDKeys(c.dicts[j])
    /\ \A i, j \in DOMAIN c.dicts : \A k \in SLDKeys(c.dicts[i]) : SLDItem(c.dicts[i], k).t = SLDItem(c.dicts[j], k).t
    /\ ~(c.haskeys /\ SLHasDup(c.keys))
    /\ (c.fn = "dict2array" => Len(c.dicts) = 1 /\ c.dicts[1] # <<>>)
SLDictNames(c) ==       \* the field order where the contract fixes it (haskeys or sort)
    IF c.haskeys THEN c.keys ELSE SLSortNames(SLDKeys(c.dicts[1]))
SLDictOrderFixed(c) == c.haskeys \/ c.sort
SLDictMissing(c) == c.haskeys /\ \E i \in DOMAIN c.keys : c.keys[i] \notin SLDKeys(c.dicts[1])
SLDictField(c, name) ==
    LET it == SLDItem(c.dicts[1], name) IN
    [name |-> name, kind |-> CASE it.t = "i" -> "i" [] it.t = "f" -> "f" [] it.t = "s" -> "S",      \* base type (the width is not documented)
     len |-> IF it.t = "s" THEN VSetMax({SLDItem(c.dicts[i], name).l : i \in DOMAIN c.dicts}) ELSE 0,
     vals |-> [i \in DOMAIN c.dicts |-> SLDItem(c.dicts[i], name).v]]
SLDictFieldsFailing(c, names, o) ==
    LET on == [i \in DOMAIN o.fields |-> o.fields[i].name] IN
    (IF o.n = Len(c.dicts) THEN {} ELSE {"number_of_rows"}) \cup
    (IF SLDictOrderFixed(c)
     THEN (IF on = names THEN {} ELSE IF VRange(on) = VRange(names) /\ Len(on) = Len(names) THEN {"field_order"} ELSE {"field_names"})
     ELSE (IF VRange(on) = VRange(names) /\ Len(on) = Len(names) THEN {} ELSE {"field_names"})) \cup
    UNION { LET e == SLDictField(c, o.fields[i].name)  f == o.fields[i] IN
            (IF f.kind = e.kind THEN {} ELSE {"field_type:" \o e.kind}) \cup
            (IF f.kind = e.kind /\ f.len # e.len THEN {"string_length"} ELSE {}) \cup
            (IF f.vals = e.vals THEN {} ELSE {"field_values:" \o e.kind})
          : i \in {m \in DOMAIN o.fields : o.fields[m].name \in VRange(names)} }
SLDictFailing(c, o) ==
    IF ~SLDictDefined(c) THEN {}
    ELSE IF Len(c.dicts) = 0 THEN (IF o.err = "none" /\ o.n # 0 THEN {"empty_list_not_empty_array"} ELSE {})
    ELSE IF SLDictMissing(c) THEN
        (IF o.err # "none" THEN {}
         ELSE LET f == SLDictFieldsFailing(c, SelectSeq(c.keys, LAMBDA k : k \in SLDKeys(c.dicts[1])), o)
              IN IF f = {} THEN {} ELSE {"missing_key_neither_rejected_nor_skipped"})
    ELSE IF o.err # "none" THEN {"unexpected_error"}
    ELSE SLDictFieldsFailing(c, SLDictNames(c), o)
SLDictDetermined(c) == SLDictDefined(c) /\ Len(c.dicts) >= 1 /\ ~SLDictMissing(c)
SLDictRef(c) == [err |-> "none", n |-> Len(c.dicts),
                 fields |-> [i \in DOMAIN SLDictNames(c) |-> SLDictField(c, SLDictNames(c)[i])]]

\* ---------------------------------------------------------------------------------
\* M1   strmatch
\*   c = [fn, strs : Seq(Seq(1..2)), shape, pat : [pre, post, anch : BOOLEAN, lit : Seq(1..2)]]
\*   the regular expression is  (".*" if pre) lit (".*" if post) ("$" if anch)
\*   o = [err, shape, val : Seq(BOOLEAN), kind]
\* ---------------------------------------------------------------------------------
SLOccursAt(s, lit, i) == i + Len(lit) - 1 <= Len(s) /\ \A k \in DOMAIN lit : s[i + k - 1] = lit[k]
SLStarts(s, lit) == {i \in 1..(Len(s) + 1) : SLOccursAt(s, lit, i)}
SLEndsAtEnd(s, lit, i) == i + Len(lit) - 1 = Len(s)
\* the three readings of "match"
SLReMatch(s, p)  == \E i \in SLStarts(s, p.lit) : (p.pre \/ i = 1) /\ (~p.anch \/ p.post \/ SLEndsAtEnd(s, p.lit, i))
SLReFull(s, p)   == \E i \in SLStarts(s, p.lit) : (p.pre \/ i = 1) /\ (p.post \/ SLEndsAtEnd(s, p.lit, i))
SLReSearch(s, p) == \E i \in SLStarts(s, p.lit) : (~p.anch \/ p.post \/ SLEndsAtEnd(s, p.lit, i))
SLReAllowed(s, p) == {SLReMatch(s, p), SLReFull(s, p), SLReSearch(s, p)}
SLStrFailing(c, o) ==
    IF o.err # "none" THEN {"unexpected_error"}
    ELSE IF o.shape # c.shape \/ Len(o.val) # Len(c.strs) THEN {"shape"}
    ELSE (IF o.kind = "b1" THEN {} ELSE {"dtype_not_bool"}) \cup
         (IF \A j \in DOMAIN c.strs : o.val[j] \in SLReAllowed(c.strs[j], c.pat) THEN {} ELSE {"match_value"})
SLStrRef(c) == [err |-> "none", shape |-> c.shape, val |-> [j \in DOMAIN c.strs |-> SLReMatch(c.strs[j], c.pat)], kind |-> "b1"]

\* ---------------------------------------------------------------------------------
\* G1   make_xy_grid     c = [fn, n, x0, x1, y0, y1 : Int]    o = [err, pairs : Seq([x : rat, y : rat])]
\* ---------------------------------------------------------------------------------
SLGridAt(n, a, b, i) == RAdd(RInt(a), RNorm(i * (b - a), n - 1))            \* i = 0..n-1
SLGridDefined(c) == c.n >= 2
SLGridFailing(c, o) ==
    IF ~SLGridDefined(c) THEN {}
    ELSE IF o.err # "none" THEN {"unexpected_error"}
    ELSE IF Len(o.pairs) # c.n * c.n THEN {"number_of_points"}
    ELSE IF \A i, j \in 0..(c.n - 1) :
              LET ex == SLGridAt(c.n, c.x0, c.x1, i)  ey == SLGridAt(c.n, c.y0, c.y1, j)
              IN Cardinality({k \in DOMAIN o.pairs : SLIsRat(o.pairs[k].x, ex) /\ SLIsRat(o.pairs[k].y, ey)})
                 = Cardinality({p \in (0..(c.n - 1)) \X (0..(c.n - 1)) :
                                   SLGridAt(c.n, c.x0, c.x1, p[1]) = ex /\ SLGridAt(c.n, c.y0, c.y1, p[2]) = ey})
         THEN {} ELSE {"grid_points"}
SLGridRef(c) == [err |-> "none",
                 pairs |-> [k \in 1..(c.n * c.n) |-> [x |-> SLRatRec(SLGridAt(c.n, c.x0, c.x1, (k - 1) % c.n)),
                                                       y |-> SLRatRec(SLGridAt(c.n, c.y0, c.y1, (k - 1) \div c.n))]]]

\* ---------------------------------------------------------------------------------
\* K1   misc.dict_select
\*   c = [fn, keys : Seq(STRING) (value token of a key = its position), keepk, remk : BOOLEAN, keep, remove : Seq(STRING)]
\*   o = [err, items : Seq([k : STRING, v : Int]), frame, fresh : BOOLEAN]
\* ---------------------------------------------------------------------------------
SLSelKeys(c) ==
    LET all == VRange(c.keys)
        kp == IF c.keepk /\ c.keep # <<>> THEN VRange(c.keep) \cap all ELSE all
    IN kp \ (IF c.remk THEN VRange(c.remove) ELSE {})
SLSelTok(c, k) == CHOOSE i \in DOMAIN c.keys : c.keys[i] = k
SLSelMissing(c) == c.keepk /\ \E i \in DOMAIN c.keep : c.keep[i] \notin VRange(c.keys)
SLSelFailing(c, o) ==
    IF o.err # "none" THEN (IF SLSelMissing(c) THEN {} ELSE {"unexpected_error"})
    ELSE LET ok == {o.items[i].k : i \in DOMAIN o.items} IN
         (IF ok = SLSelKeys(c) /\ Len(o.items) = Cardinality(ok) THEN {}
          ELSE IF \E k \in ok : c.remk /\ k \in VRange(c.remove) THEN {"removed_key_kept"}
          ELSE {"keys"}) \cup
         (IF \A i \in DOMAIN o.items : o.items[i].k \in VRange(c.keys) => o.items[i].v = SLSelTok(c, o.items[i].k) THEN {} ELSE {"values"}) \cup
         (IF o.frame THEN {} ELSE {"input_modified"}) \cup
         (IF o.fresh THEN {} ELSE {"not_a_new_dict"})
SLSelRef(c) == LET ks == SLSortNames(SLSelKeys(c)) IN
    [err |-> "none", items |-> [i \in DOMAIN ks |-> [k |-> ks[i], v |-> SLSelTok(c, ks[i])]], frame |-> TRUE, fresh |-> TRUE]

\* ---------------------------------------------------------------------------------
\* K2   misc.collect_keyby    c = [fn, kv : Seq(Int)]    o = [err, groups : Seq([k : Int, m : Seq(Int)])]  (0-based members)
\* ---------------------------------------------------------------------------------
SLKeyFailing(c, o) ==
    IF o.err # "none" THEN {"unexpected_error"}
    ELSE LET gk == [i \in DOMAIN o.groups |-> o.groups[i].k] IN
         (IF VRange(gk) = VRange(c.kv) /\ ~SLHasDup(gk) THEN {} ELSE {"group_keys"}) \cup
         (IF \A i \in DOMAIN o.groups :
                /\ ~SLHasDup(o.groups[i].m)
                /\ VRange(o.groups[i].m) = {j - 1 : j \in {p \in DOMAIN c.kv : c.kv[p] = o.groups[i].k}}
          THEN {} ELSE {"group_members"})
SLKeyRef(c) == LET ks == VSortSet(VRange(c.kv)) IN
    [err |-> "none", groups |-> [i \in DOMAIN ks |-> [k |-> ks[i], m |-> SLIndices(Len(c.kv), LAMBDA j : c.kv[j] = ks[i])]]]

\* ---------------------------------------------------------------------------------
\* dispatch
\* ---------------------------------------------------------------------------------
SLFailing(c, o) ==
    CASE c.fn \in {"between", "outside"}            -> SLIntervalFailing(c, o)
      [] c.fn = "where1"                            -> SLWhereFailing(c, o)
      [] c.fn = "percentile"                        -> SLPercFailing(c, o)
      [] c.fn = "arrscl"                            -> SLSclFailing(c, o)
      [] c.fn = "replicate"                         -> SLRepFailing(c, o)
      [] c.fn = "combine"                           -> SLCombFailing(c, o)
      [] c.fn \in {"dict2array", "dictlist2array"}  -> SLDictFailing(c, o)
      [] c.fn = "strmatch"                          -> SLStrFailing(c, o)
      [] c.fn = "grid"                              -> SLGridFailing(c, o)
      [] c.fn = "dict_select"                       -> SLSelFailing(c, o)
      [] c.fn = "keyby"                             -> SLKeyFailing(c, o)

\* does the contract fix the outcome (then SLRef is it)?
SLDetermined(c) ==
    CASE c.fn \in {"between", "outside"}            -> SLKnownType(c)
      [] c.fn = "where1"                            -> TRUE
      [] c.fn = "percentile"                        -> SLPercDefined(c)
      [] c.fn = "arrscl"                            -> SLSclDefined(c)
      [] c.fn = "replicate"                         -> TRUE
      [] c.fn = "combine"                           -> SLCombDetermined(c)
      [] c.fn \in {"dict2array", "dictlist2array"}  -> SLDictDetermined(c)
      [] c.fn = "strmatch"                          -> TRUE
      [] c.fn = "grid"                              -> SLGridDefined(c)
      [] c.fn = "dict_select"                       -> TRUE
      [] c.fn = "keyby"                             -> TRUE
SLRef(c) ==
    CASE c.fn \in {"between", "outside"}            -> SLIntervalRef(c)
      [] c.fn = "where1"                            -> SLWhereRef(c)
      [] c.fn = "percentile"                        -> SLPercRef(c)
      [] c.fn = "arrscl"                            -> SLSclRef(c)
      [] c.fn = "replicate"                         -> SLRepRef(c)
      [] c.fn = "combine"                           -> SLCombRef(c)
      [] c.fn \in {"dict2array", "dictlist2array"}  -> SLDictRef(c)
      [] c.fn = "strmatch"                          -> SLStrRef(c)
      [] c.fn = "grid"                              -> SLGridRef(c)
      [] c.fn = "dict_select"                       -> SLSelRef(c)
      [] c.fn = "keyby"                             -> SLKeyRef(c)

\* forms of calling that the docstrings do not document are judged but do not gate
SLGating(c) ==
    CASE c.fn \in {"between", "outside"} -> ~c.loarr /\ ~c.hiarr
      [] c.fn = "combine"                -> c.form = "list"
      [] OTHER                           -> TRUE

\* =================================================================================
\* The pipeline: a list of arrays of rows [t : token, v : value]; one step is
\*   sel  : a = L[k]; L[k] = a[where1(between|outside(a.v, lo, hi, ty))]
\*   perc : a = L[k]; L[k:k+1] = [a[w] for w in select_percentile(a.v, q8/8*100)]
\*   comb : r = combine_arrlist(L, keep); L = L + [r]   (keep=False must have emptied L first)
\*   op  = [op, k, neg : BOOLEAN, ty, lo, hi : Int, q8 : Seq(0..8), keep : BOOLEAN]
\*   obs = [err, lst : Seq(Seq([t, v]))]
\* =================================================================================
SLPVals(a) == [j \in DOMAIN a |-> a[j].v]
SLPSel(a, op) ==
    SelectSeq(a, LAMBDA r : IF op.neg THEN SLOutsideOf(op.ty, r.v, op.lo, op.hi) ELSE SLInside(op.ty, r.v, op.lo, op.hi))
SLPPerc(a, op) ==
    LET p == [k \in DOMAIN op.q8 |-> SLQuantile(SLPVals(a), op.q8[k], "default")]
    IN [i \in 1..(Len(p) + 1) |-> LET w == SLPiece(SLPVals(a), p, i - 1) IN [k \in DOMAIN w |-> a[w[k] + 1]]]
SLPEnabled(pre, op) ==
    CASE op.op = "sel"  -> op.k \in DOMAIN pre
      [] op.op = "perc" -> op.k \in DOMAIN pre /\ Len(pre[op.k]) >= 1
      [] op.op = "comb" -> Len(pre) >= 2
SLPNext(pre, op) ==
    CASE op.op = "sel"  -> [pre EXCEPT ![op.k] = SLPSel(pre[op.k], op)]
      [] op.op = "perc" -> SubSeq(pre, 1, op.k - 1) \o SLPPerc(pre[op.k], op) \o SubSeq(pre, op.k + 1, Len(pre))
      [] op.op = "comb" -> (IF op.keep THEN pre ELSE <<>>) \o <<SLConcat(pre)>>
SLPFailing(pre, op, o) ==
    IF ~SLPEnabled(pre, op) THEN {}
    ELSE IF o.err # "none" THEN {"unexpected_error"}
    ELSE IF o.lst = SLPNext(pre, op) THEN {}
    ELSE CASE op.op = "sel"  -> {"selected_rows"}
           [] op.op = "perc" -> (IF Len(o.lst) # Len(SLPNext(pre, op)) THEN {"number_of_pieces"} ELSE {"piece_rows"})
           [] op.op = "comb" -> (IF ~op.keep /\ o.lst = pre \o <<SLConcat(pre)>> THEN {"list_not_consumed"}
                                 ELSE IF op.keep /\ SubSeq(o.lst, 1, VMin2(Len(pre), Len(o.lst))) # pre THEN {"list_modified_with_keep"}
                                 ELSE {"combined_rows"})
=============================================================================
