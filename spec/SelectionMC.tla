------------------------------- MODULE SelectionMC -------------------------------
(* Small-scope model for extension X01 (Selection.tla).                            *)
(*                                                                                *)
(* (a) CASES.  Pick(f, s) chooses a function family and a shard, Choose<F>          *)
(*     enumerates every case of the family over the bounded alphabet.  Every case  *)
(*     state is exported as JSON and executed against the real code.  Checked on   *)
(*     every case: RefAccepted (the reference outcome is accepted by SLFailing),    *)
(*     CorruptRejected (single corruptions of it are rejected - the acceptance is   *)
(*     not vacuous) and Laws (the laws of the contract stated independently of     *)
(*     the constructive definitions: complement and nesting of the interval types, *)
(*     partition laws of the percentile pieces, end points and monotonicity of the *)
(*     affine rescaling, conservation of rows, ...).                                *)
(* (b) PIPELINE.  A state machine whose state is a list of arrays of rows           *)
(*     [t, v]: PipeStart picks the initial array, Sel / Perc / Comb are the steps    *)
(*     (one per public call sequence, see Selection.tla).  TLC enumerates every      *)
(*     behaviour up to PD steps; each behaviour is exported and replayed into the   *)
(*     real code, the result of one step being the input of the next.  Checked on   *)
(*     every transition: PipeConserved, PipeStepLaws.                               *)
(* (c) MECHANISM.  For every combine case with keep=False the consuming loop of     *)
(*     combine_arrlist runs as actions (MechBegin, MechPop - one per iteration, with *)
(*     the exception point after the pop): MechConserves, MechRefines.              *)
EXTENDS Selection, Json

CONSTANTS NV,        \* interval cases: lattice values and bounds 0..NV (NV odd)
          WL,        \* where1: boolean arrays of length 0..WL
          ML,        \* percentile / keyby: data arrays of length 1..ML (<= 5); arrscl: 1..min(ML, 4)
          PVals,     \* percentile data over 1..PVals
          Rich,      \* TRUE: the larger alphabets (thorough tier)
          PL, PV,    \* pipeline: initial arrays of length 1..PL over values 1..PV
          PD,        \* pipeline: number of steps
          LeanFrom,  \* pipeline: steps after the LeanFrom-th use the lean alphabet
          Fams,      \* the function families to enumerate ({} = all)
          DoExport

VARIABLES ph, c, ini, lst, prev, hist, mech
vars == <<ph, c, ini, lst, prev, hist, mech>>
NoMech == [st |-> "none"]

NoCase == [fn |-> "none"]
Init == ph = "start" /\ c = NoCase /\ ini = <<>> /\ lst = <<>> /\ prev = <<>> /\ hist = <<>> /\ mech = NoMech

AllFamilies == {"between", "outside", "where1", "percentile", "arrscl", "replicate", "combine",
                "dict2array", "dictlist2array", "strmatch", "grid", "dict_select", "keyby"}
Families == IF Fams = {} THEN AllFamilies ELSE Fams
Shards == 0..5

Pick == /\ ph = "start"
        /\ \E f \in Families : \E s \in Shards : c' = [fn |-> f, sh |-> s]
        /\ ph' = "fam" /\ UNCHANGED <<ini, lst, prev, hist, mech>>

Fam(f) == ph = "fam" /\ c.fn = f
Emit(cc) == c' = cc /\ ph' = "case" /\ UNCHANGED <<ini, lst, prev, hist, mech>>

\* ---- between / outside -----------------------------------------------------------
IvX == [j \in 1..(NV + 1) |-> j - 1]                      \* every lattice value once
IvShapes == {<<NV + 1>>, <<2, (NV + 1) \div 2>>, <<(NV + 1) \div 2, 2>>}
IvTypes(f) == IF f = "between" THEN <<"[]", "[)", "(]", "()", "][", "[">> ELSE <<")(", "][", "](", ")[", "[]", "x">>
ChooseInterval ==
    /\ (Fam("between") \/ Fam("outside"))
    /\ LET ty == IvTypes(c.fn)[c.sh + 1] IN
       \/ \E lo, hi \in 0..NV : \E sh \in IvShapes :                        \* scalar bounds, every pair
             Emit([fn |-> c.fn, x |-> IvX, shape |-> sh, lo |-> <<lo>>, hi |-> <<hi>>, loarr |-> FALSE, hiarr |-> FALSE, ty |-> ty])
       \/ \E b \in 0..NV : \E r \in {1, 2} : \E which \in {"lo", "hi", "both"} :        \* array bounds (do not gate)
             LET arr == [j \in 1..(NV + 1) |-> (r * (j - 1) + b) % (NV + 1)]
                 rev == [j \in 1..(NV + 1) |-> arr[NV + 2 - j]] IN
             Emit([fn |-> c.fn, x |-> IvX, shape |-> <<NV + 1>>,
                   lo |-> IF which = "hi" THEN <<b>> ELSE arr, loarr |-> which # "hi",
                   hi |-> IF which = "lo" THEN <<b>> ELSE IF which = "hi" THEN arr ELSE rev, hiarr |-> which # "lo", ty |-> ty])
       \/ \E lo, hi \in {1, 2} :                                              \* the empty array
             Emit([fn |-> c.fn, x |-> <<>>, shape |-> <<0>>, lo |-> <<lo>>, hi |-> <<hi>>, loarr |-> FALSE, hiarr |-> FALSE, ty |-> ty])

\* ---- where1 -----------------------------------------------------------------------
ChooseWhere ==
    /\ Fam("where1")
    /\ \/ \E n \in {m \in 0..WL : m % 6 = c.sh} : \E x \in [1..n -> {0, 1}] : \E f \in (IF n <= 6 THEN {"bool", "list"} ELSE {"bool"}) :
             Emit([fn |-> "where1", x |-> x, form |-> f])
       \/ \E n \in {m \in 1..3 : m % 6 = c.sh} : \E x \in [1..n -> {0, 1, 2}] :
             Emit([fn |-> "where1", x |-> x, form |-> "int"])

\* ---- select_percentile ---------------------------------------------------------------
QFamily == {<<4>>, <<2>>, <<0>>, <<8>>, <<2, 4, 6>>, <<1, 7>>, <<3, 5>>, <<4, 4>>, <<0, 8>>, <<2, 6>>, <<6, 2>>}
            \cup (IF Rich THEN {<<1>>, <<7>>, <<1, 2, 3, 4>>, <<5, 6, 7, 8>>, <<0, 4, 8>>} ELSE {})
ChoosePerc ==
    /\ Fam("percentile") /\ c.sh \in 1..ML
    /\ \E x \in [1..c.sh -> 1..PVals] : \E q \in QFamily :
       \/ \E rg \in BOOLEAN : \E sc \in (IF Len(q) = 1 THEN BOOLEAN ELSE {FALSE}) :
             Emit([fn |-> "percentile", x |-> x, q8 |-> q, scalar |-> sc, ranges |-> rg, method |-> "default"])
       \/ /\ q \in {<<2, 4, 6>>, <<3, 5>>, <<1, 7>>}
          /\ \E me \in {"linear", "lower", "higher", "midpoint"} :
                Emit([fn |-> "percentile", x |-> x, q8 |-> q, scalar |-> FALSE, ranges |-> TRUE, method |-> me])

\* ---- arrscl -------------------------------------------------------------------------
MinMax == {<<0, 1>>, <<2, 2>>, <<3, 0>>, <<-2, -5>>} \cup (IF Rich THEN {<<-1, 1>>, <<0, 3>>} ELSE {})
Absent == 99
SclShapes(n) == {<<n>>} \cup (IF n = 1 THEN {<<>>, <<1, 1>>} ELSE IF n = 4 THEN {<<2, 2>>} ELSE IF n = 2 THEN {<<2, 1>>} ELSE {})
ChooseScl ==
    /\ Fam("arrscl") /\ c.sh \in 1..VMin2(ML, 4)
    /\ \E x \in [1..c.sh -> 0..3] : \E mm \in MinMax : \E lo \in {Absent, 0, 1} : \E hi \in {Absent, 2, 4} :
       \E sh \in SclShapes(c.sh) : \E dt \in (IF lo = Absent /\ hi = Absent THEN {"default", "f8", "f4"} ELSE {"default"}) :
          Emit([fn |-> "arrscl", x |-> x, shape |-> sh, minv |-> mm[1], maxv |-> mm[2],
                hasmin |-> lo # Absent, amin |-> IF lo = Absent THEN 0 ELSE lo,
                hasmax |-> hi # Absent, amax |-> IF hi = Absent THEN 0 ELSE hi, dt |-> dt])

\* ---- replicate -------------------------------------------------------------------------
RepShapes == {<<>>, <<0>>, <<1>>, <<3>>, <<2, 2>>, <<2, 0>>, <<1, 2, 2>>}
RepDts(vk) == CASE vk = "int" -> {"none", "i4", "f8", "i2"} [] vk = "float" -> {"none", "f4", "f8"} [] vk = "str" -> {"none", "S5", "U4"}
ChooseRep ==
    /\ Fam("replicate") /\ c.sh \in {0, 1, 2}
    /\ LET vk == <<"int", "float", "str">>[c.sh + 1] IN
       \E v \in 0..3 : \E sh \in RepShapes : \E dt \in RepDts(vk) :
       \E sf \in (IF Len(sh) = 1 THEN {"int", "tuple", "list"} ELSE {"tuple", "list"}) :
          Emit([fn |-> "replicate", vk |-> vk, v |-> v, vlen |-> <<"1", "2", "3", "4">>[v + 1], shape |-> sh, shform |-> sf, dt |-> dt])

\* ---- combine_arrlist ---------------------------------------------------------------------
Arr(dt, rows, rec) == [dt |-> dt, rows |-> rows, rec |-> rec]
CombPool == <<Arr(1, <<1, 2>>, FALSE), Arr(1, <<3>>, FALSE), Arr(1, <<>>, FALSE), Arr(1, <<4, 5, 6>>, TRUE),
              Arr(2, <<7, 8>>, FALSE), Arr(3, <<9>>, FALSE)>>
ChooseComb ==
    /\ Fam("combine") /\ c.sh \in 0..(IF Rich THEN 4 ELSE 3)
    /\ \E idx \in [1..c.sh -> DOMAIN CombPool] : \E keep \in BOOLEAN : \E f \in (IF c.sh = 2 THEN {"list", "tuple"} ELSE {"list"}) :
          Emit([fn |-> "combine", arrs |-> [k \in 1..c.sh |-> CombPool[idx[k]]], keep |-> keep, form |-> f])

\* ---- dict2array / dictlist2array ---------------------------------------------------------------
InjSeqs(S, lo, hi) == UNION {{q \in [1..n -> S] : \A i, j \in 1..n : i < j => q[i] # q[j]} : n \in lo..hi}
DTypes == <<"i", "f", "s">>
\* the item of key k (rank 1..3 in a, b, c) in dict number d under type rotation r; strings grow with d
KeyRank(k) == CHOOSE i \in DOMAIN SLNameOrder : SLNameOrder[i] = k
Item(k, r, d) == LET t == DTypes[((KeyRank(k) + r) % 3) + 1] IN
    LET l == 1 + ((KeyRank(k) + 2 * d) % 3)  b == (KeyRank(k) + d) % 4 IN
    \* a string value is the letter number b repeated l times, coded 10 b + l
    [k |-> k, t |-> t, v |-> IF t = "s" THEN 10 * b + l ELSE b, l |-> IF t = "s" THEN l ELSE 0]
KeyOpts(ks) ==       \* <<sort, haskeys, keys>>
    {<<FALSE, FALSE, <<>>>>, <<TRUE, FALSE, <<>>>>, <<FALSE, TRUE, ks>>,
     <<FALSE, TRUE, [i \in DOMAIN ks |-> ks[Len(ks) + 1 - i]]>>, <<TRUE, TRUE, <<ks[Len(ks)]>>>>, <<FALSE, TRUE, <<ks[1]>>>>,
     <<FALSE, TRUE, <<ks[1], "zz">>>>, <<FALSE, TRUE, <<"zz">>>>}
ChooseDict ==
    /\ Fam("dict2array") /\ c.sh \in 0..2
    /\ \E ks \in InjSeqs({"a", "b", "c"}, 1, 3) : \E ko \in KeyOpts(ks) :
          Emit([fn |-> "dict2array", dicts |-> <<[i \in DOMAIN ks |-> Item(ks[i], c.sh, 0)]>>,
                sort |-> ko[1], haskeys |-> ko[2], keys |-> ko[3]])
ChooseDictList ==
    /\ Fam("dictlist2array") /\ c.sh \in 0..2
    /\ \/ \E ks \in InjSeqs({"a", "b", "c"}, 1, 3) : \E ko \in KeyOpts(ks) : \E nd \in 1..3 : \E rot \in BOOLEAN :
             \* later dicts list the same keys in another order when rot
             LET kd(d) == IF rot /\ d > 1 THEN [i \in DOMAIN ks |-> ks[((i + d - 2) % Len(ks)) + 1]] ELSE ks IN
             Emit([fn |-> "dictlist2array", dicts |-> [d \in 1..nd |-> [i \in DOMAIN ks |-> Item(kd(d)[i], c.sh, d - 1)]],
                   sort |-> ko[1], haskeys |-> ko[2], keys |-> ko[3]])
       \/ \E ko \in KeyOpts(<<"a", "b">>) :                                    \* outside the contract (exercised, unconstrained) + the empty list
          \E ds \in {<<>>,
                     << <<Item("a", c.sh, 0), Item("b", c.sh, 0)>>, <<Item("a", c.sh, 1)>> >>,
                     << <<Item("a", c.sh, 0)>>, <<Item("a", c.sh, 1), Item("b", c.sh, 1)>> >>,
                     << <<Item("a", c.sh, 0)>>, <<Item("a", c.sh + 1, 1)>> >>} :
             Emit([fn |-> "dictlist2array", dicts |-> ds, sort |-> ko[1], haskeys |-> ko[2], keys |-> ko[3]])

\* ---- strmatch -----------------------------------------------------------------------------
Lits == <<<<1>>, <<2>>, <<1, 1>>, <<1, 2>>, <<2, 1>>, <<2, 2>>>>
AllStrs == << <<>>, <<1>>, <<2>>, <<1, 1>>, <<1, 2>>, <<2, 1>>, <<2, 2>>, <<1, 1, 1>>, <<1, 1, 2>>, <<1, 2, 1>>, <<1, 2, 2>>,
             <<2, 1, 1>>, <<2, 1, 2>>, <<2, 2, 1>>, <<2, 2, 2>> >>
ChooseStr ==
    /\ Fam("strmatch")
    /\ \E pre, post, anch \in BOOLEAN :
       \/ \E sh \in {<<15>>, <<3, 5>>} :
             Emit([fn |-> "strmatch", strs |-> AllStrs, shape |-> sh, pat |-> [pre |-> pre, post |-> post, anch |-> anch, lit |-> Lits[c.sh + 1]]])
       \/ Emit([fn |-> "strmatch", strs |-> <<>>, shape |-> <<0>>, pat |-> [pre |-> pre, post |-> post, anch |-> anch, lit |-> Lits[c.sh + 1]]])

\* ---- make_xy_grid ---------------------------------------------------------------------------
GridRanges == {<<0, 1>>, <<-1, 2>>, <<3, 3>>, <<2, 0>>}
ChooseGrid ==
    /\ Fam("grid") /\ c.sh \in 0..(IF Rich THEN 5 ELSE 4)
    /\ \E xr \in GridRanges : \E yr \in GridRanges :
          Emit([fn |-> "grid", n |-> c.sh, x0 |-> xr[1], x1 |-> xr[2], y0 |-> yr[1], y1 |-> yr[2]])

\* ---- misc.dict_select ---------------------------------------------------------------------------
NoArg == <<"-">>
ChooseSel ==
    /\ Fam("dict_select") /\ c.sh \in 0..1
    /\ \E ks \in {<<"a", "b", "c">>, <<"c", "a">>, <<>>} :
       \E keep \in {NoArg, <<>>} \cup InjSeqs({"a", "b", "c", "zz"}, 1, 2 + c.sh) :
       \E rem \in {NoArg, <<>>, <<"a">>, <<"c", "a">>, <<"zz">>, <<"a", "b", "c">>} :
          Emit([fn |-> "dict_select", keys |-> ks, keepk |-> keep # NoArg, keep |-> IF keep = NoArg THEN <<>> ELSE keep,
                remk |-> rem # NoArg, remove |-> IF rem = NoArg THEN <<>> ELSE rem])

\* ---- misc.collect_keyby ---------------------------------------------------------------------------
ChooseKey ==
    /\ Fam("keyby") /\ c.sh \in 0..ML
    /\ \E kv \in [1..c.sh -> 1..3] : Emit([fn |-> "keyby", kv |-> kv])

\* =====================================================================================
\* the pipeline
\* =====================================================================================
Op(o, k, neg, ty, lo, hi, q8, keep) == [op |-> o, k |-> k, neg |-> neg, ty |-> ty, lo |-> lo, hi |-> hi, q8 |-> q8, keep |-> keep]
Lean == Len(hist) >= LeanFrom
SelBounds == IF Lean THEN {<<2, 2>>} ELSE {<<1, 2>>, <<2, 2>>, <<2, 3>>} \cup (IF Rich THEN {<<1, 3>>, <<3, 1>>} ELSE {})
SelTypes(neg) == IF Lean THEN (IF neg THEN {")(", "]("} ELSE {"[]", "[)"})
                 ELSE IF neg THEN SLOutsideTypes ELSE SLBetweenTypes
PercSets == IF Lean THEN {<<4>>} ELSE {<<4>>, <<2, 6>>} \cup (IF Rich THEN {<<2, 4, 6>>, <<0, 8>>} ELSE {})
KMax == IF Lean THEN 2 ELSE 3

PipeStart ==
    /\ ph = "start"
    /\ \E n \in 1..PL : \E x \in [1..n -> 1..PV] :
          LET a == [j \in 1..n |-> [t |-> j, v |-> x[j]]] IN
          ini' = a /\ lst' = <<a>> /\ prev' = <<a>>
    /\ ph' = "pipe" /\ hist' = <<>> /\ UNCHANGED <<c, mech>>

CanStep == ph = "pipe" /\ Len(hist) < PD
Step(op) == /\ SLPEnabled(lst, op)
            /\ prev' = lst /\ lst' = SLPNext(lst, op) /\ hist' = hist \o <<op>>
            /\ UNCHANGED <<ph, c, ini, mech>>
Sel  == CanStep /\ \E k \in 1..VMin2(Len(lst), KMax) : \E neg \in BOOLEAN : \E ty \in SelTypes(neg) : \E b \in SelBounds :
            Step(Op("sel", k, neg, ty, b[1], b[2], <<>>, FALSE))
Perc == CanStep /\ Len(lst) <= 4 /\ \E k \in 1..VMin2(Len(lst), KMax) : \E q \in PercSets :
            Step(Op("perc", k, FALSE, "", 0, 0, q, FALSE))
Comb == CanStep /\ \E keep \in BOOLEAN : Step(Op("comb", 0, FALSE, "", 0, 0, <<>>, keep))

\* ---- the consuming loop of combine_arrlist, one action per iteration -----------------------------
MechBegin == /\ ph = "case" /\ SLMApplies(c)
             /\ mech' = SLMInit(c.arrs) /\ ph' = "mech" /\ UNCHANGED <<c, ini, lst, prev, hist>>
MechPop   == /\ ph = "mech" /\ mech.st = "run" /\ mech.lst # <<>>
             /\ mech' = SLMStep(mech) /\ UNCHANGED <<ph, c, ini, lst, prev, hist>>

Next == Pick \/ MechBegin \/ MechPop \/ ChooseInterval \/ ChooseWhere \/ ChoosePerc \/ ChooseScl \/ ChooseRep \/ ChooseComb \/ ChooseDict
        \/ ChooseDictList \/ ChooseStr \/ ChooseGrid \/ ChooseSel \/ ChooseKey
        \/ PipeStart \/ Sel \/ Perc \/ Comb
Spec == Init /\ [][Next]_vars

\* =====================================================================================
\* properties of the cases
\* =====================================================================================
IsCase == ph = "case"

RefAccepted == (IsCase /\ SLDetermined(c)) => SLFailing(c, SLRef(c)) = {}

\* single corruptions of the reference observation (each must be rejected)
Flip(s, j) == [s EXCEPT ![j] = ~@]
Bump(r) == [r EXCEPT !.n = @ + r.d]                      \* the rational plus one
Corruptions(cc, r) ==
    CASE cc.fn \in {"between", "outside", "strmatch"} ->
            (IF cc.fn = "strmatch" THEN {} ELSE {[r EXCEPT !.val = Flip(@, j)] : j \in DOMAIN r.val}) \cup
            {[r EXCEPT !.shape = @ \o <<1>>], [r EXCEPT !.kind = "i8"], [r EXCEPT !.err = "ValueError"]}
      [] cc.fn = "where1" ->
            {[r EXCEPT !.val = @ \o <<Len(cc.x)>>], [r EXCEPT !.kind = "f8"], [r EXCEPT !.err = "ValueError"]} \cup
            (IF Len(r.val) >= 1 THEN {[r EXCEPT !.val = Tail(@)]} ELSE {}) \cup
            (IF Len(r.val) >= 2 THEN {[r EXCEPT !.val = Tail(@) \o <<Head(@)>>]} ELSE {})
      [] cc.fn = "percentile" ->
            {[r EXCEPT !.idx = Tail(@)], [r EXCEPT !.hasranges = ~@], [r EXCEPT !.err = "IndexError"],
             [r EXCEPT !.idx[1] = @ \o <<Len(cc.x)>>], [r EXCEPT !.idx[Len(r.idx)] = <<Len(cc.x)>> \o @]} \cup
            (IF cc.ranges THEN {[r EXCEPT !.ranges[1][1] = Bump(@)], [r EXCEPT !.ranges[1][2] = Bump(@)],
                                [r EXCEPT !.ranges[Len(r.ranges)][2] = Bump(@)], [r EXCEPT !.ranges = Tail(@)]} ELSE {})
      [] cc.fn = "arrscl" ->
            {[r EXCEPT !.val[1] = Bump(@)], [r EXCEPT !.val[1] = [k |-> "off", n |-> 0, d |-> 1]], [r EXCEPT !.shape = @ \o <<1>>],
             [r EXCEPT !.kind = "i8"], [r EXCEPT !.frame = FALSE], [r EXCEPT !.fresh = FALSE], [r EXCEPT !.err = "ValueError"]}
      [] cc.fn = "replicate" ->
            {[r EXCEPT !.shape = @ \o <<1>>], [r EXCEPT !.kind = "c16"], [r EXCEPT !.val = @ \o <<cc.v>>], [r EXCEPT !.err = "TypeError"]} \cup
            (IF r.val # <<>> THEN {[r EXCEPT !.val[1] = cc.v + 1]} ELSE {})
      [] cc.fn = "combine" ->
            {[r EXCEPT !.rows = @ \o <<1>>], [r EXCEPT !.dt = 9], [r EXCEPT !.frame = FALSE], [r EXCEPT !.err = "TypeError"]} \cup
            (IF Len(cc.arrs) >= 2 THEN {[r EXCEPT !.listlen = 1]} ELSE {}) \cup
            (IF Len(r.rows) >= 2 /\ r.rows[1] # r.rows[Len(r.rows)] THEN {[r EXCEPT !.rows = Tail(@) \o <<Head(@)>>]} ELSE {})
      [] cc.fn \in {"dict2array", "dictlist2array"} ->
            {[r EXCEPT !.n = @ + 1], [r EXCEPT !.fields = Tail(@)], [r EXCEPT !.fields[1].kind = "U"],
             [r EXCEPT !.fields[1].vals[1] = @ + 1], [r EXCEPT !.err = "ValueError"]} \cup
            (IF SLDictOrderFixed(cc) /\ Len(r.fields) >= 2 THEN {[r EXCEPT !.fields = Tail(@) \o <<Head(@)>>]} ELSE {}) \cup
            (IF r.fields[1].kind = "S" THEN {[r EXCEPT !.fields[1].len = @ + 1]} ELSE {})
      [] cc.fn = "grid" ->
            {[r EXCEPT !.pairs = Tail(@)], [r EXCEPT !.pairs[1].x = Bump(@)], [r EXCEPT !.pairs[2].y = Bump(@)], [r EXCEPT !.err = "TypeError"]}
      [] cc.fn = "dict_select" ->
            {[r EXCEPT !.frame = FALSE], [r EXCEPT !.fresh = FALSE], [r EXCEPT !.items = @ \o <<[k |-> "q", v |-> 1]>>]} \cup
            (IF r.items # <<>> THEN {[r EXCEPT !.items = Tail(@)], [r EXCEPT !.items[1].v = @ + 1]} ELSE {}) \cup
            (IF ~SLSelMissing(cc) THEN {[r EXCEPT !.err = "KeyError"]} ELSE {})
      [] cc.fn = "keyby" ->
            {[r EXCEPT !.groups = @ \o <<[k |-> 7, m |-> <<>>]>>], [r EXCEPT !.err = "KeyError"]} \cup
            (IF r.groups # <<>> THEN {[r EXCEPT !.groups = Tail(@)], [r EXCEPT !.groups[1].m = @ \o <<Len(cc.kv)>>],
                                      [r EXCEPT !.groups[1].m = Tail(@)]} ELSE {})
CorruptRejected == (IsCase /\ SLDetermined(c)) => \A bad \in Corruptions(c, SLRef(c)) : SLFailing(c, bad) # {}

\* where nothing is demanded, nothing is rejected
Unconstrained == (IsCase /\ ~SLDetermined(c) /\ c.fn \in {"between", "outside", "percentile", "arrscl", "grid"}) =>
                    SLFailing(c, [err |-> "Whatever"]) = {}

\* the laws of the contract, stated independently
Laws == (IsCase /\ SLDetermined(c)) =>
    LET r == SLRef(c) IN
    /\ c.fn = "between" =>
          \A j \in DOMAIN c.x : LET x == c.x[j]  lo == SLLoAt(c, j)  hi == SLHiAt(c, j) IN
             /\ SLInside(c.ty, x, lo, hi) = ~SLOutsideOf(SLComplement(c.ty), x, lo, hi)            \* complement
             /\ SLInside("()", x, lo, hi) => SLInside("[)", x, lo, hi) /\ SLInside("(]", x, lo, hi)   \* nesting
             /\ (SLInside("[)", x, lo, hi) \/ SLInside("(]", x, lo, hi)) => SLInside("[]", x, lo, hi)
             /\ (lo < x /\ x < hi) => r.val[j]                                                        \* the interior always
             /\ (x < lo \/ x > hi) => ~r.val[j]                                                        \* the exterior never
             /\ (x = lo /\ lo < hi) => (r.val[j] <=> c.ty \in {"[]", "[)"})                            \* a bound iff its bracket is closed
             /\ (x = hi /\ lo < hi) => (r.val[j] <=> c.ty \in {"[]", "(]"})
    /\ c.fn = "outside" =>
          \A j \in DOMAIN c.x : LET x == c.x[j]  lo == SLLoAt(c, j)  hi == SLHiAt(c, j) IN
             /\ (x < lo \/ x > hi) => r.val[j]
             /\ (lo < x /\ x < hi) => ~r.val[j]
             /\ (x = lo /\ lo < hi) => (r.val[j] <=> c.ty \in {"][", "]("})
             /\ (x = hi /\ lo < hi) => (r.val[j] <=> c.ty \in {"][", ")["})
    /\ c.fn = "where1" =>
          /\ SLAscending(r.val) /\ Len(r.val) = Cardinality({j \in DOMAIN c.x : c.x[j] # 0})
          /\ \A k \in DOMAIN r.val : c.x[r.val[k] + 1] # 0
    /\ c.fn = "percentile" =>
          LET p == SLCuts(c)  m == Len(p)  pc == r.idx
              valAt(i) == c.x[i + 1] IN
          /\ Len(pc) = m + 1
          /\ \A a, b \in DOMAIN pc : a < b => /\ VRange(pc[a]) \cap VRange(pc[b]) = {}                 \* disjoint, ordered by value
                                              /\ \A i \in VRange(pc[a]) : \A j \in VRange(pc[b]) : valAt(i) < valAt(j)
          \* exactly the data equal to a cut are in no piece
          /\ \A j \in DOMAIN c.x : (\E a \in DOMAIN pc : (j - 1) \in VRange(pc[a])) <=> ~\E k \in DOMAIN p : REq(p[k], RInt(c.x[j]))
          /\ \A k \in 1..(m - 1) : RLe(p[k], p[k + 1])
          /\ \A k \in DOMAIN p : RLe(RInt(VSeqMin(c.x)), p[k]) /\ RLe(p[k], RInt(VSeqMax(c.x)))
          /\ c.ranges => /\ \A k \in 1..m : r.ranges[k][2] = r.ranges[k + 1][1]
                         /\ r.ranges[1][1] = SLRatRec(RInt(VSeqMin(c.x))) /\ r.ranges[m + 1][2] = SLRatRec(RInt(VSeqMax(c.x)))
    /\ c.fn = "arrscl" =>
          LET lo == SLSclLo(c)  hi == SLSclHi(c) IN
          /\ \A j \in DOMAIN c.x : /\ c.x[j] = lo => SLSclValue(c, j) = RInt(c.minv)                  \* the range ends map to minval, maxval
                                   /\ c.x[j] = hi => SLSclValue(c, j) = RInt(c.maxv)
                                   /\ (VMin2(lo, hi) <= c.x[j] /\ c.x[j] <= VMax2(lo, hi)) =>          \* "between minval and maxval"
                                         /\ RLe(RInt(VMin2(c.minv, c.maxv)), SLSclValue(c, j))
                                         /\ RLe(SLSclValue(c, j), RInt(VMax2(c.minv, c.maxv)))
          /\ \A i, j \in DOMAIN c.x :                                                                   \* affine: equal steps, one direction
                (c.x[i] < c.x[j] /\ lo < hi /\ c.minv < c.maxv) => RLt(SLSclValue(c, i), SLSclValue(c, j))
          /\ \A i, j, k \in DOMAIN c.x : (c.x[j] - c.x[i] = c.x[k] - c.x[j]) =>
                RSub(SLSclValue(c, j), SLSclValue(c, i)) = RSub(SLSclValue(c, k), SLSclValue(c, j))
    /\ c.fn = "combine" =>
          /\ Len(r.rows) = VSum([k \in DOMAIN c.arrs |-> Len(c.arrs[k].rows)])
          /\ \A k \in DOMAIN c.arrs : \A i \in DOMAIN c.arrs[k].rows :
                r.rows[VSum([m \in 1..(k - 1) |-> Len(c.arrs[m].rows)]) + i] = c.arrs[k].rows[i]
    /\ c.fn \in {"dict2array", "dictlist2array"} =>
          LET names == [i \in DOMAIN r.fields |-> r.fields[i].name] IN
          /\ ~SLHasDup(names)
          /\ VRange(names) = (IF c.haskeys THEN VRange(c.keys) ELSE SLDKeys(c.dicts[1]))
          /\ (c.sort /\ ~c.haskeys) => \A i \in 1..(Len(names) - 1) :
                (CHOOSE a \in DOMAIN SLNameOrder : SLNameOrder[a] = names[i]) < (CHOOSE a \in DOMAIN SLNameOrder : SLNameOrder[a] = names[i + 1])
          /\ \A i \in DOMAIN r.fields : Len(r.fields[i].vals) = Len(c.dicts)
    /\ c.fn = "strmatch" =>
          \A j \in DOMAIN c.strs : /\ SLReFull(c.strs[j], c.pat) => SLReMatch(c.strs[j], c.pat)        \* the readings are nested
                                   /\ SLReMatch(c.strs[j], c.pat) => SLReSearch(c.strs[j], c.pat)
                                   /\ (c.pat.pre /\ c.pat.post) => Cardinality(SLReAllowed(c.strs[j], c.pat)) = 1
    /\ c.fn = "grid" =>
          /\ Len(r.pairs) = c.n * c.n
          /\ r.pairs[1] = [x |-> SLRatRec(RInt(c.x0)), y |-> SLRatRec(RInt(c.y0))]
          /\ r.pairs[c.n * c.n] = [x |-> SLRatRec(RInt(c.x1)), y |-> SLRatRec(RInt(c.y1))]
    /\ c.fn = "dict_select" =>
          LET ks == {r.items[i].k : i \in DOMAIN r.items} IN
          /\ ks \subseteq VRange(c.keys)
          /\ c.remk => ks \cap VRange(c.remove) = {}
          /\ (c.keepk /\ c.keep # <<>>) => ks \subseteq VRange(c.keep)
          /\ (~c.remk /\ (~c.keepk \/ c.keep = <<>>)) => ks = VRange(c.keys)
    /\ c.fn = "keyby" =>
          /\ VSum([i \in DOMAIN r.groups |-> Len(r.groups[i].m)]) = Len(c.kv)                            \* a partition of the collection
          /\ \A j \in DOMAIN c.kv : \E i \in DOMAIN r.groups : r.groups[i].k = c.kv[j] /\ (j - 1) \in VRange(r.groups[i].m)

\* ---- the mechanism of combine_arrlist ---------------------------------------------------------------
InMech == ph = "mech"
MechRows(l) == SLConcat([k \in DOMAIN l |-> l[k].rows])
\* while the loop runs normally every row is either in the output or still in the caller's list
MechConserves == (InMech /\ mech.st = "run" /\ ~SLCombMixed(c.arrs)) => mech.out \o MechRows(mech.lst) = SLCombRows(c.arrs)
\* the finished loop is accepted by the property-level specification
MechRefines == (InMech /\ mech.st = "run" /\ mech.lst = <<>>) => SLFailing(c, SLMObs(c, mech)) = {}
\* NOT an invariant (the contract says nothing about it): at the exception point the popped array is in
\* neither place.  Checked to be violated - the exception point is really modelled - and reported as a lead.
MechRaiseKeepsRows == (InMech /\ mech.st = "raised") => Len(mech.out) + Len(MechRows(mech.lst)) = Len(SLCombRows(c.arrs))

\* =====================================================================================
\* properties of the pipeline
\* =====================================================================================
InPipe == ph = "pipe"
Stepped == InPipe /\ hist # <<>>
Last == hist[Len(hist)]
AllRows(l) == SLConcat(l)
KeptSome == \E i \in DOMAIN hist : hist[i].op = "comb" /\ hist[i].keep

\* rows are never invented or altered; without keep=True nothing is duplicated
PipeConserved == InPipe =>
    /\ \A r \in VRange(AllRows(lst)) : r \in VRange(ini)
    /\ ~KeptSome => ~SLHasDup(AllRows(lst))

IsSubSeq(s, t) ==
    LET RECURSIVE go(_, _)
        go(i, j) == IF i > Len(s) THEN TRUE ELSE IF j > Len(t) THEN FALSE
                    ELSE IF s[i] = t[j] THEN go(i + 1, j + 1) ELSE go(i, j + 1)
    IN go(1, 1)
Opposite(op) == [op EXCEPT !.neg = ~@,
                           !.ty = IF op.neg THEN CHOOSE t \in SLBetweenTypes : SLComplement(t) = op.ty ELSE SLComplement(op.ty)]

PipeStepLaws == Stepped =>
    LET op == Last IN
    /\ op.op = "sel" =>
          LET a == prev[op.k]  s == lst[op.k]  t == SLPSel(a, Opposite(op)) IN
          /\ IsSubSeq(s, a)                                                        \* a selection keeps the order
          /\ VRange(s) \cup VRange(t) = VRange(a) /\ Len(s) + Len(t) = Len(a)       \* between and the complementary outside partition the rows
          /\ \A i \in DOMAIN lst : i # op.k => lst[i] = prev[i]
    /\ op.op = "perc" =>
          LET a == prev[op.k]  m == Len(op.q8)
              pcs == SubSeq(lst, op.k, op.k + m) IN
          /\ Len(lst) = Len(prev) + m
          /\ \A i \in DOMAIN pcs : IsSubSeq(pcs[i], a)
          /\ \A i, j \in DOMAIN pcs : i < j => \A r1 \in VRange(pcs[i]) : \A r2 \in VRange(pcs[j]) : r1.v < r2.v
          /\ Len(a) - Len(AllRows(pcs)) =
                Cardinality({j \in DOMAIN a : \E k \in DOMAIN op.q8 : REq(SLQuantile(SLPVals(a), op.q8[k], "default"), RInt(a[j].v))})
    /\ op.op = "comb" =>
          /\ lst[Len(lst)] = AllRows(prev)
          /\ Len(lst) = IF op.keep THEN Len(prev) + 1 ELSE 1

\* the reference step is accepted by the trace judgement, a corrupted one is not
PipeRefAccepted == Stepped =>
    LET o == [err |-> "none", lst |-> lst] IN
    /\ SLPFailing(prev, Last, o) = {}
    /\ SLPFailing(prev, Last, [o EXCEPT !.lst = @ \o <<<<>>>>]) # {}
    /\ SLPFailing(prev, Last, [o EXCEPT !.err = "ValueError"]) # {}
    /\ (lst[1] # <<>>) => SLPFailing(prev, Last, [o EXCEPT !.lst[1] = Tail(@)]) # {}

\* ---- export -----------------------------------------------------------------------------
Export ==
    /\ (DoExport /\ IsCase) => PrintT(<<"CASE", ToJson(c)>>)
    /\ (DoExport /\ InPipe /\ Len(hist) = PD) => PrintT(<<"CHAIN", ToJson([ini |-> ini, ops |-> hist])>>)

\* the pipeline invariants look at the last transition only
LastView == <<ph, c, ini, lst, prev, Len(hist), IF hist = <<>> THEN <<>> ELSE <<Last>>, KeptSome, mech>>
=============================================================================
