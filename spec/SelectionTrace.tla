------------------------------- MODULE SelectionTrace -------------------------------
(* Trace validation for extension X01.  The harness executes the real               *)
(* esutil.numpy_util / esutil.misc functions on every case exported from             *)
(* SelectionMC.tla (and on larger seeded cases), steps the real code through every   *)
(* exported pipeline behaviour (and longer seeded ones), and records what it saw.    *)
(* One ndjson line per record:                                                       *)
(*   {"id": k, "kind": "case", "c": <case>, "obs": <observation>}                   *)
(*   {"id": k, "kind": "step", "pre": <list of arrays>, "op": <operation>,           *)
(*                             "obs": {"err": ..., "lst": <list of arrays>}}          *)
(* `pre` of a step is the projection of the REAL list the call sequence was made on   *)
(* (= what the previous step of the chain left behind).  A case is judged by          *)
(* SLFailing, a step by SLPFailing of Selection.tla; clauses failing for a form of    *)
(* calling that the docstrings do not document are marked "nongating/", and so is a  *)
(* disagreement between the real combine_arrlist and its mechanism model about       *)
(* raising / what is left in the caller's list (a lead, never a verdict).            *)
EXTENDS Selection, Json, IOUtils

VARIABLES blk, tid
Traces == ndJsonDeserialize(IOEnv.TRACE_FILE)
NT == Len(Traces)
BlockSize == 256
NBlocks == (NT + BlockSize - 1) \div BlockSize

Init == blk = 0 /\ tid = 0
PickBlock == blk = 0 /\ tid = 0 /\ \E b \in 1..NBlocks : blk' = b /\ tid' = 0
PickTrace == blk > 0 /\ tid = 0
             /\ \E t \in ((blk - 1) * BlockSize + 1)..VMin2(blk * BlockSize, NT) : tid' = t /\ blk' = blk
Next == PickBlock \/ PickTrace

FailingRec(r) ==
    IF r.kind = "case"
    THEN {(IF SLGating(r.c) THEN "" ELSE "nongating/") \o cl : cl \in SLFailing(r.c, r.obs)} \cup
         {"nongating/" \o cl : cl \in (IF r.c.fn = "combine" THEN SLMDisagrees(r.c, r.obs) ELSE {})}
    ELSE SLPFailing(r.pre, r.op, r.obs)

Check == tid > 0 =>
    LET r == Traces[tid]  f == FailingRec(r)
    IN f = {} \/ PrintT(<<"REJECT", ToJson([id |-> r.id, failing |-> f])>>)
=============================================================================
