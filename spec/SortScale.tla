------------------------------- MODULE SortScale -------------------------------
(* Sorting at SCALE (C20): long inputs - lengths across the 40 / 41 boundary below   *)
(* which an implementation may switch its pivot rule, and lengths of a thousand and  *)
(* more already sorted / reversed / constant elements, where a partition-exchange    *)
(* sort that makes a call for either part nests as deep as the input is long (the    *)
(* pinned code: RecursionError at the interpreter's default limit; Quicksort.tla     *)
(* SmallerFirst / DepthInv is the model of the repair) - cannot be enumerated like   *)
(* the arrays of Quicksort.tla.  What makes them decidable is that the clauses of    *)
(* the statement are O(n) predicates that can be evaluated on a run-length encoding  *)
(* of the arrays (Algo!SortFailingR on ramps).  The real sorts run at the default    *)
(* recursion limit; an exception is the clause unexpected_error.  This module        *)
(*   (1) checks the LAW on the small scope (RampLaw): for every ramp-encoded case and *)
(*       every ramp-encoded observation, SortFailingR gives exactly the clauses that  *)
(*       SortFailing gives on the written-out arrays - in particular the verdict does *)
(*       not depend on which ramps are used to write an array down;                   *)
(*   (2) defines the structured inputs (shapes) as ramps and checks that each is the  *)
(*       array it is meant to be (ShapeLaw, sizes small enough to write out);         *)
(*   (3) exports the scale cases (shape x size x variant) the harness executes on the *)
(*       real sorts; QuicksortTrace.tla judges the encoded result with SortFailingR.  *)
EXTENDS Algo, Json

CONSTANTS Sizes,      \* lengths of the exported scale cases
          SmallSizes, \* lengths on which ShapeLaw is checked by writing the arrays out
          LawModes,   \* subset of {"plain", "lin", "pos"}: which parts of the law the run enumerates
          LawK,       \* ramp lengths 1..LawK in the law
          LawN,       \* inputs of total length <= LawN in the law
          DoExport

Shapes == {"sorted", "reversed", "constant", "tiesup", "tiesdown", "organ", "rotated", "sawtooth"}

\* ---- ramps written out -------------------------------------------------------------------
RampSeq(r) == [j \in 1..r[3] |-> r[1] + (j - 1) * r[2]]
RDecode(rs) == AFlatten([i \in DOMAIN rs |-> RampSeq(rs[i])])

\* ---- the shapes ------------------------------------------------------------------------------
NonEmpty(rs) == SelectSeq(rs, LAMBDA r : r[3] > 0)
ShapeRamps(shape, n) ==
    LET h == n \div 2  q == n \div 4  p == (n \div 8) + 1 IN
    NonEmpty(
    CASE shape = "sorted"   -> << <<0, 1, n>> >>
      [] shape = "reversed" -> << <<n - 1, -1, n>> >>
      [] shape = "constant" -> << <<7, 0, n>> >>
      [] shape = "tiesup"   -> << <<0, 0, q>>, <<1, 0, q>>, <<2, 0, q>>, <<3, 0, n - 3 * q>> >>
      [] shape = "tiesdown" -> << <<3, 0, q>>, <<2, 0, q>>, <<1, 0, q>>, <<0, 0, n - 3 * q>> >>
      [] shape = "organ"    -> << <<0, 2, n - h>>, <<2 * h - 1, -2, h>> >>          \* 0 2 4 .. then the odd ones downwards
      [] shape = "rotated"  -> << <<h, 1, n - h>>, <<0, 1, h>> >>
      [] shape = "sawtooth" -> [i \in 1..((n + p - 1) \div p) |-> <<0, 1, VMin2(p, n - (i - 1) * p)>>] )
ShapeDistinct(shape) == shape \in {"sorted", "reversed", "organ", "rotated"}
\* values of the key-value variant: the positions 1..n where the sorted result keeps them compressible (all values
\* distinct), 3 key + 1 elsewhere (repeated values wherever keys repeat); both decide the pair clause exactly
ShapePos(shape) == shape \in {"sorted", "reversed", "rotated"}
\* the same arrays written element by element
ShapeElem(shape, n, i) ==
    LET h == n \div 2  q == n \div 4  p == (n \div 8) + 1 IN
    CASE shape = "sorted"   -> i - 1
      [] shape = "reversed" -> n - i
      [] shape = "constant" -> 7
      [] shape = "tiesup"   -> IF q = 0 THEN 3 ELSE VMin2((i - 1) \div q, 3)
      [] shape = "tiesdown" -> IF q = 0 THEN 0 ELSE 3 - VMin2((i - 1) \div q, 3)
      [] shape = "organ"    -> IF i <= n - h THEN 2 * (i - 1) ELSE 2 * h - 1 - 2 * (i - (n - h) - 1)
      [] shape = "rotated"  -> IF i <= n - h THEN h + i - 1 ELSE i - (n - h) - 1
      [] shape = "sawtooth" -> (i - 1) % p

ScaleCase(shape, n, variant) ==
    [shape |-> shape, n |-> n, variant |-> variant, keys |-> ShapeRamps(shape, n),
     valmode |-> IF variant = "plain" THEN "none" ELSE IF ShapePos(shape) THEN "pos" ELSE "lin"]

\* ---- the law, small scope -----------------------------------------------------------------------
Steps == {-1, 0, 1}
StepsK(k) == IF k = 1 THEN {0} ELSE Steps                  \* the step of a one-element ramp means nothing
InRamps1 == UNION {{<<a, d, k>> : a \in 0..1, d \in StepsK(k)} : k \in 1..LawK}
InRampLists == {rs \in {<<r>> : r \in InRamps1} \cup {<<r, t>> : r \in InRamps1, t \in InRamps1} : RLen(rs) <= LawN}
\* pair ramps of an observation: keys near the input's, values right and wrong
ObsA(mode) == IF mode = "plain" THEN 0..2 ELSE 0..1           \* 2: a key the input does not hold
ObsB(mode, a) == CASE mode = "plain" -> {0} [] mode = "lin" -> {3 * a + 1, 3 * a + 2} [] OTHER -> 1..3
ObsE(mode, d, k) == IF k = 1 THEN {0} ELSE CASE mode = "plain" -> {0} [] mode = "lin" -> {3 * d, 1} [] OTHER -> Steps
ObsRamps1(mode) ==
    UNION {UNION {{<<a, d, b, e, k>> : b \in ObsB(mode, a), e \in ObsE(mode, d, k)} : a \in ObsA(mode), d \in StepsK(k)} : k \in 1..LawK}

Expand(c) == [variant |-> c.variant, keys |-> RDecode(c.keys),
              vals |-> IF c.valmode = "pos" THEN [i \in 1..RLen(c.keys) |-> i]
                       ELSE IF c.valmode = "lin" THEN [i \in 1..RLen(c.keys) |-> 3 * RDecode(c.keys)[i] + 1]
                       ELSE <<>>]
ExpandObs(c, o) == [err |-> o.err, keys |-> RDecode(PRKeys(o.pr)),
                    vals |-> IF c.variant = "kv" THEN RDecode(PRVals(o.pr)) ELSE <<>>]

VARIABLES phase, c, o
vars == <<phase, c, o>>

Init == phase = "start" /\ c = [variant |-> "none"] /\ o = [err |-> "none", pr |-> <<>>]

ChooseIn ==
    /\ phase = "start" /\ ~DoExport
    /\ \E mode \in LawModes : \E ks \in InRampLists :
          c' = [variant |-> IF mode = "plain" THEN "plain" ELSE "kv", keys |-> ks,
                valmode |-> IF mode = "plain" THEN "none" ELSE mode]
    /\ phase' = "in" /\ UNCHANGED o
\* observations of the right length (one or two pair ramps) - and of a wrong one
ModeOf(cc) == IF cc.variant = "plain" THEN "plain" ELSE cc.valmode
ChooseObs ==
    /\ phase = "in"
    /\ \/ \E r \in ObsRamps1(ModeOf(c)) : o' = [err |-> "none", pr |-> <<r>>]
       \/ \E r \in ObsRamps1(ModeOf(c)) : \E t \in ObsRamps1(ModeOf(c)) :
             /\ r[5] + t[5] = RLen(c.keys)
             /\ o' = [err |-> "none", pr |-> <<r, t>>]
    /\ phase' = "obs" /\ UNCHANGED c

ChooseScale ==
    /\ phase = "start"
    /\ \E shape \in Shapes : \E n \in (IF DoExport THEN Sizes ELSE SmallSizes) : \E variant \in {"plain", "kv"} :
          c' = ScaleCase(shape, n, variant)
    /\ phase' = "scale" /\ UNCHANGED o

Next == ChooseIn \/ ChooseObs \/ ChooseScale

\* (1) the clauses on ramps are the clauses on the arrays
RampLaw == phase = "obs" => SortFailingR(c, o) = SortFailing(Expand(c), ExpandObs(c, o))
\* self-test: a sortedness clause that looks inside the ramps only (forgets the boundaries) is NOT the clause on the arrays
RampLawNoBoundary == phase = "obs" =>
    LET inside == \A i \in DOMAIN o.pr : o.pr[i][5] > 1 => o.pr[i][2] >= 0
        fr == (SortFailingR(c, o) \ {"not_sorted"}) \cup (IF inside \/ SortFailingR(c, o) \subseteq {"length_changed"} THEN {} ELSE {"not_sorted"})
    IN fr = SortFailing(Expand(c), ExpandObs(c, o))
\* (2) the shapes are the arrays they are meant to be, and the right answer is accepted in two encodings
SortedRef(c0) ==      \* the sorted output written as one pair ramp per element (keys from the value set, values by valmode)
    LET xs == RDecode(c0.keys)
        n == Len(xs)
        vs == VSortSet(VRange(xs))
        runs == [i \in DOMAIN vs |-> SelectSeq([j \in 1..n |-> j], LAMBDA j : xs[j] = vs[i])]      \* positions per value, ascending
        flat == AFlatten(runs)
    IN [j \in 1..n |-> <<xs[flat[j]], 0, IF c0.valmode = "pos" THEN flat[j] ELSE IF c0.valmode = "lin" THEN 3 * xs[flat[j]] + 1 ELSE 0, 0, 1>>]
ShapeLaw == phase = "scale" =>
    /\ RLen(c.keys) = c.n
    /\ RDecode(c.keys) = [i \in 1..c.n |-> ShapeElem(c.shape, c.n, i)]
    /\ (ShapeDistinct(c.shape) => Cardinality(VRange(RDecode(c.keys))) = c.n)
    /\ (c.n \in SmallSizes =>
          /\ SortFailingR(c, [err |-> "none", pr |-> SortedRef(c)]) = {}
          /\ c.n >= 2 => SortFailingR(c, [err |-> "none", pr |-> [SortedRef(c) EXCEPT ![1] = SortedRef(c)[c.n], ![c.n] = SortedRef(c)[1]]]) # {}
                         \/ Cardinality(VRange(RDecode(c.keys))) = 1)

Export == (DoExport /\ phase = "scale") => PrintT(<<"SCALE", ToJson(c)>>)
=============================================================================
