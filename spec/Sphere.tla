------------------------------- MODULE Sphere -------------------------------
(* Exact spherical geometry on two integer lattices (DESIGN.md 4.1).              *)
(*                                                                                *)
(* TLC has 32-bit integers and no reals.  Everything a property says about        *)
(* angular separations is therefore stated on two lattices of sky positions on    *)
(* which the separation (or its cosine) is an exact integer / rational:           *)
(*                                                                                *)
(*  1. The GREAT-CIRCLE LATTICE.  An angle is a pair <<a, b>> meaning             *)
(*     a + b*eps DEGREES: a an integer number of degrees, b a small integer, eps  *)
(*     a SYMBOLIC positive unit with |b|*eps < 1/2.  The harness instantiates eps *)
(*     per scenario (1e-12, 1e-9, 1e-6, 1e-3 degree).  All lattice arithmetic is  *)
(*     linear, so pairs are added component-wise and compared lexicographically.  *)
(*     A sky point is a record [lon |-> <<a,b>>, lat |-> <<a,b>>] (lon any value, *)
(*     not necessarily in [0,360); -90 <= lat <= 90).  Two points that lie on the *)
(*     equator, or on one meridian circle (longitudes equal or 180 apart), or one *)
(*     of which is a pole, lie on a common great circle along which positions are *)
(*     again lattice angles: their separation SepGC is integer arithmetic mod 360.*)
(*     This contains every adversarial family the properties name: coincident,    *)
(*     eps apart, 180-eps apart, exactly antipodal, polar, seam crossing.         *)
(*                                                                                *)
(*  2. The RATIONAL SPHERE.  A point is <<a, b, c, d>> with a^2+b^2+c^2 = d^2,    *)
(*     d > 0, gcd(a,b,c,d) = 1: the unit vector (a,b,c)/d  (x towards lon 0 on    *)
(*     the equator, y towards lon 90, z towards the north pole).  The cosine of   *)
(*     every separation is the exact rational CosSep; "closer than", "inside the  *)
(*     cone" are integer cross-multiplications.  RSphere(15) has 414 points.      *)
(*                                                                                *)
(* The module is purely definitional (no variables); SphereMC.tla checks the      *)
(* theorems below with TLC on bounded instances and exports the cases,            *)
(* SphereTrace.tla judges what the real code returned.  Other modules             *)
(* (Frames, cone search, HTM, samplers) EXTEND it.  All operators are prefixed    *)
(* E (eps-angles), G (great-circle lattice points), S (rational sphere).          *)
EXTENDS VU

\* ==================================================================================
\* 1a. eps-angles  <<a, b>>  ==  a + b*eps  degrees
\* ==================================================================================
EDeg(a)     == <<a, 0>>
EAdd(x, y)  == <<x[1] + y[1], x[2] + y[2]>>
ESub(x, y)  == <<x[1] - y[1], x[2] - y[2]>>
ENeg(x)     == <<-x[1], -x[2]>>
ELt(x, y)   == x[1] < y[1] \/ (x[1] = y[1] /\ x[2] < y[2])        \* lexicographic: |b|*eps < 1/2
ELe(x, y)   == x = y \/ ELt(x, y)
EZero       == <<0, 0>>

\* the representative of x modulo 360 in [0, 360):  -eps  |->  360 - eps = <<360, -1>>
ENorm360(x) == LET a == x[1] % 360 IN IF a = 0 /\ x[2] < 0 THEN <<360, x[2]>> ELSE <<a, x[2]>>

\* the representative in (-180, 180]
ENorm180(x) == LET y == ENorm360(x) IN IF ELe(y, EDeg(180)) THEN y ELSE ESub(y, EDeg(360))

\* two angles denote the same direction on a circle
ESameMod360(x, y) == ENorm360(ESub(x, y)) = EZero

\* separation of two positions on one circle: the shorter arc, in [0, 180]
ECircSep(t1, t2) == LET d == ENorm360(ESub(t2, t1))
                    IN IF ELe(d, EDeg(180)) THEN d ELSE ESub(EDeg(360), d)

\* ==================================================================================
\* 1b. great-circle lattice: sky points [lon, lat] and their exact separation
\* ==================================================================================
GPt(lon, lat)   == [lon |-> lon, lat |-> lat]
GValid(p)       == ELe(EDeg(-90), p.lat) /\ ELe(p.lat, EDeg(90))
GIsNorth(p)     == p.lat = EDeg(90)
GIsSouth(p)     == p.lat = EDeg(-90)
GIsPole(p)      == GIsNorth(p) \/ GIsSouth(p)
GOnEquator(p)   == p.lat = EZero
\* longitudes equal or 180 degrees apart: one meridian circle through both poles
GSameMeridian(p, q) == LET d == ENorm360(ESub(p.lon, q.lon)) IN d = EZero \/ d = EDeg(180)

\* the same position on the sky (poles have no longitude)
GSamePoint(p, q) == p.lat = q.lat /\ (GIsPole(p) \/ ESameMod360(p.lon, q.lon))
\* the same coordinates as given (what "identical inputs" means for a caller)
GIdentical(p, q) == p.lon = q.lon /\ p.lat = q.lat

\* SepGC is defined for pairs on a common lattice great circle
GDefined(p, q) == \/ GIsPole(p) \/ GIsPole(q)
                  \/ (GOnEquator(p) /\ GOnEquator(q))
                  \/ GSameMeridian(p, q)

\* position of p along the meridian circle whose "front" half has longitude L:
\* latitude on the front half, 180 - latitude on the back half; poles at +-90
GMerPos(p, L) == IF GIsPole(p) THEN p.lat
                 ELSE IF ESameMod360(p.lon, L) THEN p.lat ELSE ESub(EDeg(180), p.lat)

GSepEquator(p, q)  == ECircSep(p.lon, q.lon)
GSepMeridian(p, q) == LET L == IF GIsPole(p) THEN q.lon ELSE p.lon
                      IN ECircSep(GMerPos(p, L), GMerPos(q, L))

\* the great-circle separation (an eps-angle in [0,180]); only for GDefined pairs
SepGC(p, q) == IF GOnEquator(p) /\ GOnEquator(q) THEN GSepEquator(p, q) ELSE GSepMeridian(p, q)

\* constructors ----------------------------------------------------------------------
\* the point at position t (an eps-angle, any value) along the equator
GEquatorPoint(t) == GPt(ENorm360(t), EZero)
\* the point at position t along the meridian circle that leaves the equator at
\* longitude L (integer degrees) northwards: t = 0 equator, 90 north pole, 180 equator
\* at L+180, 270 south pole
GMeridianPoint(L, t) ==
    LET u == ENorm360(t)
    IN IF ELe(u, EDeg(90)) THEN GPt(EDeg(L % 360), u)
       ELSE IF ELt(u, EDeg(270)) THEN GPt(EDeg((L + 180) % 360), ESub(EDeg(180), u))
       ELSE GPt(EDeg(L % 360), ESub(u, EDeg(360)))

\* transformations under which the separation is invariant
GWrap(p, k)     == GPt(EAdd(p.lon, EDeg(360 * k)), p.lat)        \* add k*360 to the longitude
GShiftLon(p, s) == GPt(EAdd(p.lon, s), p.lat)                    \* rotate about the polar axis by s
GAntipode(p)    == GPt(EAdd(p.lon, EDeg(180)), ENeg(p.lat))
GMirror(p)      == GPt(p.lon, ENeg(p.lat))                       \* reflect in the equatorial plane

\* theorems about SepGC (checked by TLC on the bounded lattice in SphereMC) -------------
GThmRange(p, q)      == ELe(EZero, SepGC(p, q)) /\ ELe(SepGC(p, q), EDeg(180))
GThmSymmetric(p, q)  == SepGC(p, q) = SepGC(q, p)
GThmZeroIffSame(p, q) == (SepGC(p, q) = EZero) <=> GSamePoint(p, q)
GThm180IffAntipode(p, q) == (SepGC(p, q) = EDeg(180)) <=> GSamePoint(GAntipode(p), q)
GThmWellDefined(p, q) == (GOnEquator(p) /\ GOnEquator(q) /\ GSameMeridian(p, q))
                            => GSepEquator(p, q) = GSepMeridian(p, q)
GThmWrap(p, q, k1, k2) == /\ GDefined(GWrap(p, k1), GWrap(q, k2))
                          /\ SepGC(GWrap(p, k1), GWrap(q, k2)) = SepGC(p, q)
GThmShift(p, q, s)   == /\ GDefined(GShiftLon(p, s), GShiftLon(q, s))
                        /\ SepGC(GShiftLon(p, s), GShiftLon(q, s)) = SepGC(p, q)
GThmAntipode(p, q)   == /\ GDefined(GAntipode(p), q)
                        /\ EAdd(SepGC(GAntipode(p), q), SepGC(p, q)) = EDeg(180)
GThmMirror(p, q)     == /\ GDefined(GMirror(p), GMirror(q))
                        /\ SepGC(GMirror(p), GMirror(q)) = SepGC(p, q)
\* three points, pairwise on common lattice circles: the triangle inequality, and
\* when all three lie on ONE great circle the separations are additive (one is the
\* sum of the other two, or the three arcs close the circle)
GOneCircle(p, q, r) == \/ (GOnEquator(p) /\ GOnEquator(q) /\ GOnEquator(r))
                       \/ \E x \in {p, q, r} : ~GIsPole(x) /\
                             \A y \in {p, q, r} : GIsPole(y) \/ GSameMeridian(x, y)
                       \/ (GIsPole(p) /\ GIsPole(q) /\ GIsPole(r))
GThmTriangle(p, q, r) == ELe(SepGC(p, r), EAdd(SepGC(p, q), SepGC(q, r)))
GThmAdditive(p, q, r) ==
    GOneCircle(p, q, r) =>
        LET a == SepGC(p, q)  b == SepGC(q, r)  c == SepGC(p, r)
        IN \/ c = EAdd(a, b) \/ a = EAdd(b, c) \/ b = EAdd(a, c)
           \/ EAdd(EAdd(a, b), c) = EDeg(360)

\* ==================================================================================
\* 2. rational sphere: unit vectors <<a, b, c, d>> = (a,b,c)/d
\* ==================================================================================
SIsUnit(v)    == v[4] > 0 /\ v[1] * v[1] + v[2] * v[2] + v[3] * v[3] = v[4] * v[4]
SPrimitive(v) == VGcd(VGcd(VAbs(v[1]), VAbs(v[2])), VGcd(VAbs(v[3]), v[4])) = 1
\* all points with denominator <= D (6 for D = 1, 54 for D = 5, 414 for D = 15, 822 for D = 21)
RSphere(D)    == {v \in (-D..D) \X (-D..D) \X (-D..D) \X (1..D) : SIsUnit(v) /\ SPrimitive(v)}

SDot(u, v)     == u[1] * v[1] + u[2] * v[2] + u[3] * v[3]          \* numerator of the cosine
SDen(u, v)     == u[4] * v[4]                                      \* its denominator (> 0)
CosSep(u, v)   == RNorm(SDot(u, v), SDen(u, v))                    \* exact rational cosine
\* numerator of sin^2 of the separation over SDen^2 (Lagrange: |u x v|^2 = |u|^2|v|^2 - (u.v)^2)
SCrossSq(u, v) == SDen(u, v) * SDen(u, v) - SDot(u, v) * SDot(u, v)
SCross(u, v)   == <<u[2] * v[3] - u[3] * v[2], u[3] * v[1] - u[1] * v[3], u[1] * v[2] - u[2] * v[1]>>
SNeg(u)        == <<-u[1], -u[2], -u[3], u[4]>>
\* sep(u,v) < sep(u,w), sep(u,v) <= sep(u,w): cosine decreases with the angle
SCloser(u, v, w)   == RLt(CosSep(u, w), CosSep(u, v))
SCloserEq(u, v, w) == RLe(CosSep(u, w), CosSep(u, v))
\* sep(u,v) <= the angle whose cosine is the rational cr
SWithin(u, v, cr)  == RLe(cr, CosSep(u, v))

\* rigid motions that map the lattice to itself: the 48 signed coordinate permutations;
\* the ones used here: quarter turn about z (a common longitude shift of 90 degrees),
\* about x, and the reflection z -> -z
SRotZ(u)    == <<-u[2], u[1], u[3], u[4]>>
SRotX(u)    == <<u[1], -u[3], u[2], u[4]>>
SMirrorZ(u) == <<u[1], u[2], -u[3], u[4]>>

\* theorems (checked by TLC on RSphere(D) in SphereMC)
SThmSymmetric(u, v) == CosSep(u, v) = CosSep(v, u)
SThmRange(u, v)     == RLe(RInt(-1), CosSep(u, v)) /\ RLe(CosSep(u, v), RInt(1))
SThmOneIffSame(u, v) == (CosSep(u, v) = RInt(1)) <=> (u = v)
SThmMinusOneIffAntipode(u, v) == (CosSep(u, v) = RInt(-1)) <=> (u = SNeg(v))
SThmLagrange(u, v)  == LET x == SCross(u, v) IN x[1] * x[1] + x[2] * x[2] + x[3] * x[3] = SCrossSq(u, v)
SThmIsometry(u, v)  == /\ CosSep(SRotZ(u), SRotZ(v)) = CosSep(u, v)
                       /\ CosSep(SRotX(u), SRotX(v)) = CosSep(u, v)
                       /\ CosSep(SMirrorZ(u), SMirrorZ(v)) = CosSep(u, v)
                       /\ CosSep(SNeg(u), v) = RNeg(CosSep(u, v))

\* the six axis points are the intersection of the two lattices (Niven: the only
\* rational multiples of 180 degrees with rational sine and cosine are multiples of 90)
SAxisToGC(u) == IF u[3] # 0 THEN GPt(EZero, EDeg(90 * u[3]))
                ELSE IF u[1] # 0 THEN GPt(EDeg(IF u[1] > 0 THEN 0 ELSE 180), EZero)
                ELSE GPt(EDeg(IF u[2] > 0 THEN 90 ELSE 270), EZero)
SIsAxis(u)   == u[4] = 1
\* on the intersection the two notions of separation agree: cos 0 = 1, cos 90 = 0, cos 180 = -1
SThmLatticesAgree(u, v) ==
    (SIsAxis(u) /\ SIsAxis(v)) =>
        LET s == SepGC(SAxisToGC(u), SAxisToGC(v))  c == CosSep(u, v)
        IN \/ (s = EZero /\ c = RInt(1)) \/ (s = EDeg(90) /\ c = RInt(0)) \/ (s = EDeg(180) /\ c = RInt(-1))

\* ==================================================================================
\* 3. laws that make LARGE array calls and MANY-TURN longitudes decidable from the small lattice
\*    (added for C08; purely additional operators, prefix G)
\* ==================================================================================
\* 3a. SCALE.  The separation function of an array call is ELEMENTWISE: element k of the result
\* depends on element k of the (broadcast) arguments only.  So it commutes with concatenation, with
\* cyclic repetition of a small "tile" of pairs to any length, and with broadcasting one point
\* against an array.  A call with 2^21 pairs is decided by the lattice separations of its tile.
GSepSeq(ps, qs)    == [k \in 1..Len(ps) |-> SepGC(ps[k], qs[k])]
\* n elements of the endless repetition of s, starting rot places into s
GCycle(s, n, rot)  == [k \in 1..n |-> s[((k - 1 + rot) % Len(s)) + 1]]
GConst(p, n)       == [k \in 1..n |-> p]
GThmConcat(ps1, qs1, ps2, qs2) ==
    GSepSeq(ps1 \o ps2, qs1 \o qs2) = GSepSeq(ps1, qs1) \o GSepSeq(ps2, qs2)
GThmCycle(ps, qs, n, rot) ==
    GSepSeq(GCycle(ps, n, rot), GCycle(qs, n, rot)) = GCycle(GSepSeq(ps, qs), n, rot)
GThmBroadcast(p, qs, n, rot) ==
    GSepSeq(GConst(p, n), GCycle(qs, n, rot)) = GCycle([k \in 1..Len(qs) |-> SepGC(p, qs[k])], n, rot)
\* how many of the n elements (0-based index k) of such a repetition show tile position t
\* (0-based): the k with (k + rot) % T = t
GCycleCount(n, T, rot, t) == LET first == (t + T - (rot % T)) % T
                             IN IF first >= n THEN 0 ELSE ((n - 1 - first) \div T) + 1
GThmCycleCount(n, T, rot, t) ==
    GCycleCount(n, T, rot, t) = Cardinality({k \in 0..(n - 1) : (k + rot) % T = t})
\* the code path a pair selects (coincident / ordinary / the large-angle branch); 175 degrees is a
\* lattice value safely inside the branch (cos <= -0.995 <=> sep >= 174.27 degrees)
GSepClass(p, q) == LET s == SepGC(p, q)
                   IN IF s = EZero THEN "zero" ELSE IF ELe(EDeg(175), s) THEN "near180" ELSE "small"

\* 3b. MANY TURNS.  A longitude lon + 360*k (k up to 10^6) or its radian value is in general not a
\* double: the double handed to the code is DISPLACED from the lattice longitude by a known tiny
\* amount (up to 3e-8 degree).  The separation of the displaced pair is an exactly known function of
\* the displacements s1, s2 (any real numbers; the theorems are checked with eps-angles standing for
\* them) in these classes of pairs, and only these are judged at many turns:
\*   "exact"   : no displacement at all (degree input, integer-degree longitudes)
\*   "equator" : both points on the equator: the separation is the circular difference of the
\*               displaced longitudes
\*   "pole"    : one point is a pole: the longitudes do not matter
\*   "samelon" : both longitudes are the SAME number (same displacement): common rotation
GTurnClasses == {"none", "exact", "equator", "pole", "samelon"}
GTurnClassOK(cl, p, q) ==
    CASE cl = "none"    -> TRUE
      [] cl = "exact"   -> p.lon[2] = 0 /\ q.lon[2] = 0
      [] cl = "equator" -> GOnEquator(p) /\ GOnEquator(q)
      [] cl = "pole"    -> GIsPole(p) \/ GIsPole(q)
      [] cl = "samelon" -> p.lon = q.lon
      [] OTHER          -> FALSE
GShift2(p, q, s1, s2) == <<GShiftLon(p, s1), GShiftLon(q, s2)>>
GThmTurnEquator(p, q, s1, s2) ==
    (GOnEquator(p) /\ GOnEquator(q)) =>
        LET pq == GShift2(p, q, s1, s2)
        IN /\ GDefined(pq[1], pq[2])
           \* depends on the displaced longitude DIFFERENCE only
           /\ SepGC(pq[1], pq[2]) = ECircSep(EZero, EAdd(ESub(q.lon, p.lon), ESub(s2, s1)))
GThmTurnPole(p, q, s1, s2) ==
    (GIsPole(p) \/ GIsPole(q)) =>
        LET pq == GShift2(p, q, s1, s2)
        IN GDefined(pq[1], pq[2]) /\ SepGC(pq[1], pq[2]) = SepGC(p, q)
GThmTurnSameLon(p, q, s) ==
    (p.lon = q.lon /\ GDefined(p, q)) =>
        LET pq == GShift2(p, q, s, s)
        IN GDefined(pq[1], pq[2]) /\ SepGC(pq[1], pq[2]) = SepGC(p, q)
=============================================================================
