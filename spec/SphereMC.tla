------------------------------- MODULE SphereMC -------------------------------
(* Bounded model of the two lattices of Sphere.tla (property C08):                *)
(*  - PickGC1 / PickGC2 enumerate every unordered pair (incl. p = q) of the        *)
(*    great-circle lattice points that lie on a common lattice circle; the         *)
(*    invariant GCTheorems checks on each the theorems the property relies on      *)
(*    (range, symmetry, zero iff same point, 180 iff antipodal, independence of    *)
(*    the circle used, invariance under +-360 on either longitude and under a      *)
(*    common longitude shift, mirror and antipode maps, triangle inequality and    *)
(*    additivity along one circle against every third point);                      *)
(*  - PickRS1 / PickRS2 do the same on the rational sphere RSphere(MaxD)           *)
(*    (RSTheorems);                                                                *)
(*  - PickMask / RunBranch: an implementation-shaped model of the near-antipodal   *)
(*    branch of sphdist (mask selection on the stacked coordinate array), checked  *)
(*    against "the selected vectors are exactly the masked points" (BranchRefines);*)
(*  - SCALE: the laws of Sphere.tla section 3a (elementwise = commutes with          *)
(*    concatenation, cyclic repetition of a tile, broadcasting) are checked on      *)
(*    every row of the lattice at small lengths (ScaleLaw); a blocked evaluation     *)
(*    with a write-back of the large-angle correction (block size Bk, any n) is      *)
(*    checked to refine the elementwise definition (ScaleMechRefines); the design    *)
(*    of the exported scale cases (sizes at / across block boundaries x rotation of   *)
(*    the class-cyclic tile x call shape x function/units) is checked to put every   *)
(*    separation class on every index next to every block boundary (ScaleDesign);    *)
(*  - TURNS: the wrap theorem for every pair of turn counts up to 10^6 and the       *)
(*    theorems of section 3b on displaced longitudes; the exported rows of the       *)
(*    turn design (function/units x k1 x k2 x swap x negative zero) are checked to   *)
(*    cover every turn count with every function/units (TurnDesign);                 *)
(*  - the export run (NextExport, DoExport = TRUE, -workers 1) prints the point    *)
(*    lists and, per first point, the row of exact separations / dot products that *)
(*    the adapter replays into the real code, the tiles, scale cases and turn rows.*)
EXTENDS Sphere, Json, SequencesExt

CONSTANTS GCA,        \* integer degrees used as positions along each lattice circle
          BMax,       \* eps multiples -BMax..BMax at each position
          MerLons,    \* base longitudes (integer degrees) of the meridian circles
          PoleLons,   \* extra longitudes at which both poles are also given
          MaxD,       \* rational sphere: denominators <= MaxD
          NMaskMax,   \* branch model: array lengths 1..NMaskMax
          FixedAxis,  \* branch model: TRUE = mask applied to the point axis (repaired code)
          FixedIndex, \* blocked model: TRUE = correction written back at lo + w (FALSE: at w)
          TurnMags,   \* magnitudes of the multiples of 360 degrees added to a longitude
          ScaleNs,    \* lengths of the large array calls
          NScaleMax,  \* the scale laws are checked for lengths 0..NScaleMax
          TileMax,    \* a tile holds at most TileMax pairs of each separation class
          Thorough,   \* TRUE: full designs; FALSE: covering designs
          DoExport

VARIABLES kind, i, j
vars == <<kind, i, j>>

\* ---- the bounded lattices as sequences (deterministic order) ----------------------------
Positions == {<<a, b>> : a \in GCA, b \in (-BMax)..BMax}
GCSet == {GEquatorPoint(t) : t \in Positions}
         \cup UNION {{GMeridianPoint(L, t) : t \in Positions} : L \in MerLons}
         \cup {GPt(EDeg(l), EDeg(s * 90)) : l \in PoleLons, s \in {-1, 1}}
GKey(p) == (((p.lon[1] * 32) + (p.lon[2] + 16)) * 256 + (p.lat[1] + 90)) * 32 + (p.lat[2] + 16)
G  == SetToSortSeq(GCSet, LAMBDA p, q : GKey(p) < GKey(q))
NG == Len(G)

SKey(v) == ((v[4] * 64 + (v[1] + 32)) * 64 + (v[2] + 32)) * 64 + (v[3] + 32)
RS == RSphere(MaxD)
S  == SetToSortSeq(RS, LAMBDA u, v : SKey(u) < SKey(v))
NS == Len(S)

ASSUME /\ \A p \in GCSet : GValid(p)
       /\ \A p, q \in GCSet : GKey(p) = GKey(q) => p = q
       /\ BMax < 16 /\ MaxD < 32

Turns  == {0} \cup TurnMags \cup {-k : k \in TurnMags}
Wraps  == Turns
TurnNZ == SetToSortSeq(Turns \ {0}, LAMBDA a, b : a < b)
NTn    == Len(TurnNZ)
\* partner of the turn count k = TurnNZ[a]: pattern 0: (k, 0)  1: (0, k)  2: (k, k)  3: (k, -k)  4: (k, next)
TurnPair(a, pt) == LET k == TurnNZ[a] IN
    CASE pt = 0 -> <<k, 0>> [] pt = 1 -> <<0, k>> [] pt = 2 -> <<k, k>> [] pt = 3 -> <<k, -k>>
      [] OTHER -> <<k, TurnNZ[(a % NTn) + 1]>>
\* the pairs of turn counts for which the wrap theorem is checked on every lattice pair: all rows of the
\* (thorough) design and all small ones
WrapPairs == {TurnPair(a, pt) : a \in 1..NTn, pt \in 0..4} \cup ({-1, 0, 1} \X {-1, 0, 1})
\* displacements of a longitude off the lattice: the eps part stands for an arbitrary tiny real number
Disps  == {<<0, -2>>, <<0, 3>>, <<360000000, 0>>, <<360000000, 1>>}
Shifts == {<<95, 0>>, <<0, 1>>, <<-90, 0>>, <<180, -1>>, <<217, 3>>}

\* ---- behaviour -----------------------------------------------------------------------------
Init == kind = "start" /\ i = 0 /\ j = 0

PickGC1 == kind = "start" /\ kind' = "gc1" /\ i' \in 1..NG /\ j' = 0
PickGC2 == kind = "gc1" /\ kind' = "gc2" /\ i' = i
           /\ j' \in {k \in i..NG : GDefined(G[i], G[k])}
PickRS1 == kind = "start" /\ kind' = "rs1" /\ i' \in 1..NS /\ j' = 0
PickRS2 == kind = "rs1" /\ kind' = "rs2" /\ i' = i /\ j' \in i..NS

\* branch model: i = array length n, j = the mask as a bit set (1..2^n - 1, non-empty)
RECURSIVE Pow2(_)
Pow2(k) == IF k = 0 THEN 1 ELSE 2 * Pow2(k - 1)
MaskOf(m, n) == {k \in 1..n : (m \div Pow2(k - 1)) % 2 = 1}
PickMask  == kind = "start" /\ kind' = "mask" /\ i' \in 1..NMaskMax /\ j' \in 1..(Pow2(i') - 1)
RunBranch == kind = "mask" /\ kind' = "branch" /\ UNCHANGED <<i, j>>

Next == PickGC1 \/ PickGC2 \/ PickRS1 \/ PickRS2 \/ PickMask \/ RunBranch
NextExport == PickGC1 \/ PickRS1
Spec == Init /\ [][Next]_vars

\* ---- theorems on the great-circle lattice ----------------------------------------------------
GCTheorems == kind = "gc2" =>
    LET p == G[i]  q == G[j] IN
    /\ GThmRange(p, q) /\ GThmSymmetric(p, q) /\ GThmZeroIffSame(p, q) /\ GThm180IffAntipode(p, q)
    /\ GThmWellDefined(p, q) /\ GThmAntipode(p, q) /\ GThmMirror(p, q)
    /\ \A kk \in WrapPairs : GThmWrap(p, q, kk[1], kk[2])
    /\ \A s \in Shifts : GThmShift(p, q, s)
    /\ \A s1, s2 \in Disps : GThmTurnEquator(p, q, s1, s2) /\ GThmTurnPole(p, q, s1, s2)
    /\ \A s \in Disps : GThmTurnSameLon(p, q, s)
    /\ \A k \in 1..NG : (GDefined(p, G[k]) /\ GDefined(G[k], q)) =>
          /\ GThmTriangle(p, G[k], q) /\ GThmAdditive(p, G[k], q)

\* ---- theorems on the rational sphere ------------------------------------------------------------
RSTheorems == kind = "rs2" =>
    LET u == S[i]  v == S[j] IN
    /\ SIsUnit(u) /\ SIsUnit(v)
    /\ SThmSymmetric(u, v) /\ SThmRange(u, v) /\ SThmOneIffSame(u, v) /\ SThmMinusOneIffAntipode(u, v)
    /\ SThmLagrange(u, v) /\ SThmIsometry(u, v) /\ SThmLatticesAgree(u, v)
    /\ SRotZ(u) \in RS /\ SNeg(u) \in RS

\* ---- implementation-shaped model of the near-antipodal branch of sphdist ---------------------
\* The code stacks the coordinates into an array A of shape (3, n), A[c][k] = coordinate c of
\* point k (an entry is the symbolic token <<c, k>>), and selects with the n-element boolean
\* mask w.  numpy applies a boolean index to the FIRST axis and requires len(w) = shape[0].
\*   pinned code   : A[w]     -> IndexError unless n = 3; for n = 3 it selects coordinate rows;
\*                   then cross[0], cross[1], cross[2] index the rows of the (k,3) result
\*   repaired code : A.T[w]   -> rows of the (n,3) array = the masked points
BranchSelect(n, mask) ==
    IF FixedAxis THEN Ok([m \in 1..Cardinality(mask) |->
                            LET k == VSortSet(mask)[m] IN <<<<1, k>>, <<2, k>>, <<3, k>>>>])
    ELSE IF n # 3 THEN Err("IndexError")
    ELSE IF Cardinality(mask) # 3 THEN Err("IndexError")        \* cross[2] of a (k,3) array, k < 3
    ELSE Ok([m \in 1..3 |-> <<<<m, 1>>, <<m, 2>>, <<m, 3>>>>])    \* coordinate m of the three points
BranchWanted(n, mask) ==
    Ok([m \in 1..Cardinality(mask) |-> LET k == VSortSet(mask)[m] IN <<<<1, k>>, <<2, k>>, <<3, k>>>>])
BranchRefines == kind = "branch" => BranchSelect(i, MaskOf(j, i)) = BranchWanted(i, MaskOf(j, i))

\* ---- SCALE: tiles, laws at small scope, blocked mechanism, design of the large cases -----------
FullRow(a)  == SelectSeq([k \in 1..NG |-> k], LAMBDA b : GDefined(G[a], G[b]))
ClassRow(a, cl) == SelectSeq([k \in 1..NG |-> k], LAMBDA b : GDefined(G[a], G[b]) /\ GSepClass(G[a], G[b]) = cl)
HasAllClasses(a) == \A cl \in {"zero", "near180", "small"} : \E b \in 1..NG : GDefined(G[a], G[b]) /\ GSepClass(G[a], G[b]) = cl
\* the tile of first point a: second points in the endlessly repeated class order
\* near180, zero, small (tile position t, 0-based, has class t % 3); its length is a multiple of 3,
\* so the repetition keeps the order: element k of a big array has class (k + rot) % 3
TileClass(t) == CASE t % 3 = 0 -> "near180" [] t % 3 = 1 -> "zero" [] OTHER -> "small"
ScaleTile(a) ==
    LET A == ClassRow(a, "near180")  Z == ClassRow(a, "zero")  O == ClassRow(a, "small")
        T == 3 * VMin2(TileMax, VMax2(Len(A), VMax2(Len(Z), Len(O))))
    IN [t1 \in 1..T |-> LET t == t1 - 1  L == IF t % 3 = 0 THEN A ELSE IF t % 3 = 1 THEN Z ELSE O
                        IN L[((t \div 3) % Len(L)) + 1]]
\* three first points: a pole, an equator point off the integer degrees, a point off the equator on a
\* meridian circle (each must see all three classes: assumed below)
IdxOf(p) == CHOOSE a \in 1..NG : G[a] = p
ScaleFirst == << IdxOf(GPt(EDeg(VSetMin(PoleLons)), EDeg(90))),
                 IdxOf(GEquatorPoint(<<VSetMin(GCA), 1>>)),
                 IdxOf(GMeridianPoint(VSetMin(MerLons), <<VSetMin(GCA), 1>>)) >>
ASSUME /\ GIsPole(G[ScaleFirst[1]]) /\ GOnEquator(G[ScaleFirst[2]]) /\ G[ScaleFirst[2]].lon[2] # 0
       /\ ~GIsPole(G[ScaleFirst[3]]) /\ ~GOnEquator(G[ScaleFirst[3]])
ASSUME \A m \in {1, 2, 3} : HasAllClasses(ScaleFirst[m])
ASSUME \A m \in {1, 2, 3} : LET a == ScaleFirst[m]  tl == ScaleTile(a)
                            IN \A t1 \in 1..Len(tl) : GSepClass(G[a], G[tl[t1]]) = TileClass(t1 - 1)

\* the laws on every row, at small lengths (state gc1: i = first point)
ScaleLaw == kind = "gc1" =>
    LET row == FullRow(i)
        L   == VMin2(Len(row), 4)
        qs  == [k \in 1..L |-> G[row[k]]]
        ps  == [k \in 1..L |-> IF k % 2 = 1 THEN G[i] ELSE G[row[k]]]      \* a varying first argument
    IN /\ \A cut \in 0..L : GThmConcat(SubSeq(ps, 1, cut), SubSeq(qs, 1, cut), SubSeq(ps, cut + 1, L), SubSeq(qs, cut + 1, L))
       /\ \A n \in 0..NScaleMax, rot \in 0..L : GThmCycle(ps, qs, n, rot) /\ GThmBroadcast(G[i], qs, n, rot)
ASSUME \A n \in 0..(2 * NScaleMax), T \in 1..4, rot \in 0..5 : \A t \in 0..(T - 1) : GThmCycleCount(n, T, rot, t)

\* implementation-shaped model of an evaluation in blocks of Bk pairs: the chord value of every pair of
\* the block is stored at lo+1..hi, then the pairs of the block selected by the mask get the
\* cross-product value.  r is the block-relative index of a selected pair (position lo + r); the token
\* <<formula, k>> is "formula evaluated on pair k".  The elementwise definition wants
\* <<"cross", k>> on the mask and <<"chord", k>> elsewhere, whatever the block size.
RECURSIVE BlockGo(_, _, _, _, _)
BlockGo(n, mask, Bk, lo, dis) ==
    IF lo >= n THEN dis
    ELSE LET hi == VMin2(lo + Bk, n)
             d1 == [k \in 1..n |-> IF k > lo /\ k <= hi THEN <<"chord", k>> ELSE dis[k]]
             d2 == [k \in 1..n |->
                      IF FixedIndex THEN (IF k > lo /\ k <= hi /\ k \in mask THEN <<"cross", k>> ELSE d1[k])
                      ELSE (IF k <= hi - lo /\ (lo + k) \in mask THEN <<"cross", lo + k>> ELSE d1[k])]
         IN BlockGo(n, mask, Bk, hi, d2)
BlockEval(n, mask, Bk) == BlockGo(n, mask, Bk, 0, [k \in 1..n |-> <<"empty", k>>])
BlockWanted(n, mask)   == [k \in 1..n |-> <<IF k \in mask THEN "cross" ELSE "chord", k>>]
ScaleMechRefines == kind = "branch" =>
    \A Bk \in 1..(i + 1) : BlockEval(i, MaskOf(j, i), Bk) = BlockWanted(i, MaskOf(j, i))

FnUnits == << [fn |-> "sphdist", uin |-> "deg", uout |-> "deg"], [fn |-> "sphdist", uin |-> "deg", uout |-> "rad"],
              [fn |-> "sphdist", uin |-> "rad", uout |-> "deg"], [fn |-> "sphdist", uin |-> "rad", uout |-> "rad"],
              [fn |-> "gcirc", uin |-> "deg", uout |-> "rad"] >>
NFU == Len(FnUnits)

\* the large cases: length n x rotation of the tile x call shape (1 = four arrays over the three tiles,
\* 2 = one point against arrays) x function/units (covering design unless Thorough) x eps x swap
ScaleSeq == SetToSortSeq(ScaleNs, LAMBDA a, b : a < b)
NSz      == Len(ScaleSeq)
ScaleCase(s, rot, sh, f) ==
    [n |-> ScaleSeq[s], rot |-> rot, shape |-> sh, f |-> f,
     fn |-> FnUnits[f].fn, uin |-> FnUnits[f].uin, uout |-> FnUnits[f].uout,
     e |-> (s + 2 * rot + sh) % 5, swap |-> (s + rot) % 2,
     firsts |-> IF sh = 2 THEN <<ScaleFirst[((s + rot) % 3) + 1]>>
                ELSE [k \in 1..3 |-> ScaleFirst[((s + rot + k) % 3) + 1]]]
ScaleCases ==
    LET all == {<<s, rot, sh, f>> \in (1..NSz) \X (0..2) \X (1..2) \X (1..NFU) :
                    Thorough \/ f = ((2 * s + rot + sh) % NFU) + 1}
        sq  == SetToSortSeq(all, LAMBDA x, y : ((x[1] * 3 + x[2]) * 3 + x[3]) * 8 + x[4] < ((y[1] * 3 + y[2]) * 3 + y[3]) * 8 + y[4])
    IN [m \in 1..Len(sq) |-> ScaleCase(sq[m][1], sq[m][2], sq[m][3], sq[m][4])]
BlockSizes == {1024, 65536, 262144, 1048576, 2097152}
\* the design puts every separation class (k + rot) % 3 on the last index of a block, on the first
\* index of the next and on the one after, for every block size, in both call shapes, and runs every
\* function/units in both shapes beyond the largest block
ScaleDesign ==
    LET cs == ScaleCases IN
    /\ \A B \in BlockSizes : (\E n \in ScaleNs : n > B + 1) =>
          \A d \in {-1, 0, 1}, c \in 0..2, sh \in 1..2 :
              \E m \in 1..Len(cs) : cs[m].shape = sh /\ cs[m].n > B + d /\ (B + d + cs[m].rot) % 3 = c
    /\ \A f \in 1..NFU, sh \in 1..2 : \E m \in 1..Len(cs) : cs[m].f = f /\ cs[m].shape = sh /\ cs[m].n > 1048576
    /\ \A n \in ScaleNs, rot \in 0..2, sh \in 1..2 : \E m \in 1..Len(cs) : cs[m].n = n /\ cs[m].rot = rot /\ cs[m].shape = sh
ASSUME ScaleDesign

\* ---- TURNS: rows of the many-turn design --------------------------------------------------------
TurnRow(a, f, pt) ==
    [f |-> f, fn |-> FnUnits[f].fn, uin |-> FnUnits[f].uin, uout |-> FnUnits[f].uout, pt |-> pt,
     k1 |-> TurnPair(a, pt)[1], k2 |-> TurnPair(a, pt)[2], swap |-> (a + pt) % 2, nz |-> ((a + f) \div 2) % 2]
TurnRows ==
    LET all == {<<a, f, pt>> \in (1..NTn) \X (1..NFU) \X (0..4) : Thorough \/ pt = (a + f) % 5}
        sq  == SetToSortSeq(all, LAMBDA x, y : (x[1] * 8 + x[2]) * 8 + x[3] < (y[1] * 8 + y[2]) * 8 + y[3])
    IN [m \in 1..Len(sq) |-> TurnRow(sq[m][1], sq[m][2], sq[m][3])]
TurnDesign ==
    LET rs == TurnRows IN
    /\ \A m \in 1..Len(rs) : rs[m].k1 \in Turns /\ rs[m].k2 \in Turns
    /\ \A a \in 1..NTn, f \in 1..NFU : \E m \in 1..Len(rs) : rs[m].f = f /\ TurnNZ[a] \in {rs[m].k1, rs[m].k2}
    /\ NTn >= 5 => \A f \in 1..NFU, pt \in 0..4 : \E m \in 1..Len(rs) : rs[m].f = f /\ rs[m].pt = pt
    /\ NTn >= 5 => \A f \in 1..NFU, b \in {0, 1} : /\ \E m \in 1..Len(rs) : rs[m].f = f /\ rs[m].nz = b
                                                   /\ \E m \in 1..Len(rs) : rs[m].f = f /\ rs[m].swap = b
ASSUME TurnDesign

\* ---- export ----------------------------------------------------------------------------------------
\* (every exported value is a JSON object: TLC's pretty printer wraps long strings that contain no
\* escaped quote over several lines, which the harness could not parse)
GCRow(a) == LET js == SelectSeq([k \in 1..(NG - a + 1) |-> a + k - 1], LAMBDA b : GDefined(G[a], G[b]))
            IN [i |-> a, js |-> js, seps |-> [k \in 1..Len(js) |-> SepGC(G[a], G[js[k]])]]
TileRec(a) == LET tl == ScaleTile(a)
              IN [i |-> a, js |-> tl, seps |-> [t \in 1..Len(tl) |-> SepGC(G[a], G[tl[t]])]]
RSRow(a) == [i |-> a, dots |-> [k \in 1..(NS - a + 1) |-> SDot(S[a], S[a + k - 1])]]

Export == DoExport =>
    /\ kind = "start" => /\ PrintT(<<"GCPTS", ToJson([pts |-> G])>>) /\ PrintT(<<"RSPTS", ToJson([pts |-> S])>>)
                         /\ \A m \in 1..3 : PrintT(<<"TILE", ToJson(TileRec(ScaleFirst[m]))>>)
                         /\ PrintT(<<"SCALE", ToJson([cases |-> ScaleCases])>>)
                         /\ PrintT(<<"TURNROWS", ToJson([rows |-> TurnRows])>>)
    /\ kind = "gc1" => PrintT(<<"GCROW", ToJson(GCRow(i))>>)
    /\ kind = "rs1" => PrintT(<<"RSROW", ToJson(RSRow(i))>>)
=============================================================================
