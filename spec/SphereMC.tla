------------------------------- MODULE SphereMC -------------------------------
(* Bounded model of the two lattices of Sphere.tla (property C08):                *)
(*  - PickGC1 / PickGC2 enumerate every unordered pair (incl. p = q) of the        *)
(*    great-circle lattice points that lie on a common lattice circle; the         *)
(*    invariant GCTheorems checks on each the theorems the property relies on      *)
(*    (range, symmetry, zero iff same point, 180 iff antipodal, independence of    *)
(*    the circle used, invariance under +-360 on either longitude and under a      *)
(*    common longitude shift, mirror and antipode maps, triangle inequality and    *)
(*    additivity along one circle against every third point);                      *)
(*  - PickRS1 / PickRS2 do the same on the rational sphere RSphere(MaxD)           *)
(*    (RSTheorems);                                                                *)
(*  - PickMask / RunBranch: an implementation-shaped model of the near-antipodal   *)
(*    branch of sphdist (mask selection on the stacked coordinate array), checked  *)
(*    against "the selected vectors are exactly the masked points" (BranchRefines);*)
(*  - the export run (NextExport, DoExport = TRUE, -workers 1) prints the point    *)
(*    lists and, per first point, the row of exact separations / dot products that *)
(*    the adapter replays into the real code.                                      *)
EXTENDS Sphere, Json, SequencesExt

CONSTANTS GCA,        \* integer degrees used as positions along each lattice circle
          BMax,       \* eps multiples -BMax..BMax at each position
          MerLons,    \* base longitudes (integer degrees) of the meridian circles
          PoleLons,   \* extra longitudes at which both poles are also given
          MaxD,       \* rational sphere: denominators <= MaxD
          NMaskMax,   \* branch model: array lengths 1..NMaskMax
          FixedAxis,  \* branch model: TRUE = mask applied to the point axis (repaired code)
          DoExport

VARIABLES kind, i, j
vars == <<kind, i, j>>

\* ---- the bounded lattices as sequences (deterministic order) ----------------------------
Positions == {<<a, b>> : a \in GCA, b \in (-BMax)..BMax}
GCSet == {GEquatorPoint(t) : t \in Positions}
         \cup UNION {{GMeridianPoint(L, t) : t \in Positions} : L \in MerLons}
         \cup {GPt(EDeg(l), EDeg(s * 90)) : l \in PoleLons, s \in {-1, 1}}
GKey(p) == (((p.lon[1] * 32) + (p.lon[2] + 16)) * 256 + (p.lat[1] + 90)) * 32 + (p.lat[2] + 16)
G  == SetToSortSeq(GCSet, LAMBDA p, q : GKey(p) < GKey(q))
NG == Len(G)

SKey(v) == ((v[4] * 64 + (v[1] + 32)) * 64 + (v[2] + 32)) * 64 + (v[3] + 32)
RS == RSphere(MaxD)
S  == SetToSortSeq(RS, LAMBDA u, v : SKey(u) < SKey(v))
NS == Len(S)

ASSUME /\ \A p \in GCSet : GValid(p)
       /\ \A p, q \in GCSet : GKey(p) = GKey(q) => p = q
       /\ BMax < 16 /\ MaxD < 32

Wraps  == {-1, 0, 1}
Shifts == {<<95, 0>>, <<0, 1>>, <<-90, 0>>, <<180, -1>>, <<217, 3>>}

\* ---- behaviour -----------------------------------------------------------------------------
Init == kind = "start" /\ i = 0 /\ j = 0

PickGC1 == kind = "start" /\ kind' = "gc1" /\ i' \in 1..NG /\ j' = 0
PickGC2 == kind = "gc1" /\ kind' = "gc2" /\ i' = i
           /\ j' \in {k \in i..NG : GDefined(G[i], G[k])}
PickRS1 == kind = "start" /\ kind' = "rs1" /\ i' \in 1..NS /\ j' = 0
PickRS2 == kind = "rs1" /\ kind' = "rs2" /\ i' = i /\ j' \in i..NS

\* branch model: i = array length n, j = the mask as a bit set (1..2^n - 1, non-empty)
RECURSIVE Pow2(_)
Pow2(k) == IF k = 0 THEN 1 ELSE 2 * Pow2(k - 1)
MaskOf(m, n) == {k \in 1..n : (m \div Pow2(k - 1)) % 2 = 1}
PickMask  == kind = "start" /\ kind' = "mask" /\ i' \in 1..NMaskMax /\ j' \in 1..(Pow2(i') - 1)
RunBranch == kind = "mask" /\ kind' = "branch" /\ UNCHANGED <<i, j>>

Next == PickGC1 \/ PickGC2 \/ PickRS1 \/ PickRS2 \/ PickMask \/ RunBranch
NextExport == PickGC1 \/ PickRS1
Spec == Init /\ [][Next]_vars

\* ---- theorems on the great-circle lattice ----------------------------------------------------
GCTheorems == kind = "gc2" =>
    LET p == G[i]  q == G[j] IN
    /\ GThmRange(p, q) /\ GThmSymmetric(p, q) /\ GThmZeroIffSame(p, q) /\ GThm180IffAntipode(p, q)
    /\ GThmWellDefined(p, q) /\ GThmAntipode(p, q) /\ GThmMirror(p, q)
    /\ \A k1, k2 \in Wraps : GThmWrap(p, q, k1, k2)
    /\ \A s \in Shifts : GThmShift(p, q, s)
    /\ \A k \in 1..NG : (GDefined(p, G[k]) /\ GDefined(G[k], q)) =>
          /\ GThmTriangle(p, G[k], q) /\ GThmAdditive(p, G[k], q)

\* ---- theorems on the rational sphere ------------------------------------------------------------
RSTheorems == kind = "rs2" =>
    LET u == S[i]  v == S[j] IN
    /\ SIsUnit(u) /\ SIsUnit(v)
    /\ SThmSymmetric(u, v) /\ SThmRange(u, v) /\ SThmOneIffSame(u, v) /\ SThmMinusOneIffAntipode(u, v)
    /\ SThmLagrange(u, v) /\ SThmIsometry(u, v) /\ SThmLatticesAgree(u, v)
    /\ SRotZ(u) \in RS /\ SNeg(u) \in RS

\* ---- implementation-shaped model of the near-antipodal branch of sphdist ---------------------
\* The code stacks the coordinates into an array A of shape (3, n), A[c][k] = coordinate c of
\* point k (an entry is the symbolic token <<c, k>>), and selects with the n-element boolean
\* mask w.  numpy applies a boolean index to the FIRST axis and requires len(w) = shape[0].
\*   pinned code   : A[w]     -> IndexError unless n = 3; for n = 3 it selects coordinate rows;
\*                   then cross[0], cross[1], cross[2] index the rows of the (k,3) result
\*   repaired code : A.T[w]   -> rows of the (n,3) array = the masked points
BranchSelect(n, mask) ==
    IF FixedAxis THEN Ok([m \in 1..Cardinality(mask) |->
                            LET k == VSortSet(mask)[m] IN <<<<1, k>>, <<2, k>>, <<3, k>>>>])
    ELSE IF n # 3 THEN Err("IndexError")
    ELSE IF Cardinality(mask) # 3 THEN Err("IndexError")        \* cross[2] of a (k,3) array, k < 3
    ELSE Ok([m \in 1..3 |-> <<<<m, 1>>, <<m, 2>>, <<m, 3>>>>])    \* coordinate m of the three points
BranchWanted(n, mask) ==
    Ok([m \in 1..Cardinality(mask) |-> LET k == VSortSet(mask)[m] IN <<<<1, k>>, <<2, k>>, <<3, k>>>>])
BranchRefines == kind = "branch" => BranchSelect(i, MaskOf(j, i)) = BranchWanted(i, MaskOf(j, i))

\* ---- export ----------------------------------------------------------------------------------------
\* (every exported value is a JSON object: TLC's pretty printer wraps long strings that contain no
\* escaped quote over several lines, which the harness could not parse)
GCRow(a) == LET js == SelectSeq([k \in 1..(NG - a + 1) |-> a + k - 1], LAMBDA b : GDefined(G[a], G[b]))
            IN [i |-> a, js |-> js, seps |-> [k \in 1..Len(js) |-> SepGC(G[a], G[js[k]])]]
RSRow(a) == [i |-> a, dots |-> [k \in 1..(NS - a + 1) |-> SDot(S[a], S[a + k - 1])]]

Export == DoExport =>
    /\ kind = "start" => PrintT(<<"GCPTS", ToJson([pts |-> G])>>) /\ PrintT(<<"RSPTS", ToJson([pts |-> S])>>)
    /\ kind = "gc1" => PrintT(<<"GCROW", ToJson(GCRow(i))>>)
    /\ kind = "rs1" => PrintT(<<"RSROW", ToJson(RSRow(i))>>)
=============================================================================
