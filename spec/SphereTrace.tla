------------------------------- MODULE SphereTrace -------------------------------
(* Trace validation for the separation functions (property C08): every recorded    *)
(* evaluation of the real code (esutil.coords.sphdist / gcirc) is judged against   *)
(* the exact lattice geometry of Sphere.tla.  One ndjson line per lattice pair:    *)
(*   {"id": n, "c": <case>, "obs": [<outcome>, ...]}                               *)
(* case    [kind |-> "gc", p |-> [lon |-> <<a,b>>, lat |-> <<a,b>>], q |-> ...]    *)
(*         [kind |-> "rs", u |-> <<a,b,c,d>>, v |-> <<a,b,c,d>>]                   *)
(* outcome one class of evaluations of that pair that returned the same thing:     *)
(*   k      : index of the class within the record (echoed in the reject line)      *)
(*   fn     : "sphdist" | "gcirc"      (informational; tolerances are applied by    *)
(*            the adapter's projection, DESIGN 4.1/4.2)                             *)
(*   samewrap : the same multiple of 360 degrees was added to both longitudes       *)
(*   err    : "none" or the exception class                                         *)
(*   fin, rng, zero : result finite / within [0,180] degrees / exactly 0.0          *)
(*   on     : the result lies within the property's tolerance of a lattice value    *)
(*   a, blo, bhi (kind gc): the lattice values a + b*eps, blo <= b <= bhi, that     *)
(*            are within tolerance of the returned number (eps as instantiated)     *)
(*   dn, dd (kind rs): the rational cosine dn/dd the returned angle is within       *)
(*            tolerance of (the adapter tests the exported expectation)             *)
(*   tc, uin, sh (many-turn evaluations, Sphere.tla 3b): tc = the class of pairs     *)
(*            under which the evaluation is decidable although the doubles handed    *)
(*            to the code are displaced from the lattice longitudes ("none" for the  *)
(*            ordinary evaluations), uin = the input unit, sh = the adapter has      *)
(*            subtracted the exactly known effect of the displacement from the       *)
(*            returned number before projecting it.  The module checks that the      *)
(*            claimed class really holds for the case (bad_turn_class = machinery).  *)
(* case    [kind |-> "gcs", p, q, n, T, rot, t]: tile position t (0-based) of a large *)
(*         array call of n pairs that repeats a tile of T pairs from offset rot       *)
(*         (Sphere.tla 3a: element k shows tile position (k + rot) % T, law GThmCycle);*)
(*         every outcome carries cnt = the number of elements of the large result at  *)
(*         that tile position which returned it (0 for the call on the tile alone);    *)
(*         clause scale_complete: the counts add up to GCycleCount(n, T, rot, t).      *)
(* A class collects calls f(p,q) and f(q,p) with any multiples of 360 degrees added *)
(* to the longitudes: by GThmSymmetric and GThmWrap - checked by TLC in SphereMC on *)
(* exactly the exported pairs - the exact separation is the same for all of them,   *)
(* so the expected value is computed once from the case.                            *)
(* The specification decides: it recomputes SepGC / CosSep from the case and        *)
(* accepts only the exact value.                                                    *)
EXTENDS Sphere, Json, IOUtils

VARIABLES blk, tid
Traces == ndJsonDeserialize(IOEnv.TRACE_FILE)
NT == Len(Traces)
BlockSize == 256
NBlocks == (NT + BlockSize - 1) \div BlockSize

Init == blk = 0 /\ tid = 0
PickBlock == blk = 0 /\ tid = 0 /\ \E b \in 1..NBlocks : blk' = b /\ tid' = 0
PickTrace == blk > 0 /\ tid = 0
             /\ \E t \in ((blk - 1) * BlockSize + 1)..VMin2(blk * BlockSize, NT) : tid' = t /\ blk' = blk
Next == PickBlock \/ PickTrace

\* "identical inputs": the same coordinates were passed for both points
IsGC(c) == c.kind \in {"gc", "gcs"}
Identical(c, o) == o.samewrap /\ (IF IsGC(c) THEN GIdentical(c.p, c.q) ELSE c.u = c.v)

\* the claimed many-turn class holds for the case
TurnOK(c, o) == IF IsGC(c)
                THEN /\ o.tc \in GTurnClasses /\ GTurnClassOK(o.tc, c.p, c.q)
                     /\ (o.tc = "exact" => o.uin = "deg") /\ (o.tc = "samelon" => o.samewrap)
                     /\ (o.sh => o.tc = "equator")
                ELSE o.tc = "none" /\ ~o.sh

Accurate(c, o) ==
    /\ o.on
    /\ IF IsGC(c)
       THEN LET s == SepGC(c.p, c.q)
            IN s[1] = o.a /\ o.blo <= s[2] /\ s[2] <= o.bhi
       ELSE o.dd > 0 /\ REq(<<o.dn, o.dd>>, CosSep(c.u, c.v))

FailingObs(c, o) ==
    IF ~TurnOK(c, o) THEN {"bad_turn_class"}
    ELSE IF o.err # "none" THEN {"no_error"}
    ELSE (IF o.fin THEN {} ELSE {"finite"}) \cup
         (IF o.rng THEN {} ELSE {"range"}) \cup
         (IF Identical(c, o) /\ ~o.zero THEN {"zero_identical"} ELSE {}) \cup
         (IF ~o.fin \/ Accurate(c, o) THEN {} ELSE {"accuracy"})

WellFormed(c) == IF IsGC(c) THEN /\ GValid(c.p) /\ GValid(c.q) /\ GDefined(c.p, c.q)
                                    /\ (c.kind = "gcs" => c.T > 0 /\ c.t >= 0 /\ c.t < c.T /\ c.n >= 0 /\ c.rot >= 0)
                 ELSE SIsUnit(c.u) /\ SIsUnit(c.v)

\* a large call returned exactly one value for every element that shows this tile position
ScaleComplete(r) == r.c.kind = "gcs" =>
    VSum([n \in DOMAIN r.obs |-> r.obs[n].cnt]) = GCycleCount(r.c.n, r.c.T, r.c.rot, r.c.t)

FailingRec(r) ==
    IF ~WellFormed(r.c) THEN {<<"malformed_case", 0>>}
    ELSE UNION {{<<cl, r.obs[n].k>> : cl \in FailingObs(r.c, r.obs[n])} : n \in DOMAIN r.obs}
         \cup (IF ScaleComplete(r) THEN {} ELSE {<<"scale_complete", 0>>})

Check == tid > 0 =>
    LET r == Traces[tid]  f == FailingRec(r)
    IN f = {} \/ PrintT(<<"REJECT", ToJson([id |-> r.id, failing |-> f])>>)
=============================================================================
