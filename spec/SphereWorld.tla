------------------------------- MODULE SphereWorld -------------------------------
(* WORLD MACHINE for the sphere entry points (property C08, class W).               *)
(*                                                                                  *)
(* The property says: the outcome of a call of eq2xyz / xyz2eq / sphdist / gcirc     *)
(* depends on its ARGUMENTS only - never on what was done earlier in the process by  *)
(* this or another entry point, nor on what the caller did to RESULTS it was handed  *)
(* (results are the caller's) or to its own argument buffers after the call.         *)
(*                                                                                  *)
(* A session is a sequence of steps in one process:                                  *)
(*   Call(c)         c = [e, a, nu, u, f]: entry point e on the points a (one for    *)
(*                   eq2xyz / xyz2eq, two for sphdist / gcirc) whose NUMBERS were    *)
(*                   made for the unit nu, passed with the declared unit u, in form  *)
(*                   f (python scalars, numpy scalars, 1-element arrays);            *)
(*   Scribble(h)     the caller overwrites, in place, what call step h returned;     *)
(*   ScribbleArgs(h) the caller overwrites the argument buffers it passed in step h. *)
(* The process state is a heap of cells (arrays) and a module-level memo of the      *)
(* conversion kernels that the entry points share ("fwd": eq2xyz and sphdist, "inv": *)
(* xyz2eq, "trig": gcirc).  Mechanisms:                                              *)
(*   none          no memo                                          (faithful)       *)
(*   copy          memo with the exact key, copies in and out       (faithful)       *)
(*   alias         memo with the exact key, hands out its own cell  (deviates)       *)
(*   coarse_digits memo whose key merges the twin points 1 and 2    (deviates)       *)
(*   coarse_units  memo whose key ignores the declared unit         (deviates)       *)
(* Invariant WorldInv: every call returned what it returns in a fresh world, and a   *)
(* result the caller has not overwritten itself stays what was returned.  TLC        *)
(* checks it on all sessions up to MaxLen steps for the faithful mechanisms and must *)
(* find it violated by each deviating one (self-test).  The module also defines and  *)
(* exports the conformance sessions (DESIGNED to collide: same point / twin point /  *)
(* same numbers with the other unit, across every ordered pair of entry points and   *)
(* every pair of forms) and checks that each is a behaviour of the machine           *)
(* (SessionsWellFormed) and that the design covers (SessionDesign).                  *)
EXTENDS Sphere, Json, SequencesExt

CONSTANTS Mechs,      \* mechanisms explored in this run
          MaxLen,     \* session length explored exhaustively
          MCForms,    \* forms explored by the exhaustive run
          MemoForms,  \* forms the memoising mechanisms remember
          Thorough, DoExport

VARIABLES mech, cells, memo, hist
vars == <<mech, cells, memo, hist>>

Pts     == 1..3                      \* 1 and 2 are twins (agree to 6-9 significant digits)
Units   == {"deg", "rad"}
Forms   == <<"scalar", "npscalar", "arr1">>
Entries == <<"eq2xyz", "xyz2eq", "sphdist", "gcirc">>
OneIn   == {"eq2xyz", "xyz2eq"}
Other(u) == IF u = "deg" THEN "rad" ELSE "deg"
KernelOf(e) == CASE e = "eq2xyz" -> "fwd" [] e = "sphdist" -> "fwd" [] e = "xyz2eq" -> "inv" [] OTHER -> "trig"

AllPairs == Pts \X Pts
MCPairs  == {<<1, 3>>, <<3, 1>>, <<2, 3>>, <<1, 2>>, <<1, 1>>}
CallsOver(fs, nus, prs) ==
    {[e |-> e, a |-> <<p>>, nu |-> nu, u |-> u, f |-> f] : e \in OneIn, p \in Pts, nu \in nus, u \in Units, f \in fs}
    \cup {[e |-> "sphdist", a |-> pq, nu |-> nu, u |-> u, f |-> f] : pq \in prs, nu \in nus, u \in Units, f \in fs}
    \cup {[e |-> "gcirc", a |-> pq, nu |-> "deg", u |-> "deg", f |-> f] : pq \in prs, f \in fs}

\* the kernel evaluations a call needs, and their values in a fresh world
KArg(c, n)  == [k |-> KernelOf(c.e), p |-> c.a[n], nu |-> c.nu, u |-> c.u, f |-> c.f]
Clean(ka)   == <<"clean", ka.k, ka.p, ka.nu, ka.u>>               \* does not depend on the form
FreshOut(c) == IF c.e \in OneIn THEN Clean(KArg(c, 1)) ELSE <<"sep", c.e, c.a, c.nu, c.u>>

Key(m, ka) == CASE m = "coarse_digits" -> <<ka.k, IF ka.p = 2 THEN 1 ELSE ka.p, ka.nu, ka.u>>
                [] m = "coarse_units"  -> <<ka.k, ka.p, ka.nu>>
                [] OTHER               -> <<ka.k, ka.p, ka.nu, ka.u>>
Memoised(m, ka) == m # "none" /\ ka.f \in MemoForms

\* one kernel evaluation in the world (cs heap, mm memo): the new world and the cell that holds the value
KEval(m, cs, mm, ka) ==
    LET key == Key(m, ka) IN
    IF Memoised(m, ka) /\ key \in DOMAIN mm
    THEN IF m = "alias" THEN [cells |-> cs, memo |-> mm, id |-> mm[key]]
         ELSE [cells |-> Append(cs, cs[mm[key]]), memo |-> mm, id |-> Len(cs) + 1]           \* copy out
    ELSE LET id == Len(cs) + 1  cs1 == Append(cs, Clean(ka)) IN
         IF ~Memoised(m, ka) THEN [cells |-> cs1, memo |-> mm, id |-> id]
         ELSE IF m = "alias" THEN [cells |-> cs1, memo |-> (key :> id) @@ mm, id |-> id]      \* remembers the cell it hands out
         ELSE [cells |-> Append(cs1, Clean(ka)), memo |-> (key :> (id + 1)) @@ mm, id |-> id] \* remembers a private copy

\* a call: the one-point entry points hand the kernel's cell to the caller; the two-point ones compute a
\* new cell from two kernel cells (garbage unless both hold the clean values)
CallIn(m, cs, mm, c) ==
    LET r1 == KEval(m, cs, mm, KArg(c, 1)) IN
    IF c.e \in OneIn THEN [cells |-> r1.cells, memo |-> r1.memo, out |-> r1.id, ret |-> r1.cells[r1.id]]
    ELSE LET r2   == KEval(m, r1.cells, r1.memo, KArg(c, 2))
             good == r2.cells[r1.id] = Clean(KArg(c, 1)) /\ r2.cells[r2.id] = Clean(KArg(c, 2))
             v    == IF good THEN FreshOut(c) ELSE <<"garbage">>
         IN [cells |-> Append(r2.cells, v), memo |-> r2.memo, out |-> Len(r2.cells) + 1, ret |-> v]

Init == mech \in Mechs /\ cells = <<>> /\ memo = <<>> /\ hist = <<>>

Call(c) == LET r == CallIn(mech, cells, memo, c) IN
           /\ cells' = r.cells /\ memo' = r.memo
           /\ hist' = Append(hist, [op |-> "call", c |-> c, out |-> r.out, ret |-> r.ret])
           /\ UNCHANGED mech
\* results are the caller's: only the cell it was handed changes
Scribble(h) == /\ hist[h].op = "call"
               /\ cells' = [cells EXCEPT ![hist[h].out] = <<"scribbled">>]
               /\ hist' = Append(hist, [op |-> "scribble", h |-> h])
               /\ UNCHANGED <<mech, memo>>
\* the caller's argument buffers are not part of the world once the call has returned
ScribbleArgs(h) == /\ hist[h].op = "call"
                   /\ hist' = Append(hist, [op |-> "scribble_args", h |-> h])
                   /\ UNCHANGED <<mech, cells, memo>>

More == Len(hist) < MaxLen
DoCall         == More /\ \E c \in CallsOver(MCForms, {"deg"}, MCPairs) : Call(c)
DoScribble     == More /\ \E h \in 1..Len(hist) : Scribble(h)
DoScribbleArgs == More /\ \E h \in 1..Len(hist) : ScribbleArgs(h)
Next == DoCall \/ DoScribble \/ DoScribbleArgs
Spec == Init /\ [][Next]_vars

\* every call returned what it returns in a fresh world
WorldIndependent == \A n \in 1..Len(hist) : hist[n].op = "call" => hist[n].ret = FreshOut(hist[n].c)
\* a result the caller holds and has not itself overwritten still holds what was returned
ScribbledSteps == {hist[n].h : n \in {k \in 1..Len(hist) : hist[k].op = "scribble"}}
ResultsStay == \A n \in 1..Len(hist) : (hist[n].op = "call" /\ n \notin ScribbledSteps) => cells[hist[n].out] = hist[n].ret
WorldInv == WorldIndependent /\ ResultsStay
Faithful == {"none", "copy"}
FaithfulOK     == mech \in Faithful => WorldInv
AliasOK        == mech = "alias" => WorldInv
CoarseDigitsOK == mech = "coarse_digits" => WorldInv
CoarseUnitsOK  == mech = "coarse_units" => WorldInv

\* ---- the conformance sessions ---------------------------------------------------------------------
\* writer call c1 and reader call c2 related by rel: "same" point and unit, "twin" point, "units" = the
\* same numbers declared with the other unit.  Templates:
\*   1  c1, Scribble(1), c2              2  c1, ScribbleArgs(1), c2          3  c1, c2
\*   4  c2, c1, Scribble(2), c2          (the reader fills the process state first)
Rels == <<"same", "twin", "units">>
ArgsOf(e, p, sw) == IF e \in OneIn THEN <<p>> ELSE IF sw = 1 THEN <<3, p>> ELSE <<p, 3>>
MkCall(e, p, sw, nu, u, f) == [e |-> e, a |-> ArgsOf(e, p, sw), nu |-> IF e = "gcirc" THEN "deg" ELSE nu,
                               u |-> IF e = "gcirc" THEN "deg" ELSE u, f |-> f]
Session(i1, i2, f1, f2, r, t) ==
    LET nu == IF (i1 + i2 + f1) % 2 = 0 THEN "deg" ELSE "rad"
        sw == (i1 + f2 + t) % 2
        c1 == MkCall(Entries[i1], 1, 0, nu, nu, Forms[f1])
        c2 == MkCall(Entries[i2], IF Rels[r] = "twin" THEN 2 ELSE 1, sw, nu, IF Rels[r] = "units" THEN Other(nu) ELSE nu, Forms[f2])
        how == (i1 + i2 + f1 + f2 + r) % 3
        S(h) == [op |-> "scribble", h |-> h, how |-> how]
        steps == CASE t = 1 -> <<[op |-> "call", c |-> c1], S(1), [op |-> "call", c |-> c2]>>
                   [] t = 2 -> <<[op |-> "call", c |-> c1], [op |-> "scribble_args", h |-> 1, how |-> how], [op |-> "call", c |-> c2]>>
                   [] t = 3 -> <<[op |-> "call", c |-> c1], [op |-> "call", c |-> c2]>>
                   [] OTHER -> <<[op |-> "call", c |-> c2], [op |-> "call", c |-> c1], S(2), [op |-> "call", c |-> c2]>>
    IN [i1 |-> i1, i2 |-> i2, f1 |-> f1, f2 |-> f2, rel |-> Rels[r], t |-> t, e |-> (i1 + 2 * i2 + f1 + f2 + r + t) % 3, steps |-> steps]
SessionIdx == {x \in (1..4) \X (1..4) \X (1..3) \X (1..3) \X (1..3) \X (1..4) :
                  \* the unit relation needs an entry point with a unit on the reading side
                  /\ (Rels[x[5]] = "units" => Entries[x[2]] # "gcirc")
                  /\ (Thorough \/ x[6] # 2 \/ x[3] = x[4])}
SKey(x) == ((((x[1] * 5 + x[2]) * 4 + x[3]) * 4 + x[4]) * 4 + x[5]) * 5 + x[6]
Sessions == LET sq == SetToSortSeq(SessionIdx, LAMBDA x, y : SKey(x) < SKey(y))
            IN [m \in 1..Len(sq) |-> Session(sq[m][1], sq[m][2], sq[m][3], sq[m][4], sq[m][5], sq[m][6])]

\* each exported session is a behaviour of the world machine: run it through a mechanism
RECURSIVE RunFrom(_, _, _, _, _, _)
RunFrom(m, steps, n, cs, mm, hs) ==
    IF n > Len(steps) THEN hs
    ELSE LET s == steps[n] IN
         IF s.op = "call" THEN LET r == CallIn(m, cs, mm, s.c)
                               IN RunFrom(m, steps, n + 1, r.cells, r.memo, Append(hs, [op |-> "call", c |-> s.c, out |-> r.out, ret |-> r.ret]))
         ELSE IF s.op = "scribble" THEN RunFrom(m, steps, n + 1, [cs EXCEPT ![hs[s.h].out] = <<"scribbled">>], mm, Append(hs, [op |-> "scribble"]))
         ELSE RunFrom(m, steps, n + 1, cs, mm, Append(hs, [op |-> "scribble_args"]))
RunSession(m, steps) == RunFrom(m, steps, 1, <<>>, <<>>, <<>>)
HistOK(hs) == \A n \in 1..Len(hs) : hs[n].op = "call" => hs[n].ret = FreshOut(hs[n].c)
StepsWellFormed(steps) ==
    \A n \in 1..Len(steps) :
        \/ steps[n].op = "call" /\ steps[n].c \in CallsOver({"scalar", "npscalar", "arr1"}, Units, AllPairs)
        \/ steps[n].op \in {"scribble", "scribble_args"} /\ steps[n].h \in 1..(n - 1) /\ steps[steps[n].h].op = "call"
SessionsWellFormed ==
    LET ss == Sessions IN \A m \in 1..Len(ss) :
        /\ StepsWellFormed(ss[m].steps)
        /\ HistOK(RunSession("none", ss[m].steps)) /\ HistOK(RunSession("copy", ss[m].steps))
\* the design: every ordered pair of entry points x every pair of forms x every relation, after a Scribble
\* of the first result, both directly and with the reader having filled the process state first; and every
\* deviating mechanism is exposed by at least one exported session (with MemoForms = all forms)
SessionDesign ==
    LET ss == Sessions IN
    /\ \A i1 \in 1..4, i2 \in 1..4, f1 \in 1..3, f2 \in 1..3, r \in 1..3, t \in {1, 3, 4} :
          (Rels[r] = "units" => Entries[i2] # "gcirc") =>
              \E m \in 1..Len(ss) : ss[m].i1 = i1 /\ ss[m].i2 = i2 /\ ss[m].f1 = f1 /\ ss[m].f2 = f2 /\ ss[m].rel = Rels[r] /\ ss[m].t = t
    /\ \A i1 \in 1..4, i2 \in 1..4, f1 \in 1..3 : \E m \in 1..Len(ss) : ss[m].i1 = i1 /\ ss[m].i2 = i2 /\ ss[m].f1 = f1 /\ ss[m].t = 2
    /\ \A dm \in {"alias", "coarse_digits", "coarse_units"} : \E m \in 1..Len(ss) : ~HistOK(RunSession(dm, ss[m].steps))
ASSUME SessionsWellFormed
ASSUME MemoForms = {"scalar", "npscalar", "arr1"} => SessionDesign

\* the three points on the great-circle lattice (one meridian circle, so every pair has an exact separation):
\* 1 and 2 are twins 2*eps apart, 3 is 49 degrees away
WPoint(p) == CASE p = 1 -> GMeridianPoint(95, <<1, 1>>) [] p = 2 -> GMeridianPoint(95, <<1, -1>>) [] OTHER -> GMeridianPoint(95, <<50, 0>>)
ASSUME \A p \in Pts, q \in Pts : GValid(WPoint(p)) /\ GDefined(WPoint(p), WPoint(q)) /\ GThmSymmetric(WPoint(p), WPoint(q))
ASSUME SepGC(WPoint(1), WPoint(2)) = <<0, 2>> /\ SepGC(WPoint(1), WPoint(3)) = <<49, -1>>

ExportNow == DoExport /\ hist = <<>> /\ mech = (CHOOSE m \in Mechs : TRUE)
Export == ExportNow =>
    /\ PrintT(<<"WPTS", ToJson([pts |-> [p \in Pts |-> WPoint(p)],
                                seps |-> [p \in Pts |-> [q \in Pts |-> SepGC(WPoint(p), WPoint(q))]]])>>)
    /\ PrintT(<<"WSESS", ToJson([sessions |-> Sessions])>>)
=============================================================================
