------------------------------- MODULE SphereWorldTrace -------------------------------
(* Trace validation of SESSIONS (property C08, class W; the machine is SphereWorld.tla).   *)
(* One ndjson line per session that the real code ran in ONE fresh process:                *)
(*   {"id": n, "steps": [<step>, ...]}                                                     *)
(* step  [op |-> "call", err, same, kept, argsok]                                          *)
(*         err    : "none" or the exception class                                          *)
(*         same   : the call returned exactly (type, dtype, shape, bytes) what the same    *)
(*                  call returns as the only call of a fresh process (FreshOut)            *)
(*         kept   : at the end of the session the returned object still holds the bytes    *)
(*                  it was returned with (judged only if the caller did not scribble it)   *)
(*         argsok : the call left its array arguments unchanged                            *)
(*       [op |-> "scribble", h] / [op |-> "scribble_args", h]: the caller overwrote the    *)
(*                  result / the argument buffers of call step h (1-based)                 *)
(* The specification decides: in the faithful world every call step of every session       *)
(* satisfies WorldIndependent and ResultsStay, whatever happened before it.                *)
EXTENDS VU, Json, IOUtils

VARIABLES tid
Traces == ndJsonDeserialize(IOEnv.TRACE_FILE)
NT == Len(Traces)

Init == tid = 0
Next == tid = 0 /\ \E t \in 1..NT : tid' = t

WellFormed(st) == \A n \in 1..Len(st) :
    \/ st[n].op = "call"
    \/ st[n].op \in {"scribble", "scribble_args"} /\ st[n].h \in 1..(n - 1) /\ st[st[n].h].op = "call"
Scribbled(st) == {st[n].h : n \in {k \in 1..Len(st) : st[k].op = "scribble"}}

FailingStep(st, n) ==
    IF st[n].op # "call" THEN {}
    ELSE IF st[n].err # "none" THEN {"no_error"}
    ELSE (IF st[n].same THEN {} ELSE {"world_independent"}) \cup
         (IF n \in Scribbled(st) \/ st[n].kept THEN {} ELSE {"results_are_callers"}) \cup
         (IF st[n].argsok THEN {} ELSE {"arguments_unchanged"})

FailingRec(r) == IF ~WellFormed(r.steps) THEN {<<"malformed_case", 0>>}
                 ELSE UNION {{<<cl, n>> : cl \in FailingStep(r.steps, n)} : n \in 1..Len(r.steps)}

Check == tid > 0 =>
    LET r == Traces[tid]  f == FailingRec(r)
    IN f = {} \/ PrintT(<<"REJECT", ToJson([id |-> r.id, failing |-> f])>>)
=============================================================================
