------------------------------- MODULE Staging -------------------------------
(* Extension X03: the file-staging, directory-stack and path / JSON helpers of     *)
(* esutil.ostools, esutil.json_util and the type dispatch of esutil.io, as ONE      *)
(* state machine over a small file system:                                          *)
(*     fs[d][nm]  content token of file nm in directory d ("absent" if none)        *)
(*     dirs       the directories that exist          cwd   the working directory   *)
(*     so[o] / si[o]   StagedOutFile / StagedInFile objects     ds[k]  DirStacks    *)
(*     res        outcome of the last call                                           *)
(* One action per public call (plus the user's own writes inside a with-block and   *)
(* explicit raise points: the `exc` argument of the exit actions).                  *)
(*                                                                                  *)
(* THE CONTRACT (documentation lines the clauses come from).                        *)
(* StagedOutFile  (ostools.py class docstring)                                      *)
(*  O1 "A context manager for staging files from temporary directories to a final   *)
(*      destination."  ->  leaving the with-block normally moves what the user      *)
(*      wrote at sf.path to the final path: afterwards the final path holds it and  *)
(*      the temporary path is empty.                                                *)
(*  O2 "tmpdir: If not sent, or `None`, the final path is used and no staging is    *)
(*      performed."  ->  sf.path = final path; exit / stage_out change nothing.     *)
(*      (source comment: "the user sent tmpdir as the final output dir, no staging  *)
(*      is performed" - same when tmpdir is the final directory.)                   *)
(*  O3 "must_exist: If `True`, the file to be staged must exist at the time of      *)
(*      staging or an `IOError` is thrown. If `False`, this is silently ignored."   *)
(*  O4 stage_out: "If a tempdir was used, move the file to its final destination.   *)
(*      ... you normally would not call this yourself, but rather use a context     *)
(*      manager, in which case this method is called for you."                      *)
(*  O5 (intent) the context manager does not swallow the caller's exception.        *)
(*  SILENT, every reading accepted: what happens when the with-block is left by an  *)
(*  exception (staged out as on normal exit / temporary file kept / temporary file  *)
(*  discarded; StrictExc = TRUE is the reading "a failed block never reaches the    *)
(*  final path", used for the FinalNeverPartial theorem and reported as a lead      *)
(*  only); a missing temporary or final directory (created, or the call rejected);  *)
(*  stage_out a second time (nothing, or staged again); the name of the temporary   *)
(*  file inside tmpdir (taken from the observation).                                *)
(* StagedInFile  (class docstring)                                                  *)
(*  I1 "A class to stage a file in to local disk for reading." + stage_in: "make a  *)
(*      local copy of the file"  ->  after construction sf.path (in tmpdir) holds   *)
(*      the source's content, the source is untouched.                              *)
(*  I2 "tmpdir: If not sent or None, no staging is done and the original file path  *)
(*      is used."  (source comment: same when tmpdir is the source directory.)      *)
(*  I3 (intent of cleanup / __exit__) leaving the with-block, normally or by an     *)
(*      exception, removes the temporary copy and never the original.               *)
(*  SILENT: a missing source (rejected, or an object without a copy), a missing     *)
(*  tmpdir (created or rejected), a second cleanup.                                 *)
(* DirStack                                                                         *)
(*  D1 push: "Change to the indicated dir and push the current working directory    *)
(*      onto the stack"; source comment "only do this *after* we successfully       *)
(*      chdir" -> a failed push leaves stack and cwd as they were.                  *)
(*  D2 pop: "Pop the last directory from the stack and change to that directory."   *)
(*  D3 getstack: "Return the current stack."                                        *)
(*  SILENT: pop on an empty stack (nothing happens, or rejected); pop when the      *)
(*  directory has vanished (rejected; the entry may or may not be lost).            *)
(* makedirs_fromfile                                                                *)
(*  M1 "Extract the directory from a file name and create it if it doesn't exist."  *)
(*  allow_fail: docstring ("If True, raise an error if the directory cannot be      *)
(*  made") and RELEASE_NOTES ("new keyword allow_fail to allow failure") contradict *)
(*  each other -> when the directory cannot be made both outcomes are accepted.     *)
(* path_join                                                                        *)
(*  P1 "Join path elements using the system path separator.  Any number of inputs   *)
(*      can be given.  These must be strings or sequences." + the five examples     *)
(*      (nested sequences are flattened in order).  "similar to the os.path.join    *)
(*      function": where plain joining and os.path.join differ both are accepted.   *)
(*      Empty sequences: silent.                                                    *)
(* expand_path / expand_filename                                                    *)
(*  E1 "Expand all user info such as ~userid and environment variables such as      *)
(*      $SOMEVAR.  this simple uses a call to both os.path.expanduser and           *)
(*      os.path.expandvars" (either order).                                         *)
(* json_util.write / read                                                           *)
(*  J1 "Write the object to a json file.  The "file" input can be either a file     *)
(*      name or opened file object." / "Read from the file name or opened file      *)
(*      object."  ->  read(write(v)) = v for values JSON represents (dict with      *)
(*      string keys, list, str, int, float, bool, None; a tuple comes back as a     *)
(*      list).  numpy types, non-string keys, nan/inf: the documentation says       *)
(*      nothing -> unconstrained.                                                   *)
(* io.read / io.write dispatch                                                      *)
(*  T1 "type: A string describing the file type ... If this is not sent, then the   *)
(*      file type is determined from the file extension." + "Currently Supported    *)
(*      File Types: fits rec xml json yaml pyobj".  Synonyms (fit, pya), case       *)
(*      folding and compression suffixes are not documented: the intended type or   *)
(*      a rejection are both accepted.                                              *)
EXTENDS VU

CONSTANTS Objs,        \* ids of staged-file objects (an id is used once, for either class)
          Stacks,      \* ids of DirStack instances: 1..NS
          Names,       \* file names
          StrictExc    \* TRUE: a with-block left by an exception must not reach the final path

VARIABLES fs, dirs, cwd, so, si, ds, res
svars == <<fs, dirs, cwd, so, si, ds, res>>

\* ---- the directory tree (fixed):  r = scratch root, a, t, n below it, m = n/m,
\*      b = a path below a regular file (can never exist nor be made)
Dirs == {"r", "a", "t", "n", "m", "b"}
Parent(d) == CASE d \in {"a", "t", "n"} -> "r" [] d = "m" -> "n" [] OTHER -> "none"
RECURSIVE Chain(_)
Chain(d) == IF d = "none" THEN {} ELSE {d} \cup Chain(Parent(d))
CanMake(d) == d # "b"
Children(d) == {e \in Dirs : Parent(e) = d}

Absent   == "absent"
Partial  == {"p1"}                             \* what a block that is going to fail has written so far
JDocs    == {"j1", "j2"}                       \* JSON documents (two catalogue values)
Contents == {"c1", "c2", "p1", "j1", "j2"}
NoPath   == <<"none", "none">>

Get(F, p)    == F[p[1]][p[2]]
Has(F, p)    == Get(F, p) # Absent
Put(F, p, c) == [F EXCEPT ![p[1]][p[2]] = c]
EmptyDir(F, d) == \A nm \in Names : F[d][nm] = Absent

NoSO == [st |-> "none", fin |-> NoPath, tmp |-> NoPath, staged |-> FALSE, must |-> FALSE, moved |-> FALSE]
NoSI == [st |-> "none", src |-> NoPath, tmp |-> NoPath, staged |-> FALSE, copied |-> FALSE]

\* ---- results: always the same shape -------------------------------------------------
\* err: "none" | "rejected" | "any" (unconstrained);  allowed: the values a pure call may return
NoRes(op)  == [op |-> op, o |-> 0, exc |-> FALSE, err |-> "none", path |-> NoPath, stack |-> <<>>, val |-> "none", allowed |-> {}]
RejRes(op) == [NoRes(op) EXCEPT !.err = "rejected"]
AnyRes(op) == [NoRes(op) EXCEPT !.err = "any"]
ObjRes(op, o, err) == [NoRes(op) EXCEPT !.o = o, !.err = err]

SInit == /\ fs = [d \in Dirs |-> [nm \in Names |-> Absent]]
         /\ dirs = {"r", "a", "t"}
         /\ cwd = "r"
         /\ so = [o \in Objs |-> NoSO]
         /\ si = [o \in Objs |-> NoSI]
         /\ ds = [k \in Stacks |-> <<>>]
         /\ res = NoRes("init")

FreshObj(o) == so[o].st = "none" /\ si[o].st = "none"

\* =====================================================================================
\* StagedOutFile
\* =====================================================================================
\* sf = StagedOutFile(<d/nm>, tmpdir=<td>, must_exist=must);  tnm: the name of sf.path (the documentation fixes only
\* its directory)
SOCreate(o, d, nm, td, must, tnm) ==
    /\ FreshObj(o) /\ d \in Dirs /\ nm \in Names /\ td \in Dirs \cup {"none"} /\ tnm \in Names
    /\ LET staged == td \notin {"none", d}
           tp     == IF staged THEN <<td, tnm>> ELSE <<d, nm>>
           obj    == [st |-> "open", fin |-> <<d, nm>>, tmp |-> tp, staged |-> staged, must |-> must, moved |-> FALSE]
           Made   == /\ so' = [so EXCEPT ![o] = obj]
                     /\ res' = [ObjRes("so_create", o, "none") EXCEPT !.path = tp]
       IN /\ (~staged => tnm = nm)
          /\ \/ (td = "none" \/ td \in dirs) /\ Made /\ UNCHANGED dirs
             \/ /\ td # "none" /\ td \notin dirs /\ CanMake(td)                 \* a missing tmpdir: made (or not) ...
                /\ Made /\ dirs' \in {dirs, dirs \cup Chain(td)}
             \/ /\ td # "none" /\ td \notin dirs                                \* ... or the construction is rejected
                /\ res' = ObjRes("so_create", o, "rejected") /\ UNCHANGED <<so, dirs>>
    /\ UNCHANGED <<fs, cwd, si, ds>>

\* the user's code inside (or after) the with-block writes content c to sf.path
SOWrite(o, c) ==
    /\ so[o].st \in {"open", "exited"} /\ so[o].tmp[1] \in dirs /\ c \in Contents
    /\ fs' = Put(fs, so[o].tmp, c)
    /\ res' = ObjRes("so_write", o, "none")
    /\ UNCHANGED <<dirs, cwd, so, si, ds>>

\* the outcomes the documentation allows for staging out object record x (exc: an exception is propagating)
StageOutcomes(x, exc) ==
    LET has      == Has(fs, x.tmp)
        fd       == x.fin[1]
        move     == [fs |-> Put(Put(fs, x.fin, Get(fs, x.tmp)), x.tmp, Absent), dirs |-> dirs \cup Chain(fd),
                     err |-> "none", moved |-> TRUE]
        keep(e)  == [fs |-> fs, dirs |-> dirs, err |-> e, moved |-> FALSE]
        drop     == [fs |-> Put(fs, x.tmp, Absent), dirs |-> dirs, err |-> "none", moved |-> FALSE]
        normal   == IF fd \in dirs THEN {move}                                  \* O1 / O4
                    ELSE IF CanMake(fd) THEN {move, keep("rejected")}           \* final directory missing: made, or rejected
                    ELSE {keep("rejected")}
    IN IF ~x.staged THEN {keep("none")}                                         \* O2
       ELSE IF ~has
            THEN IF ~x.must THEN {keep("none")}                                 \* O3 "silently ignored"
                 ELSE IF x.moved \/ exc THEN {keep("rejected"), keep("none")}   \* (already staged out / an exception is
                 ELSE {keep("rejected")}                                        \*  propagating: silent)   O3 "IOError"
       ELSE IF exc THEN (IF StrictExc THEN {} ELSE normal) \cup {keep("none"), drop}    \* the block raised: silent
       ELSE IF x.moved THEN normal \cup {keep("none")}                          \* a second stage_out: silent
       ELSE normal

\* leaving the with-block: normally (exc = FALSE) or because the block raised (exc = TRUE)
SOExit(o, exc) ==
    /\ so[o].st = "open"
    /\ \E oc \in StageOutcomes(so[o], exc) :
          /\ fs' = oc.fs /\ dirs' = oc.dirs
          /\ so' = [so EXCEPT ![o].st = "exited", ![o].moved = @ \/ oc.moved]
          /\ res' = [ObjRes("so_exit", o, oc.err) EXCEPT !.exc = exc]
    /\ UNCHANGED <<cwd, si, ds>>

\* sf.stage_out() called by hand (inside the block, after it, or on an object never used as a context manager)
SOStageOut(o) ==
    /\ so[o].st \in {"open", "exited"}
    /\ \E oc \in StageOutcomes(so[o], FALSE) :
          /\ fs' = oc.fs /\ dirs' = oc.dirs
          /\ so' = [so EXCEPT ![o].moved = @ \/ oc.moved]
          /\ res' = ObjRes("so_stageout", o, oc.err)
    /\ UNCHANGED <<cwd, si, ds>>

\* =====================================================================================
\* StagedInFile
\* =====================================================================================
SICreate(o, d, nm, td, tnm) ==
    /\ FreshObj(o) /\ d \in Dirs /\ nm \in Names /\ td \in Dirs \cup {"none"} /\ tnm \in Names
    /\ LET src    == <<d, nm>>
           staged == td \notin {"none", d}
           tp     == IF staged THEN <<td, tnm>> ELSE src
           obj(c) == [st |-> "open", src |-> src, tmp |-> tp, staged |-> staged, copied |-> c]
           Made(c) == /\ si' = [si EXCEPT ![o] = obj(c)]
                      /\ res' = [ObjRes("si_create", o, "none") EXCEPT !.path = tp]
           Rejected == res' = ObjRes("si_create", o, "rejected") /\ UNCHANGED si
       IN /\ (~staged => tnm = nm)
          /\ IF ~staged
             THEN /\ UNCHANGED <<fs, dirs>>                                      \* I2
                  /\ \/ Made(FALSE)
                     \/ ~Has(fs, src) /\ Rejected                                \* a missing source may be refused at once
             ELSE IF ~Has(fs, src)
             THEN /\ UNCHANGED fs                                                \* missing source: silent
                  /\ dirs' \in {dirs} \cup (IF CanMake(td) THEN {dirs \cup Chain(td)} ELSE {})
                  /\ (Rejected \/ Made(FALSE))
             ELSE \/ /\ (td \in dirs \/ CanMake(td))                             \* I1: a local copy
                     /\ fs' = Put(fs, tp, Get(fs, src)) /\ dirs' = dirs \cup Chain(td)
                     /\ Made(TRUE)
                  \/ /\ td \notin dirs /\ Rejected /\ UNCHANGED <<fs, dirs>>     \* missing tmpdir: made (above) or refused
    /\ UNCHANGED <<cwd, so, ds>>

CleanOutcomes(x) ==
    IF x.staged /\ x.copied /\ Has(fs, x.tmp) THEN {Put(fs, x.tmp, Absent)}      \* I3
    ELSE {fs}                                                                    \* nothing of ours is there

\* leaving the with-block (normally or by an exception: I3 makes no difference)
SIExit(o, exc) ==
    /\ si[o].st = "open"
    /\ \E F \in CleanOutcomes(si[o]) : fs' = F
    /\ si' = [si EXCEPT ![o].st = "exited", ![o].copied = FALSE]
    /\ res' = [ObjRes("si_exit", o, "none") EXCEPT !.exc = exc]
    /\ UNCHANGED <<dirs, cwd, so, ds>>

\* sf.cleanup() by hand
SICleanup(o) ==
    /\ si[o].st \in {"open", "exited"}
    /\ \E F \in CleanOutcomes(si[o]) : fs' = F
    /\ si' = [si EXCEPT ![o].copied = FALSE]
    /\ res' = ObjRes("si_cleanup", o, "none")
    /\ UNCHANGED <<dirs, cwd, so, ds>>

\* =====================================================================================
\* the environment: another program writes a file / removes an empty directory
\* =====================================================================================
UserPut(d, nm, c) ==
    /\ d \in dirs /\ nm \in Names /\ c \in Contents
    /\ fs' = Put(fs, <<d, nm>>, c)
    /\ res' = NoRes("put")
    /\ UNCHANGED <<dirs, cwd, so, si, ds>>

RmDir(d) ==
    /\ d \in dirs \ {"r", cwd} /\ EmptyDir(fs, d) /\ Children(d) \cap dirs = {}
    /\ dirs' = dirs \ {d}
    /\ res' = NoRes("rmdir")
    /\ UNCHANGED <<fs, cwd, so, si, ds>>

\* =====================================================================================
\* DirStack
\* =====================================================================================
DPush(k, d) ==
    /\ k \in Stacks /\ d \in Dirs
    /\ IF d \in dirs
       THEN /\ cwd' = d /\ ds' = [ds EXCEPT ![k] = Append(@, cwd)] /\ res' = NoRes("push")     \* D1
       ELSE /\ res' = RejRes("push") /\ UNCHANGED <<cwd, ds>>                                   \* D1 (source comment)
    /\ UNCHANGED <<fs, dirs, so, si>>

DPop(k) ==
    /\ k \in Stacks
    /\ LET s == ds[k] IN
       IF s = <<>>
       THEN /\ res' \in {NoRes("pop"), RejRes("pop")} /\ UNCHANGED <<cwd, ds>>                  \* silent
       ELSE IF s[Len(s)] \in dirs
       THEN /\ cwd' = s[Len(s)] /\ ds' = [ds EXCEPT ![k] = SubSeq(s, 1, Len(s) - 1)] /\ res' = NoRes("pop")   \* D2
       ELSE /\ res' = RejRes("pop") /\ UNCHANGED cwd                                            \* the directory vanished
            /\ ds' \in {ds, [ds EXCEPT ![k] = SubSeq(s, 1, Len(s) - 1)]}
    /\ UNCHANGED <<fs, dirs, so, si>>

DGetStack(k) ==
    /\ k \in Stacks
    /\ res' = [NoRes("getstack") EXCEPT !.stack = ds[k]]                                        \* D3
    /\ UNCHANGED <<fs, dirs, cwd, so, si, ds>>

\* =====================================================================================
\* makedirs_fromfile(<d/nm>, allow_fail=af);  d = "none": a bare file name
\* =====================================================================================
MkFromFile(d, nm, af) ==
    /\ d \in Dirs \cup {"none"}
    /\ IF d = "none" \/ d \in dirs THEN res' = NoRes("mk") /\ UNCHANGED dirs                    \* M1 (idempotent)
       ELSE IF CanMake(d) THEN res' = NoRes("mk") /\ dirs' = dirs \cup Chain(d)                 \* M1
       ELSE res' \in {NoRes("mk"), RejRes("mk")} /\ UNCHANGED dirs                              \* allow_fail: contradictory
    /\ UNCHANGED <<fs, cwd, so, si, ds>>

\* =====================================================================================
\* json_util on the file system: write(doc, <d/nm>), read(<d/nm>)
\* =====================================================================================
JWrite(d, nm, j) ==
    /\ d \in dirs /\ nm \in Names /\ j \in JDocs
    /\ fs' = Put(fs, <<d, nm>>, j)                                                              \* J1 (replaces)
    /\ res' = NoRes("jwrite")
    /\ UNCHANGED <<dirs, cwd, so, si, ds>>

JRead(d, nm) ==
    /\ d \in Dirs /\ nm \in Names
    /\ res' = IF fs[d][nm] \in JDocs THEN [NoRes("jread") EXCEPT !.val = fs[d][nm]]             \* J1
              ELSE IF fs[d][nm] = Absent THEN RejRes("jread")
              ELSE AnyRes("jread")                                                              \* not a JSON file
    /\ UNCHANGED <<fs, dirs, cwd, so, si, ds>>

\* =====================================================================================
\* pure calls: the state is untouched, res'.allowed is the set of values the call may return
\* =====================================================================================
Pure(r) == res' = r /\ UNCHANGED <<fs, dirs, cwd, so, si, ds>>
Allowed(op, S) == [NoRes(op) EXCEPT !.allowed = S]

\* ---- path_join(*args): a node is [t |-> "s" (string s) | "l" (list) | "t" (tuple) | "x" (anything else), s, k |-> kids]
PJAbs   == {"/tmp", "/usr"}          \* catalogue strings that start with the separator
PJTrail == {"dir/"}                  \* ... that end with it
RECURSIVE PJBad(_), PJBadSeq(_), PJHasEmpty(_), PJHasEmptySeq(_), PJFlat(_), PJFlatSeq(_)
PJBad(n) == n.t = "x" \/ (n.t \in {"l", "t"} /\ PJBadSeq(n.k))
PJBadSeq(ks) == ks # <<>> /\ (PJBad(Head(ks)) \/ PJBadSeq(Tail(ks)))
PJHasEmpty(n) == n.t \in {"l", "t"} /\ (n.k = <<>> \/ PJHasEmptySeq(n.k))
PJHasEmptySeq(ks) == ks # <<>> /\ (PJHasEmpty(Head(ks)) \/ PJHasEmptySeq(Tail(ks)))
PJFlat(n) == IF n.t = "s" THEN <<n.s>> ELSE PJFlatSeq(n.k)
PJFlatSeq(ks) == IF ks = <<>> THEN <<>> ELSE PJFlat(Head(ks)) \o PJFlatSeq(Tail(ks))

RECURSIVE PJSepJoin(_)
PJSepJoin(s) == IF s = <<>> THEN "" ELSE IF Len(s) = 1 THEN s[1] ELSE s[1] \o "/" \o PJSepJoin(Tail(s))
\* os.path.join: acc = <<string so far, it ends with the separator>>
RECURSIVE PJOsFold(_, _)
PJOsFold(acc, s) ==
    IF s = <<>> THEN acc[1]
    ELSE LET b == Head(s)
             nx == IF b \in PJAbs THEN <<b, FALSE>>
                   ELSE IF acc[1] = "" \/ acc[2] THEN <<acc[1] \o b, IF b = "" THEN acc[2] ELSE b \in PJTrail>>
                   ELSE <<acc[1] \o "/" \o b, IF b = "" THEN TRUE ELSE b \in PJTrail>>
         IN PJOsFold(nx, Tail(s))
PJOsJoin(s) == IF s = <<>> THEN "" ELSE PJOsFold(<<s[1], s[1] \in PJTrail>>, Tail(s))

PJOutcome(args) ==
    IF PJBadSeq(args) THEN RejRes("pjoin")                                      \* P1 "must be strings or sequences"
    ELSE IF PJHasEmptySeq(args) THEN AnyRes("pjoin")                            \* silent
    ELSE LET f == PJFlatSeq(args) IN Allowed("pjoin", {PJSepJoin(f), PJOsJoin(f)})
PathJoin(args) == Pure(PJOutcome(args))

\* ---- expand_path: the path is a sequence of components (joined with "/" by the caller); the environment is
\*      HOME = "x03home", X03A = "vala", X03B = "valb", X03T = "~", X03V = "$X03A", X03UNSET not set
EXHome == "x03home"
EXComp(c, first) ==
    CASE c = "~"            -> IF first THEN {EXHome} ELSE {c}
      [] c = "$X03A"        -> {"vala"}
      [] c = "${X03A}"      -> {"vala"}
      [] c = "$X03B"        -> {"valb"}
      [] c = "pre$X03A"     -> {"prevala"}
      [] c = "${X03A}post"  -> {"valapost"}
      [] c = "$X03A.$X03B"  -> {"vala.valb"}
      [] c = "$X03T"        -> IF first THEN {"~", EXHome} ELSE {"~"}        \* the order of the two expansions is not fixed
      [] c = "$X03V"        -> {"$X03A", "vala"}                              \* nested expansion: silent
      [] OTHER              -> {c}       \* literals, unset variables ("$X03UNSET", "${X03UNSET}", "$X03Apost"), "~" inside
EXAny(c, first) == first /\ c = "~x03nouser"                                  \* an unknown user: silent
EXOutcome(comps) ==
    IF \E i \in DOMAIN comps : EXAny(comps[i], i = 1) THEN AnyRes("expand")
    ELSE [NoRes("expand") EXCEPT !.allowed = [i \in DOMAIN comps |-> EXComp(comps[i], i = 1)]]    \* E1, per component
Expand(comps) == Pure(EXOutcome(comps))
EXAccepts(r, val) == /\ Len(val) = Len(r.allowed)
                     /\ \A i \in DOMAIN val : val[i] \in r.allowed[i]

\* ---- json round trip: read(write(v)).  A node is [t, s, keys, k]:
\*      t in int float str bool null (s = the value written out) | list tuple dict (k = members, keys = dict keys)
\*      anything else (numpy scalar / array, nan, inf, dict with non-string keys ...) is outside J1
JLeaf == {"int", "float", "str", "bool", "null"}
JCont == {"list", "tuple", "dict"}
RECURSIVE JNative(_), JNorm(_)
JNative(n) == n.t \in JLeaf \/ (n.t \in JCont /\ \A i \in DOMAIN n.k : JNative(n.k[i]))
JNorm(n) == IF n.t \in JLeaf THEN n
            ELSE [t |-> IF n.t = "tuple" THEN "list" ELSE n.t, s |-> n.s, keys |-> n.keys,
                  k |-> [i \in DOMAIN n.k |-> JNorm(n.k[i])]]
JRTOutcome(v) == IF JNative(v) THEN Allowed("jrt", {JNorm(v)}) ELSE AnyRes("jrt")              \* J1
JRoundTrip(v) == Pure(JRTOutcome(v))

\* ---- io.read / io.write dispatch: file name = base "." parts[1] "." ... ; kw = the type= keyword ("none": not sent)
DocTypes == {"fits", "rec", "xml", "json", "yaml", "pyobj"}
Synonym(x) == CASE x \in {"fit", "FITS", "Fits"} -> "fits" [] x \in {"pya", "REC"} -> "rec" [] x \in {"JSON", "Json"} -> "json"
                [] x = "YAML" -> "yaml" [] x = "XML" -> "xml" [] OTHER -> "none"
Zips == {"gz", "bz", "bz2"}
DPType(x) == [NoRes("dispatch") EXCEPT !.allowed = {x}]
DPIntended(x) == [NoRes("dispatch") EXCEPT !.err = "any", !.allowed = {x}]     \* undocumented: type x, or a rejection
DPByExt(x) == IF x \in DocTypes THEN DPType(x)                                  \* T1
              ELSE IF Synonym(x) # "none" THEN DPIntended(Synonym(x))
              ELSE RejRes("dispatch")
DPOutcome(parts, kw) ==
    IF kw # "none" THEN DPByExt(kw)                                             \* T1 "type: a string describing the file type"
    ELSE IF parts = <<>> THEN RejRes("dispatch")
    ELSE LET last == parts[Len(parts)] IN
         IF last \in Zips
         THEN IF Len(parts) >= 2 /\ DPByExt(parts[Len(parts) - 1]).err # "rejected"
              THEN DPIntended(CHOOSE x \in DPByExt(parts[Len(parts) - 1]).allowed : TRUE)
              ELSE RejRes("dispatch")
         ELSE DPByExt(last)
Dispatch(parts, kw) == Pure(DPOutcome(parts, kw))
\* what the real call did: err = "none" and val = the reader / writer chosen, or err = "rejected"
DPAccepts(r, err, val) ==
    CASE r.err = "rejected" -> err = "rejected"
      [] r.err = "any"      -> err = "rejected" \/ val \in r.allowed
      [] OTHER              -> err = "none" /\ val \in r.allowed

\* =====================================================================================
\* theorems about the specification itself (checked by TLC on every bounded history)
\* =====================================================================================
FsInv == /\ cwd \in dirs /\ "r" \in dirs /\ "b" \notin dirs
         /\ \A d \in dirs : Parent(d) \in dirs \cup {"none"}
         /\ \A d \in Dirs \ dirs : EmptyDir(fs, d)

ObjInv == \A o \in Objs :
    /\ ~(so[o].st # "none" /\ si[o].st # "none")
    /\ so[o].st = "none" => so[o] = NoSO
    /\ si[o].st = "none" => si[o] = NoSI
    /\ so[o].st # "none" => (so[o].staged <=> so[o].tmp[1] # so[o].fin[1]) /\ (~so[o].staged => so[o].tmp = so[o].fin)
    /\ si[o].st # "none" => (si[o].staged <=> si[o].tmp[1] # si[o].src[1]) /\ (~si[o].staged => si[o].tmp = si[o].src)
    /\ si[o].copied => si[o].staged

\* ---- action properties; x / y: the acting object before / after the step
ChangedPaths == {p \in Dirs \X Names : Get(fs', p) # Get(fs, p)}

\* O1/O4: a successful normal stage-out of a staged object with a temporary file puts exactly that content at the final path
\*        and leaves nothing at the temporary path ("after exit no temporary file is left")
StagedOutProp ==
    (res'.op \in {"so_exit", "so_stageout"}) =>
        LET x == so[res'.o] IN
        /\ (~x.staged => fs' = fs /\ res'.err = "none")                                            \* O2
        /\ ChangedPaths \subseteq {x.fin, x.tmp}
        /\ (so'[res'.o].moved /\ ~x.moved) => /\ Get(fs', x.fin) = Get(fs, x.tmp) /\ ~Has(fs', x.tmp)
        /\ res'.err = "rejected" => fs' = fs
\* the with-block of a staged object that completes normally (first staging) never leaves the temporary file behind
NoTempLeftProp ==
    (res'.op = "so_exit" /\ ~res'.exc /\ res'.err = "none" /\ so[res'.o].staged /\ ~so[res'.o].moved) =>
        ~Has(fs', so[res'.o].tmp)
\* I1/I3: the source is never touched by a StagedInFile that stages; an object that does not stage touches nothing;
\*        after exit / cleanup of an object holding a copy the copy is gone
StagedInProp ==
    (res'.op \in {"si_create", "si_exit", "si_cleanup"}) =>
        LET x == si[res'.o]  y == si'[res'.o] IN
        /\ (y.st # "none" /\ ~y.staged) => fs' = fs
        /\ (y.st # "none" /\ y.staged) => Get(fs', y.src) = Get(fs, y.src) /\ ChangedPaths \subseteq {y.tmp}
        /\ (res'.op = "si_create" /\ y.copied) => Get(fs', y.tmp) = Get(fs, y.src)
        /\ (res'.op # "si_create" /\ x.copied) => ~Has(fs', x.tmp)
        /\ y.st = "none" => fs' = fs
\* only the directory stack moves the working directory; only staging, the user and json_util.write change files;
\* directories are only ever added by the library
FrameProp ==
    /\ cwd' # cwd => res'.op \in {"push", "pop"}
    /\ fs' # fs => res'.op \in {"so_write", "so_exit", "so_stageout", "si_create", "si_exit", "si_cleanup", "put", "jwrite"}
    /\ res'.op # "rmdir" => dirs \subseteq dirs'
    /\ res'.err = "rejected" => fs' = fs /\ cwd' = cwd
\* the library never *moves or copies* unfinished content to a final path (StrictExc reading only): new content that
\* appears at a path through a stage-out is never a partial token
FinalNeverPartialProp ==
    (res'.op \in {"so_exit", "so_stageout"}) => \A p \in ChangedPaths : Get(fs', p) \notin Partial

StagingProps == [][StagedOutProp /\ NoTempLeftProp /\ StagedInProp /\ FrameProp]_svars
FinalNeverPartial == [][FinalNeverPartialProp]_svars
=============================================================================
