------------------------------- MODULE StagingMC -------------------------------
(* Bounded model of Staging.tla (extension X03):                                    *)
(*  - Next: every history of calls up to MaxDepth over small catalogues of           *)
(*    directories / names / contents; the theorems of Staging (FsInv, ObjInv,        *)
(*    StagingProps, and FinalNeverPartial under the strict reading) and the          *)
(*    directory-stack theorem PopAllRestores are checked on it;                      *)
(*  - with KeepHist = TRUE every step appends the event it took to `hist` (the JSON  *)
(*    shape the harness replays and StagingTrace.tla reads) and `Export` prints it:  *)
(*    all behaviours of a length (no VIEW), a transition tour (VIEW View), or        *)
(*    -simulate behaviours;                                                          *)
(*  - PureNext: one step that enumerates the cases of the pure calls (path_join,     *)
(*    expand_path, the json round trip, the io type dispatch) - exported the same    *)
(*    way as behaviours of length 1.                                                 *)
(* The user of the model follows the protocol: a with-block is left normally (and    *)
(* stage_out called by hand) only when what it wrote is complete (not a Partial      *)
(* token); a block that has written a partial file leaves by raising.                *)
EXTENDS Staging, Json

CONSTANTS FinDirs,     \* directories of final / source paths
          TmpDirs,     \* tmpdir choices: subset of Dirs \cup {"none", "same"}  ("same": the final / source directory)
          PushDirs,    \* directories pushed
          MkDirs,      \* makedirs_fromfile targets: subset of Dirs \cup {"none"}
          PutDirs,     \* directories other programs write to (json_util too)
          Conts,       \* contents written: subset of Contents
          Acts,        \* enabled action kinds
          MaxDepth, KeepHist, ExportAt,
          PJLeaves, PJMode,   \* path_join: leaf strings; "nest" (<= 2 arguments, nesting 2) | "flat" (<= 3 string / flat arguments)
          EXAlphabet, EXMaxLen,
          JLeafIds, JDepth,
          DPExts, DPKws, DPMaxLen

VARIABLES hist,        \* the events taken so far (KeepHist), else one 0 per event
          base, lost   \* ghosts for PopAllRestores: cwd at the first push onto the empty stack 1 / an entry was lost
vars == <<fs, dirs, cwd, so, si, ds, res, hist, base, lost>>
View == svars

Ev(op, o, k, d, nm, td, must, c, exc, af) ==
    [op |-> op, o |-> o, k |-> k, d |-> d, nm |-> nm, td |-> td, must |-> must, c |-> c, exc |-> exc, af |-> af, err |-> "none"]
E0(op) == Ev(op, 0, 0, "none", "none", "none", FALSE, "none", FALSE, FALSE)

CanLog == Len(hist) < MaxDepth         \* first conjunct of every action: nothing is evaluated at the depth bound
Log(e) == /\ hist' = IF KeepHist THEN Append(hist, [e EXCEPT !.err = res'.err]) ELSE Append(hist, 0)
Ghost0 == UNCHANGED <<base, lost>>

Init == SInit /\ hist = <<>> /\ base = "r" /\ lost = FALSE

Td(td, d) == IF td = "same" THEN d ELSE td

\* ---- StagedOutFile ---------------------------------------------------------------------
MSOCreate == "so_create" \in Acts /\ CanLog /\ \E o \in Objs, d \in FinDirs, nm \in Names, t \in TmpDirs, must \in BOOLEAN :
                 /\ SOCreate(o, d, nm, Td(t, d), must, nm)
                 /\ Log([E0("so_create") EXCEPT !.o = o, !.d = d, !.nm = nm, !.td = Td(t, d), !.must = must]) /\ Ghost0
MSOWrite == "so_write" \in Acts /\ CanLog /\ \E o \in Objs, c \in Conts :
                 SOWrite(o, c) /\ Log([E0("so_write") EXCEPT !.o = o, !.c = c]) /\ Ghost0
Complete(o) == so[o].st # "none" /\ Get(fs, so[o].tmp) \notin Partial
MSOExit == "so_exit" \in Acts /\ CanLog /\ \E o \in Objs :
                 Complete(o) /\ SOExit(o, FALSE) /\ Log([E0("so_exit") EXCEPT !.o = o]) /\ Ghost0
MSORaise == "so_raise" \in Acts /\ CanLog /\ \E o \in Objs :
                 SOExit(o, TRUE) /\ Log([E0("so_exit") EXCEPT !.o = o, !.exc = TRUE]) /\ Ghost0
MSOStageOut == "so_stageout" \in Acts /\ CanLog /\ \E o \in Objs :
                 Complete(o) /\ SOStageOut(o) /\ Log([E0("so_stageout") EXCEPT !.o = o]) /\ Ghost0

\* ---- StagedInFile ----------------------------------------------------------------------
MSICreate == "si_create" \in Acts /\ CanLog /\ \E o \in Objs, d \in FinDirs, nm \in Names, t \in TmpDirs :
                 /\ SICreate(o, d, nm, Td(t, d), nm)
                 /\ Log([E0("si_create") EXCEPT !.o = o, !.d = d, !.nm = nm, !.td = Td(t, d)]) /\ Ghost0
MSIExit == "si_exit" \in Acts /\ CanLog /\ \E o \in Objs :
                 SIExit(o, FALSE) /\ Log([E0("si_exit") EXCEPT !.o = o]) /\ Ghost0
MSIRaise == "si_raise" \in Acts /\ CanLog /\ \E o \in Objs :
                 SIExit(o, TRUE) /\ Log([E0("si_exit") EXCEPT !.o = o, !.exc = TRUE]) /\ Ghost0
MSICleanup == "si_cleanup" \in Acts /\ CanLog /\ \E o \in Objs :
                 SICleanup(o) /\ Log([E0("si_cleanup") EXCEPT !.o = o]) /\ Ghost0

\* ---- environment -----------------------------------------------------------------------
MPut == "put" \in Acts /\ CanLog /\ \E d \in PutDirs, nm \in Names, c \in Conts \ Partial :
                 UserPut(d, nm, c) /\ Log([E0("put") EXCEPT !.d = d, !.nm = nm, !.c = c]) /\ Ghost0
MRmDir == "rmdir" \in Acts /\ CanLog /\ \E d \in Dirs :
                 RmDir(d) /\ Log([E0("rmdir") EXCEPT !.d = d]) /\ Ghost0

\* ---- DirStack --------------------------------------------------------------------------
MPush == "push" \in Acts /\ CanLog /\ \E k \in Stacks, d \in PushDirs :
                 /\ DPush(k, d) /\ Log([E0("push") EXCEPT !.k = k, !.d = d])
                 /\ base' = IF k = 1 /\ ds[1] = <<>> /\ res'.err = "none" THEN cwd ELSE base
                 /\ UNCHANGED lost
MPop == "pop" \in Acts /\ CanLog /\ \E k \in Stacks :
                 /\ DPop(k) /\ Log([E0("pop") EXCEPT !.k = k])
                 /\ lost' = (lost \/ (res'.err = "rejected" /\ ds' # ds))
                 /\ UNCHANGED base
MGetStack == "getstack" \in Acts /\ CanLog /\ \E k \in Stacks :
                 DGetStack(k) /\ Log([E0("getstack") EXCEPT !.k = k]) /\ Ghost0

\* ---- makedirs_fromfile / json_util -------------------------------------------------------
MMk == "mk" \in Acts /\ CanLog /\ \E d \in MkDirs, nm \in Names, af \in BOOLEAN :
                 MkFromFile(d, nm, af) /\ Log([E0("mk") EXCEPT !.d = d, !.nm = nm, !.af = af]) /\ Ghost0
MJWrite == "jwrite" \in Acts /\ CanLog /\ \E d \in PutDirs, nm \in Names, j \in JDocs \cap Conts :
                 JWrite(d, nm, j) /\ Log([E0("jwrite") EXCEPT !.d = d, !.nm = nm, !.c = j]) /\ Ghost0
MJRead == "jread" \in Acts /\ CanLog /\ \E d \in PutDirs, nm \in Names :
                 JRead(d, nm) /\ Log([E0("jread") EXCEPT !.d = d, !.nm = nm]) /\ Ghost0

Next == \/ MSOCreate \/ MSOWrite \/ MSOExit \/ MSORaise \/ MSOStageOut
        \/ MSICreate \/ MSIExit \/ MSIRaise \/ MSICleanup
        \/ MPut \/ MRmDir \/ MPush \/ MPop \/ MGetStack \/ MMk \/ MJWrite \/ MJRead

Spec == Init /\ [][Next]_vars

\* ---- pure calls: case enumeration ----------------------------------------------------------
SeqsUpTo(S, n) == UNION {[1..m -> S] : m \in 0..n}
SeqsFrom(S, lo, hi) == UNION {[1..m -> S] : m \in lo..hi}

PJNode(t, s, ks) == [t |-> t, s |-> s, k |-> ks]
PJL0 == {PJNode("s", s, <<>>) : s \in PJLeaves} \cup {PJNode("x", "", <<>>)}
PJS1 == {PJNode(t, "", ks) : t \in {"l", "t"}, ks \in SeqsUpTo(PJL0, 2)}
PJN1 == PJL0 \cup PJS1
PJS2 == {PJNode("l", "", ks) : ks \in SeqsUpTo(PJN1, 2)}
PJArgs == IF PJMode = "nest" THEN SeqsUpTo(PJN1, 2) \cup {<<n>> : n \in PJS2}
          ELSE SeqsFrom(PJL0, 3, 3) \cup {<<a, b, c>> : a \in PJL0, b \in {PJNode("l", "", ks) : ks \in SeqsFrom(PJL0, 2, 2)}, c \in PJL0}
MPathJoin == "pjoin" \in Acts /\ CanLog /\ \E args \in PJArgs :
                 PathJoin(args) /\ Log([op |-> "pjoin", args |-> args, err |-> "none"]) /\ Ghost0

MExpand == "expand" \in Acts /\ CanLog /\ \E comps \in SeqsFrom(EXAlphabet, 1, EXMaxLen) :
                 Expand(comps) /\ Log([op |-> "expand", comps |-> comps, err |-> "none"]) /\ Ghost0

JN(t, s, keys, ks) == [t |-> t, s |-> s, keys |-> keys, k |-> ks]
JLeafNode(id) ==
    CASE id = "i0" -> JN("int", "0", <<>>, <<>>)            [] id = "ineg" -> JN("int", "-7", <<>>, <<>>)
      [] id = "ibig" -> JN("int", "9007199254740993", <<>>, <<>>)      \* 2^53 + 1: not a double
      [] id = "ihuge" -> JN("int", "123456789012345678901234567890", <<>>, <<>>)
      [] id = "f01" -> JN("float", "0.1", <<>>, <<>>)       [] id = "fbig" -> JN("float", "1e+300", <<>>, <<>>)
      [] id = "fnz" -> JN("float", "-0.0", <<>>, <<>>)      [] id = "f1" -> JN("float", "1.0", <<>>, <<>>)
      [] id = "fsub" -> JN("float", "5e-324", <<>>, <<>>)
      [] id = "sempty" -> JN("str", "", <<>>, <<>>)         [] id = "sesc" -> JN("str", "esc", <<>>, <<>>)
      [] id = "suni" -> JN("str", "uni", <<>>, <<>>)        [] id = "snum" -> JN("str", "12", <<>>, <<>>)
      [] id = "btrue" -> JN("bool", "true", <<>>, <<>>)     [] id = "bfalse" -> JN("bool", "false", <<>>, <<>>)
      [] id = "null" -> JN("null", "", <<>>, <<>>)
      [] id = "npint" -> JN("npint", "3", <<>>, <<>>)       [] id = "npfloat" -> JN("npfloat", "0.5", <<>>, <<>>)
      [] id = "nparr" -> JN("nparr", "", <<>>, <<>>)        [] id = "nan" -> JN("floatx", "nan", <<>>, <<>>)
      [] id = "inf" -> JN("floatx", "inf", <<>>, <<>>)      [] id = "ikeydict" -> JN("ikeydict", "", <<>>, <<>>)
JKeys(n) == IF n = 0 THEN <<>> ELSE IF n = 1 THEN <<"k1">> ELSE <<"k 2", "k1">>
JConts(S) == {JN(t, "", IF t = "dict" THEN JKeys(Len(ks)) ELSE <<>>, ks) : t \in JCont, ks \in SeqsUpTo(S, 2)}
JT0 == {JLeafNode(id) : id \in JLeafIds}
JT1 == JT0 \cup JConts(JT0)
JCases == IF JDepth = 0 THEN JT0 ELSE IF JDepth = 1 THEN JT1 ELSE JConts(JT1)
MJRoundTrip == "jrt" \in Acts /\ CanLog /\ \E v \in JCases :
                 JRoundTrip(v) /\ Log([op |-> "jrt", v |-> v, err |-> "none"]) /\ Ghost0

MDispatch == "dispatch" \in Acts /\ CanLog /\ \E parts \in SeqsUpTo(DPExts, DPMaxLen), kw \in DPKws, dir \in {"read", "write"} :
                 Dispatch(parts, kw) /\ Log([op |-> "dispatch", parts |-> parts, kw |-> kw, dir |-> dir, err |-> "none"]) /\ Ghost0

PureNext == MPathJoin \/ MExpand \/ MJRoundTrip \/ MDispatch

\* theorems about the pure specifications (evaluated on every enumerated case)
PureInv ==
    /\ res.op = "pjoin" => (res.err = "none" => res.allowed # {})
    /\ res.op = "jrt" => (res.err = "none" => \A w \in res.allowed : JNative(w) /\ JNorm(w) = w)     \* the normal form is a fixed point
    /\ res.op = "dispatch" => (res.err = "none" => res.allowed \subseteq DocTypes)

\* ---- bounds --------------------------------------------------------------------------------
Bounded == Len(hist) <= MaxDepth

\* ---- theorems checked by TLC -----------------------------------------------------------------
\* "cwd after popping everything = cwd before the first push" (one stack, no entry lost to a vanished directory)
PopAllRestores == (Stacks = {1} /\ ds[1] = <<>> /\ ~lost) => cwd = base
\* while the stack is non-empty its bottom is that directory
BottomIsBase == (Stacks = {1} /\ ds[1] # <<>> /\ ~lost) => ds[1][1] = base

\* ---- export ------------------------------------------------------------------------------------
Export == (KeepHist /\ hist # <<>> /\ (ExportAt = 0 \/ Len(hist) = ExportAt)) => PrintT(<<"BEH", ToJson(hist)>>)
=============================================================================
