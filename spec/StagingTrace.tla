------------------------------- MODULE StagingTrace -------------------------------
(* Trace validation for extension X03: every recorded history of calls on the real    *)
(* esutil (ostools.StagedOutFile / StagedInFile / DirStack / makedirs_fromfile /        *)
(* path_join / expand_path, json_util, the io dispatch) is stepped through the actions  *)
(* of Staging.tla.  One ndjson line per trace: {"id": k, "ev": [event, ...]}; an event  *)
(* is the call                                                                           *)
(*   [op, o, k, d, nm, td, must, c, exc, af]      (calls on the file system)             *)
(*   [op, args | comps | v | parts, kw, dir]       (pure calls)                          *)
(* plus what was observed:                                                                *)
(*   res |-> [err ("none" | "rejected" | "suppressed"), path, stack, val]                 *)
(*   obs |-> [files |-> [d |-> [nm |-> content token]], dirs |-> <<existing dirs>>,       *)
(*            cwd, stacks |-> <<getstack() of every DirStack>>, extra |-> number of        *)
(*            entries of the scratch tree that are not in the model's name space]          *)
(* the projection of the scratch directory and the process after the call.                *)
(* Event l must be a step of the named action whose primed variables agree with the       *)
(* observation, clause by clause; a rejected step names the clauses no allowed outcome     *)
(* satisfies.                                                                              *)
EXTENDS Staging, Json, IOUtils

VARIABLES blk, tid, l, bad
tvars == <<blk, tid, l, bad>>

Traces == ndJsonDeserialize(IOEnv.TRACE_FILE)
NT == Len(Traces)
BlockSize == 256
NBlocks == (NT + BlockSize - 1) \div BlockSize

Init == blk = 0 /\ tid = 0 /\ l = 0 /\ bad = {} /\ SInit
PickBlock == blk = 0 /\ tid = 0 /\ \E b \in 1..NBlocks : blk' = b /\ tid' = 0 /\ UNCHANGED <<l, bad, svars>>
PickTrace == blk > 0 /\ tid = 0
             /\ \E t \in ((blk - 1) * BlockSize + 1)..VMin2(blk * BlockSize, NT) : tid' = t /\ blk' = blk
             /\ l' = 1 /\ UNCHANGED <<bad, svars>>

\* ---- the event as an action of Staging ----------------------------------------------------
SOOps == {"so_create", "so_write", "so_exit", "so_stageout"}
SIOps == {"si_create", "si_exit", "si_cleanup"}
PureOps == {"pjoin", "expand", "jrt", "dispatch"}
TdSet == Dirs \cup {"none"}

\* the documentation fixes the directory of sf.path only: its name is taken from the observation
TNm(e) == IF e.td \notin {"none", e.d} /\ e.res.err = "none" /\ e.res.path[2] \in Names THEN e.res.path[2] ELSE e.nm

InScope(e) ==
    CASE e.op = "so_create"   -> e.o \in Objs /\ FreshObj(e.o) /\ e.d \in Dirs /\ e.nm \in Names /\ e.td \in TdSet
      [] e.op = "so_write"    -> e.o \in Objs /\ so[e.o].st \in {"open", "exited"} /\ so[e.o].tmp[1] \in dirs /\ e.c \in Contents
      [] e.op = "so_exit"     -> e.o \in Objs /\ so[e.o].st = "open"
      [] e.op = "so_stageout" -> e.o \in Objs /\ so[e.o].st \in {"open", "exited"}
      [] e.op = "si_create"   -> e.o \in Objs /\ FreshObj(e.o) /\ e.d \in Dirs /\ e.nm \in Names /\ e.td \in TdSet
      [] e.op = "si_exit"     -> e.o \in Objs /\ si[e.o].st = "open"
      [] e.op = "si_cleanup"  -> e.o \in Objs /\ si[e.o].st \in {"open", "exited"}
      [] e.op = "put"         -> e.d \in dirs /\ e.nm \in Names /\ e.c \in Contents
      [] e.op = "rmdir"       -> e.d \in dirs \ {"r", cwd} /\ EmptyDir(fs, e.d) /\ Children(e.d) \cap dirs = {}
      [] e.op = "push"        -> e.k \in Stacks /\ e.d \in Dirs
      [] e.op \in {"pop", "getstack"} -> e.k \in Stacks
      [] e.op = "mk"          -> e.d \in TdSet
      [] e.op = "jwrite"      -> e.d \in dirs /\ e.nm \in Names /\ e.c \in JDocs
      [] e.op = "jread"       -> e.d \in Dirs /\ e.nm \in Names
      [] e.op \in PureOps     -> TRUE
      [] OTHER -> FALSE

Act(e) ==
    \/ e.op = "so_create"   /\ SOCreate(e.o, e.d, e.nm, e.td, e.must, TNm(e))
    \/ e.op = "so_write"    /\ SOWrite(e.o, e.c)
    \/ e.op = "so_exit"     /\ SOExit(e.o, e.exc)
    \/ e.op = "so_stageout" /\ SOStageOut(e.o)
    \/ e.op = "si_create"   /\ SICreate(e.o, e.d, e.nm, e.td, TNm(e))
    \/ e.op = "si_exit"     /\ SIExit(e.o, e.exc)
    \/ e.op = "si_cleanup"  /\ SICleanup(e.o)
    \/ e.op = "put"         /\ UserPut(e.d, e.nm, e.c)
    \/ e.op = "rmdir"       /\ RmDir(e.d)
    \/ e.op = "push"        /\ DPush(e.k, e.d)
    \/ e.op = "pop"         /\ DPop(e.k)
    \/ e.op = "getstack"    /\ DGetStack(e.k)
    \/ e.op = "mk"          /\ MkFromFile(e.d, e.nm, e.af)
    \/ e.op = "jwrite"      /\ JWrite(e.d, e.nm, e.c)
    \/ e.op = "jread"       /\ JRead(e.d, e.nm)
    \/ e.op = "pjoin"       /\ PathJoin(e.args)
    \/ e.op = "expand"      /\ Expand(e.comps)
    \/ e.op = "jrt"         /\ JRoundTrip(e.v)
    \/ e.op = "dispatch"    /\ Dispatch(e.parts, e.kw)

\* ---- observed = primed variables, clause by clause ----------------------------------------
\* the two paths an object call is about (after the step): final / source, and sf.path
P1(e) == IF e.op \in SOOps /\ so'[e.o].st # "none" THEN so'[e.o].fin
         ELSE IF e.op \in SIOps /\ si'[e.o].st # "none" THEN si'[e.o].src ELSE NoPath
P2(e) == IF e.op \in SOOps /\ so'[e.o].st # "none" THEN so'[e.o].tmp
         ELSE IF e.op \in SIOps /\ si'[e.o].st # "none" THEN si'[e.o].tmp ELSE NoPath
Seen(e, p) == e.obs.files[p[1]][p[2]]

Clauses == {"unexpected_error", "not_rejected", "exception_swallowed", "sf_path", "final_path", "temp_path", "files",
            "dirs", "cwd", "stack", "returned_stack", "stray_files", "value"}

Clause(c, e) ==
    CASE c = "unexpected_error"    -> e.res.err = "rejected" => res'.err \in {"rejected", "any"}
      [] c = "not_rejected"        -> e.res.err = "none" => res'.err \in {"none", "any"}
      \* O5: the context manager lets the caller's exception through
      [] c = "exception_swallowed" -> e.res.err # "suppressed"
      \* O2 / I2 / the temporary file lives in tmpdir
      [] c = "sf_path"             -> (e.op \in {"so_create", "si_create"} /\ e.res.err = "none" /\ res'.err = "none")
                                         => e.res.path = res'.path
      \* O1 O3 O4 / I1 I3: what is at the final (source) path and at sf.path after the call
      [] c = "final_path"          -> P1(e) # NoPath => Seen(e, P1(e)) = Get(fs', P1(e))
      [] c = "temp_path"           -> (P2(e) # NoPath /\ P2(e) # P1(e)) => Seen(e, P2(e)) = Get(fs', P2(e))
      [] c = "files"               -> \A p \in (Dirs \X Names) \ {P1(e), P2(e)} : Seen(e, p) = Get(fs', p)
      [] c = "dirs"                -> VRange(e.obs.dirs) = dirs'                                       \* M1
      [] c = "cwd"                 -> e.obs.cwd = cwd'                                                 \* D1 D2
      [] c = "stack"               -> \A k \in Stacks : e.obs.stacks[k] = ds'[k]                       \* D1 D2 D3
      [] c = "returned_stack"      -> e.op = "getstack" => e.res.stack = res'.stack                    \* D3
      \* nothing but the modelled files and directories is ever created ("no temporary file is left")
      [] c = "stray_files"         -> e.obs.extra = 0
      [] c = "value"               ->
            CASE e.op = "jread"    -> (e.res.err = "none" /\ res'.err = "none") => e.res.val = res'.val          \* J1
              [] e.op = "pjoin"    -> (e.res.err = "none" /\ res'.err = "none") => e.res.val \in res'.allowed    \* P1
              [] e.op = "jrt"      -> (e.res.err = "none" /\ res'.err = "none") => e.res.val \in res'.allowed    \* J1
              [] e.op = "expand"   -> (e.res.err = "none" /\ res'.err = "none") => EXAccepts(res', e.res.val)    \* E1
              [] e.op = "dispatch" -> DPAccepts(res', e.res.err, e.res.val)                                      \* T1
              [] OTHER             -> TRUE

Matched(e) == Act(e) /\ \A c \in Clauses : Clause(c, e)

\* the clauses no allowed outcome of the action satisfies
Diagnose(e) ==
    LET f == {c \in Clauses : ~ENABLED (Act(e) /\ Clause(c, e))}
    IN {<<"clause", c>> : c \in (IF f = {} THEN {"combination"} ELSE f)}

\* structural class of the failing step (for the signature)
B(x) == IF x THEN "yes" ELSE "no"
DirKind(d) == IF d = "none" THEN "none" ELSE IF d \in dirs THEN "exists" ELSE IF CanMake(d) THEN "missing" ELSE "blocked"
Class(e) ==
    CASE e.op \in {"so_exit", "so_stageout"} ->
             LET x == so[e.o] IN {<<"staged", B(x.staged)>>, <<"tempfile", B(Has(fs, x.tmp))>>, <<"exc", B(e.exc)>>,
                                  <<"must", B(x.must)>>, <<"again", B(x.moved)>>, <<"finaldir", DirKind(x.fin[1])>>,
                                  <<"finalfile", B(Has(fs, x.fin))>>}
      [] e.op \in {"so_create", "si_create"} ->
             {<<"tmpdir", IF e.td = e.d THEN "same" ELSE DirKind(e.td)>>, <<"dir", DirKind(e.d)>>,
              <<"file", B(e.d \in Dirs /\ e.nm \in Names /\ Has(fs, <<e.d, e.nm>>))>>}
      [] e.op \in {"si_exit", "si_cleanup"} ->
             LET x == si[e.o] IN {<<"staged", B(x.staged)>>, <<"copied", B(x.copied)>>, <<"exc", B(e.exc)>>,
                                  <<"tempfile", B(Has(fs, x.tmp))>>}
      [] e.op = "so_write" -> {<<"staged", B(so[e.o].staged)>>}
      [] e.op = "push" -> {<<"dir", DirKind(e.d)>>, <<"depth", IF ds[e.k] = <<>> THEN "0" ELSE "n">>}
      [] e.op \in {"pop", "getstack"} ->
             {<<"depth", IF ds[e.k] = <<>> THEN "0" ELSE "n">>,
              <<"dir", IF ds[e.k] = <<>> THEN "none" ELSE DirKind(ds[e.k][Len(ds[e.k])])>>}
      [] e.op = "mk" -> {<<"dir", DirKind(e.d)>>, <<"allow_fail", B(e.af)>>}
      [] e.op \in {"jread", "jwrite", "put"} -> {<<"file", IF fs[e.d][e.nm] = Absent THEN "absent" ELSE IF fs[e.d][e.nm] \in JDocs THEN "json" ELSE "other">>}
      [] OTHER -> {}

Step ==
    /\ tid > 0 /\ bad = {} /\ l <= Len(Traces[tid].ev)
    /\ UNCHANGED <<blk, tid>>
    /\ LET e == Traces[tid].ev[l] IN
       IF ~InScope(e)
       THEN /\ bad' = {<<"clause", "out_of_scope">>, <<"step", ToString(l)>>}
            /\ UNCHANGED <<l, svars>>
       ELSE \/ /\ Matched(e)
               /\ l' = l + 1 /\ UNCHANGED bad
            \/ /\ ~ENABLED Matched(e)
               /\ bad' = Diagnose(e) \cup Class(e) \cup {<<"step", ToString(l)>>}
               /\ UNCHANGED <<l, svars>>

Next == PickBlock \/ PickTrace \/ Step

\* every invariant of Staging is evaluated at every step of every trace
TraceInv == FsInv /\ ObjInv

Check == /\ TraceInv \/ PrintT(<<"REJECT", ToJson([id |-> Traces[tid].id, failing |-> {<<"clause", "spec_invariant">>}])>>)
         /\ bad # {} => PrintT(<<"REJECT", ToJson([id |-> Traces[tid].id, failing |-> bad])>>)
         \* the specification is nondeterministic and part of its state is not observable (has the object staged out
         \* already?): a trace is accepted when SOME resolution reaches its end - the harness discards the REJECT lines
         \* of traces that also have an ACCEPT line
         /\ (tid > 0 /\ bad = {} /\ l > Len(Traces[tid].ev)) => PrintT(<<"ACCEPT", ToJson([id |-> Traces[tid].id])>>)
=============================================================================
