------------------------------- MODULE Stats -------------------------------
(* Property-level specification of the statistics helpers of esutil.stat.util    *)
(*   wmom, wmedian, sigma_clip, interplin, get_stats, cov2cor, cor2cov           *)
(* over EXACT RATIONALS, plus implementation-shaped models of the three little   *)
(* mechanisms among them (cumulative-weight loop of wmedian, the clipping        *)
(* iteration, the searchsorted index selection of interplin).                    *)
(*                                                                               *)
(* Data live on an integer lattice (the harness maps value = (x+off)*unit with a *)
(* dyadic unit, weight = w*wunit); every real-valued result is a rational        *)
(* <<num, den>> (VU.tla, normalised, den > 0).  Moments are computed from the    *)
(* integer sums  W = sum w, A = sum w x, B = sum w x^2  so that 32-bit integers  *)
(* suffice; StatsMC.tla checks over the whole bounded space that they agree      *)
(* with the textbook definitions written with RAdd/RMul/RDiv (SDef...).          *)
(* Standard deviations and errors are specified through their SQUARES.           *)
(*                                                                               *)
(* An observed real is a record [k : {"rat","off","nan","sent"}, n, d : Int]:    *)
(* the harness converts the float it saw to an exact fraction, maps it back to   *)
(* lattice units, and snaps it to the nearest small-denominator rational when    *)
(* (and only when) it is within rounding of it ("rat"); everything else is       *)
(* "off" (or "nan"; "sent" = the -9999 sentinel, used by BinStats.tla).          *)
(*                                                                               *)
(* Every case of StatsMC.tla / StatsTrace.tla also carries `rep` (the            *)
(* REPRESENTATION in which each array argument is handed to the code: element    *)
(* type, byte order, python list, strided / reversed / read-only view) and `lat` *)
(* (the LATTICE value = (x + OFF) * unit, |OFF| up to 2^40).  Neither changes an  *)
(* abstract value, so NO operator of this module reads them: every expectation   *)
(* is representation- and offset-independent (mean-type outputs are shifted back *)
(* exactly by the harness, deviation-type outputs are shift invariant) - that is *)
(* the specification of these two dimensions.  What does depend on the lattice   *)
(* is how sharply a float determines a rational: on large-offset lattices and    *)
(* for float32 data an observation may be an INTERVAL (SObsEqI), and the         *)
(* clipping test is specified up to the tolerance c.tol (SClipKeepT).            *)
(*                                                                               *)
(* Two more fields that NO expectation reads (round 3):                           *)
(*   `pr`  the PRINTING / VERBOSITY options of the call (entry point get_stats or  *)
(*         print_stats, doprint, nsigma_print = the multiple of the error the      *)
(*         printed table shows, verbose, silent): what is printed is not part of   *)
(*         the statement and printing does not change a returned value.  The one   *)
(*         clause that reads it: an entry point that only prints may return        *)
(*         nothing (SGstatsFailing, o.ret).                                        *)
(*   `K`, `lay`  SCALE: the arrays handed to the code are K replicas of the        *)
(*         pattern (x, w) of the case, laid out tiled / in blocks / shuffled.      *)
(*         SScaleLaw (checked by TLC in StatsMC.tla on every pattern, K <= 3)      *)
(*         is why such a case is decided by the pattern alone: median, mean,       *)
(*         deviation, min and max are those of the pattern, every error-type       *)
(*         output squared is 1/K of the pattern's (the harness records it in       *)
(*         units of 1/K).                                                          *)
(* All operators are prefixed with S (Hist.tla is extended next to this module). *)
EXTENDS VU

\* ---- observed reals ---------------------------------------------------------------
SObsEq(r, e)  == r.k = "rat" /\ r.n = e[1] /\ r.d = e[2]          \* e normalised
SObsIn(r, E)  == \E e \in E : SObsEq(r, e)
\* Interval observations (large-offset lattices, float32 input: the tolerance "to rounding" of the operand
\* scale, offset included, no longer isolates one rational):  [k |-> "ivl", n |-> lo, d |-> hi, K |-> K] is the
\* closed interval [lo/K, hi/K] (rounded outward by the harness); the exact expectation must lie inside.
SObsEqI(r, e) == SObsEq(r, e) \/ (r.k = "ivl" /\ r.n * e[2] <= e[1] * r.K /\ e[1] * r.K <= r.d * e[2])
SObsInI(r, E) == \E e \in E : SObsEqI(r, e)
SSign(k)      == IF k < 0 THEN -1 ELSE IF k > 0 THEN 1 ELSE 0
SOnes(n)      == [i \in 1..n |-> 1]

\* ---- integer moment sums over the positions P of sequences x (data), w (weights) --
SSumW(w, P)      == VSumF(LAMBDA i : w[i], P)
SSumWX(x, w, P)  == VSumF(LAMBDA i : w[i] * x[i], P)
SSumWXX(x, w, P) == VSumF(LAMBDA i : w[i] * x[i] * x[i], P)

\* weighted mean  sum(w x)/sum(w)
SMean(x, w, P) == RNorm(SSumWX(x, w, P), SSumW(w, P))

\* weighted variance about the rational mu = <<p, q>> :  sum w (x-mu)^2 / sum w
SVarAbout(x, w, P, mu) ==
    RNorm(VSumF(LAMBDA i : w[i] * (mu[2] * x[i] - mu[1]) * (mu[2] * x[i] - mu[1]), P),
          mu[2] * mu[2] * SSumW(w, P))
\* about its own mean: (W B - A^2)/W^2
SVar(x, w, P) == LET W == SSumW(w, P)  A == SSumWX(x, w, P)  B == SSumWXX(x, w, P)
                 IN RNorm(W * B - A * A, W * W)

\* the two documented error conventions, squared
SErr2Inv(w, P) == RNorm(1, SSumW(w, P))                              \* calcerr=False: 1/sum(w)
SErr2Calc(x, w, P, mu) ==                                            \* calcerr=True: sum w^2 (x-mu)^2 / (sum w)^2
    LET W == SSumW(w, P)
    IN RNorm(VSumF(LAMBDA i : w[i] * w[i] * (mu[2] * x[i] - mu[1]) * (mu[2] * x[i] - mu[1]), P),
             mu[2] * mu[2] * W * W)
\* unweighted standard error squared: var/n
SErr2Plain(x, P) == RDiv(SVar(x, SOnes(Len(x)), P), RInt(Cardinality(P)))

\* ---- the same quantities written as their textbook definitions (rational sums) ----
SRSumF(f(_), S) == LET RECURSIVE go(_)
                       go(T) == IF T = {} THEN <<0, 1>>
                                ELSE LET i == CHOOSE y \in T : TRUE IN RAdd(f(i), go(T \ {i}))
                   IN go(S)
SDefMean(x, w, P) == RDiv(SRSumF(LAMBDA i : RInt(w[i] * x[i]), P), SRSumF(LAMBDA i : RInt(w[i]), P))
SDefVarAbout(x, w, P, mu) ==
    RDiv(SRSumF(LAMBDA i : RMul(RInt(w[i]), RSq(RSub(RInt(x[i]), mu))), P), SRSumF(LAMBDA i : RInt(w[i]), P))
SDefErr2Calc(x, w, P, mu) ==
    RDiv(SRSumF(LAMBDA i : RMul(RInt(w[i] * w[i]), RSq(RSub(RInt(x[i]), mu))), P),
         RSq(SRSumF(LAMBDA i : RInt(w[i]), P)))

\* ---- order statistics ---------------------------------------------------------------
\* positions of P ordered by (value, position)
SSortPos(x, P) ==
    LET RECURSIVE go(_)
        go(T) == IF T = {} THEN <<>>
                 ELSE LET m == CHOOSE p \in T : \A q \in T \ {p} : x[p] < x[q] \/ (x[p] = x[q] /\ p < q)
                      IN <<m>> \o go(T \ {m})
    IN go(P)
SMinOf(x, P) == VSetMin({x[i] : i \in P})
SMaxOf(x, P) == VSetMax({x[i] : i \in P})
\* plain median of the members P (mean of the two middle values for an even count)
SMedian(x, P) == LET s == SSortPos(x, P)  n == Len(s)
                 IN IF n % 2 = 1 THEN RInt(x[s[(n + 1) \div 2]])
                    ELSE RNorm(x[s[n \div 2]] + x[s[n \div 2 + 1]], 2)

\* weighted median: the smallest sorted value whose cumulative weight reaches half
\* the total  (2 cum >= W); ties in value cannot change the returned VALUE
SCum(x, w, s, k) == VSumF(LAMBDA j : w[s[j]], 1..k)
SWMedian(x, w) ==
    LET s == SSortPos(x, DOMAIN x)
        W == SSumW(w, DOMAIN x)
        k == CHOOSE kk \in 1..Len(s) : 2 * SCum(x, w, s, kk) >= W /\ \A j \in 1..(kk - 1) : 2 * SCum(x, w, s, j) < W
    IN x[s[k]]
\* mechanism (stat.util.wmedian): sum = W - w[s0]; while sum > W/2: k += 1; sum -= w[s[k]]
SMedInit(x, w)     == [k |-> 1, sum |-> SSumW(w, DOMAIN x) - w[SSortPos(x, DOMAIN x)[1]]]
SMedGoesOn(x, w, st) == 2 * st.sum > SSumW(w, DOMAIN x)
SMedStep(x, w, st) == [k |-> st.k + 1, sum |-> st.sum - w[SSortPos(x, DOMAIN x)[st.k + 1]]]

\* ---- SCALE: K replicas of a pattern -----------------------------------------------------
\* tiled: x1..xn x1..xn ... ; in blocks: x1 (K times) x2 (K times) ... (any other layout is a permutation of these:
\* no definition above depends on the order of the positions - the statistics are sums over a set, the median sorts)
STile(x, K)  == [i \in 1..(K * Len(x)) |-> x[((i - 1) % Len(x)) + 1]]
SBlock(x, K) == [i \in 1..(K * Len(x)) |-> x[((i - 1) \div K) + 1]]
\* the statistics of K replicas from those of the pattern: cumulative weight reaches half the total at the same sorted
\* value; same mean / deviation / extremes; squared errors (all three conventions) divided by K
\* (Mus: supplied means about which the moments may be taken)
SScaleLawOn(x, w, X, Wt, K, Mus) ==
    LET P == DOMAIN x   Q == DOMAIN X   m == SMean(x, w, P)
    IN /\ SWMedian(X, Wt) = SWMedian(x, w)
       /\ \A mu \in Mus : /\ SVarAbout(X, Wt, Q, mu) = SVarAbout(x, w, P, mu)
                           /\ RMul(SErr2Calc(X, Wt, Q, mu), RInt(K)) = SErr2Calc(x, w, P, mu)
       /\ SMean(X, Wt, Q) = m /\ SVar(X, Wt, Q) = SVar(x, w, P)
       /\ SMinOf(X, Q) = SMinOf(x, P) /\ SMaxOf(X, Q) = SMaxOf(x, P)
       /\ RMul(SErr2Calc(X, Wt, Q, m), RInt(K)) = SErr2Calc(x, w, P, m)
       /\ RMul(SErr2Inv(Wt, Q), RInt(K)) = SErr2Inv(w, P)
       /\ RMul(SErr2Plain(X, Q), RInt(K)) = SErr2Plain(x, P)
       /\ SVar(X, SOnes(Len(X)), Q) = SVar(x, SOnes(Len(x)), P) /\ SMean(X, SOnes(Len(X)), Q) = SMean(x, SOnes(Len(x)), P)
SScaleLaw(x, w, K, Mus) == /\ SScaleLawOn(x, w, STile(x, K), STile(w, K), K, Mus)
                           /\ SScaleLawOn(x, w, SBlock(x, K), SBlock(w, K), K, Mus)

\* ---- sigma clipping -------------------------------------------------------------------
\* c = [x, w : Seq(Int), hasw : BOOLEAN, nsn, nsd : Nat (nsig = nsn/nsd), niter : Nat, tol : <<p, q>> (see SClipKeepT)]
\* (w = all ones when hasw is FALSE).  Over the current set S:
\*    |x_i - m| < nsig * s   <=>   (W x_i - A)^2 nsd^2 < nsn^2 (W B - A^2)
\* A point exactly on the boundary (equality; includes every point when the deviation
\* is 0) may be kept or discarded: sqrt and the product round (DESIGN 4.3).
SClipLhs(c, S, i) == LET W == SSumW(c.w, S)  A == SSumWX(c.x, c.w, S)
                     IN (W * c.x[i] - A) * (W * c.x[i] - A) * c.nsd * c.nsd
SClipRhs(c, S)    == LET W == SSumW(c.w, S)  A == SSumWX(c.x, c.w, S)  B == SSumWXX(c.x, c.w, S)
                     IN c.nsn * c.nsn * (W * B - A * A)
SClipKeep(c, S)   == {i \in S : SClipLhs(c, S, i) < SClipRhs(c, S)}
SClipTies(c, S)   == {i \in S : SClipLhs(c, S, i) = SClipRhs(c, S)}
\* the sets "points strictly within nsig deviations" may evaluate to
SClipCands(c, S)  == {SClipKeep(c, S) \cup T : T \in SUBSET SClipTies(c, S)}
\* one iteration from S: nothing survives -> stop, S stands (the alternative reading
\* "the empty set is the result" is accepted too); nothing discarded -> S; else the survivors
SClipSucc(c, S)   == UNION {IF T = {} THEN {S, {}} ELSE {T} : T \in SClipCands(c, S)}
SClipStops(c, S)  == S = {} \/ \E T \in SClipCands(c, S) : T = {} \/ T = S
\* the same two relations as predicates (no enumeration of SUBSET Ties: a trace with 24 tied points
\* must not cost 2^24 evaluations); StatsMC!ClipPredsAgree checks them against the set forms
SClipInCands(c, S, T) == SClipKeep(c, S) \subseteq T /\ T \subseteq (SClipKeep(c, S) \cup SClipTies(c, S))
SClipInSucc(c, S, U)  == (U # {} /\ SClipInCands(c, S, U)) \/ ((U = S \/ U = {}) /\ SClipKeep(c, S) = {})
SClipStopsP(c, S)     == S = {} \/ SClipKeep(c, S) = {} \/ SClipKeep(c, S) \cup SClipTies(c, S) = S
\* every subset the procedure may report after at most k iterations
RECURSIVE SClipAfter(_, _, _)
\* (constant data: every point is a tie in S and in each of its subsets, so the general recursion
\* below yields exactly SUBSET S - written out, because enumerating it costs 3^|S| evaluations)
SClipConstant(c, S) == \A i, j \in S : c.x[i] = c.x[j]
SClipAfter(c, S, k) == IF k = 0 \/ S = {} THEN {S}
                       ELSE IF SClipConstant(c, S) THEN SUBSET S
                       ELSE UNION {IF T = S THEN {S} ELSE SClipAfter(c, T, k - 1) : T \in SClipSucc(c, S)}
SClipFinals(c) == SClipAfter(c, DOMAIN c.x, c.niter)
SClipEnumMax == 8      \* SClipFinals is enumerated up to this many data only (cost up to 3^n)

\* ---- sigma clipping where mean and deviation are themselves known only "to rounding" ------------
\* On a lattice with a large offset (value = (x + OFF) * unit, OFF up to 2^40) or with float32 data the
\* current mean m and deviation s are determined to tol = 16 ulp of the operand scale (offset included)
\* only, c.tol = <<p, q>> >= 0 in lattice units (<<0, 1>> on the small double-precision lattices: exact
\* judgement, the operators below then coincide with the exact ones - StatsMC!ClipTolZeroAgrees).
\* A point is SURELY strictly within nsig deviations when |x_i - m| + tol (1 + nsig) < nsig s, surely
\* not when |x_i - m| - tol (1 + nsig) > nsig s, and FREE (kept or discarded) otherwise.  In units of
\* 1/(W nsd):  d_i = |W x_i - A| nsd,  nsig s = sqrt(R),  R = nsn^2 (W B - A^2),  E = ceil(tol (nsd + nsn) W).
SClipTolE(c, S)   == (c.tol[1] * (c.nsn + c.nsd) * SSumW(c.w, S) + c.tol[2] - 1) \div c.tol[2]
SClipDev(c, S, i) == VAbs(SSumW(c.w, S) * c.x[i] - SSumWX(c.x, c.w, S)) * c.nsd
SClipKeepT(c, S)  == LET E == SClipTolE(c, S)  R == SClipRhs(c, S)
                     IN {i \in S : (SClipDev(c, S, i) + E) * (SClipDev(c, S, i) + E) < R}
SClipFreeT(c, S)  == LET E == SClipTolE(c, S)  R == SClipRhs(c, S)
                     IN {i \in S : LET d == SClipDev(c, S, i)
                                   IN (d + E) * (d + E) >= R /\ (d <= E \/ (d - E) * (d - E) <= R)}
SClipInCandsT(c, S, T) == SClipKeepT(c, S) \subseteq T /\ T \subseteq (SClipKeepT(c, S) \cup SClipFreeT(c, S))
SClipInSuccT(c, S, U)  == (U # {} /\ SClipInCandsT(c, S, U)) \/ ((U = S \/ U = {}) /\ SClipKeepT(c, S) = {})
SClipStopsPT(c, S)     == S = {} \/ SClipKeepT(c, S) = {} \/ SClipKeepT(c, S) \cup SClipFreeT(c, S) = S
SClipCandsT(c, S) == {SClipKeepT(c, S) \cup T : T \in SUBSET SClipFreeT(c, S)}
SClipSuccT(c, S)  == UNION {IF T = {} THEN {S, {}} ELSE {T} : T \in SClipCandsT(c, S)}
RECURSIVE SClipAfterT(_, _, _)
SClipAfterT(c, S, k) == IF k = 0 \/ S = {} THEN {S}
                        ELSE IF SClipConstant(c, S) THEN SUBSET S
                        ELSE UNION {IF T = S THEN {S} ELSE SClipAfterT(c, T, k - 1) : T \in SClipSuccT(c, S)}
SClipFinalsT(c) == SClipAfterT(c, DOMAIN c.x, c.niter)

\* ---- sigma clipping on a TICK lattice: scatter of a few ulp of the offset (round 4) -----------------------
\* Data (x + OFF) * unit with the lattice unit EQUAL to the spacing of the floating-point numbers at OFF (time stamps that
\* agree to the clock tick, float32 data with near-identical values, integers near 2^53).  A tolerance "mean and deviation
\* known to tol" decides nothing there (every point is within tol of the boundary), but on such a lattice the computed mean
\* is itself a lattice point j (every floating-point number near OFF is one), |j - m| <= tol, the differences x_i - j are
\* exact, and the deviation taken about the computed mean is  sqrt(Q(j) / W),  Q(j) = sum w (x - j)^2  (up to a RELATIVE
\* rounding: only exact ties are free).  So one round from S yields, for some admissible j,
\*      {i : |x_i - j| < nsig sqrt(Q(j)/W)}   <=>   (x_i - j)^2 nsd^2 W < nsn^2 Q(j)
\* - or what the exact relation above yields (an implementation that carries more precision).  In particular (the least
\* squared distance is at most the mean squared distance, about ANY centre j) for nsig > 1 some point always survives a round.
\* A case is judged this way iff it carries the field `grid`.
SGrid(c)           == "grid" \in DOMAIN c
SGridMeans(c, S)   == LET W == SSumW(c.w, S)  A == SSumWX(c.x, c.w, S)  lo == VSetMin({c.x[i] : i \in S})  hi == VSetMax({c.x[i] : i \in S})
                      IN {j \in (lo - (c.tol[1] \div c.tol[2]) - 1)..(hi + (c.tol[1] \div c.tol[2]) + 1) : VAbs(j * W - A) * c.tol[2] <= c.tol[1] * W}
SGridQ(c, S, j)    == VSumF(LAMBDA i : c.w[i] * (c.x[i] - j) * (c.x[i] - j), S)
SGridLhs(c, S, j, i) == (c.x[i] - j) * (c.x[i] - j) * c.nsd * c.nsd * SSumW(c.w, S)
SGridKeep(c, S, j) == LET R == c.nsn * c.nsn * SGridQ(c, S, j) IN {i \in S : SGridLhs(c, S, j, i) < R}
SGridTies(c, S, j) == LET R == c.nsn * c.nsn * SGridQ(c, S, j) IN {i \in S : SGridLhs(c, S, j, i) = R}
SClipInSuccG(c, S, U) == S # {} /\ \E j \in SGridMeans(c, S) :
                            \/ U # {} /\ SGridKeep(c, S, j) \subseteq U /\ U \subseteq (SGridKeep(c, S, j) \cup SGridTies(c, S, j))
                            \/ (U = S \/ U = {}) /\ SGridKeep(c, S, j) = {}
SClipStopsG(c, S)     == S = {} \/ \E j \in SGridMeans(c, S) :
                            SGridKeep(c, S, j) = {} \/ SGridKeep(c, S, j) \cup SGridTies(c, S, j) = S
\* the relations the acceptance of a recorded iteration uses: tick lattice - grid or exact; else tolerance-aware
SClipInSuccX(c, S, U) == IF SGrid(c) THEN SClipInSucc(c, S, U) \/ SClipInSuccG(c, S, U) ELSE SClipInSuccT(c, S, U)
SClipStopsX(c, S)     == IF SGrid(c) THEN SClipStopsP(c, S) \/ SClipStopsG(c, S) ELSE SClipStopsPT(c, S)

\* statistics of a reported subset F (# {}): the error of the weighted variant is
\* not named by the statement - either documented convention is accepted
SClipMean(c, F) == SMean(c.x, c.w, F)
SClipVar(c, F)  == SVar(c.x, c.w, F)
\* o.err2 is the observation mapped as a variance-like quantity, o.err2i mapped as 1/weight
SClipErrOK(c, F, o) == IF c.hasw THEN \/ SObsEqI(o.err2, SErr2Calc(c.x, c.w, F, SMean(c.x, c.w, F)))
                                      \/ SObsEqI(o.err2i, SErr2Inv(c.w, F))
                       ELSE SObsEqI(o.err2, RDiv(SVar(c.x, c.w, F), RInt(Cardinality(F))))

\* ---- linear inter/extrapolation -----------------------------------------------------
\* table xs (strictly increasing), vs; query u = <<p, q>>
SLine(xs, vs, k, u) ==                          \* the straight line through nodes k, k+1 at u
    RAdd(RInt(vs[k]), RDiv(RMul(RSub(u, RInt(xs[k])), RInt(vs[k + 1] - vs[k])), RInt(xs[k + 1] - xs[k])))
SSegments(xs, u) ==                             \* segments whose line the statement allows at u
    LET n == Len(xs)
        inside == {k \in 1..(n - 1) : RLe(RInt(xs[k]), u) /\ RLe(u, RInt(xs[k + 1]))}
    IN IF inside # {} THEN inside ELSE IF RLt(u, RInt(xs[1])) THEN {1} ELSE {n - 1}
SInterpVals(xs, vs, u) == {SLine(xs, vs, k, u) : k \in SSegments(xs, u)}
\* mechanism (stat.util.interplin): xm = searchsorted(x, u) - 1, clamped to [0, n-2]
SSearchSorted(xs, u) == Cardinality({j \in DOMAIN xs : RLt(RInt(xs[j]), u)})      \* side='left'
SInterpMech(xs, vs, u) ==
    LET n   == Len(xs)
        xm0 == SSearchSorted(xs, u) - 1
        xm1 == IF xm0 >= n - 1 THEN n - 2 ELSE xm0
        xm  == IF xm1 < 0 THEN 0 ELSE xm1
    IN SLine(xs, vs, xm + 1, u)

\* ---- SCALE COVARIANCE of interpolation (round 4) ------------------------------------------------
\* Rescaling the abscissae (table nodes AND query points) by s > 0 does not change an interpolated value, rescaling
\* the table values by t multiplies it by t: which segment a query point falls in, and where in it, is a matter of
\* RATIOS of abscissa differences only.  An interpolation case carries the binary exponents sx, sv of the factors
\* s = 2^sx, t = 2^sv (2^-40 .. 2^40: powers of two keep every lattice value exact) by which the harness rescales what
\* it hands to the code and divides what comes back; no expectation reads them - SInterpScaleLaw (checked by TLC in
\* StatsMC.tla on every table, integer factors) is why the unscaled table decides the rescaled case.
SScaleSeq(a, s) == [i \in DOMAIN a |-> s * a[i]]
SInterpScaleLaw(xs, vs, us, s, t) ==
    \A q \in DOMAIN us :
        SInterpVals(SScaleSeq(xs, s), SScaleSeq(vs, t), RMul(RInt(s), us[q])) = {RMul(RInt(t), v) : v \in SInterpVals(xs, vs, us[q])}

\* ---- covariance <-> correlation -------------------------------------------------------
\* m : symmetric integer matrix (sequence of rows) with positive diagonal
SCor2(m, i, j) == RNorm(m[i][j] * m[i][j], m[i][i] * m[j][j])        \* cor^2 = cov^2/(c_ii c_jj)

\* =====================================================================================
\* Acceptance of recorded observations: every operator returns the set of names of
\* the clauses the observation violates ({} = accepted).
\* =====================================================================================

\* ---- wmom ----------------------------------------------------------------------------
\* c = [x : Seq(columns), w : Seq(columns) (one column = 1-d weights shared by all),
\*      hasmu : BOOLEAN, mu : <<p,q>>, calcerr, sdev : BOOLEAN]
\* o = [err : STRING, mean, err2, var : Seq(obs real)]  (var = <<>> unless sdev)
SWCol(c, j) == IF Len(c.w) = 1 THEN c.w[1] ELSE c.w[j]
SWmomCol(c, o, j) ==
    LET x  == c.x[j]   w == SWCol(c, j)   P == DOMAIN x
        m  == SMean(x, w, P)
        \* moments "about the mean": with a supplied mean the statement does not say
        \* which mean - the supplied one (what the docstring describes) or the weighted one
        mus == IF c.hasmu THEN {c.mu, m} ELSE {m}
    IN (IF SObsEqI(o.mean[j], IF c.hasmu THEN c.mu ELSE m) THEN {}
        ELSE {IF c.hasmu THEN "inputmean_not_returned" ELSE "wmean"}) \cup
       (IF c.calcerr THEN (IF SObsInI(o.err2[j], {SErr2Calc(x, w, P, mu) : mu \in mus}) THEN {} ELSE {"werr_calcerr"})
        ELSE (IF SObsEqI(o.err2[j], SErr2Inv(w, P)) THEN {} ELSE {"werr_invsum"})) \cup
       (IF ~c.sdev \/ SObsInI(o.var[j], {SVarAbout(x, w, P, mu) : mu \in mus}) THEN {} ELSE {"wsdev"})
SWmomFailing(c, o) ==
    IF o.err # "none" THEN {"unexpected_error"}
    ELSE LET d == Len(c.x)
         IN IF Len(o.mean) # d \/ Len(o.err2) # d \/ Len(o.var) # (IF c.sdev THEN d ELSE 0) THEN {"shape"}
            ELSE UNION {SWmomCol(c, o, j) : j \in 1..d}

\* ---- wmedian ---------------------------------------------------------------------------
\* c = [x, w : Seq(Int)],  o = [err, val : obs real]
SWmedFailing(c, o) ==
    IF o.err # "none" THEN {"unexpected_error"}
    ELSE IF SObsEqI(o.val, RInt(SWMedian(c.x, c.w))) THEN {} ELSE {"wmedian"}

\* ---- sigma_clip ---------------------------------------------------------------------------
\* o = [err, steps : Seq(Seq(Nat)), mean, var, err2, err2i : obs real]
\*   steps[k+1] = the indices (1-based) reported with niter = k, k = 0..c.niter: the
\*   state of the iteration after k rounds, re-observed through the public call;
\*   mean/var/err2 = the statistics returned together with steps[niter+1].
SIdxOK(c, s) == (\A k \in DOMAIN s : s[k] \in DOMAIN c.x) /\ Cardinality(VRange(s)) = Len(s)
SClipFailing(c, o) ==
    IF o.err # "none" THEN {"unexpected_error"}
    ELSE IF Len(o.steps) # c.niter + 1 \/ \E k \in DOMAIN o.steps : ~SIdxOK(c, o.steps[k]) THEN {"indices_malformed"}
    ELSE LET St(k) == VRange(o.steps[k])
             F     == St(c.niter + 1)
         IN (IF St(1) = DOMAIN c.x THEN {} ELSE {"niter0_not_all"}) \cup
            (IF \A k \in 1..c.niter : St(k + 1) = St(k) \/ SClipInSuccX(c, St(k), St(k + 1))
             THEN {} ELSE {"clip_step"}) \cup
            (IF \A k \in 1..c.niter : (St(k + 1) = St(k) /\ k < c.niter) => St(k + 2) = St(k)
             THEN {} ELSE {"resumed_after_stop"}) \cup
            (IF \A k \in 1..c.niter : St(k + 1) = St(k) => SClipStopsX(c, St(k))
             THEN {} ELSE {"stopped_early"}) \cup
            \* the reported subset is one the procedure may end on: enumerated for small inputs; for larger
            \* ones it follows from the four chain clauses above (F is the last link of the observed chain)
            (IF SGrid(c) \/ Len(c.x) > SClipEnumMax \/ F \in SClipFinalsT(c) THEN {} ELSE {"subset"}) \cup
            (IF F = {} THEN {}
             ELSE (IF SObsEqI(o.mean, SClipMean(c, F)) THEN {} ELSE {"mean_of_subset"}) \cup
                  (IF SObsEqI(o.var, SClipVar(c, F)) THEN {} ELSE {"std_of_subset"}) \cup
                  (IF SClipErrOK(c, F, o) THEN {} ELSE {"err_of_subset"}))

\* ---- interplin ---------------------------------------------------------------------------
\* c = [xs, vs : Seq(Int), us : Seq(<<p,q>>)],  o = [err, vals : Seq(Seq(obs real))]
\*   (vals[1] = one vectorised call, vals[2] = one call per query point)
SInterpFailing(c, o) ==
    IF o.err # "none" THEN {"unexpected_error"}
    ELSE IF \E a \in DOMAIN o.vals : Len(o.vals[a]) # Len(c.us) THEN {"shape"}
    ELSE UNION {LET u == c.us[q]
                    n == Len(c.xs)
                IN IF SObsInI(o.vals[a][q], SInterpVals(c.xs, c.vs, u)) THEN {}
                   ELSE IF RLt(u, RInt(c.xs[1])) THEN {"extrapolation_below"}
                   ELSE IF RLt(RInt(c.xs[n]), u) THEN {"extrapolation_above"}
                   ELSE IF \E k \in 1..n : REq(u, RInt(c.xs[k])) THEN {"at_node"} ELSE {"inside"}
                : a \in DOMAIN o.vals, q \in DOMAIN c.us}

\* ---- get_stats ---------------------------------------------------------------------------
\* c = [mode : {"plain","weights","clip"}, x : Seq(columns), w : Seq(columns) (one column = shared),
\*      calcerr : BOOLEAN (weights mode: FALSE when calcerr=False was passed),
\*      hasw, nsn, nsd, niter (clip mode; one column)]
\*      pr : [entry : {"get_stats", "print_stats"}, doprint, verbose, silent : BOOLEAN, nsp : <<p, q>>] - printing options:
\*           read by no clause but the first one below (stdout / stderr are not observed)]
\* o = [err, ret : {"dict", "none"}, mean, var, err2, err2i, min, max : Seq(obs real)]
\*   ret = "none": the call returned nothing - allowed for the entry point whose job is to print (its docstring promises
\*   the statistics, the statement does not name it); whatever IS returned is judged by the same clauses as get_stats
SGsClipCase(c) == [x |-> c.x[1], w |-> c.w[1], hasw |-> c.hasw, nsn |-> c.nsn, nsd |-> c.nsd, niter |-> c.niter, tol |-> c.tol]
SGstatsCol(c, o, j) ==
    LET x == c.x[j]  P == DOMAIN x  w == IF c.mode = "plain" THEN SOnes(Len(x)) ELSE SWCol(c, j)
        m == SMean(x, w, P)
    IN (IF SObsEqI(o.mean[j], m) THEN {} ELSE {"mean"}) \cup
       (IF SObsEqI(o.var[j], SVar(x, w, P)) THEN {} ELSE {"std"}) \cup
       (IF (IF c.mode = "plain" THEN SObsEqI(o.err2[j], SErr2Plain(x, P))
            ELSE IF c.calcerr THEN SObsEqI(o.err2[j], SErr2Calc(x, w, P, m)) ELSE SObsEqI(o.err2i[j], SErr2Inv(w, P)))
        THEN {} ELSE {"err"}) \cup
       (IF SObsEqI(o.min[j], RInt(SMinOf(x, P))) THEN {} ELSE {"min"}) \cup
       (IF SObsEqI(o.max[j], RInt(SMaxOf(x, P))) THEN {} ELSE {"max"})
SGstatsFailing(c, o) ==
    IF o.err # "none" THEN {"unexpected_error"}
    ELSE IF o.ret = "none" THEN (IF c.pr.entry = "print_stats" THEN {} ELSE {"nothing_returned"})
    ELSE IF \E f \in {o.mean, o.var, o.err2, o.err2i, o.min, o.max} : Len(f) # Len(c.x) THEN {"shape"}
    ELSE IF c.mode # "clip" THEN UNION {SGstatsCol(c, o, j) : j \in 1..Len(c.x)}
    ELSE LET cc == SGsClipCase(c)
             x  == c.x[1]
             \* consistent with sigma_clip: the statistics of one subset the clipping may report;
             \* min/max: the statement does not say of what - whole array or that subset
             fits(F) == F # {} /\ SObsEqI(o.mean[1], SClipMean(cc, F)) /\ SObsEqI(o.var[1], SClipVar(cc, F))
                               /\ SClipErrOK(cc, F, [err2 |-> o.err2[1], err2i |-> o.err2i[1]])
             Fs == {F \in SClipFinalsT(cc) : fits(F)}
         IN IF Fs = {} THEN {"clip_stats"}
            ELSE (IF \E F \in Fs \cup {DOMAIN x} : SObsEqI(o.min[1], RInt(SMinOf(x, F))) THEN {} ELSE {"min"}) \cup
                 (IF \E F \in Fs \cup {DOMAIN x} : SObsEqI(o.max[1], RInt(SMaxOf(x, F))) THEN {} ELSE {"max"})

\* ---- cov2cor / cor2cov ----------------------------------------------------------------------
\* c = [m : Seq(Seq(Int))]
\* o = [err, cor : matrix of [k, n, d, s] (SQUARE of the returned correlation + its sign),
\*      back : matrix of obs reals = cor2cov(cov2cor(m), sqrt(diag m))]
SCovFailing(c, o) ==
    IF o.err # "none" THEN {"unexpected_error"}
    ELSE LET n == Len(c.m)
             shapeok(a) == Len(a) = n /\ \A i \in 1..n : Len(a[i]) = n
         IN IF ~shapeok(o.cor) \/ ~shapeok(o.back) THEN {"shape"}
            ELSE (IF \A i, j \in 1..n : SObsEqI(o.cor[i][j], SCor2(c.m, i, j)) /\ o.cor[i][j].s = SSign(c.m[i][j])
                  THEN {} ELSE {"cor_definition"}) \cup
                 (IF \A i, j \in 1..n : SObsEqI(o.back[i][j], RInt(c.m[i][j])) THEN {} ELSE {"roundtrip"})

\* ---- dispatch ---------------------------------------------------------------------------------
SFailing(op, c, o) ==
    CASE op = "wmom"    -> SWmomFailing(c, o)
      [] op = "wmedian" -> SWmedFailing(c, o)
      [] op = "clip"    -> SClipFailing(c, o)
      [] op = "interp"  -> SInterpFailing(c, o)
      [] op = "gstats"  -> SGstatsFailing(c, o)
      [] op = "cov"     -> SCovFailing(c, o)
      [] OTHER          -> {"unknown_op"}
=============================================================================
