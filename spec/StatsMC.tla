------------------------------- MODULE StatsMC -------------------------------
(* Exhaustive small-scope model for Stats.tla.                                     *)
(*  - Choose... actions enumerate every case of the bounded space, family by       *)
(*    family (Kinds); the chosen cases are exported as JSON and replayed into the  *)
(*    real code;                                                                   *)
(*  - every case also says HOW its arrays are handed to the code: `rep` (one       *)
(*    REPRESENTATION per array argument: element type incl. float32 / integers /   *)
(*    unsigned, non-native byte order, python list, strided / reversed / read-only *)
(*    view) and `lat` (the LATTICE value = (x + OFF) * unit the abstract integers  *)
(*    are mapped to: six small ones, five with |OFF| from 10^8 to 2^40, i.e. data  *)
(*    whose offset is huge relative to their scatter, and six placements of the   *)
(*    values across the whole range of an 8/16/32-bit integer type).  The (rep, lat) tuple  *)
(*    of a case is a row of a strength-2 orthogonal array (DesignCovers) picked by *)
(*    a hash of the case, so that the design is spread over every data structure;  *)
(*    the family "rp" runs a few data sets under EVERY row (or, RepFull, the full  *)
(*    product).  Neither field changes an abstract VALUE: no expectation of        *)
(*    Stats.tla reads them - that is the specification of these two dimensions.    *)
(*    The only thing derived from them is `tol` (clipping cases): the tolerance to *)
(*    which mean and deviation are known on that lattice (Stats!SClipKeepT);       *)
(*  - `pr` (round 3): the PRINTING options of the call - entry point (get_stats /  *)
(*    print_stats), doprint, nsigma_print / nsigma, verbose, silent.  One of the   *)
(*    NPr = 48 combinations is attached to every wm / cl / sc case by a hash, the  *)
(*    family "rp" runs a few data sets under EVERY combination.  No expectation    *)
(*    reads the field: printing does not change a returned value;                  *)
(*  - family "sc" (round 3): SCALE.  The case is a small pattern (x, w) plus a     *)
(*    replication factor K (up to several thousand; 2^22.. in the thorough tier)   *)
(*    and a layout; the arrays handed to the code are the K replicas.  ScaleLaw    *)
(*    (Stats!SScaleLaw on every pattern, K <= ScLawK) is the theorem by which the  *)
(*    pattern decides the large case.  Weights additionally come in float16        *)
(*    ("f2": a cumulative weight accumulated in the weights' own type stops        *)
(*    growing at 2048 units);                                                      *)
(*  - the three mechanisms are run as ACTIONS, one per code step:                  *)
(*      MedStart/MedStep/MedDone   the cumulative-weight loop of wmedian           *)
(*      ClipStep/ClipFinish        the clipping iteration of sigma_clip (a real    *)
(*                                 behaviour: one state per round, branching on    *)
(*                                 boundary ties)                                  *)
(*      (interplin's index selection is a function: InterpRefines)                 *)
(*  - round 4: every interpolation table is also exported RESCALED (abscissae by  *)
(*    2^sx, values by 2^sv, exponents -40..40 from two more factors of the design) *)
(*    and judged on the unscaled table through InterpScaleLaw;                     *)
(*    and checked against the property-level definitions (…Refines);               *)
(*  - DefsAgree: the integer-sum formulas used everywhere equal the textbook       *)
(*    definitions written with exact rational arithmetic;                          *)
(*  - running TLC over the whole space also shows that no 32-bit overflow occurs   *)
(*    on the lattice (overflow is a TLC error).                                    *)
EXTENDS Stats, Json

CONSTANTS Kinds,        \* subset of {"wm", "wm2", "cl", "ip", "cv", "rp", "sc", "tk"}: families enumerated in this run
          TkVariantBounds, \* FALSE: the clipping test of the code |x - m| < nsig s; TRUE: a deviating variant (both bounds
                           \* m -+ nsig s rounded to the floating-point grid at m) used to show that TkRefines can fail
          RepFull,      \* family "rp": TRUE - full product (rep x rep x lattice) for wm / cl, FALSE - the design rows
          MinLen, MaxLen, Vals, Wts, MaxW,      \* wm : 1-d data/weights, total weight 1..MaxW
          MuNone,                                \* wm : TRUE - also enumerate supplied means (DefsAgree about them)
          N2Max, Vals2, Wts2,                    \* wm2: N-by-2 data, 1-d or N-by-2 weights
          ClipMaxLen, ClipMaxLenW, ClipVals, ClipWts, NSigIdx, ClipNiter,   \* cl
          TabX, TabV, TabMax,                    \* ip : nodes from TabX (2..TabMax of them), values from TabV
          CovMaxN, CovDiag, CovOffN, CovShift,   \* cv : diag from CovDiag, off-diagonal from (0..CovOffN) - CovShift
          DefMaxW,                               \* DefsAgree is evaluated for total weight <= DefMaxW
          ScMaxLen, ScVals, ScWts,               \* sc : patterns of length 1..ScMaxLen
          ScLawK,                                \* sc : ScaleLaw is evaluated for K in 1..ScLawK
          ScKExtra,                              \* sc : further replication factors for the patterns run under every factor
          ScHuge,                                \* sc : TRUE - also the two float32-weight cases of 2^24.. points
          MedVariantGE,                          \* FALSE: the loop test of the code (sum > W/2); TRUE: a deviating
                                                 \* variant (sum >= W/2) used to show that MedRefines can fail
          DoExport

VARIABLES phase, c, st
vars == <<phase, c, st>>

NoCase == [op |-> "none"]
NoSt   == [k |-> 0]
NSigTable == << <<1, 2>>, <<1, 1>>, <<3, 2>>, <<2, 1>>, <<3, 1>>, <<6, 1>> >>       \* nsig = 1/2 ... 6
MuTable   == << <<0, 1>>, <<5, 2>>, <<3, 1>> >>                                     \* supplied means tried

Init == phase = "start" /\ c = NoCase /\ st = NoSt

\* ---- representations and lattices --------------------------------------------------------
\* (names are mapped to numpy / python objects and to numbers by the adapter, which verifies the attributes
\* declared here against its numbers; "be" = non-native byte order)
RepSeq  == <<"f8", "f8be", "f4", "i8", "i4be", "u2", "u8", "list", "strided", "reversed", "readonly",
             "i1", "i2", "i2be", "i4", "u1", "u4be">>
NRep    == Len(RepSeq)                 \* 17: prime (the design below needs that)
IntReps == {"i8", "i4be", "u2", "u8", "i1", "i2", "i2be", "i4", "u1", "u4be"}
UnsReps == {"u2", "u8", "u1", "u4be"}
\* A lattice says where the abstract integers k sit: data / table values at (k + OFF) * unit, table nodes and query
\* points at (k + XOFF) * xunit, matrix entries at m * cunit, weights at w * wunit (numbers: adapter).  Declared here:
\*   big : |OFF| >= 10^8 lattice units (offset huge relative to the scatter)
\*   kmax, ckmax : the largest datum / matrix entry the lattice admits (a case with larger ones runs on "unit")
\*   fit, xfit, qfit, wfit, cfit : the integer representations that hold every datum 0..kmax / node 0..kmax / half-
\*        lattice query point -2..kmax+2 / weight 0..32 / matrix entry -4..ckmax (unsigned: 0..ckmax) exactly.
\* The six "span" lattices are PLACEMENTS of the values across (nearly) the whole range of an integer type (signed:
\* centred, about -max..max; unsigned: near 0 .. near the maximum): sums, differences, products and squares of the
\* elements exceed the element type - the results must not (Stats.tla computes on the small integers k).
LatSeq == <<
  [name |-> "unit", big |-> FALSE, kmax |-> 60, ckmax |-> 25,
   fit |-> {"i1", "i2", "i2be", "i4", "i4be", "i8", "u1", "u2", "u4be", "u8"},
   xfit |-> {"i1", "i2", "i2be", "i4", "i4be", "i8", "u1", "u2", "u4be", "u8"},
   qfit |-> {},
   wfit |-> {"i1", "i2", "i2be", "i4", "i4be", "i8", "u1", "u2", "u4be", "u8"},
   cfit |-> {"i1", "i2", "i2be", "i4", "i4be", "i8", "u1", "u2", "u4be", "u8"}],
  [name |-> "half-3", big |-> FALSE, kmax |-> 60, ckmax |-> 25,
   fit |-> {},
   xfit |-> {},
   qfit |-> {},
   wfit |-> {},
   cfit |-> {}],
  [name |-> "x4+2", big |-> FALSE, kmax |-> 60, ckmax |-> 25,
   fit |-> {"i2", "i2be", "i4", "i4be", "i8", "u1", "u2", "u4be", "u8"},
   xfit |-> {"i2", "i2be", "i4", "i4be", "i8", "u1", "u2", "u4be", "u8"},
   qfit |-> {"i2", "i2be", "i4", "i4be", "i8", "u2", "u4be", "u8"},
   wfit |-> {"i2", "i2be", "i4", "i4be", "i8", "u2", "u4be", "u8"},
   cfit |-> {"i2", "i2be", "i4", "i4be", "i8", "u2", "u4be", "u8"}],
  [name |-> "fine", big |-> FALSE, kmax |-> 60, ckmax |-> 25,
   fit |-> {},
   xfit |-> {},
   qfit |-> {},
   wfit |-> {},
   cfit |-> {}],
  [name |-> "x8-6", big |-> FALSE, kmax |-> 60, ckmax |-> 25,
   fit |-> {"i2", "i2be", "i4", "i4be", "i8"},
   xfit |-> {"i2", "i2be", "i4", "i4be", "i8"},
   qfit |-> {"i2", "i2be", "i4", "i4be", "i8"},
   wfit |-> {"i1", "i2", "i2be", "i4", "i4be", "i8", "u1", "u2", "u4be", "u8"},
   cfit |-> {"i2", "i2be", "i4", "i4be", "i8", "u2", "u4be", "u8"}],
  [name |-> "w1024", big |-> FALSE, kmax |-> 60, ckmax |-> 25,
   fit |-> {"i1", "i2", "i2be", "i4", "i4be", "i8", "u1", "u2", "u4be", "u8"},
   xfit |-> {"i1", "i2", "i2be", "i4", "i4be", "i8", "u1", "u2", "u4be", "u8"},
   qfit |-> {},
   wfit |-> {"i4", "i4be", "i8", "u2", "u4be", "u8"},
   cfit |-> {"i1", "i2", "i2be", "i4", "i4be", "i8", "u1", "u2", "u4be", "u8"}],
  [name |-> "big40", big |-> TRUE, kmax |-> 60, ckmax |-> 25,
   fit |-> {"i8", "u8"},
   xfit |-> {"i8", "u8"},
   qfit |-> {},
   wfit |-> {"i1", "i2", "i2be", "i4", "i4be", "i8", "u1", "u2", "u4be", "u8"},
   cfit |-> {"i1", "i2", "i2be", "i4", "i4be", "i8", "u1", "u2", "u4be", "u8"}],
  [name |-> "stamp1e9", big |-> TRUE, kmax |-> 60, ckmax |-> 25,
   fit |-> {"i4", "i4be", "i8", "u4be", "u8"},
   xfit |-> {"i4", "i4be", "i8", "u4be", "u8"},
   qfit |-> {},
   wfit |-> {},
   cfit |-> {"i1", "i2", "i2be", "i4", "i4be", "i8", "u1", "u2", "u4be", "u8"}],
  [name |-> "bigfrac33", big |-> TRUE, kmax |-> 60, ckmax |-> 25,
   fit |-> {},
   xfit |-> {},
   qfit |-> {},
   wfit |-> {"i1", "i2", "i2be", "i4", "i4be", "i8", "u1", "u2", "u4be", "u8"},
   cfit |-> {}],
  [name |-> "bigneg37", big |-> TRUE, kmax |-> 60, ckmax |-> 25,
   fit |-> {"i8"},
   xfit |-> {"i8"},
   qfit |-> {"i8"},
   wfit |-> {"i2", "i2be", "i4", "i4be", "i8", "u2", "u4be", "u8"},
   cfit |-> {"i2", "i2be", "i4", "i4be", "i8", "u2", "u4be", "u8"}],
  [name |-> "big1e8", big |-> TRUE, kmax |-> 60, ckmax |-> 25,
   fit |-> {"i4", "i4be", "i8", "u4be", "u8"},
   xfit |-> {"i4", "i4be", "i8", "u4be", "u8"},
   qfit |-> {},
   wfit |-> {"i1", "i2", "i2be", "i4", "i4be", "i8", "u1", "u2", "u4be", "u8"},
   cfit |-> {"i1", "i2", "i2be", "i4", "i4be", "i8", "u1", "u2", "u4be", "u8"}],
  [name |-> "span-s8", big |-> FALSE, kmax |-> 6, ckmax |-> 9,
   fit |-> {"i1", "i2", "i2be", "i4", "i4be", "i8"},
   xfit |-> {"i1", "i2", "i2be", "i4", "i4be", "i8"},
   qfit |-> {"i1", "i2", "i2be", "i4", "i4be", "i8"},
   wfit |-> {"i1", "i2", "i2be", "i4", "i4be", "i8", "u1", "u2", "u4be", "u8"},
   cfit |-> {"i1", "i2", "i2be", "i4", "i4be", "i8", "u1", "u2", "u4be", "u8"}],
  [name |-> "span-u8", big |-> FALSE, kmax |-> 6, ckmax |-> 9,
   fit |-> {"i2", "i2be", "i4", "i4be", "i8", "u1", "u2", "u4be", "u8"},
   xfit |-> {"i2", "i2be", "i4", "i4be", "i8", "u1", "u2", "u4be", "u8"},
   qfit |-> {"i2", "i2be", "i4", "i4be", "i8", "u1", "u2", "u4be", "u8"},
   wfit |-> {"i1", "i2", "i2be", "i4", "i4be", "i8", "u1", "u2", "u4be", "u8"},
   cfit |-> {"i2", "i2be", "i4", "i4be", "i8", "u1", "u2", "u4be", "u8"}],
  [name |-> "span-s16", big |-> FALSE, kmax |-> 6, ckmax |-> 9,
   fit |-> {"i2", "i2be", "i4", "i4be", "i8"},
   xfit |-> {"i2", "i2be", "i4", "i4be", "i8"},
   qfit |-> {"i2", "i2be", "i4", "i4be", "i8"},
   wfit |-> {"i1", "i2", "i2be", "i4", "i4be", "i8", "u1", "u2", "u4be", "u8"},
   cfit |-> {"i2", "i2be", "i4", "i4be", "i8", "u2", "u4be", "u8"}],
  [name |-> "span-u16", big |-> FALSE, kmax |-> 6, ckmax |-> 9,
   fit |-> {"i4", "i4be", "i8", "u2", "u4be", "u8"},
   xfit |-> {"i4", "i4be", "i8", "u2", "u4be", "u8"},
   qfit |-> {"i4", "i4be", "i8", "u2", "u4be", "u8"},
   wfit |-> {"i1", "i2", "i2be", "i4", "i4be", "i8", "u1", "u2", "u4be", "u8"},
   cfit |-> {"i4", "i4be", "i8", "u2", "u4be", "u8"}],
  [name |-> "span-s32", big |-> FALSE, kmax |-> 6, ckmax |-> 9,
   fit |-> {"i4", "i4be", "i8"},
   xfit |-> {"i4", "i4be", "i8"},
   qfit |-> {"i4", "i4be", "i8"},
   wfit |-> {"i1", "i2", "i2be", "i4", "i4be", "i8", "u1", "u2", "u4be", "u8"},
   cfit |-> {"i4", "i4be", "i8", "u4be", "u8"}],
  [name |-> "span-u32", big |-> FALSE, kmax |-> 6, ckmax |-> 9,
   fit |-> {"i8", "u4be", "u8"},
   xfit |-> {"i8", "u4be", "u8"},
   qfit |-> {"i8", "u4be", "u8"},
   wfit |-> {"i1", "i2", "i2be", "i4", "i4be", "i8", "u1", "u2", "u4be", "u8"},
   cfit |-> {"i8", "u4be", "u8"}] >>
NLat == Len(LatSeq)                    \* = NRep
\* which representation can carry which lattice exactly (float32: 24 bits and its own rounding - small lattices only)
RepOKData(r, l)  == (r = "f4" => ~l.big) /\ (r \in IntReps => r \in l.fit)
RepOKNodes(r, l) == (r = "f4" => ~l.big) /\ (r \in IntReps => r \in l.xfit)
RepOKQuery(r, l) == (r = "f4" => ~l.big) /\ (r \in IntReps => r \in l.qfit)
RepOKWts(r, l)   == r \in IntReps => r \in l.wfit
RepOKCov(r, l, nonneg) == r # "list" /\ (r \in IntReps => r \in l.cfit) /\ (r \in UnsReps => nonneg)
\* an inadmissible representation is replaced by the widest of its family that is admissible, else by float64
RepFix(r, ok, fits) == IF ok THEN r ELSE IF r \in IntReps /\ "i8" \in fits THEN "i8" ELSE "f8"
\* a lattice that cannot hold the data of the case is replaced by the first one
LatFor(i, mx)  == IF mx <= LatSeq[i].kmax THEN LatSeq[i] ELSE LatSeq[1]
LatForC(i, mx) == IF mx <= LatSeq[i].ckmax THEN LatSeq[i] ELSE LatSeq[1]
MaxOfCols(x)   == VSetMax(UNION {VRange(x[j]) : j \in DOMAIN x})
\* tolerance (lattice units) to which a mean / deviation is determined: 16 ulp of the operand scale, offset included
\* (2^-52 * 16 * 2^41 on the big lattices; 2^-23 * 16 * 2^8 for float32 data); 0 = exact judgement
TolBig == <<1, 128>>
TolF4  == <<1, 2048>>
LatTol(l, rx) == IF l.big THEN TolBig ELSE IF rx = "f4" THEN TolF4 ELSE <<0, 1>>

\* ---- printing / verbosity options ------------------------------------------------------------
\* entry point x doprint: get_stats(doprint=False), get_stats(doprint=True), print_stats (always prints);
\* nsp = nsigma_print (get_stats) / nsigma (print_stats): the multiple of the error shown in the printed table;
\* verbose, silent: keywords of sigma_clip (progress lines on stdout, the "everything clipped" message on stderr)
NspTable == << <<1, 1>>, <<2, 1>>, <<3, 1>>, <<1, 2>> >>
NPr      == 48
PrOf(i)  == LET j == i % NPr
            IN [entry |-> IF j % 3 = 2 THEN "print_stats" ELSE "get_stats", doprint |-> j % 3 # 0,
                nsp |-> NspTable[((j \div 3) % 4) + 1], verbose |-> (j \div 12) % 2 = 1, silent |-> (j \div 24) % 2 = 0]
PrAll    == {PrOf(i) : i \in 0..(NPr - 1)}

\* ---- scale: replication factors, layouts, weight representations --------------------------------
\* (the array has K * Len(x) elements: 1 .. 18000, at, just below and just above 2^10, 2^11, 2^12, 3 * 2^10, ...)
ScKSeq   == <<1, 2, 3, 341, 683, 1023, 1024, 1025, 1366, 1500, 2047, 2048, 2049, 2731, 4096, 4097, 6000>>      \* NRep of them
LaySeq   == <<"tile", "block", "shuffle">>
ScWReps  == VRange(RepSeq) \cup {"f2"}          \* float16 holds every weight 0..32 of every lattice exactly (adapter: verified)

\* orthogonal array of strength 2 with 7 factors of NRep levels and NRep^2 rows: row (a, b) = (b, a, a+b, a+2b, ..., a+5b)
\* (factors 6, 7: the scale exponents of an interpolation case)
DesignRows == 0..(NRep * NRep - 1)
RowFacs(h) == LET g == h % (NRep * NRep)  a == g \div NRep  b == g % NRep
              IN <<b, a, (a + b) % NRep, (a + 2 * b) % NRep, (a + 3 * b) % NRep, (a + 4 * b) % NRep, (a + 5 * b) % NRep>>
FullFacs   == {<<i, j, k, 0, 0, 0, 0>> : i, j, k \in 0..(NRep - 1)}
\* factors -> the fields (1: first array, 2: second array, 3: lattice [ip: third array], 4, 5: ip lattices)
RLData(f, mx) == LET l == LatFor(f[3] + 1, mx)
                     rx == RepFix(RepSeq[f[1] + 1], RepOKData(RepSeq[f[1] + 1], l), l.fit)
             IN [rep |-> [x |-> rx, w |-> RepFix(RepSeq[f[2] + 1], RepOKWts(RepSeq[f[2] + 1], l), l.wfit)],
                 lat |-> l.name, tol |-> LatTol(l, rx)]
RLTable(f, mxx, mxv) ==
              LET l == LatFor(f[4] + 1, mxx)  lv == LatFor(f[5] + 1, mxv)
              IN [rep |-> [v |-> RepFix(RepSeq[f[1] + 1], RepOKData(RepSeq[f[1] + 1], lv), lv.fit),
                           x |-> RepFix(RepSeq[f[2] + 1], RepOKNodes(RepSeq[f[2] + 1], l), l.xfit),
                           u |-> RepFix(RepSeq[f[3] + 1], RepOKQuery(RepSeq[f[3] + 1], l), l.qfit)],
                  lat |-> l.name, vlat |-> lv.name]
\* (covariance matrices have no offset: entry m * cunit; a python list has no .shape)
RLCov(f, m) == LET mx == VSetMax({m[i][j] : i, j \in DOMAIN m})
                   l == LatForC(f[2] + 1, mx)  r == RepSeq[f[1] + 1]
                   nonneg == \A i, j \in DOMAIN m : m[i][j] >= 0
               IN [rep |-> [m |-> RepFix(r, RepOKCov(r, l, nonneg), IF nonneg \/ r \notin UnsReps THEN l.cfit ELSE {})],
                   lat |-> l.name]
IpQueries == LET lo == 2 * VSetMin(TabX) - 4
                 hi == 2 * VSetMax(TabX) + 4
             IN [i \in 1..(hi - lo + 1) |-> RNorm(lo + i - 1, 2)]          \* half-integer steps, 2 beyond either end
\* hash of a case -> its design row
HSeq(s)  == VSumF(LAMBDA i : (s[i] + 1) * (2 * i + 1), DOMAIN s)
HCols(x) == VSumF(LAMBDA j : HSeq(x[j]) * (j + 2), DOMAIN x)
WithWm(x, w) == LET rl == RLData(RowFacs(3 * HCols(x) + 7 * HCols(w) + 5 * Len(w)), MaxOfCols(x))
                IN [op |-> "wm", x |-> x, w |-> w, rep |-> rl.rep, lat |-> rl.lat, pr |-> PrOf(5 * HCols(x) + 11 * HCols(w) + Len(w))]
MkCl(x, w, hasw, ns, nit, f, pr) ==
    LET rl == RLData(f, VSeqMax(x))
    IN [op |-> "cl", x |-> x, w |-> w, hasw |-> hasw, nsn |-> NSigTable[ns][1], nsd |-> NSigTable[ns][2], niter |-> nit,
        rep |-> rl.rep, lat |-> rl.lat, tol |-> rl.tol, pr |-> pr]
WithCl(x, w, hasw, ns, nit) == MkCl(x, w, hasw, ns, nit, RowFacs(3 * HSeq(x) + 7 * HSeq(w) + 13 * ns + (IF hasw THEN 5 ELSE 0)),
                                    PrOf(5 * HSeq(x) + 11 * HSeq(w) + 7 * ns + (IF hasw THEN 3 ELSE 0)))
MkIp(xs, vs, f) == LET rl == RLTable(f, VSeqMax(xs), VSeqMax(vs))
                   IN [op |-> "ip", xs |-> xs, vs |-> vs, us |-> IpQueries, rep |-> rl.rep, lat |-> rl.lat, vlat |-> rl.vlat]
\* the same table RESCALED (round 4): abscissae (nodes, query points) by 2^sx, table values by 2^sv - exponents from factors
\* 6, 7 of the design row; floating-point representations only (an integer type cannot hold 2^-30); with float32 among
\* them half the exponent (products of two float32 differences stay inside its range)
ExpSeq == <<-40, -35, -30, -27, -24, -20, -13, -10, -3, 2, 3, 10, 20, 27, 30, 35, 40>>              \* NRep of them
FloatFix(r) == IF r \in IntReps THEN "f8" ELSE r
MkIpS(xs, vs, f) == LET b  == MkIp(xs, vs, f)
                        rp == [v |-> FloatFix(b.rep.v), x |-> FloatFix(b.rep.x), u |-> FloatFix(b.rep.u)]
                        h  == IF "f4" \in {rp.v, rp.x, rp.u} THEN 2 ELSE 1
                    IN [b EXCEPT !.rep = rp] @@ [sx |-> ExpSeq[f[6] + 1] \div h, sv |-> ExpSeq[f[7] + 1] \div h]
MkCv(m, f)      == LET rl == RLCov(f, m) IN [op |-> "cv", m |-> m, rep |-> rl.rep, lat |-> rl.lat]
\* scale cases: small lattices only (every partial sum of the large arrays is then exact in binary64, so that the
\* tolerance "to rounding" of the small cases still applies); rw = the weight representation (any of ScWReps)
ScLatFor(i, mx) == LET l == LatFor(i, mx) IN IF l.big THEN LatSeq[1] ELSE l
MkSc(x, w, K, lay, f, rw, pr) ==
    LET l  == ScLatFor(f[3] + 1, VSeqMax(x))
        rx == RepFix(RepSeq[f[1] + 1], RepOKData(RepSeq[f[1] + 1], l), l.fit)
    IN [op |-> "sc", x |-> <<x>>, w |-> <<w>>, K |-> K, lay |-> lay, pr |-> pr,
        rep |-> [x |-> rx, w |-> IF rw = "f2" THEN rw ELSE RepFix(rw, RepOKWts(rw, l), l.wfit)], lat |-> l.name]

\* ---- wmom / wmedian / get_stats, 1-d -------------------------------------------------
ChooseX1 ==
    /\ phase = "start" /\ "wm" \in Kinds
    /\ \E n \in MinLen..MaxLen : \E x \in [1..n -> Vals] : c' = [op |-> "wm", x |-> <<x>>]
    /\ phase' = "wm_x" /\ UNCHANGED st
ChooseW1 ==
    /\ phase = "wm_x"
    /\ \E w \in [1..Len(c.x[1]) -> Wts] :
          /\ SSumW(w, DOMAIN w) \in 1..MaxW
          /\ c' = WithWm(c.x, <<w>>)
    /\ phase' = "wm" /\ UNCHANGED st
ChooseMu ==
    /\ phase = "wm" /\ MuNone
    /\ \E k \in 0..Len(MuTable) :
          c' = [op |-> "wm", x |-> c.x, w |-> c.w, hasmu |-> k > 0, mu |-> IF k > 0 THEN MuTable[k] ELSE <<0, 1>>]
    /\ phase' = "wm_mu" /\ UNCHANGED st

MedStart == /\ phase = "wm"
            /\ st' = SMedInit(c.x[1], c.w[1]) /\ phase' = "med" /\ UNCHANGED c
MedGoesOn == IF MedVariantGE THEN 2 * st.sum >= SSumW(c.w[1], DOMAIN c.w[1]) /\ st.k < Len(c.x[1])
             ELSE SMedGoesOn(c.x[1], c.w[1], st)
MedStep  == /\ phase = "med" /\ MedGoesOn
            /\ st' = SMedStep(c.x[1], c.w[1], st) /\ UNCHANGED <<phase, c>>
MedDone  == /\ phase = "med" /\ ~MedGoesOn
            /\ phase' = "med_done" /\ UNCHANGED <<c, st>>

\* ---- wmom, N-by-2 ----------------------------------------------------------------------
ChooseX2 ==
    /\ phase = "start" /\ "wm2" \in Kinds
    /\ \E n \in 1..N2Max : \E x \in [1..2 -> [1..n -> Vals2]] : c' = [op |-> "wm", x |-> x]
    /\ phase' = "wm2_x" /\ UNCHANGED st
ChooseW2 ==
    /\ phase = "wm2_x"
    /\ \E d \in 1..2 : \E w \in [1..d -> [1..Len(c.x[1]) -> Wts2]] :
          /\ \A j \in 1..d : SSumW(w[j], DOMAIN w[j]) \in 1..MaxW
          /\ c' = WithWm(c.x, w)
    /\ phase' = "wm2" /\ UNCHANGED st

\* ---- sigma clipping -------------------------------------------------------------------
ChooseClipX ==
    /\ phase = "start" /\ "cl" \in Kinds
    /\ \E n \in 1..ClipMaxLen : \E x \in [1..n -> ClipVals] : c' = [op |-> "cl", x |-> x]
    /\ phase' = "cl_x" /\ UNCHANGED st
ChooseClipW ==
    /\ phase = "cl_x"
    /\ \E hasw \in BOOLEAN : \E ns \in NSigIdx :
       \E w \in (IF hasw THEN (IF Len(c.x) <= ClipMaxLenW THEN [1..Len(c.x) -> ClipWts] ELSE {}) ELSE {SOnes(Len(c.x))}) :
          c' = WithCl(c.x, w, hasw, ns, ClipNiter)
    /\ st' = [S |-> DOMAIN c.x, k |-> 0, done |-> FALSE]
    /\ phase' = "cl"
\* one round of the loop in sigma_clip:  w = where(|x-m| < nsig*s)  - evaluated with the mean and deviation
\* known to c.tol only (the exact comparison on the small lattices, where c.tol = 0);
\*   w.size == 0 -> break (S stands);  w.size == nold -> break;  else S := w
ClipStep ==
    /\ phase = "cl" /\ ~st.done /\ st.k < c.niter
    /\ \E T \in SClipCandsT(c, st.S) :
          st' = IF T = {} \/ T = st.S THEN [st EXCEPT !.done = TRUE]
                ELSE [S |-> T, k |-> st.k + 1, done |-> FALSE]
    /\ UNCHANGED <<phase, c>>
ClipFinish ==
    /\ phase = "cl" /\ (st.done \/ st.k = c.niter)
    /\ phase' = "cl_done" /\ UNCHANGED <<c, st>>

\* ---- family "tk": clipping on a TICK lattice (round 4) -----------------------------------------------
\* data (x + OFF) * unit, unit = the spacing of the floating-point numbers at OFF: binary64 integers above 2^52, binary64
\* stamps near 2^30 s with ticks of 2^-22 s, float32 values above 2^23 (numbers: adapter, verified there against `spacing`)
TickSeq == << [name |-> "tick-int53", reps |-> <<"f8", "i8", "u8", "f8be", "list", "strided", "reversed", "readonly">>],
              [name |-> "tick-stamp", reps |-> <<"f8", "f8be", "readonly", "reversed", "strided", "f8", "list", "f8">>],
              [name |-> "tick-f4",    reps |-> <<"f4", "f4", "f4", "f4", "f4", "f4", "f4", "f4">>] >>
TkVals  == {0, 1, 6}          \* a cluster, one tick off, a gross outlier (longer inputs: cluster and ticks only)
TickTol == <<32, 1>>          \* the computed mean is a lattice point within 32 ulp of the exact one
MkTk(x, w, hasw, ns, nit, h) ==
    LET t == TickSeq[(h % 3) + 1]
    IN [op |-> "cl", x |-> x, w |-> w, hasw |-> hasw, nsn |-> NSigTable[ns][1], nsd |-> NSigTable[ns][2], niter |-> nit,
        rep |-> [x |-> t.reps[((h \div 3) % 8) + 1], w |-> IF (h \div 24) % 2 = 0 \/ t.name = "tick-stamp" THEN "f8" ELSE "u1"],
        lat |-> t.name, tol |-> TickTol, grid |-> TRUE, pr |-> PrOf(h)]
ChooseTkX ==
    /\ phase = "start" /\ "tk" \in Kinds
    /\ \/ \E n \in 1..ClipMaxLen : \E x \in [1..n -> TkVals] : c' = [op |-> "cl", x |-> x]
       \/ \E n \in (ClipMaxLen + 1)..(ClipMaxLen + 2) : \E x \in [1..n -> {0, 1}] : c' = [op |-> "cl", x |-> x]
    /\ phase' = "tk_x" /\ UNCHANGED st
ChooseTkW ==
    /\ phase = "tk_x"
    /\ \E hasw \in BOOLEAN : \E ns \in NSigIdx :
       \E w \in (IF hasw THEN (IF Len(c.x) <= ClipMaxLenW THEN [1..Len(c.x) -> ClipWts] ELSE {}) ELSE {SOnes(Len(c.x))}) :
          c' = MkTk(c.x, w, hasw, ns, ClipNiter, 3 * HSeq(c.x) + 7 * HSeq(w) + 13 * ns + (IF hasw THEN 5 ELSE 0))
    /\ st' = [S |-> DOMAIN c.x, k |-> 0, done |-> FALSE, P |-> DOMAIN c.x]
    /\ phase' = "tk"
\* one round of the loop as floating-point arithmetic performs it on such a lattice: the computed mean j is a lattice
\* point nearest the exact mean, the deviation is taken about it
TkNear(S) == LET W == SSumW(c.w, S)  A == SSumWX(c.x, c.w, S) IN {j \in SGridMeans(c, S) : 2 * VAbs(j * W - A) <= W}
\* (deviating variant: lo = fl(j - h), hi = fl(j + h) = j -+ r with r = h rounded to an integer; keeps lo < x < hi)
TkBoundsKeep(S, j) == LET W == SSumW(c.w, S)  Q4 == 4 * c.nsn * c.nsn * SGridQ(c, S, j)
                          r == CHOOSE rr \in 0..200 : /\ (rr = 0 \/ (2 * rr - 1) * (2 * rr - 1) * c.nsd * c.nsd * W <= Q4)
                                                       /\ Q4 < (2 * rr + 1) * (2 * rr + 1) * c.nsd * c.nsd * W
                      IN {i \in S : VAbs(c.x[i] - j) < r}
TkStep ==
    /\ phase = "tk" /\ ~st.done /\ st.k < c.niter
    /\ \E j \in TkNear(st.S) :
       \E T \in (IF TkVariantBounds THEN {TkBoundsKeep(st.S, j)} ELSE {SGridKeep(c, st.S, j) \cup X : X \in SUBSET SGridTies(c, st.S, j)}) :
          st' = IF T = {} \/ T = st.S THEN [st EXCEPT !.done = TRUE, !.P = st.S]
                ELSE [S |-> T, k |-> st.k + 1, done |-> FALSE, P |-> st.S]
    /\ UNCHANGED <<phase, c>>
TkFinish ==
    /\ phase = "tk" /\ (st.done \/ st.k = c.niter)
    /\ phase' = "tk_done" /\ UNCHANGED <<c, st>>

\* ---- interpolation tables ------------------------------------------------------------
ChooseNodes ==
    /\ phase = "start" /\ "ip" \in Kinds
    /\ \E X \in SUBSET TabX : /\ Cardinality(X) \in 2..TabMax
                              /\ c' = [op |-> "ip", xs |-> VSortSet(X)]
    /\ phase' = "ip_x" /\ UNCHANGED st
ChooseTabV ==
    /\ phase = "ip_x"
    /\ \E vs \in [1..Len(c.xs) -> TabV] : \E scaled \in BOOLEAN :
          c' = IF scaled THEN MkIpS(c.xs, vs, RowFacs(5 * HSeq(c.xs) + 11 * HSeq(vs) + 1)) ELSE MkIp(c.xs, vs, RowFacs(3 * HSeq(c.xs) + 7 * HSeq(vs)))
    /\ phase' = "ip" /\ UNCHANGED st

\* ---- covariance matrices ----------------------------------------------------------------
PairIdx(n, i, j) == LET a == VMin2(i, j)  b == VMax2(i, j)                  \* i # j -> 1..n(n-1)/2
                    IN ((a - 1) * (2 * n - a)) \div 2 + (b - a)
ChooseCovDiag ==
    /\ phase = "start" /\ "cv" \in Kinds
    /\ \E n \in 1..CovMaxN : \E dg \in [1..n -> CovDiag] : c' = [op |-> "cv", dg |-> dg]
    /\ phase' = "cv_d" /\ UNCHANGED st
ChooseCovOff ==
    /\ phase = "cv_d"
    /\ LET n == Len(c.dg) IN
       \E off \in [1..((n * (n - 1)) \div 2) -> 0..CovOffN] :
          LET m == [i \in 1..n |-> [j \in 1..n |-> IF i = j THEN c.dg[i] ELSE off[PairIdx(n, i, j)] - CovShift]]
          IN c' = MkCv(m, RowFacs(3 * HSeq(c.dg) + 7 * HSeq(off) + n))
    /\ phase' = "cv" /\ UNCHANGED st

\* ---- family "rp": a few data sets of every kind under every row of the design ----------------------
RpRows3 == IF RepFull THEN FullFacs ELSE {RowFacs(h) : h \in DesignRows}
RpRows  == {RowFacs(h) : h \in DesignRows}
RpWmData == { << << <<0, 1, 3, 4>> >>, << <<1, 2, 8, 1>> >> >>,                              \* <<columns of x, columns of w>>
              << << <<3>> >>, << <<2>> >> >>,
              << << <<0, 3, 1>>, <<4, 4, 0>> >>, << <<1, 0, 2>> >> >>,
              << << <<0, 3, 1>>, <<4, 0, 2>> >>, << <<1, 0, 2>>, <<2, 2, 1>> >> >> }
RpClData == { << <<3, 3, 4, 3, 2, 3, 6, 0>>, <<1, 1, 1, 1, 1, 1, 1, 1>>, FALSE, 3, 4 >>,      \* <<x, w, hasw, nsig index, niter>>
              << <<1, 2, 2, 1, 6>>, <<1, 2, 1, 8, 1>>, TRUE, 2, 4 >>,
              << <<0, 0, 1, 1, 2, 5, 11>>, <<1, 1, 1, 1, 1, 1, 1>>, FALSE, 2, 1 >> }
RpIpData == { << <<0, 1, 3, 4>>, <<4, 0, 1, 1>> >>, << <<1, 2>>, <<0, 4>> >>, << <<0, 1, 2, 6>>, <<0, 2, 4, 4>> >> }
RpCvData == { << <<4, -2>>, <<-2, 9>> >>, << <<1, 1, 0>>, <<1, 4, 2>>, <<0, 2, 9>> >> }
ChooseRpWm ==
    /\ phase = "start" /\ "rp" \in Kinds
    /\ \E d \in RpWmData : \E f \in RpRows3 :
          LET rl == RLData(f, MaxOfCols(d[1]))
          IN c' = [op |-> "wm", x |-> d[1], w |-> d[2], rep |-> rl.rep, lat |-> rl.lat, pr |-> PrOf(7 * f[1] + 5 * f[2] + f[3])]
    /\ phase' = "wm2" /\ UNCHANGED st
ChooseRpCl ==
    /\ phase = "start" /\ "rp" \in Kinds
    /\ \E d \in RpClData : \E f \in RpRows3 :
          /\ c' = MkCl(d[1], d[2], d[3], d[4], d[5], f, PrOf(7 * f[1] + 5 * f[2] + f[3]))
          /\ st' = [S |-> DOMAIN d[1], k |-> 0, done |-> FALSE]
    /\ phase' = "cl"
\* ... and under every combination of the printing options (representation / lattice: design row i)
ChooseRpPrWm ==
    /\ phase = "start" /\ "rp" \in Kinds
    /\ \E d \in RpWmData : \E i \in 0..(NPr - 1) :
          LET rl == RLData(RowFacs(6 * i + 1), MaxOfCols(d[1]))
          IN c' = [op |-> "wm", x |-> d[1], w |-> d[2], rep |-> rl.rep, lat |-> rl.lat, pr |-> PrOf(i)]
    /\ phase' = "wm2" /\ UNCHANGED st
ChooseRpPrCl ==
    /\ phase = "start" /\ "rp" \in Kinds
    /\ \E d \in RpClData : \E i \in 0..(NPr - 1) :
          /\ c' = MkCl(d[1], d[2], d[3], d[4], d[5], RowFacs(6 * i + 1), PrOf(i))
          /\ st' = [S |-> DOMAIN d[1], k |-> 0, done |-> FALSE]
    /\ phase' = "cl"

\* ---- family "sc": scale ----------------------------------------------------------------------------
\* every pattern, with (representation, lattice, replication factor, layout) from a design row picked by its hash;
\* weights in float16 for about half of the rows
ChooseScX ==
    /\ phase = "start" /\ "sc" \in Kinds
    /\ \E n \in 1..ScMaxLen : \E x \in [1..n -> ScVals] : c' = [op |-> "sc", x |-> <<x>>]
    /\ phase' = "sc_x" /\ UNCHANGED st
ChooseScW ==
    /\ phase = "sc_x"
    /\ \E w \in [1..Len(c.x[1]) -> ScWts] :
          /\ SSumW(w, DOMAIN w) \in 1..MaxW
          /\ LET x == c.x[1]
                 f == RowFacs(3 * HSeq(x) + 7 * HSeq(w) + 11 * Len(x))
             IN c' = MkSc(x, w, ScKSeq[f[4] + 1], LaySeq[(f[5] % 3) + 1], f,
                          IF (f[5] \div 3) % 2 = 1 THEN "f2" ELSE RepSeq[f[2] + 1], PrOf(5 * HSeq(x) + 11 * HSeq(w)))
    /\ phase' = "sc" /\ UNCHANGED st
\* two patterns under EVERY replication factor x EVERY weight representation (data representation, lattice, layout vary along)
ScRpData == { << <<0, 1, 4>>, <<1, 1, 1>> >>, << <<3, 0, 4, 1>>, <<1, 2, 8, 1>> >> }
ChooseScRp ==
    /\ phase = "start" /\ "sc" \in Kinds
    /\ \E d \in ScRpData : \E K \in VRange(ScKSeq) \cup ScKExtra : \E rw \in ScWReps :
          LET i == CHOOSE j \in 1..NRep : (rw = "f2" /\ j = 1) \/ RepSeq[j] = rw
              f == RowFacs(K + 5 * i + Len(d[1]))
          IN c' = MkSc(d[1], d[2], K, LaySeq[((K + i) % 3) + 1], f, rw, PrOf(K + i))
    /\ phase' = "sc" /\ UNCHANGED st
\* 2^24.. points with float32 weights (a float32 accumulator stops growing at 2^24 units): data in the narrowest type
ChooseScHuge ==
    /\ phase = "start" /\ "sc" \in Kinds /\ ScHuge
    /\ \E d \in { << <<0, 1, 3>>, <<1, 1, 1>>, 8388608 >>, << <<0, 1, 3, 4>>, <<1, 1, 1, 1>>, 4194305 >> } :
          c' = [op |-> "sc", x |-> <<d[1]>>, w |-> <<d[2]>>, K |-> d[3], lay |-> "tile", pr |-> PrOf(0),
                rep |-> [x |-> "u1", w |-> "f4"], lat |-> "unit"]
    /\ phase' = "sc" /\ UNCHANGED st
ChooseRpIp ==
    /\ phase = "start" /\ "rp" \in Kinds
    /\ \E d \in RpIpData : \E f \in RpRows : \E scaled \in BOOLEAN : c' = IF scaled THEN MkIpS(d[1], d[2], f) ELSE MkIp(d[1], d[2], f)
    /\ phase' = "ip" /\ UNCHANGED st
ChooseRpCv ==
    /\ phase = "start" /\ "rp" \in Kinds
    /\ \E m \in RpCvData : \E f \in RpRows : c' = MkCv(m, f)
    /\ phase' = "cv" /\ UNCHANGED st

NextExport == ChooseX1 \/ ChooseW1 \/ ChooseX2 \/ ChooseW2 \/ ChooseClipX \/ ChooseClipW
              \/ ChooseNodes \/ ChooseTabV \/ ChooseCovDiag \/ ChooseCovOff
              \/ ChooseRpWm \/ ChooseRpCl \/ ChooseRpIp \/ ChooseRpCv \/ ChooseRpPrWm \/ ChooseRpPrCl
              \/ ChooseScX \/ ChooseScW \/ ChooseScRp \/ ChooseScHuge \/ ChooseTkX \/ ChooseTkW
Next == NextExport \/ ChooseMu \/ MedStart \/ MedStep \/ MedDone \/ ClipStep \/ ClipFinish \/ TkStep \/ TkFinish

Spec == Init /\ [][Next]_vars

\* ---- properties ------------------------------------------------------------------------
\* integer-sum formulas = textbook definitions (weighted mean, deviation about the mean or a
\* supplied mean, calcerr error), for every (x, w, mu)
DefsAgreeCol(x, w, mu) ==
    LET P == DOMAIN x
    IN /\ SMean(x, w, P) = SDefMean(x, w, P)
       /\ SVarAbout(x, w, P, mu) = SDefVarAbout(x, w, P, mu)
       /\ SErr2Calc(x, w, P, mu) = SDefErr2Calc(x, w, P, mu)
       /\ SVar(x, w, P) = SVarAbout(x, w, P, SMean(x, w, P))
       /\ SErr2Inv(w, P) = RDiv(RInt(1), RInt(SSumW(w, P)))
DefsAgree == (phase = "wm_mu" /\ SSumW(c.w[1], DOMAIN c.w[1]) <= DefMaxW) =>
                DefsAgreeCol(c.x[1], c.w[1], IF c.hasmu THEN c.mu ELSE SMean(c.x[1], c.w[1], DOMAIN c.x[1]))
\* sanity theorems of the definitions: min <= mean <= max, deviation >= 0 and = 0 iff the
\* positively weighted values coincide, median is a datum with positive cumulative weight
MomentsSane == phase = "wm" =>
    LET x == c.x[1]  w == c.w[1]  P == DOMAIN x  m == SMean(x, w, P)  v == SVar(x, w, P)
        pos == {i \in P : w[i] > 0}
    IN /\ RLe(RInt(SMinOf(x, pos)), m) /\ RLe(m, RInt(SMaxOf(x, pos)))
       /\ v[1] >= 0 /\ (v[1] = 0 <=> Cardinality({x[i] : i \in pos}) = 1)
       /\ SWMedian(x, w) \in {x[i] : i \in P}
       /\ SMinOf(x, pos) <= SWMedian(x, w) /\ SWMedian(x, w) <= SMaxOf(x, pos)

\* SCALE: the statistics of K replicas (tiled / in blocks) of every pattern follow from the pattern's - the theorem by
\* which a large case is judged on its pattern (K <= ScLawK here; the law does not depend on K)
ScaleLaw == phase = "sc" => \A k \in 1..ScLawK : SScaleLaw(c.x[1], c.w[1], k, VRange(MuTable))
\* every combination of the printing options is a distinct record; every option value occurs
PrintCovers == phase = "start" =>
    /\ Cardinality(PrAll) = NPr
    /\ \A e \in {"get_stats", "print_stats"} : \A b \in BOOLEAN : \A k \in DOMAIN NspTable :
          /\ \E p \in PrAll : p.entry = e /\ p.verbose = b /\ p.nsp = NspTable[k]
          /\ \E p \in PrAll : p.doprint = b /\ p.silent = b /\ p.nsp = NspTable[k]
    /\ Len(ScKSeq) = NRep /\ \A p \in PrAll : p.entry = "print_stats" => p.doprint

\* the loop of wmedian stays inside the array and ends on the property-level median
MedSafe    == phase \in {"med", "med_done"} => st.k \in 1..Len(c.x[1])
MedRefines == phase = "med_done" => c.x[1][SSortPos(c.x[1], DOMAIN c.x[1])[st.k]] = SWMedian(c.x[1], c.w[1])

\* the clipping iteration: what it ends on is a subset the property allows; it never
\* reports the empty set; it stops before the limit only when nothing changes/survives
ClipRefines  == phase = "cl_done" => st.S \in SClipFinalsT(c)
ClipNonEmpty == phase \in {"cl", "cl_done"} => st.S # {} /\ st.k <= c.niter
ClipStopsOK  == (phase = "cl_done" /\ st.k < c.niter) => SClipStopsPT(c, st.S)
\* the predicate forms used by the trace specification agree with the set forms, on every subset
\* (quantifies over SUBSET x SUBSET of the positions in every state: checked in a run of its own on a small scope)
ClipPredsAgree == phase = "cl" =>
    \A S \in SUBSET DOMAIN c.x :
        /\ SClipStopsP(c, S) <=> SClipStops(c, S)
        /\ (SClipStopsPT(c, S) <=> (S = {} \/ \E T \in SClipCandsT(c, S) : T = {} \/ T = S))
        /\ \A U \in SUBSET DOMAIN c.x : (SClipInSucc(c, S, U) <=> U \in SClipSucc(c, S))
        /\ \A U \in SUBSET DOMAIN c.x : (SClipInSuccT(c, S, U) <=> U \in SClipSuccT(c, S))
\* the tolerance-aware relations: with tolerance 0 they ARE the exact ones; a positive tolerance only moves points
\* from "surely kept" / "surely discarded" to "free", so whatever the exact relations allow stays allowed
ClipTolSound == phase = "cl" =>
    LET c0 == [c EXCEPT !.tol = <<0, 1>>]
    IN /\ \A S \in SUBSET DOMAIN c.x :
             /\ SClipKeepT(c0, S) = SClipKeep(c, S) /\ SClipFreeT(c0, S) = SClipTies(c, S)
             /\ \A t \in {TolF4, TolBig} :
                   LET ct == [c EXCEPT !.tol = t]
                   IN /\ SClipKeepT(ct, S) \subseteq SClipKeep(c, S)
                      /\ (SClipKeep(c, S) \cup SClipTies(c, S)) \subseteq (SClipKeepT(ct, S) \cup SClipFreeT(ct, S))
                      /\ SClipKeepT(ct, S) \cap SClipFreeT(ct, S) = {}
       /\ st.k = 0 => /\ SClipFinalsT(c0) = SClipFinals(c)
                      /\ \A t \in {TolF4, TolBig} : SClipFinals(c) \subseteq SClipFinalsT([c EXCEPT !.tol = t])
\* TICK lattice: every round of the floating-point mechanism is a round the specification allows (st.P: the set the last
\* round started from), it stops only where the specification lets it stop; for nsig > 1 a round never discards everything
TkRefines == phase \in {"tk", "tk_done"} =>
    /\ st.P = st.S \/ SClipInSuccX(c, st.P, st.S)
    /\ st.done => SClipStopsX(c, st.S)
    /\ SGrid(c) /\ st.S # {} /\ TkNear(st.S) # {}
    /\ (c.nsn > c.nsd /\ ~SClipConstant(c, st.S)) => \A j \in SGridMeans(c, st.S) : SGridKeep(c, st.S, j) # {}
ClipShrinks  == [][(phase = "cl" /\ phase' = "cl") =>
                     (st'.S \subseteq st.S /\ (st'.S # st.S <=> st'.k = st.k + 1) /\ (st'.S # st.S => ~st.done))]_vars
\* every reported subset has a defined, consistent set of statistics (exercises the formulas
\* on every reachable subset: overflow check)
ClipStatsDefined == phase = "cl_done" =>
    /\ SClipVar(c, st.S)[1] >= 0
    /\ SErr2Calc(c.x, c.w, st.S, SClipMean(c, st.S))[1] >= 0 /\ SErr2Inv(c.w, st.S)[1] = 1

\* the (representation, lattice) design is pairwise covering; names are distinct; the attributes are consistent
DesignCovers == phase = "start" =>
    /\ NLat = NRep /\ Cardinality(VRange(RepSeq)) = NRep /\ Cardinality({LatSeq[i].name : i \in 1..NLat}) = NLat
    /\ \A j, k \in 1..7 : j < k => \A p, q \in 0..(NRep - 1) : \E h \in DesignRows : RowFacs(h)[j] = p /\ RowFacs(h)[k] = q
    /\ \A i \in 1..NLat : LET l == LatSeq[i] IN l.qfit \subseteq l.xfit /\ (l.fit \cup l.xfit \cup l.wfit \cup l.cfit) \subseteq IntReps
    /\ LatSeq[1].kmax >= 60 /\ LatSeq[1].ckmax >= 25
\* what a case carries is admissible: the representation can hold the lattice, the tolerance is the lattice's
RepAdmissible == phase \in {"wm", "wm2", "cl", "ip", "cv", "sc"} =>
    LET l == CHOOSE ll \in VRange(LatSeq) : ll.name = c.lat
    IN CASE c.op = "sc" -> /\ RepOKData(c.rep.x, l) /\ (c.rep.w = "f2" \/ RepOKWts(c.rep.w, l)) /\ ~l.big /\ c.pr \in PrAll
                           /\ MaxOfCols(c.x) <= l.kmax /\ c.K >= 1 /\ c.lay \in VRange(LaySeq) /\ c.rep.w \in ScWReps
         [] c.op \in {"wm", "cl"} -> /\ c.pr \in PrAll /\ RepOKData(c.rep.x, l) /\ RepOKWts(c.rep.w, l) /\ (c.op = "cl" => c.tol = LatTol(l, c.rep.x))
                                      /\ (IF c.op = "wm" THEN MaxOfCols(c.x) ELSE VSeqMax(c.x)) <= l.kmax
         [] c.op = "ip" -> LET lv == CHOOSE ll \in VRange(LatSeq) : ll.name = c.vlat
                           IN /\ RepOKData(c.rep.v, lv) /\ RepOKNodes(c.rep.x, l) /\ RepOKQuery(c.rep.u, l)
                              /\ VSeqMax(c.xs) <= l.kmax /\ VSeqMax(c.vs) <= lv.kmax
         [] c.op = "cv" -> RepOKCov(c.rep.m, l, \A i, j \in DOMAIN c.m : c.m[i][j] >= 0) /\ \A i, j \in DOMAIN c.m : c.m[i][j] <= l.ckmax

\* interplin: the searchsorted index selection yields an allowed segment at every query;
\* the property-level definition is single-valued (segments agree at the nodes)
InterpRefines == phase = "ip" =>
    \A q \in DOMAIN c.us : /\ SInterpMech(c.xs, c.vs, c.us[q]) \in SInterpVals(c.xs, c.vs, c.us[q])
                           /\ Cardinality(SInterpVals(c.xs, c.vs, c.us[q])) = 1

\* SCALE COVARIANCE: rescaling the abscissae leaves every interpolated value unchanged, rescaling the table values
\* rescales it - the theorem by which a rescaled case (c.sx, c.sv) is judged on the unscaled table
InterpScaleLaw == (phase = "ip" /\ "sx" \notin DOMAIN c) => \A f \in {<<2, 1>>, <<1, 3>>, <<3, 2>>} : SInterpScaleLaw(c.xs, c.vs, c.us, f[1], f[2])
ScaleExpsOK == /\ phase = "start" => (Len(ExpSeq) = NRep /\ Cardinality(VRange(ExpSeq)) = NRep /\ 0 \notin VRange(ExpSeq))
               /\ (phase = "ip" /\ "sx" \in DOMAIN c) => /\ {c.rep.v, c.rep.x, c.rep.u} \cap IntReps = {}
                                                         /\ c.sx # 0 /\ c.sv # 0 /\ VAbs(c.sx) <= 40 /\ VAbs(c.sv) <= 40
                                                         /\ ("f4" \in {c.rep.v, c.rep.x, c.rep.u} => (VAbs(c.sx) <= 20 /\ VAbs(c.sv) <= 20))

\* cov/cor: the squared correlation of the definition reproduces the squared covariance
CovSane == phase = "cv" =>
    LET n == Len(c.m)
    IN \A i, j \in 1..n : /\ c.m[i][j] = c.m[j][i]
                          /\ RMul(SCor2(c.m, i, j), RInt(c.m[i][i] * c.m[j][j])) = RInt(c.m[i][j] * c.m[i][j])
                          /\ (i = j => SCor2(c.m, i, j) = <<1, 1>>)

\* ---- export -------------------------------------------------------------------------------
Export == /\ (DoExport /\ phase \in {"wm", "wm2", "cl", "ip", "cv", "sc", "tk"}) => PrintT(<<"CASE", ToJson(c)>>)
          /\ (DoExport /\ phase = "start") =>
                PrintT(<<"OPTS", ToJson([mus |-> MuTable, nsigs |-> NSigTable, reps |-> RepSeq, lats |-> LatSeq,
                                         tolbig |-> TolBig, tolf4 |-> TolF4, exps |-> ExpSeq, ticks |-> TickSeq, ticktol |-> TickTol,
                                         prs |-> [i \in 1..NPr |-> PrOf(i - 1)], screps |-> ScWReps, lays |-> LaySeq, scks |-> ScKSeq,
                                         \* which (representation, lattice) pairs are admissible, and the tolerance of each
                                         \* (lattice, float32 data?) - used by the adapter for its seeded larger cases
                                         okdata  |-> UNION {{<<r, l.name>> : r \in {q \in VRange(RepSeq) : RepOKData(q, l)}} : l \in VRange(LatSeq)},
                                         okwts   |-> UNION {{<<r, l.name>> : r \in {q \in VRange(RepSeq) : RepOKWts(q, l)}} : l \in VRange(LatSeq)},
                                         oknodes |-> UNION {{<<r, l.name>> : r \in {q \in VRange(RepSeq) : RepOKNodes(q, l)}} : l \in VRange(LatSeq)},
                                         okquery |-> UNION {{<<r, l.name>> : r \in {q \in VRange(RepSeq) : RepOKQuery(q, l)}} : l \in VRange(LatSeq)},
                                         tols    |-> {<<l.name, r, LatTol(l, r)>> : r \in {"f4", "f8"}, l \in VRange(LatSeq)}])>>)
=============================================================================
