------------------------------- MODULE StatsMC -------------------------------
(* Exhaustive small-scope model for Stats.tla.                                     *)
(*  - Choose... actions enumerate every case of the bounded space, family by       *)
(*    family (Kinds); the chosen cases are exported as JSON and replayed into the  *)
(*    real code;                                                                   *)
(*  - the three mechanisms are run as ACTIONS, one per code step:                  *)
(*      MedStart/MedStep/MedDone   the cumulative-weight loop of wmedian           *)
(*      ClipStep/ClipFinish        the clipping iteration of sigma_clip (a real    *)
(*                                 behaviour: one state per round, branching on    *)
(*                                 boundary ties)                                  *)
(*      (interplin's index selection is a function: InterpRefines)                 *)
(*    and checked against the property-level definitions (…Refines);               *)
(*  - DefsAgree: the integer-sum formulas used everywhere equal the textbook       *)
(*    definitions written with exact rational arithmetic;                          *)
(*  - running TLC over the whole space also shows that no 32-bit overflow occurs   *)
(*    on the lattice (overflow is a TLC error).                                    *)
EXTENDS Stats, Json

CONSTANTS Kinds,        \* subset of {"wm", "wm2", "cl", "ip", "cv"}: families enumerated in this run
          MinLen, MaxLen, Vals, Wts, MaxW,      \* wm : 1-d data/weights, total weight 1..MaxW
          MuNone,                                \* wm : TRUE - also enumerate supplied means (DefsAgree about them)
          N2Max, Vals2, Wts2,                    \* wm2: N-by-2 data, 1-d or N-by-2 weights
          ClipMaxLen, ClipMaxLenW, ClipVals, ClipWts, NSigIdx, ClipNiter,   \* cl
          TabX, TabV, TabMax,                    \* ip : nodes from TabX (2..TabMax of them), values from TabV
          CovMaxN, CovDiag, CovOffN, CovShift,   \* cv : diag from CovDiag, off-diagonal from (0..CovOffN) - CovShift
          DefMaxW,                               \* DefsAgree is evaluated for total weight <= DefMaxW
          MedVariantGE,                          \* FALSE: the loop test of the code (sum > W/2); TRUE: a deviating
                                                 \* variant (sum >= W/2) used to show that MedRefines can fail
          DoExport

VARIABLES phase, c, st
vars == <<phase, c, st>>

NoCase == [op |-> "none"]
NoSt   == [k |-> 0]
NSigTable == << <<1, 2>>, <<1, 1>>, <<3, 2>>, <<2, 1>>, <<3, 1>>, <<6, 1>> >>       \* nsig = 1/2 ... 6
MuTable   == << <<0, 1>>, <<5, 2>>, <<3, 1>> >>                                     \* supplied means tried

Init == phase = "start" /\ c = NoCase /\ st = NoSt

\* ---- wmom / wmedian / get_stats, 1-d -------------------------------------------------
ChooseX1 ==
    /\ phase = "start" /\ "wm" \in Kinds
    /\ \E n \in MinLen..MaxLen : \E x \in [1..n -> Vals] : c' = [op |-> "wm", x |-> <<x>>]
    /\ phase' = "wm_x" /\ UNCHANGED st
ChooseW1 ==
    /\ phase = "wm_x"
    /\ \E w \in [1..Len(c.x[1]) -> Wts] :
          /\ SSumW(w, DOMAIN w) \in 1..MaxW
          /\ c' = [op |-> "wm", x |-> c.x, w |-> <<w>>]
    /\ phase' = "wm" /\ UNCHANGED st
ChooseMu ==
    /\ phase = "wm" /\ MuNone
    /\ \E k \in 0..Len(MuTable) :
          c' = [op |-> "wm", x |-> c.x, w |-> c.w, hasmu |-> k > 0, mu |-> IF k > 0 THEN MuTable[k] ELSE <<0, 1>>]
    /\ phase' = "wm_mu" /\ UNCHANGED st

MedStart == /\ phase = "wm"
            /\ st' = SMedInit(c.x[1], c.w[1]) /\ phase' = "med" /\ UNCHANGED c
MedGoesOn == IF MedVariantGE THEN 2 * st.sum >= SSumW(c.w[1], DOMAIN c.w[1]) /\ st.k < Len(c.x[1])
             ELSE SMedGoesOn(c.x[1], c.w[1], st)
MedStep  == /\ phase = "med" /\ MedGoesOn
            /\ st' = SMedStep(c.x[1], c.w[1], st) /\ UNCHANGED <<phase, c>>
MedDone  == /\ phase = "med" /\ ~MedGoesOn
            /\ phase' = "med_done" /\ UNCHANGED <<c, st>>

\* ---- wmom, N-by-2 ----------------------------------------------------------------------
ChooseX2 ==
    /\ phase = "start" /\ "wm2" \in Kinds
    /\ \E n \in 1..N2Max : \E x \in [1..2 -> [1..n -> Vals2]] : c' = [op |-> "wm", x |-> x]
    /\ phase' = "wm2_x" /\ UNCHANGED st
ChooseW2 ==
    /\ phase = "wm2_x"
    /\ \E d \in 1..2 : \E w \in [1..d -> [1..Len(c.x[1]) -> Wts2]] :
          /\ \A j \in 1..d : SSumW(w[j], DOMAIN w[j]) \in 1..MaxW
          /\ c' = [op |-> "wm", x |-> c.x, w |-> w]
    /\ phase' = "wm2" /\ UNCHANGED st

\* ---- sigma clipping -------------------------------------------------------------------
ChooseClipX ==
    /\ phase = "start" /\ "cl" \in Kinds
    /\ \E n \in 1..ClipMaxLen : \E x \in [1..n -> ClipVals] : c' = [op |-> "cl", x |-> x]
    /\ phase' = "cl_x" /\ UNCHANGED st
ChooseClipW ==
    /\ phase = "cl_x"
    /\ \E hasw \in BOOLEAN : \E ns \in NSigIdx :
       \E w \in (IF hasw THEN (IF Len(c.x) <= ClipMaxLenW THEN [1..Len(c.x) -> ClipWts] ELSE {}) ELSE {SOnes(Len(c.x))}) :
          c' = [op |-> "cl", x |-> c.x, w |-> w, hasw |-> hasw,
                nsn |-> NSigTable[ns][1], nsd |-> NSigTable[ns][2], niter |-> ClipNiter]
    /\ st' = [S |-> DOMAIN c.x, k |-> 0, done |-> FALSE]
    /\ phase' = "cl"
\* one round of the loop in sigma_clip:  w = where(|x-m| < nsig*s);
\*   w.size == 0 -> break (S stands);  w.size == nold -> break;  else S := w
ClipStep ==
    /\ phase = "cl" /\ ~st.done /\ st.k < c.niter
    /\ \E T \in SClipCands(c, st.S) :
          st' = IF T = {} \/ T = st.S THEN [st EXCEPT !.done = TRUE]
                ELSE [S |-> T, k |-> st.k + 1, done |-> FALSE]
    /\ UNCHANGED <<phase, c>>
ClipFinish ==
    /\ phase = "cl" /\ (st.done \/ st.k = c.niter)
    /\ phase' = "cl_done" /\ UNCHANGED <<c, st>>

\* ---- interpolation tables ------------------------------------------------------------
IpQueries == LET lo == 2 * VSetMin(TabX) - 4
                 hi == 2 * VSetMax(TabX) + 4
             IN [i \in 1..(hi - lo + 1) |-> RNorm(lo + i - 1, 2)]          \* half-integer steps, 2 beyond either end
ChooseNodes ==
    /\ phase = "start" /\ "ip" \in Kinds
    /\ \E X \in SUBSET TabX : /\ Cardinality(X) \in 2..TabMax
                              /\ c' = [op |-> "ip", xs |-> VSortSet(X)]
    /\ phase' = "ip_x" /\ UNCHANGED st
ChooseTabV ==
    /\ phase = "ip_x"
    /\ \E vs \in [1..Len(c.xs) -> TabV] : c' = [op |-> "ip", xs |-> c.xs, vs |-> vs, us |-> IpQueries]
    /\ phase' = "ip" /\ UNCHANGED st

\* ---- covariance matrices ----------------------------------------------------------------
PairIdx(n, i, j) == LET a == VMin2(i, j)  b == VMax2(i, j)                  \* i # j -> 1..n(n-1)/2
                    IN ((a - 1) * (2 * n - a)) \div 2 + (b - a)
ChooseCovDiag ==
    /\ phase = "start" /\ "cv" \in Kinds
    /\ \E n \in 1..CovMaxN : \E dg \in [1..n -> CovDiag] : c' = [op |-> "cv", dg |-> dg]
    /\ phase' = "cv_d" /\ UNCHANGED st
ChooseCovOff ==
    /\ phase = "cv_d"
    /\ LET n == Len(c.dg) IN
       \E off \in [1..((n * (n - 1)) \div 2) -> 0..CovOffN] :
          c' = [op |-> "cv",
                m |-> [i \in 1..n |-> [j \in 1..n |-> IF i = j THEN c.dg[i] ELSE off[PairIdx(n, i, j)] - CovShift]]]
    /\ phase' = "cv" /\ UNCHANGED st

NextExport == ChooseX1 \/ ChooseW1 \/ ChooseX2 \/ ChooseW2 \/ ChooseClipX \/ ChooseClipW
              \/ ChooseNodes \/ ChooseTabV \/ ChooseCovDiag \/ ChooseCovOff
Next == NextExport \/ ChooseMu \/ MedStart \/ MedStep \/ MedDone \/ ClipStep \/ ClipFinish

Spec == Init /\ [][Next]_vars

\* ---- properties ------------------------------------------------------------------------
\* integer-sum formulas = textbook definitions (weighted mean, deviation about the mean or a
\* supplied mean, calcerr error), for every (x, w, mu)
DefsAgreeCol(x, w, mu) ==
    LET P == DOMAIN x
    IN /\ SMean(x, w, P) = SDefMean(x, w, P)
       /\ SVarAbout(x, w, P, mu) = SDefVarAbout(x, w, P, mu)
       /\ SErr2Calc(x, w, P, mu) = SDefErr2Calc(x, w, P, mu)
       /\ SVar(x, w, P) = SVarAbout(x, w, P, SMean(x, w, P))
       /\ SErr2Inv(w, P) = RDiv(RInt(1), RInt(SSumW(w, P)))
DefsAgree == (phase = "wm_mu" /\ SSumW(c.w[1], DOMAIN c.w[1]) <= DefMaxW) =>
                DefsAgreeCol(c.x[1], c.w[1], IF c.hasmu THEN c.mu ELSE SMean(c.x[1], c.w[1], DOMAIN c.x[1]))
\* sanity theorems of the definitions: min <= mean <= max, deviation >= 0 and = 0 iff the
\* positively weighted values coincide, median is a datum with positive cumulative weight
MomentsSane == phase = "wm" =>
    LET x == c.x[1]  w == c.w[1]  P == DOMAIN x  m == SMean(x, w, P)  v == SVar(x, w, P)
        pos == {i \in P : w[i] > 0}
    IN /\ RLe(RInt(SMinOf(x, pos)), m) /\ RLe(m, RInt(SMaxOf(x, pos)))
       /\ v[1] >= 0 /\ (v[1] = 0 <=> Cardinality({x[i] : i \in pos}) = 1)
       /\ SWMedian(x, w) \in {x[i] : i \in P}
       /\ SMinOf(x, pos) <= SWMedian(x, w) /\ SWMedian(x, w) <= SMaxOf(x, pos)

\* the loop of wmedian stays inside the array and ends on the property-level median
MedSafe    == phase \in {"med", "med_done"} => st.k \in 1..Len(c.x[1])
MedRefines == phase = "med_done" => c.x[1][SSortPos(c.x[1], DOMAIN c.x[1])[st.k]] = SWMedian(c.x[1], c.w[1])

\* the clipping iteration: what it ends on is a subset the property allows; it never
\* reports the empty set; it stops before the limit only when nothing changes/survives
ClipRefines  == phase = "cl_done" => st.S \in SClipFinals(c)
ClipNonEmpty == phase \in {"cl", "cl_done"} => st.S # {} /\ st.k <= c.niter
ClipStopsOK  == (phase = "cl_done" /\ st.k < c.niter) => SClipStops(c, st.S)
\* the predicate forms used by the trace specification agree with the set forms, on every subset
ClipPredsAgree == phase = "cl" =>
    \A S \in SUBSET DOMAIN c.x :
        /\ SClipStopsP(c, S) <=> SClipStops(c, S)
        /\ \A U \in SUBSET DOMAIN c.x : SClipInSucc(c, S, U) <=> U \in SClipSucc(c, S)
ClipShrinks  == [][(phase = "cl" /\ phase' = "cl") =>
                     (st'.S \subseteq st.S /\ (st'.S # st.S <=> st'.k = st.k + 1) /\ (st'.S # st.S => ~st.done))]_vars
\* every reported subset has a defined, consistent set of statistics (exercises the formulas
\* on every reachable subset: overflow check)
ClipStatsDefined == phase = "cl_done" =>
    /\ SClipVar(c, st.S)[1] >= 0
    /\ SErr2Calc(c.x, c.w, st.S, SClipMean(c, st.S))[1] >= 0 /\ SErr2Inv(c.w, st.S)[1] = 1

\* interplin: the searchsorted index selection yields an allowed segment at every query;
\* the property-level definition is single-valued (segments agree at the nodes)
InterpRefines == phase = "ip" =>
    \A q \in DOMAIN c.us : /\ SInterpMech(c.xs, c.vs, c.us[q]) \in SInterpVals(c.xs, c.vs, c.us[q])
                           /\ Cardinality(SInterpVals(c.xs, c.vs, c.us[q])) = 1

\* cov/cor: the squared correlation of the definition reproduces the squared covariance
CovSane == phase = "cv" =>
    LET n == Len(c.m)
    IN \A i, j \in 1..n : /\ c.m[i][j] = c.m[j][i]
                          /\ RMul(SCor2(c.m, i, j), RInt(c.m[i][i] * c.m[j][j])) = RInt(c.m[i][j] * c.m[i][j])
                          /\ (i = j => SCor2(c.m, i, j) = <<1, 1>>)

\* ---- export -------------------------------------------------------------------------------
Export == /\ (DoExport /\ phase \in {"wm", "wm2", "cl", "ip", "cv"}) => PrintT(<<"CASE", ToJson(c)>>)
          /\ (DoExport /\ phase = "start") => PrintT(<<"OPTS", ToJson([mus |-> MuTable, nsigs |-> NSigTable])>>)
=============================================================================
