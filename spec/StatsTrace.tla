------------------------------- MODULE StatsTrace -------------------------------
(* Trace validation for the statistics helpers: every recorded call of the real    *)
(* code is judged by the property-level definitions of Stats.tla.                  *)
(* One ndjson line per record:                                                     *)
(*   {"id": k, "op": <"wmom"|"wmedian"|"clip"|"interp"|"gstats"|"cov">,            *)
(*    "c": <the abstract case (data, weights, ...; rep, lat: how the arrays were   *)
(*          handed to the code - read by no clause; tol: clipping tolerance)>,     *)
(*    "runs": [{"p": <parameters of this call>, "o": <what it returned>}, ...]}    *)
(* The case of run k is  c @@ runs[k].p ; a failing clause is reported as          *)
(* "<k>:<clause>".                                                                 *)
EXTENDS Stats, Json, IOUtils

VARIABLES blk, tid
Traces == ndJsonDeserialize(IOEnv.TRACE_FILE)
NT == Len(Traces)
BlockSize == 256
NBlocks == (NT + BlockSize - 1) \div BlockSize

Init == blk = 0 /\ tid = 0
PickBlock == blk = 0 /\ tid = 0 /\ \E b \in 1..NBlocks : blk' = b /\ tid' = 0
PickTrace == blk > 0 /\ tid = 0
             /\ \E t \in ((blk - 1) * BlockSize + 1)..VMin2(blk * BlockSize, NT) : tid' = t /\ blk' = blk
Next == PickBlock \/ PickTrace

FailingRec(r) ==
    UNION {{ToString(k) \o ":" \o f : f \in SFailing(r.op, r.runs[k].p @@ r.c, r.runs[k].o)} : k \in DOMAIN r.runs}

Check == tid > 0 =>
    LET r == Traces[tid]  f == FailingRec(r)
    IN f = {} \/ PrintT(<<"REJECT", ToJson([id |-> r.id, failing |-> f])>>)
=============================================================================
