------------------------------- MODULE TableStore -------------------------------
(* Extension X04: esutil.sqlite_util (a numpy-aware sqlite connection + dict / type-map     *)
(* helpers) and esutil.xmltools (dict <-> XML element tree).                                 *)
(*                                                                                          *)
(* Part 1 is ONE state machine over a database file:                                         *)
(*     db[t]   = [ex, cols, rows, hazy]   table t: exists?, column definitions <<[name, k]>>, *)
(*               the sequence of rows (a row = <<cell>>, a cell = [s, c, ty]: decimal text of *)
(*               a number / character codes of a string / the type it was written with);      *)
(*               hazy = the documentation does not say what the table holds now               *)
(*     idx     = the indexes <<table, <<column names>>>>                                      *)
(*     stray   = temporary files left in the scratch directory                                *)
(*     res     = outcome of the last call                                                     *)
(* with one action per public call.  Part 2 gives the pure helpers as relations, part 3 the   *)
(* dict <-> element-tree algebra of xmltools.                                                 *)
(*                                                                                          *)
(* THE CONTRACT (documentation lines the clauses come from; sqlite_util.py / xmltools.py).   *)
(* array2table                                                                               *)
(*  A1 "tablename: The name for a table.  It is created if it doesn't exist." + class doc     *)
(*     "Stuff a numpy array with fields (recarray) into a table, creating it if necessary.    *)
(*     The column names will match those in the array."                                       *)
(*  A2 "create: If True, drop any existing table with the same name.  Otherwise, attempt to   *)
(*     append."  -> create=False on an existing table: rows' = rows \o new rows (in order);   *)
(*     create=True: the table holds exactly the new rows (its indexes go with the old table). *)
(*  A3 the class example: i8 -> integer, f8 / f4 -> real, S25 / S10 -> text                   *)
(*     (describe prints "id integer / ra real / name text / rmag real").                      *)
(*  A4 "cleanup: If not True, leave the temporary file for debugging" -> with the default no  *)
(*     temporary file is left.                                                                *)
(*  SILENT (every outcome accepted): numpy unicode ('U') and other types the examples never   *)
(*  mention; an append whose columns differ from the table's ("we'll assume the table has the *)
(*  right definition for this array, for now"): the table is hazy afterwards; whether stored  *)
(*  strings are padded to the field width; float text precision (4 ulp of the written type).  *)
(* execute                                                                                   *)
(*  E1 "Execute the input query and return the cursor object."                                *)
(*  E2 "If asarray=True then the result is converted to an array.  The data type is           *)
(*     determined from the returned data ... we are stuck with 'i8' 'f8' and string types."   *)
(*     + class doc "a numpy array with fields corresponding to the columns"  -> same column   *)
(*     names (case: the code lower-cases, silent -> compared case-insensitively) in the same  *)
(*     order, integer / float / string kinds, values equal.                                   *)
(*  E3 "the length of the string column is determined from the *first* row, so you may end    *)
(*     up with truncated data"  -> a string comes back cut to the observed field size, which  *)
(*     must hold the first row's value.                                                       *)
(*  E4 "dtype: Explicitly send the data type for each row ... string fields can be declared   *)
(*     large enough to accomodate variable length columns."  -> no truncation.                *)
(*  E5 (source comment) "when row factory is Row ... Temporarily turn it off." -> later calls *)
(*     still get rows with fields (T1).                                                       *)
(*  SILENT: the result for zero rows (only len 0 is required); a missing table.               *)
(* table_exists  X1 "if sc.table_exists('tablename')" -> True iff the table exists.           *)
(* table_info / describe / info                                                              *)
(*  T1 "if tablename is sent each row returned has fields: cid, name: name of column, type:   *)
(*     declared type ..."; "columns: if sent, a subset of columns will be returned."          *)
(*  T2 describe "Print a visually appealing description of the database or an object ...      *)
(*     This just calls the .info or .table_info method and prints the results." (class        *)
(*     example: one "name type" line per column).                                             *)
(*  T3 info "Query the sqlite_master table ... If type is not None, return only entries of    *)
(*     that type, e.g. 'table' or 'index'.  Each rows contains: type, name, tbl_name, ..."    *)
(*  T4 tabledef2dtype "Take output of table_info() and convert to a numpy descriptor."        *)
(*     ("Todo: variable length columns" -> a text column: anything.)                          *)
(* drop       D1 "Drop an object from the database."  (missing object: silent)                *)
(* add_index  I1 "tablename: The name of the table where the index will be built.  columns:   *)
(*     The columns to use on the index.  Can be a string or a list of strings for a           *)
(*     multi-column index."  -> afterwards an index on that table over those columns exists.  *)
(*     module add_index(dbfile, tablename, columns) "Convenience function" -> the same.       *)
(* dict2table                                                                                *)
(*  C1 "Convert a dict or list of dicts to an sqlite table, creating the table if needed.  If *)
(*     the table exists, the data are appended."   py2sqlite: int -> integer, float -> real,  *)
(*     str -> text ("python data must be one of the following types: int, float, str").       *)
(*  SILENT: clobber= (the code removes the database file; the sentence above says appended):  *)
(*  database emptied first, table replaced, or appended are all accepted; an empty list;      *)
(*  keys= naming a subset.  indices= : I1 for each.                                            *)
(* type maps: numpy2sqlite "Convert a numpy type to a sqlite column type" (A3); sqlite2numpy  *)
(*  the table in its docstring (text/char/varchar.. -> S; real -> f8; integer -> i8; f4,      *)
(*  float32, float -> f4; f8, float64, double -> f8; i1,int8,tinyint -> i1; i2,int16,smallint *)
(*  -> i2; i4,int32 -> i4; i8,int64,bigint -> i8; char(n), character(n) -> Sn); descr2coldefs *)
(*  "sqlite does not support array columns" (ValueError); dict_ensurelist "Input data must be *)
(*  dict or sequence of dicts".                                                               *)
(* xmltools                                                                                  *)
(*  M1 dict2xml "Converts a dictionary to an XML ElementTree Element and returns the result.  *)
(*     Optionally prints to file if input."                                                   *)
(*  M2 "If roottag is not sent, it is assumed that the dictionary is keyed by the root, and   *)
(*     this roottag is gotten with roottag = xmldict.keys()[0]"                               *)
(*  M3 "If roottag is sent, the root will be created with that name and the input dictionary  *)
(*     will be placed under that tag."                                                        *)
(*  M4 xml2dict "Converts an XML file or ElementTree Element to a dictionary"; source         *)
(*     comments: "if we have attributes, set them", "found duplicate tag, force a list",      *)
(*     "add the text as a dictionary value (if there is any)" (key '_text'), "if we don't     *)
(*     have child nodes or attributes, just set the text".                                    *)
(*  M5 "If noroot=True ... xmldict[roottag] is returned.  If seproot=True ... the tuple       *)
(*     (xmldict[roottag], roottag) is returned."  (both: either form)                         *)
(*  M6 XmlDictObject "Adds object like functionality to the standard dictionary"; Wrap "wrap  *)
(*     a dictionary recursively"; UnWrap "Recursively converts ... to a standard dictionary". *)
(*  SILENT: None, a list directly inside a list or as the root value, a non-scalar '_text',   *)
(*  an attribute with the name of a child tag, key order, surrounding white space of text     *)
(*  (compared stripped: dict2xml indents its output), text-mode file objects.                  *)
EXTENDS VU

CONSTANTS Tables       \* table names

VARIABLES db, idx, stray, res
svars == <<db, idx, stray, res>>

\* =====================================================================================
\* types, columns, cells
\* =====================================================================================
IntTypes  == {"i1", "i2", "i4", "i8", "u1", "u2", "u4"}
RealTypes == {"f4", "f8"}
PyTypes   == {"pyint", "pyfloat", "pystr"}
Kind(ty) == IF ty \in IntTypes \cup {"pyint"} THEN "int"
            ELSE IF ty \in RealTypes \cup {"pyfloat"} THEN "real"
            ELSE IF ty \in {"S", "U", "pystr"} THEN "text" ELSE "other"
Documented(ty) == ty \in IntTypes \cup RealTypes \cup {"S"} \cup PyTypes        \* A3 / C1 ('U', 'u8', 'f2', ...: silent)
KindWord(k) == CASE k = "int" -> "integer" [] k = "real" -> "real" [] k = "text" -> "text" [] OTHER -> "other"
LName(n) == IF n = "B" THEN "b" ELSE n                 \* the column-name alphabet is {"a", "B", "c"}

NoTab   == [ex |-> FALSE, cols |-> <<>>, rows |-> <<>>, hazy |-> FALSE]
HazyTab == [ex |-> TRUE,  cols |-> <<>>, rows |-> <<>>, hazy |-> TRUE]
ColsOf(cols) == [i \in DOMAIN cols |-> [name |-> cols[i].name, k |-> Kind(cols[i].ty)]]
RowsOf(cols, rows) == [r \in DOMAIN rows |-> [i \in DOMAIN cols |-> [s |-> rows[r][i].s, c |-> rows[r][i].c, ty |-> cols[i].ty]]]
Compatible(tab, cols) == /\ Len(tab.cols) = Len(cols)
                         /\ \A i \in DOMAIN cols : tab.cols[i].k = Kind(cols[i].ty) /\ LName(tab.cols[i].name) = LName(cols[i].name)
DropIdx(I, t) == {x \in I : x[1] # t}
ColNames(tab) == {tab.cols[i].name : i \in DOMAIN tab.cols}

R(op, t, err, val) == [op |-> op, t |-> t, err |-> err, val |-> val, reset |-> FALSE]

SInit == /\ db = [t \in Tables |-> NoTab]
         /\ idx = {}
         /\ stray = 0
         /\ res = R("init", "none", "none", 0)

\* =====================================================================================
\* writing: array2table / dict2table
\* =====================================================================================
\* what writing (cols, rows) into table t of database D (indexes I) may leave behind
WriteOutcomes(D, I, t, cols, rows, force) ==
    LET tab   == D[t]
        fresh == [ex |-> TRUE, cols |-> ColsOf(cols), rows |-> RowsOf(cols, rows), hazy |-> FALSE]
        oc(tb, ix, e) == [db |-> [D EXCEPT ![t] = tb], idx |-> ix, err |-> e]
    IN IF Len(cols) = 0 \/ \E i \in DOMAIN cols : ~Documented(cols[i].ty)
       THEN {oc(tab, I, "any"), oc(HazyTab, I, "any"), oc(HazyTab, DropIdx(I, t), "any"), oc(NoTab, DropIdx(I, t), "any")}   \* silent
       ELSE IF ~tab.ex THEN {oc(fresh, I, "none")}                                              \* A1 / C1 created
       ELSE IF force THEN {oc(fresh, DropIdx(I, t), "none")}                                    \* A2 create=True
       ELSE IF tab.hazy \/ ~Compatible(tab, cols) THEN {oc(HazyTab, I, "any")}                  \* silent
       ELSE {oc([tab EXCEPT !.rows = @ \o RowsOf(cols, rows)], I, "none")}                      \* A2 / C1 appended

\* sc.array2table(arr, t, create=create, cleanup=cleanup)
A2T(t, cols, rows, create, cleanup) ==
    /\ t \in Tables
    /\ \E o \in WriteOutcomes(db, idx, t, cols, rows, create) :
          /\ db' = o.db /\ idx' = o.idx
          /\ res' = [R("a2t", t, o.err, 0) EXCEPT !.reset = create]
          /\ stray' \in (IF o.err = "none" THEN {stray + (IF cleanup THEN 0 ELSE 1)} ELSE {stray, stray + 1})   \* A4

\* dict2table(dicts, dbfile, t, clobber=clobber, indices=[icols] if icols # <<>>, cleanup=cleanup)
D2T(t, cols, rows, clobber, icols, cleanup) ==
    /\ t \in Tables
    /\ LET empty   == [u \in Tables |-> NoTab]
           dropped == [db EXCEPT ![t] = NoTab]
           bases   == IF clobber THEN {<<empty, {}>>, <<dropped, DropIdx(idx, t)>>, <<db, idx>>} ELSE {<<db, idx>>}   \* clobber: silent
       IN \E b \in bases :
          IF rows = <<>>
          THEN /\ db' = b[1] /\ idx' = b[2] /\ res' = [R("d2t", t, "any", 0) EXCEPT !.reset = clobber]               \* silent
               /\ stray' \in {stray, stray + 1}
          ELSE \E o \in WriteOutcomes(b[1], b[2], t, cols, rows, FALSE) :
               LET okidx == icols = <<>> \/ (o.err = "none" /\ \A j \in DOMAIN icols : icols[j] \in ColNames(o.db[t]))
               IN /\ db' = o.db
                  /\ idx' \in (IF icols = <<>> THEN {o.idx} ELSE IF okidx THEN {o.idx \cup {<<t, icols>>}}            \* I1
                               ELSE {o.idx, o.idx \cup {<<t, icols>>}})
                  /\ res' = [R("d2t", t, IF okidx THEN o.err ELSE "any", 0) EXCEPT !.reset = clobber]
                  /\ stray' \in (IF o.err = "none" /\ okidx THEN {stray + (IF cleanup THEN 0 ELSE 1)} ELSE {stray, stray + 1})

\* =====================================================================================
\* reading and describing (the state is untouched; res'.val = the table the answer is judged against)
\* =====================================================================================
Observer(r) == res' = r /\ UNCHANGED <<db, idx, stray>>

\* E3: the size of a string column comes from the first row: an empty first string leaves nothing defined
ZeroFirst(tab) == /\ tab.rows # <<>>
                  /\ \E i \in DOMAIN tab.cols : tab.cols[i].k = "text" /\ tab.rows[1][i].c = <<>>

\* sc.execute("select * from t", asarray=True [, dtype=wide]) / sc.execute(...) -> cursor
Read(t, mode) ==
    /\ t \in Tables /\ mode \in {"asarray", "dtype", "cursor"}
    /\ Observer(R("read", t, IF db[t].ex /\ ~db[t].hazy /\ ~(mode = "asarray" /\ ZeroFirst(db[t])) THEN "none" ELSE "any", db[t]))

Exists(t) == t \in Tables /\ Observer(R("exists", t, "none", db[t].ex))                         \* X1

HasText(tab) == \E i \in DOMAIN tab.cols : tab.cols[i].k = "text"
\* mode: "describe" (printed), "tinfo" (table_info rows), "tinfo_cols" (columns = the first column), "t2d" (tabledef2dtype)
Describe(t, mode) ==
    /\ t \in Tables /\ mode \in {"describe", "tinfo", "tinfo_cols", "t2d"}
    /\ Observer(R("describe", t, IF db[t].ex /\ ~db[t].hazy /\ ~(mode = "t2d" /\ HasText(db[t])) THEN "none" ELSE "any", db[t]))

\* mode: "tables" (info('table')), "tables2" (table_info()), "indexes" (info('index')), "all" (info())
Info(mode) ==
    /\ mode \in {"tables", "tables2", "indexes", "all"}
    /\ Observer(R("info", "none", "none", [tabs |-> {t \in Tables : db[t].ex}, idx |-> idx,
                                           hazy |-> {t \in Tables : db[t].hazy}]))              \* T3

\* =====================================================================================
\* drop / add_index / a new connection
\* =====================================================================================
Drop(t) ==
    /\ t \in Tables
    /\ IF db[t].ex
       THEN /\ db' = [db EXCEPT ![t] = NoTab] /\ idx' = DropIdx(idx, t) /\ res' = R("drop", t, "none", 0)    \* D1
       ELSE /\ res' = R("drop", t, "any", 0) /\ UNCHANGED <<db, idx>>                                        \* silent
    /\ UNCHANGED stray

\* via: "method" sc.add_index(t, icols) | "module" sqlite_util.add_index(dbfile, t, icols)
AddIndex(t, icols, via) ==
    /\ t \in Tables /\ icols # <<>>
    /\ LET ok == db[t].ex /\ ~db[t].hazy /\ \A j \in DOMAIN icols : icols[j] \in ColNames(db[t])
       IN IF ok THEN idx' = idx \cup {<<t, icols>>} /\ res' = R("add_index", t, "none", 0)                   \* I1
          ELSE IF db[t].ex THEN idx' \in {idx, idx \cup {<<t, icols>>}} /\ res' = R("add_index", t, "any", 0)
          ELSE idx' = idx /\ res' = R("add_index", t, "any", 0)
    /\ UNCHANGED <<db, stray>>

\* sc.close(); sc = SqliteConnection(dbfile): everything written is still there
Reopen == Observer(R("reopen", "none", "none", 0))

\* ---- invariants and theorems of part 1 ------------------------------------------------
TabOk(tab) == /\ (~tab.ex => tab = NoTab) /\ (tab.hazy => tab = HazyTab)
              /\ \A r \in DOMAIN tab.rows : /\ Len(tab.rows[r]) = Len(tab.cols)
                                            /\ \A i \in DOMAIN tab.cols : Kind(tab.rows[r][i].ty) = tab.cols[i].k
StoreInv == /\ \A t \in Tables : TabOk(db[t])
            /\ \A x \in idx : db[x[1]].ex                          \* an index never outlives its table
            /\ stray >= 0

Observers == {"read", "exists", "describe", "info", "reopen"}
\* every action property of the store, checked on every step of the bounded model
StoreProps ==
    [][ /\ (res'.op \in Observers => (db' = db /\ idx' = idx /\ stray' = stray))
        \* a call on one table leaves the others alone (dict2table(clobber=True) excepted)
        /\ ((res'.op \in {"a2t", "drop", "add_index"} \/ (res'.op = "d2t" /\ ~res'.reset))
               => \A u \in Tables \ {res'.t} : db'[u] = db[u])
        \* A2 / C1: appends accumulate - what was there stays, in order, in front
        /\ ((res'.op \in {"a2t", "d2t"} /\ res'.err = "none" /\ ~res'.reset /\ db[res'.t].ex)
               => VIsPrefix(db[res'.t].rows, db'[res'.t].rows) /\ db'[res'.t].cols = db[res'.t].cols)
        \* A2: create=True leaves no index of the old table behind
        /\ ((res'.op = "a2t" /\ res'.reset /\ res'.err = "none") => \A x \in idx' : x[1] # res'.t)
        /\ (res'.op = "drop" => ~db'[res'.t].ex)
      ]_svars

\* =====================================================================================
\* judging observations of part 1 (used by the trace module)
\* =====================================================================================
RECURSIVE Strip0(_)
Strip0(s) == IF s = <<>> THEN <<>> ELSE IF s[Len(s)] = 0 THEN Strip0(SubSeq(s, 1, Len(s) - 1)) ELSE s
TakeN(s, n) == IF Len(s) <= n THEN s ELSE SubSeq(s, 1, n)
FloatOk(ty) == IF ty = "f4" THEN {"e64", "u64", "e32", "u32"} ELSE {"e64", "u64"}

\* a cell of the model against a value seen in the database / in a returned array
\* o = [k |-> "int" | "real" | "text" | other, s, c, fc];  size = field size of a returned string column
CellOk(m, o, size) ==
    LET k == Kind(m.ty)
    IN /\ o.k = k
       /\ k = "int"  => o.s = m.s
       /\ k = "real" => (o.s = m.s /\ o.fc \in FloatOk(m.ty))
       /\ k = "text" => Strip0(o.c) = Strip0(TakeN(m.c, size))                                  \* E3 (padding: silent)
Big == 1000000

\* the table as a plain sqlite3 connection sees it: o = [ex, cols |-> <<[name, k]>>, rows |-> <<<<cell>>>>]
StoredOk(tab, o) ==
    /\ o.ex = tab.ex
    /\ (tab.ex /\ ~tab.hazy) =>
          /\ Len(o.cols) = Len(tab.cols)
          /\ \A i \in DOMAIN tab.cols : i \in DOMAIN o.cols => (o.cols[i].name = tab.cols[i].name /\ o.cols[i].k = tab.cols[i].k)   \* A1 A3
          /\ Len(o.rows) = Len(tab.rows)
          /\ \A r \in DOMAIN tab.rows : r \in DOMAIN o.rows =>
                /\ Len(o.rows[r]) = Len(tab.cols)
                /\ \A i \in DOMAIN tab.cols : i \in DOMAIN o.rows[r] => CellOk(tab.rows[r][i], o.rows[r][i], Big)
StoredCols(tab, o) == (tab.ex /\ ~tab.hazy /\ o.ex) =>
          /\ Len(o.cols) = Len(tab.cols)
          /\ \A i \in DOMAIN tab.cols : i \in DOMAIN o.cols => (o.cols[i].name = tab.cols[i].name /\ o.cols[i].k = tab.cols[i].k)

\* a returned array / cursor: o = [n, names, lnames, kinds, sizes, rows]
KindCodes(k) == CASE k = "int" -> {"i"} [] k = "real" -> {"f"} [] k = "text" -> {"S", "U"} [] OTHER -> {}
ReadOk(tab, o, mode) ==
    IF tab.rows = <<>> THEN o.n = 0                                                              \* zero rows: silent beyond that
    ELSE /\ o.n = Len(tab.rows)
         /\ Len(o.rows) = o.n
         /\ Len(o.lnames) = Len(tab.cols)                                                        \* E2
         /\ \A i \in DOMAIN tab.cols : i \in DOMAIN o.lnames =>
               /\ o.lnames[i] = LName(tab.cols[i].name)
               /\ (mode # "cursor" => o.kinds[i] \in KindCodes(tab.cols[i].k))
               /\ (tab.cols[i].k = "text" => o.sizes[i] >= Len(Strip0(tab.rows[1][i].c)))         \* E3
         /\ \A r \in DOMAIN tab.rows : r \in DOMAIN o.rows =>
               /\ Len(o.rows[r]) = Len(tab.cols)
               /\ \A i \in DOMAIN tab.cols : i \in DOMAIN o.rows[r] => CellOk(tab.rows[r][i], o.rows[r][i], o.sizes[i])

\* describe / table_info / tabledef2dtype: o = [names, tkinds, descr]
DescribeOk(tab, o, mode) ==
    LET want == IF mode = "tinfo_cols" THEN TakeN(tab.cols, 1) ELSE tab.cols
    IN /\ Len(o.names) = Len(want)
       /\ \A i \in DOMAIN want : i \in DOMAIN o.names =>
             IF mode = "t2d" THEN /\ o.names[i] = LName(want[i].name)                            \* T4
                                  /\ o.tkinds[i] = (IF want[i].k = "int" THEN "i8" ELSE "f8")
             ELSE o.names[i] = want[i].name /\ o.tkinds[i] = KindWord(want[i].k)                 \* T1 T2 A3

\* =====================================================================================
\* part 2: pure helpers (res'.val = the set of values the call may return; err "any" = may also raise)
\* =====================================================================================
Pure(op, err, allowed) == Observer(R(op, "none", err, allowed))
AllWords == {"integer", "real", "text"}

\* numpy2sqlite(<spelling of ty>)
N2S(ty) ==
    Pure("n2s", IF Documented(ty) THEN "none" ELSE "any",
         IF Documented(ty) THEN {KindWord(Kind(ty))}                                             \* A3
         ELSE IF ty = "U" THEN {"text"}                                                          \* a string type is text or refused
         ELSE IF ty = "u8" THEN {"integer"} ELSE AllWords)

\* sqlite2numpy(decl [, size=n]): the table of its docstring
S2NTable(decl) ==
    CASE decl \in {"real", "f8", "float64", "double"} -> "f8"
      [] decl \in {"integer", "i8", "int64", "bigint"} -> "i8"
      [] decl \in {"f4", "float32", "float"} -> "f4"
      [] decl \in {"i1", "int8", "tinyint"} -> "i1"
      [] decl \in {"i2", "int16", "smallint"} -> "i2"
      [] decl \in {"i4", "int32"} -> "i4"
      [] decl = "char(5)" -> "S5"
      [] decl = "character(12)" -> "S12"
      [] decl \in {"text", "varchar(5)", "character varying(3)", "character", "char", "string"} -> "S*"   \* size from the data
      [] OTHER -> "?"                                                                            \* not in the table: silent
S2N(decl, size) ==
    LET w == S2NTable(decl)
    IN Pure("s2n", IF w = "?" THEN "any" ELSE "none",
            IF w = "?" THEN {"*"}
            ELSE IF size > 0 /\ (w = "S*" \/ w \in {"S5", "S12"}) THEN {"size"}                  \* "use the sizes= keyword to set sizes explicitly"
            ELSE {w})

\* descr2tabledef(descr, t) executed on a real database, table_info, tabledef2dtype;  arrcol: one field has a shape
TDef(cols, arrcol) ==
    Pure("tdef", IF arrcol THEN "rejected"                                                       \* "sqlite does not support array columns"
                 ELSE IF \A i \in DOMAIN cols : Documented(cols[i].ty) THEN "none" ELSE "any", ColsOf(cols))

\* py2sqlite(value of python type p)
Py2S(p) ==
    Pure("py2s", IF p \in {"int", "float", "str"} THEN "none" ELSE IF p \in {"bytes", "none", "list"} THEN "rejected" ELSE "any",
         CASE p = "int" -> {"integer"} [] p = "float" -> {"real"} [] p = "str" -> {"text"} [] OTHER -> AllWords)

\* dict2tabledef(dict, t [, keys = reversed keys] [, types = all text]) executed on a real database
DDef(cols, rev, astext) ==
    LET n == Len(cols)
        ord == IF rev THEN [i \in 1..n |-> cols[n + 1 - i]] ELSE cols
        cs == [i \in 1..n |-> [name |-> ord[i].name, k |-> IF astext THEN "text" ELSE Kind(ord[i].ty)]]
    IN Pure("ddef", IF n > 0 /\ \A i \in 1..n : cols[i].ty \in PyTypes THEN "none" ELSE "any", cs)

\* dict_ensurelist(x)
Ensure(x) ==
    Pure("ensure", IF x \in {"dict", "list", "tuple"} THEN "none" ELSE IF x \in {"int", "str", "listofint"} THEN "rejected" ELSE "any",
         IF x = "dict" THEN {"wrapped"} ELSE IF x \in {"list", "tuple"} THEN {"same"} ELSE {"wrapped", "same"})

\* =====================================================================================
\* part 3: xmltools - dict values and element trees
\* =====================================================================================
\* a dict value: [t |-> "s" (string token s) | "i" (an int, text s) | "none" | "d" (keys, k = values) | "l" (k = items)]
DN(t, s, keys, k) == [t |-> t, s |-> s, keys |-> keys, k |-> k]
DStr(s) == DN("s", s, <<>>, <<>>)
\* an element: [tag, text (stripped), attrs |-> <<[n, v]>>, k |-> children]
EN(tag, text, attrs, k) == [tag |-> tag, text |-> text, attrs |-> attrs, k |-> k]

\* string tokens: "sp" = "  x " (x with white space around it), "ws" = white space only
TStrip(s) == IF s = "sp" THEN "x" ELSE IF s = "ws" THEN "" ELSE s
ScalText(v) == IF v.t = "none" THEN "None" ELSE v.s
IsScal(v) == v.t \in {"s", "i", "none"}

\* an element tree with raw text tokens, as the reader sees it (text stripped)
RECURSIVE TStripTree(_), TStripSeq(_)
TStripSeq(ks) == IF ks = <<>> THEN <<>> ELSE <<TStripTree(Head(ks))>> \o TStripSeq(Tail(ks))
TStripTree(e) == EN(e.tag, TStrip(e.text), e.attrs, TStripSeq(e.k))

\* keys in the order python sorts them: "_text" < "a" < "b" < "k"
KRank(key) == CASE key = "_text" -> 0 [] key = "a" -> 1 [] key = "b" -> 2 [] key = "k" -> 3 [] OTHER -> 4
KName(r) == CASE r = 0 -> "_text" [] r = 1 -> "a" [] r = 2 -> "b" [] r = 3 -> "k" [] OTHER -> "?"
SortKeys(S) == LET rs == VSortSet({KRank(x) : x \in S}) IN [i \in DOMAIN rs |-> KName(rs[i])]
KeyPos(keys, key) == CHOOSE i \in DOMAIN keys : keys[i] = key
HasKey(keys, key) == \E i \in DOMAIN keys : keys[i] = key

\* ---- where the documentation says nothing -------------------------------------------------
RECURSIVE XUnc(_, _), XUncSeq(_, _)
XUnc(v, inlist) ==
    \/ v.t = "none"
    \/ v.t = "l" /\ (inlist \/ XUncSeq(v.k, TRUE))
    \/ v.t = "d" /\ \/ \E i \in DOMAIN v.keys : v.keys[i] = "_text" /\ ~IsScal(v.k[i])
                    \/ \E i, j \in DOMAIN v.keys : i # j /\ v.keys[i] = v.keys[j]
                    \/ XUncSeq(v.k, FALSE)
XUncSeq(ks, inlist) == ks # <<>> /\ (XUnc(Head(ks), inlist) \/ XUncSeq(Tail(ks), inlist))

\* ---- dict2xml: the element for (tag, value)   M1-M3 ------------------------------------------
RECURSIVE XElem(_, _), XKids(_, _, _), XList(_, _)
XText(v) == IF v.t = "d" THEN (IF HasKey(v.keys, "_text") THEN TStrip(ScalText(v.k[KeyPos(v.keys, "_text")])) ELSE "")
            ELSE TStrip(ScalText(v))
XKids(keys, vals, i) ==
    IF i > Len(keys) THEN <<>>
    ELSE (IF keys[i] = "_text" THEN <<>>
          ELSE IF vals[i].t = "l" THEN XList(keys[i], vals[i].k)                                 \* one element per list item
          ELSE <<XElem(keys[i], vals[i])>>) \o XKids(keys, vals, i + 1)
XList(tag, items) == IF items = <<>> THEN <<>> ELSE <<XElem(tag, Head(items))>> \o XList(tag, Tail(items))
XElem(tag, v) == EN(tag, XText(v), <<>>, IF v.t = "d" THEN XKids(v.keys, v.k, 1) ELSE <<>>)

\* canonical form of a tree: children grouped by tag (stable), attributes by name - the order among different tags
\* carries no documented meaning
RECURSIVE XCanon(_), XCanonSeq(_)
SelTag(ks, tag) == SelectSeq(ks, LAMBDA e : e.tag = tag)
RECURSIVE GroupBy(_, _)
GroupBy(ks, tags) == IF tags = <<>> THEN <<>> ELSE SelTag(ks, Head(tags)) \o GroupBy(ks, Tail(tags))
XCanonSeq(ks) == IF ks = <<>> THEN <<>> ELSE <<XCanon(Head(ks))>> \o XCanonSeq(Tail(ks))
XCanon(e) == LET tags == SortKeys({e.k[i].tag : i \in DOMAIN e.k})
                 ans  == SortKeys({e.attrs[i].n : i \in DOMAIN e.attrs})
             IN EN(e.tag, e.text, [i \in DOMAIN ans |-> e.attrs[CHOOSE j \in DOMAIN e.attrs : e.attrs[j].n = ans[i]]],
                   XCanonSeq(GroupBy(e.k, tags)))

\* ---- xml2dict: the value of an element   M4 ----------------------------------------------------
RECURSIVE XDict(_), XDictSeq(_), TUnc(_), TUncSeq(_)
XDictSeq(ks) == IF ks = <<>> THEN <<>> ELSE <<XDict(Head(ks))>> \o XDictSeq(Tail(ks))
XDict(e) ==
    IF e.attrs = <<>> /\ e.k = <<>> THEN DStr(e.text)                                           \* "just set the text"
    ELSE LET anames == {e.attrs[i].n : i \in DOMAIN e.attrs}
             tags   == {e.k[i].tag : i \in DOMAIN e.k}
             keys   == SortKeys(anames \cup tags \cup (IF e.text # "" THEN {"_text"} ELSE {}))
             val(key) == IF key = "_text" /\ key \notin tags \cup anames THEN DStr(e.text)
                         ELSE IF key \in anames THEN DStr(e.attrs[CHOOSE j \in DOMAIN e.attrs : e.attrs[j].n = key].v)
                         ELSE LET ks == SelTag(e.k, key)
                              IN IF Len(ks) = 1 THEN XDict(ks[1]) ELSE DN("l", "", <<>>, XDictSeq(ks))   \* "force a list"
         IN DN("d", "", keys, [i \in DOMAIN keys |-> val(keys[i])])
\* silent: an attribute named like a child tag, a tag or attribute named '_text', duplicate attributes
TUnc(e) == LET anames == {e.attrs[i].n : i \in DOMAIN e.attrs}
               tags   == {e.k[i].tag : i \in DOMAIN e.k}
           IN \/ anames \cap tags # {} \/ "_text" \in anames \cup tags
              \/ \E i, j \in DOMAIN e.attrs : i # j /\ e.attrs[i].n = e.attrs[j].n
              \/ TUncSeq(e.k)
TUncSeq(ks) == ks # <<>> /\ (TUnc(Head(ks)) \/ TUncSeq(Tail(ks)))

\* ---- what a dict value comes back as after dict2xml -> xml2dict, defined on the value alone -------
RECURSIVE XNorm(_), XNormSeq(_), XNormEntries(_, _, _)
XNormSeq(ks) == IF ks = <<>> THEN <<>> ELSE <<XNorm(Head(ks))>> \o XNormSeq(Tail(ks))
\* the (key, value) pairs that survive, in the order of the dict
XNormEntries(keys, vals, i) ==
    IF i > Len(keys) THEN <<>>
    ELSE (IF keys[i] = "_text" THEN <<>>
          ELSE IF vals[i].t = "l" THEN (IF Len(vals[i].k) = 0 THEN <<>>                          \* an empty list leaves no element
                                        ELSE IF Len(vals[i].k) = 1 THEN <<<<keys[i], XNorm(vals[i].k[1])>>>>   \* a single tag is no list
                                        ELSE <<<<keys[i], DN("l", "", <<>>, XNormSeq(vals[i].k))>>>>)
          ELSE <<<<keys[i], XNorm(vals[i])>>>>) \o XNormEntries(keys, vals, i + 1)
XNorm(v) ==
    IF v.t # "d" THEN DStr(TStrip(ScalText(v)))                                                 \* values come back as (stripped) strings
    ELSE LET ents == XNormEntries(v.keys, v.k, 1)
             text == XText(v)
             all  == ents \o (IF text # "" THEN <<<<"_text", DStr(text)>>>> ELSE <<>>)
             keys == SortKeys({all[i][1] : i \in DOMAIN all})
         IN IF ents = <<>> THEN DStr(text)                                                       \* nothing but text (or nothing at all)
            ELSE DN("d", "", keys, [i \in DOMAIN keys |-> all[CHOOSE j \in DOMAIN all : all[j][1] = keys[i]][2]])

\* canonical (key-sorted) form of a dict value, for comparing with observations
RECURSIVE DCanon(_), DCanonSeq(_)
DCanonSeq(ks) == IF ks = <<>> THEN <<>> ELSE <<DCanon(Head(ks))>> \o DCanonSeq(Tail(ks))
DCanon(v) == IF v.t = "d" THEN LET keys == SortKeys({v.keys[i] : i \in DOMAIN v.keys})
                               IN DN("d", "", keys, [i \in DOMAIN keys |-> DCanon(v.k[KeyPos(v.keys, keys[i])])])
             ELSE IF v.t = "l" THEN DN("l", "", <<>>, DCanonSeq(v.k))
             ELSE v

\* ---- the calls --------------------------------------------------------------------------------------
\* dict2xml(v as {tag: v} | v with roottag=tag [, filename_or_obj]) -> the element
D2X(tag, v, useroot) ==
    LET unc == XUnc(v, TRUE) \/ (useroot /\ v.t # "d")           \* M3 "the input dictionary will be placed under that tag"
    IN Pure("d2x", IF unc THEN "any" ELSE "none", XCanon(XElem(tag, v)))

\* xml2dict(element | file, noroot=, seproot=) -> val = [form, root, body]
X2D(e, noroot, seproot) ==
    Pure("x2d", IF TUnc(e) THEN "any" ELSE "none",
         [forms |-> IF seproot /\ noroot THEN {"seproot", "noroot"} ELSE IF seproot THEN {"seproot"}
                    ELSE IF noroot THEN {"noroot"} ELSE {"dict"},                                \* M5
          root |-> e.tag, body |-> XDict(e)])

\* xml2dict(dict2xml({tag: v})) -> [root, body]
XRT(tag, v) ==
    Pure("xrt", IF XUnc(v, TRUE) THEN "any" ELSE "none", [forms |-> {"dict"}, root |-> tag, body |-> XNorm(v)])

\* XmlDictObject.Wrap(v) / .UnWrap()
XWrap(v) == Pure("xwrap", IF v.t = "d" THEN "none" ELSE "any", DCanon(v))

\* theorems of the algebra, evaluated by TLC on every enumerated value / tree
XNormal(v) == XNorm(v) = DCanon(v)
XValueLaws(tag, v) ==
    ~XUnc(v, TRUE) =>
       /\ XDict(XElem(tag, v)) = XNorm(v)                       \* the composition is the normal form ...
       /\ XNorm(XNorm(v)) = XNorm(v)                            \* ... which is a fixed point: a second round trip changes nothing
       /\ ~XUnc(XNorm(v), TRUE)
       /\ (XNormal(v) => XDict(XElem(tag, v)) = DCanon(v))      \* normal dicts round-trip exactly
       /\ ~TUnc(XElem(tag, v))
RECURSIVE TPlain(_), TPlainSeq(_)
\* trees dict2xml can produce: no attributes, text only on leaves or next to children (kept as '_text')
TPlain(e) == e.attrs = <<>> /\ TPlainSeq(e.k)
TPlainSeq(ks) == ks = <<>> \/ (TPlain(Head(ks)) /\ TPlainSeq(Tail(ks)))
XTreeLaws(e) ==
    (~TUnc(e) /\ TPlain(e)) => XCanon(XElem(e.tag, XDict(e))) = XCanon(e)      \* xml -> dict -> xml is the identity on plain trees
=============================================================================
