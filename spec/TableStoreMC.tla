------------------------------- MODULE TableStoreMC -------------------------------
(* Bounded model of TableStore.tla (extension X04).                                          *)
(*  - Next: every history of public calls up to MaxDepth on the tables MCTables with arrays  *)
(*    and dict lists from a small catalogue (Script = "free"), or the histories of a fixed   *)
(*    script (Script = "sweep" / "dsweep": write - read - describe - append - read - create - *)
(*    read - drop) for EVERY column-type sequence over SweepTypes with up to SweepMaxCols     *)
(*    columns and 0..SweepMaxRows rows.  StoreInv and StoreProps are checked on it.           *)
(*  - mech: an implementation-shaped model of three mechanisms of the code (the row factory  *)
(*    that execute(asarray=True) switches off and back on; the index name built from the      *)
(*    column names; the module-level add_index that forwards a keyword).  MechRefines says    *)
(*    the mechanism never fails where the contract requires success.  KnownDeviations names   *)
(*    the deviations of the code as found; with KnownDeviations = {} (the repaired mechanism)  *)
(*    MechRefines is a theorem, with each deviation it is violated (a lead: the verdict comes  *)
(*    from the real code judged by TableStoreTrace).                                           *)
(*  - with KeepHist every step appends its event to hist and Export prints it.                *)
(*  - PureNext: one step enumerating the cases of the pure helpers and of the xmltools        *)
(*    algebra (dict values / element trees); PureInv evaluates the theorems of the algebra.   *)
EXTENDS TableStore, Json

CONSTANTS MCTables,                 \* tables the histories touch (subset of Tables)
          ArrIds, DictIds,          \* catalogue ids used by array2table / dict2table in free histories
          Acts,                     \* enabled action kinds
          ReadModes, DescModes, InfoModes, IdxVias,
          MaxDepth, KeepHist, ExportAt,
          Script,                   \* "free" | "sweep" | "dsweep"
          SweepTypes, SweepMaxCols, SweepMaxRows, SweepPats,
          KnownDeviations,          \* subset of {"rowfactory", "indexname", "moduleindex"}
          N2STypes, N2SSpell, S2NDecls, S2NSizes, S2NSpell, TDTypes, TDMaxCols, PyKinds, EnsKinds,
          XScal, XScalIn, XKeyForms, XKeyFormsIn, XListMax, XListMaxIn, XDepth,
          XTTexts, XTAttrs, XTKidsMax, XTRootKidsMax

VARIABLES hist, mech
vars == <<db, idx, stray, res, hist, mech>>
View == <<db, idx, stray, mech>>

\* ---- catalogue ---------------------------------------------------------------------------------
Cell(s, c) == [s |-> s, c |-> c]
NumC(s) == Cell(s, <<>>)
StrC(c) == Cell("", c)
ColNameSeq == <<"a", "B", "c">>
Cols(tys) == [i \in DOMAIN tys |-> [name |-> ColNameSeq[i], ty |-> tys[i]]]
A(tys, rows) == [cols |-> Cols(tys), rows |-> rows]
\* character codes: 0 = blank / padding, 1 = 'a', 2 = 'b', 3 = '1'
Arr(id) ==
    CASE id = "A1" -> A(<<"i4", "S">>, << <<NumC("1"), StrC(<<1, 2>>)>> >>)
      [] id = "A2" -> A(<<"i8", "S">>, << <<NumC("-1"), StrC(<<2>>)>>, <<NumC("9223372036854775807"), StrC(<<3>>)>> >>)
      [] id = "A0" -> A(<<"i4", "S">>, <<>>)
      [] id = "B1" -> A(<<"f8">>, << <<NumC("0.5")>> >>)
      [] id = "F1" -> A(<<"f4", "f8", "i2">>, << <<NumC("0.1"), NumC("0.1"), NumC("-32768")>> >>)
      [] id = "E1" -> A(<<"S", "i2">>, << <<StrC(<<>>), NumC("1")>>, <<StrC(<<1>>), NumC("32767")>> >>)
      [] id = "U1" -> A(<<"i4", "U">>, << <<NumC("1"), StrC(<<1>>)>> >>)
      [] id = "D1" -> A(<<"pyint", "pystr">>, << <<NumC("1"), StrC(<<1, 2>>)>> >>)
      [] id = "D2" -> A(<<"pyint", "pystr">>, << <<NumC("-1"), StrC(<<2>>)>>, <<NumC("2147483648"), StrC(<<1, 2, 3>>)>> >>)
      [] id = "D3" -> A(<<"pyfloat">>, << <<NumC("0.1")>> >>)
      [] id = "D0" -> A(<<"pyint", "pystr">>, <<>>)

IVals(ty) == CASE ty = "i2" -> <<"1", "-32768", "32767">>
               [] ty = "i4" -> <<"-1", "2147483647", "-2147483648">>
               [] ty = "i8" -> <<"0", "9223372036854775807", "-9223372036854775808">>
               [] ty = "pyint" -> <<"1", "-1", "2147483648">>
FVals(ty) == CASE ty = "f4" -> <<"0.5", "0.1", "-1e+30">>
               [] ty = "f8" -> <<"-1.25", "0.1", "1e+300">>
               [] ty = "pyfloat" -> <<"0.5", "0.1", "-1e+30">>
SVals == << <<1, 2>>, <<3>>, <<0, 1, 2>> >>
GenCell(ty, j) == LET q == (j % 3) + 1
                  IN IF Kind(ty) = "int" THEN NumC(IVals(ty)[q]) ELSE IF Kind(ty) = "real" THEN NumC(FVals(ty)[q]) ELSE StrC(SVals[q])
Gen(tys, n, p) == A(tys, [r \in 1..n |-> [i \in DOMAIN tys |-> GenCell(tys[i], r + i + p)]])

SeqsUpTo(S, n) == UNION {[1..m -> S] : m \in 0..n}
SeqsFrom(S, lo, hi) == UNION {[1..m -> S] : m \in lo..hi}

\* ---- scripts -----------------------------------------------------------------------------------------
ScriptOps ==
    CASE Script = "sweep"  -> <<"a2t:new", "read:asarray", "describe:tinfo", "read:dtype", "a2t:append", "read:asarray",
                                "describe:describe", "a2t:create", "read:cursor", "describe:t2d", "drop:", "exists:">>
      [] Script = "dsweep" -> <<"d2t:new", "read:asarray", "describe:tinfo", "d2t:append", "read:dtype", "d2t:clobber",
                                "read:asarray", "info:tables">>
      [] OTHER -> <<>>
Scripted == Script # "free"
Step(tag) == ~Scripted \/ (Len(hist) < Len(ScriptOps) /\ ScriptOps[Len(hist) + 1] = tag)
SweepArrs == {Gen(tys, n, p) : tys \in SeqsFrom(SweepTypes, 1, SweepMaxCols), n \in 0..SweepMaxRows, p \in SweepPats}
\* the arrays a write may use now: the catalogue, or (scripted) any sweep array at the first step and the same one afterwards
ArrChoice(ids) == IF ~Scripted THEN {Arr(id) : id \in ids}
                  ELSE IF hist = <<>> THEN SweepArrs ELSE {[cols |-> hist[1].cols, rows |-> hist[1].rows]}
TabChoice == IF Scripted THEN {CHOOSE t \in MCTables : TRUE} ELSE MCTables

\* ---- events --------------------------------------------------------------------------------------------
Ev(op) == [op |-> op, t |-> "none", cols |-> <<>>, rows |-> <<>>, create |-> FALSE, clobber |-> FALSE, cleanup |-> TRUE,
           mode |-> "none", icols |-> <<>>, via |-> "none", err |-> "none"]
CanLog == Len(hist) < MaxDepth
Log(e) == hist' = IF KeepHist THEN Append(hist, [e EXCEPT !.err = res'.err]) ELSE Append(hist, 0)

\* ---- the mechanisms as coded ---------------------------------------------------------------------------
Mech0 == [rf |-> "Row", names |-> {}, midx |-> {}, err |-> "none", built |-> TRUE]
MKeep(e) == mech' = [mech EXCEPT !.err = e, !.built = TRUE]
\* index names are '_'.join(columns) + '_index' (as found), table-qualified once repaired
IName(t, icols) == IF "indexname" \in KnownDeviations THEN <<"-", icols>> ELSE <<t, icols>>
MDropTab(m, t) == [m EXCEPT !.names = {x \in @ : x[2] # t}, !.midx = {x \in @ : x[1] # t}]
MAddIndex(m, t, icols) ==          \* "create index if not exists <name> on t (cols)"
    IF \E x \in m.names : x[1] = IName(t, icols) THEN [m EXCEPT !.built = (<<t, icols>> \in m.midx)]
    ELSE [m EXCEPT !.names = @ \cup {<<IName(t, icols), t>>}, !.midx = @ \cup {<<t, icols>>}, !.built = TRUE]
\* execute(asarray=True): old = row_factory; row_factory = None; query; (no rows: return) ...; row_factory = old
MRead(t, mode) ==
    LET raises == ~db[t].ex
        early  == mode = "asarray" /\ db[t].ex /\ db[t].rows = <<>>
        leak   == "rowfactory" \in KnownDeviations /\ mode # "cursor" /\ (raises \/ early)
    IN mech' = [mech EXCEPT !.rf = IF leak THEN "None" ELSE @, !.err = IF raises THEN "rejected" ELSE "none", !.built = TRUE]
\* table_info / info rows are used by field name: a plain tuple has none
MFields == MKeep(IF mech.rf = "None" THEN "rejected" ELSE "none")

\* ---- the calls ---------------------------------------------------------------------------------------------
MA2T == "a2t" \in Acts /\ CanLog /\ \E t \in TabChoice, a \in ArrChoice(ArrIds), create \in BOOLEAN, cleanup \in BOOLEAN :
            /\ Step(IF create THEN "a2t:create" ELSE IF db[t].ex THEN "a2t:append" ELSE "a2t:new")
            /\ (cleanup \/ (~Scripted /\ "keepfile" \in Acts))
            /\ A2T(t, a.cols, a.rows, create, cleanup)
            /\ Log([Ev("a2t") EXCEPT !.t = t, !.cols = a.cols, !.rows = a.rows, !.create = create, !.cleanup = cleanup])
            /\ mech' = [(IF create THEN MDropTab(mech, t) ELSE mech) EXCEPT !.err = "none", !.built = TRUE]
MD2T == "d2t" \in Acts /\ CanLog /\ \E t \in TabChoice, a \in ArrChoice(DictIds), clobber \in BOOLEAN, ix \in BOOLEAN :
            /\ Step(IF clobber THEN "d2t:clobber" ELSE IF db[t].ex THEN "d2t:append" ELSE "d2t:new")
            /\ (ix => (~Scripted /\ "d2tindex" \in Acts))
            /\ LET icols == IF ix THEN <<a.cols[1].name>> ELSE <<>>
                   m0 == IF clobber THEN [mech EXCEPT !.names = {}, !.midx = {}] ELSE mech
               IN /\ D2T(t, a.cols, a.rows, clobber, icols, TRUE)
                  /\ Log([Ev("d2t") EXCEPT !.t = t, !.cols = a.cols, !.rows = a.rows, !.clobber = clobber, !.icols = icols])
                  /\ mech' = IF ~ix \/ a.rows = <<>> THEN [m0 EXCEPT !.err = "none", !.built = TRUE]
                             ELSE IF "moduleindex" \in KnownDeviations THEN [m0 EXCEPT !.err = "rejected", !.built = FALSE]
                             ELSE [MAddIndex(m0, t, icols) EXCEPT !.err = "none"]
MRd == "read" \in Acts /\ CanLog /\ \E t \in TabChoice, mode \in ReadModes :
            /\ Step("read:" \o mode) /\ Read(t, mode) /\ Log([Ev("read") EXCEPT !.t = t, !.mode = mode]) /\ MRead(t, mode)
MExists == "exists" \in Acts /\ CanLog /\ \E t \in TabChoice :
            /\ Step("exists:") /\ Exists(t) /\ Log([Ev("exists") EXCEPT !.t = t]) /\ MKeep("none")
MDescribe == "describe" \in Acts /\ CanLog /\ \E t \in TabChoice, mode \in DescModes :
            /\ Step("describe:" \o mode) /\ Describe(t, mode) /\ Log([Ev("describe") EXCEPT !.t = t, !.mode = mode]) /\ MFields
MInfo == "info" \in Acts /\ CanLog /\ \E mode \in InfoModes :
            /\ Step("info:" \o mode) /\ Info(mode) /\ Log([Ev("info") EXCEPT !.mode = mode]) /\ MFields
MDrop == "drop" \in Acts /\ CanLog /\ \E t \in TabChoice :
            /\ Step("drop:") /\ Drop(t) /\ Log([Ev("drop") EXCEPT !.t = t])
            /\ mech' = [MDropTab(mech, t) EXCEPT !.err = IF db[t].ex THEN "none" ELSE "rejected", !.built = TRUE]
MAddIdx == "add_index" \in Acts /\ CanLog /\ ~Scripted /\ \E t \in TabChoice, via \in IdxVias :
            /\ db[t].ex /\ ~db[t].hazy
            /\ \E icols \in {<<db[t].cols[1].name>>} \cup (IF Len(db[t].cols) > 1 THEN {<<db[t].cols[2].name, db[t].cols[1].name>>} ELSE {}) :
                  /\ AddIndex(t, icols, via)
                  /\ Log([Ev("add_index") EXCEPT !.t = t, !.icols = icols, !.via = via])
                  /\ mech' = IF via = "module" /\ "moduleindex" \in KnownDeviations THEN [mech EXCEPT !.err = "rejected", !.built = FALSE]
                             ELSE [MAddIndex(mech, t, icols) EXCEPT !.err = "none"]
MReopen == "reopen" \in Acts /\ CanLog /\ ~Scripted /\ Reopen /\ Log(Ev("reopen")) /\ mech' = [mech EXCEPT !.rf = "Row", !.err = "none", !.built = TRUE]

Init == SInit /\ hist = <<>> /\ mech = Mech0
Next == MA2T \/ MD2T \/ MRd \/ MExists \/ MDescribe \/ MInfo \/ MDrop \/ MAddIdx \/ MReopen
Spec == Init /\ [][Next]_vars

Bounded == Len(hist) <= MaxDepth
\* free histories only: keep the tables small
SmallRows == \A t \in Tables : Len(db[t].rows) <= 4

\* the mechanism never refuses a call the contract requires to succeed, and an index that was asked for is there
MechRefines == /\ (mech.err = "rejected" => res.err \in {"rejected", "any"})
               /\ ((res.op \in {"add_index", "d2t"} /\ res.err = "none") => mech.built)

\* ---- pure helpers and the xmltools algebra: case enumeration ------------------------------------------------
PLog(e) == hist' = Append(hist, e) /\ UNCHANGED mech
MN2S == "n2s" \in Acts /\ CanLog /\ \E ty \in N2STypes, sp \in N2SSpell : N2S(ty) /\ PLog([op |-> "n2s", ty |-> ty, sp |-> sp])
MS2N == "s2n" \in Acts /\ CanLog /\ \E d \in S2NDecls, size \in S2NSizes, sp \in S2NSpell :
            S2N(d, size) /\ PLog([op |-> "s2n", decl |-> d, size |-> size, sp |-> sp])
MTDef == "tdef" \in Acts /\ CanLog /\ \E tys \in SeqsFrom(TDTypes, 1, TDMaxCols), arrcol \in BOOLEAN :
            TDef(Cols(tys), arrcol) /\ PLog([op |-> "tdef", cols |-> Cols(tys), arrcol |-> arrcol])
MPy2S == "py2s" \in Acts /\ CanLog /\ \E p \in PyKinds : Py2S(p) /\ PLog([op |-> "py2s", p |-> p])
MDDef == "ddef" \in Acts /\ CanLog /\ \E tys \in SeqsFrom(PyTypes, 1, 3), rev \in BOOLEAN, astext \in BOOLEAN :
            DDef(Cols(tys), rev, astext) /\ PLog([op |-> "ddef", cols |-> Cols(tys), rev |-> rev, astext |-> astext])
MEnsure == "ensure" \in Acts /\ CanLog /\ \E x \in EnsKinds : Ensure(x) /\ PLog([op |-> "ensure", x |-> x])

\* dict values
XS(id) == CASE id = "x" -> DStr("x") [] id = "y" -> DStr("y") [] id = "e" -> DStr("") [] id = "sp" -> DStr("sp")
            [] id = "ws" -> DStr("ws") [] id = "i7" -> DN("i", "7", <<>>, <<>>) [] id = "none" -> DN("none", "", <<>>, <<>>)
XKeys(f) == CASE f = "0" -> <<>> [] f = "a" -> <<"a">> [] f = "ab" -> <<"a", "b">> [] f = "ba" -> <<"b", "a">>
              [] f = "t" -> <<"_text">> [] f = "ta" -> <<"_text", "a">> [] f = "at" -> <<"a", "_text">>
              [] f = "atb" -> <<"a", "_text", "b">>
XLists(S, n) == {DN("l", "", <<>>, ks) : ks \in SeqsUpTo(S, n)}
XDicts(forms, S, T) == UNION {{DN("d", "", XKeys(f), vals) :
                                  vals \in {g \in [1..Len(XKeys(f)) -> S \cup T] : \A i \in 1..Len(XKeys(f)) : XKeys(f)[i] = "_text" => g[i] \in T}}
                              : f \in forms}
XV0  == {XS(id) : id \in XScal}
XVin == {XS(id) : id \in XScalIn}
XInner == XDicts(XKeyFormsIn, XVin \cup XLists(XVin, XListMaxIn), XVin)
XCases == IF XDepth = 0 THEN XV0
          ELSE IF XDepth = 1 THEN XV0 \cup XLists(XV0, XListMax) \cup XDicts(XKeyForms, XV0 \cup XLists(XV0, XListMax), XV0)
          ELSE XDicts(XKeyForms, XVin \cup XInner \cup XLists(XVin \cup XInner, XListMax), XVin)
\* (with roottag= the root may carry the name of one of the dict's own keys)
MD2X == "d2x" \in Acts /\ CanLog /\ \E v \in XCases, useroot \in BOOLEAN, tag \in {"r", "a"} :
            /\ (tag = "a" => useroot)
            /\ D2X(tag, v, useroot) /\ PLog([op |-> "d2x", tag |-> tag, v |-> v, useroot |-> useroot])
MXRT == "xrt" \in Acts /\ CanLog /\ \E v \in XCases : XRT("r", v) /\ PLog([op |-> "xrt", tag |-> "r", v |-> v])
MXWrap == "xwrap" \in Acts /\ CanLog /\ \E v \in XCases : XWrap(v) /\ PLog([op |-> "xwrap", v |-> v])

\* element trees (text tokens raw: "sp" is stripped by the reader)
TAttr(id) == CASE id = "0" -> <<>> [] id = "k" -> <<[n |-> "k", v |-> "v"]>> [] id = "a" -> <<[n |-> "a", v |-> "v"]>>
               [] id = "kb" -> <<[n |-> "k", v |-> "v"], [n |-> "b", v |-> "x"]>>
TLeaves == {EN(tag, tx, TAttr(at), <<>>) : tag \in {"a", "b"}, tx \in XTTexts, at \in XTAttrs}
TMid == {EN(tag, tx, TAttr(at), ks) : tag \in {"a", "b"}, tx \in XTTexts \cap {"", "x"}, at \in XTAttrs \cap {"0", "k"},
                                      ks \in SeqsFrom(TLeaves, 1, XTKidsMax)}
TRoots == {EN("r", tx, TAttr(at), ks) : tx \in XTTexts \cap {"", "x"}, at \in XTAttrs, ks \in SeqsUpTo(TLeaves, XTRootKidsMax)}
          \cup {EN("r", "", <<>>, ks) : ks \in SeqsFrom(TMid, 1, 1)}
          \cup {EN("r", "", <<>>, <<m, l>>) : m \in TMid, l \in {x \in TLeaves : x.attrs = <<>> /\ x.text = "x"}}
MX2D == "x2d" \in Acts /\ CanLog /\ \E e \in TRoots, noroot \in BOOLEAN, seproot \in BOOLEAN :
            X2D(TStripTree(e), noroot, seproot) /\ PLog([op |-> "x2d", e |-> e, noroot |-> noroot, seproot |-> seproot])

PureNext == MN2S \/ MS2N \/ MTDef \/ MPy2S \/ MDDef \/ MEnsure \/ MD2X \/ MXRT \/ MXWrap \/ MX2D

\* theorems of the pure specifications, evaluated on every enumerated case
PureInv ==
    hist # <<>> =>
       LET e == hist[1]
       IN /\ e.op \in {"d2x", "xrt", "xwrap"} => XValueLaws("r", e.v)
          /\ e.op = "x2d" => XTreeLaws(TStripTree(e.e))
          /\ e.op = "n2s" => (res.err = "none" => Cardinality(res.val) = 1)
          /\ e.op = "s2n" => (res.err = "none" => Cardinality(res.val) = 1)

\* ---- export ---------------------------------------------------------------------------------------------------
Export == (KeepHist /\ hist # <<>> /\ (ExportAt = 0 \/ Len(hist) = ExportAt)) => PrintT(<<"BEH", ToJson(hist)>>)
=============================================================================
