------------------------------- MODULE TableStoreTrace -------------------------------
(* Trace validation for extension X04: every recorded history of calls on the real          *)
(* esutil.sqlite_util (on a scratch database file) and every executed case of the pure      *)
(* helpers / of esutil.xmltools is stepped through the actions of TableStore.tla.            *)
(* One ndjson line per trace: {"id": k, "ev": [event, ...]}.  An event of the store is the   *)
(* call  [op, t, cols, rows, create, clobber, cleanup, mode, icols, via]  plus               *)
(*   res |-> [err ("none" | "rejected"), val (what the call returned, projected)]            *)
(*   obs |-> [tabs |-> [t |-> [ex, cols, rows]], other, idx, stray]                          *)
(* the database as an independent plain sqlite3 connection sees it after the call, the       *)
(* number of tables outside the model's name space, the indexes <<table, columns>> and the   *)
(* number of files in the scratch directory besides the database.  A pure event is           *)
(* [op, parameters..., res].  Event l must be a step of the named action whose primed        *)
(* variables agree with the observation clause by clause; a rejected step names the clauses  *)
(* no allowed outcome satisfies.                                                             *)
EXTENDS TableStore, Json, IOUtils

VARIABLES blk, tid, l, bad
tvars == <<blk, tid, l, bad>>

Traces == ndJsonDeserialize(IOEnv.TRACE_FILE)
NT == Len(Traces)
BlockSize == 128
NBlocks == (NT + BlockSize - 1) \div BlockSize

Init == blk = 0 /\ tid = 0 /\ l = 0 /\ bad = {} /\ SInit
PickBlock == blk = 0 /\ tid = 0 /\ \E b \in 1..NBlocks : blk' = b /\ tid' = 0 /\ UNCHANGED <<l, bad, svars>>
PickTrace == blk > 0 /\ tid = 0
             /\ \E t \in ((blk - 1) * BlockSize + 1)..VMin2(blk * BlockSize, NT) : tid' = t /\ blk' = blk
             /\ l' = 1 /\ UNCHANGED <<bad, svars>>

StoreOps == {"a2t", "d2t", "read", "exists", "describe", "info", "drop", "add_index", "reopen"}
TabOps   == {"a2t", "d2t", "read", "exists", "describe", "drop", "add_index"}
PureOps  == {"n2s", "s2n", "tdef", "py2s", "ddef", "ensure", "d2x", "x2d", "xrt", "xwrap"}

InScope(e) ==
    CASE e.op \in TabOps -> e.t \in Tables /\ (e.op = "add_index" => e.icols # <<>>)
      [] e.op \in {"info", "reopen"} \cup PureOps -> TRUE
      [] OTHER -> FALSE

Act(e) ==
    \/ e.op = "a2t"       /\ A2T(e.t, e.cols, e.rows, e.create, e.cleanup)
    \/ e.op = "d2t"       /\ D2T(e.t, e.cols, e.rows, e.clobber, e.icols, e.cleanup)
    \/ e.op = "read"      /\ Read(e.t, e.mode)
    \/ e.op = "exists"    /\ Exists(e.t)
    \/ e.op = "describe"  /\ Describe(e.t, e.mode)
    \/ e.op = "info"      /\ Info(e.mode)
    \/ e.op = "drop"      /\ Drop(e.t)
    \/ e.op = "add_index" /\ AddIndex(e.t, e.icols, e.via)
    \/ e.op = "reopen"    /\ Reopen
    \/ e.op = "n2s"       /\ N2S(e.ty)
    \/ e.op = "s2n"       /\ S2N(e.decl, e.size)
    \/ e.op = "tdef"      /\ TDef(e.cols, e.arrcol)
    \/ e.op = "py2s"      /\ Py2S(e.p)
    \/ e.op = "ddef"      /\ DDef(e.cols, e.rev, e.astext)
    \/ e.op = "ensure"    /\ Ensure(e.x)
    \/ e.op = "d2x"       /\ D2X(e.tag, e.v, e.useroot)
    \/ e.op = "x2d"       /\ X2D(TStripTree(e.e), e.noroot, e.seproot)
    \/ e.op = "xrt"       /\ XRT(e.tag, e.v)
    \/ e.op = "xwrap"     /\ XWrap(e.v)

\* ---- observed = primed variables, clause by clause ----------------------------------------------
Clauses == {"unexpected_error", "not_rejected", "table_exists", "table_columns", "table_rows", "other_tables", "index",
            "stray_files", "value", "file_written", "classes"}

Both(e) == e.res.err = "none" /\ res'.err = "none"
SeqSet(s) == {s[i] : i \in DOMAIN s}
FormOk(f, w, o) == CASE f = "dict"    -> ~o.tuple /\ o.ret = DN("d", "", <<w.root>>, <<w.body>>)
                     [] f = "noroot"  -> ~o.tuple /\ o.ret = w.body
                     [] f = "seproot" -> o.tuple /\ o.ret = w.body /\ o.rtag = w.root
                     [] OTHER -> FALSE

Value(e) ==
    CASE e.op = "read"     -> Both(e) => ReadOk(res'.val, e.res.val, e.mode)                           \* E2 E3 E4 E1
      [] e.op = "exists"   -> Both(e) => e.res.val = res'.val                                         \* X1
      [] e.op = "describe" -> Both(e) => DescribeOk(res'.val, e.res.val, e.mode)                      \* T1 T2 T4
      [] e.op = "info"     -> Both(e) =>                                                              \* T3
             IF e.mode \in {"tables", "tables2"} THEN SeqSet(e.res.val.tabs) = res'.val.tabs
             ELSE IF e.mode = "indexes" THEN {x \in SeqSet(e.res.val.idx) : x[1] \notin res'.val.hazy} = {x \in res'.val.idx : x[1] \notin res'.val.hazy}
             ELSE /\ SeqSet(e.res.val.tabs) = res'.val.tabs
                  /\ {x \in SeqSet(e.res.val.idx) : x[1] \notin res'.val.hazy} = {x \in res'.val.idx : x[1] \notin res'.val.hazy}
      [] e.op \in {"n2s", "py2s", "ensure"} -> e.res.err = "none" => e.res.val \in res'.val           \* A3 C1
      [] e.op = "s2n"      -> e.res.err = "none" =>
             (IF res'.val = {"*"} THEN TRUE ELSE IF res'.val = {"size"} THEN e.res.sized
              ELSE IF res'.val = {"S*"} THEN e.res.sclass = "S*" ELSE e.res.val \in res'.val)
      [] e.op \in {"tdef", "ddef"} -> Both(e) =>
             /\ Len(e.res.val.names) = Len(res'.val)
             /\ \A i \in DOMAIN res'.val : i \in DOMAIN e.res.val.names =>
                   /\ e.res.val.names[i] = res'.val[i].name /\ e.res.val.tkinds[i] = KindWord(res'.val[i].k)
             /\ (e.op = "tdef" /\ \A i \in DOMAIN res'.val : res'.val[i].k # "text") =>               \* T4: maps are consistent
                   /\ e.res.val.t2d.err = "none"
                   /\ Len(e.res.val.t2d.names) = Len(res'.val)
                   /\ \A i \in DOMAIN res'.val : i \in DOMAIN e.res.val.t2d.names =>
                         /\ e.res.val.t2d.names[i] = LName(res'.val[i].name)
                         /\ e.res.val.t2d.codes[i] = (IF res'.val[i].k = "int" THEN "i8" ELSE "f8")
      [] e.op = "d2x"      -> Both(e) => e.res.val.tree = res'.val                                    \* M1 M2 M3
      [] e.op \in {"x2d", "xrt"} -> Both(e) => \E f \in res'.val.forms : FormOk(f, res'.val, e.res.val)   \* M4 M5
      [] e.op = "xwrap"    -> Both(e) => (e.res.val.wrapped = res'.val /\ e.res.val.unwrapped = res'.val)  \* M6
      [] OTHER             -> TRUE

Clause(c, e) ==
    CASE c = "unexpected_error" -> e.res.err = "rejected" => res'.err \in {"rejected", "any"}
      [] c = "not_rejected"     -> e.res.err = "none" => res'.err \in {"none", "any"}
      [] c = "table_exists"     -> e.op \in StoreOps => \A t \in Tables : e.obs.tabs[t].ex = db'[t].ex            \* A1 D1
      [] c = "table_columns"    -> e.op \in StoreOps => \A t \in Tables : StoredCols(db'[t], e.obs.tabs[t])      \* A1 A3
      [] c = "table_rows"       -> e.op \in StoreOps => \A t \in Tables : StoredOk(db'[t], e.obs.tabs[t])        \* A2 C1
      [] c = "other_tables"     -> e.op \in StoreOps => e.obs.other = 0
      [] c = "index"            -> e.op \in StoreOps =>                                                          \* I1
                                      {x \in SeqSet(e.obs.idx) : x[1] \in Tables /\ ~db'[x[1]].hazy} = {x \in idx' : ~db'[x[1]].hazy}
      [] c = "stray_files"      -> e.op \in StoreOps => e.obs.stray = stray'                                     \* A4
      [] c = "value"            -> Value(e)
      \* M1 "Optionally prints to file if input": the file holds the returned tree
      [] c = "file_written"     -> (e.op = "d2x" /\ Both(e)) => e.res.val.file = res'.val
      \* M4 dictclass / M6: every dict node has the class asked for, attribute access = item access
      [] c = "classes"          -> (e.op \in {"x2d", "xrt", "xwrap"} /\ Both(e)) => e.res.val.classes_ok

Matched(e) == Act(e) /\ \A c \in Clauses : Clause(c, e)

Diagnose(e) ==
    LET f == {c \in Clauses : ~ENABLED (Act(e) /\ Clause(c, e))}
    IN {<<"clause", c>> : c \in (IF f = {} THEN {"combination"} ELSE f)}

\* structural class of the failing step (for the signature): the table the call is about, before the call
Class(e) ==
    IF e.op \in TabOps
    THEN LET tab == db[e.t]
         IN {<<"table", IF ~tab.ex THEN "missing" ELSE IF tab.hazy THEN "hazy" ELSE IF tab.rows = <<>> THEN "empty" ELSE "rows">>}
    ELSE {}

Step ==
    /\ tid > 0 /\ bad = {} /\ l <= Len(Traces[tid].ev)
    /\ UNCHANGED <<blk, tid>>
    /\ LET e == Traces[tid].ev[l] IN
       IF ~InScope(e)
       THEN /\ bad' = {<<"clause", "out_of_scope">>, <<"step", ToString(l)>>}
            /\ UNCHANGED <<l, svars>>
       ELSE \/ /\ Matched(e)
               /\ l' = l + 1 /\ UNCHANGED bad
            \/ /\ ~ENABLED Matched(e)
               /\ bad' = Diagnose(e) \cup Class(e) \cup {<<"step", ToString(l)>>}
               /\ UNCHANGED <<l, svars>>

Next == PickBlock \/ PickTrace \/ Step

Check == /\ StoreInv \/ PrintT(<<"REJECT", ToJson([id |-> Traces[tid].id, failing |-> {<<"clause", "spec_invariant">>}])>>)
         /\ bad # {} => PrintT(<<"REJECT", ToJson([id |-> Traces[tid].id, failing |-> bad])>>)
         \* the specification is nondeterministic where the documentation is silent: a trace is accepted when SOME
         \* resolution reaches its end - the harness discards the REJECT lines of traces that also have an ACCEPT line
         /\ (tid > 0 /\ bad = {} /\ l > Len(Traces[tid].ev)) => PrintT(<<"ACCEPT", ToJson([id |-> Traces[tid].id])>>)
=============================================================================
